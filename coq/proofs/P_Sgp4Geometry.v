(* Geometry of the report's short-period finishing map (Spec_SGP4, any elements / time / Ew):
   (cos u, sin u) is a unit vector whenever eL^2 < 1, hence |cos 2u|, |sin 2u| <= 1, and the
   short-period corrections of inclination, node and argument of latitude are bounded by
   k2-multiples of 1 / pL^2.  Used by C20: the orbital plane of the returned state is within 0.05 deg
   of the element set's inclination. *)
From Coq Require Import Reals Lra.
From Coquelicot Require Import Rcomplements.
From PyOrb.lib Require Import PyReal.
From PyOrb.spec Require Import Spec_SGP4.
From PyOrb.proofs Require Import P_Kepler.
Open Scope R_scope.

Lemma unit_poly (c s X Y b : R) : c * c + s * s = 1 -> b * b = 1 - (X * X + Y * Y) ->
  ((c - X) * (1 + b) + Y * (X * s - Y * c)) ^ 2 + ((s - Y) * (1 + b) - X * (X * s - Y * c)) ^ 2
  = ((1 + b) * (1 - (X * c + Y * s))) ^ 2.
Proof.
  intros Hcs Hb.
  assert (G1 : c * c + s * s - 1 = 0) by lra.
  assert (G2 : b * b - 1 + X * X + Y * Y = 0) by lra.
  apply Rminus_diag_uniq.
  replace (((c - X) * (1 + b) + Y * (X * s - Y * c)) ^ 2 + ((s - Y) * (1 + b) - X * (X * s - Y * c)) ^ 2
           - ((1 + b) * (1 - (X * c + Y * s))) ^ 2)
    with ((X ^ 2 * Y ^ 2 - X ^ 2 * b ^ 2 - 2 * X ^ 2 * b - X ^ 2 + Y ^ 4 - 2 * Y ^ 2 * b - 2 * Y ^ 2 + b ^ 2 + 2 * b + 1)
            * (c * c + s * s - 1)
          + (X ^ 2 * s ^ 2 - 2 * X * Y * c * s - Y ^ 2 * s ^ 2 + Y ^ 2) * (b * b - 1 + X * X + Y * Y)) by ring.
  rewrite G1, G2. ring.
Qed.

Lemma unit_id (c s X Y b : R) : c * c + s * s = 1 -> b * b = 1 - (X * X + Y * Y) -> 0 < 1 + b ->
  1 - (X * c + Y * s) <> 0 ->
  ((c - X + Y * (X * s - Y * c) / (1 + b)) / (1 - (X * c + Y * s))) ^ 2
  + ((s - Y - X * (X * s - Y * c) / (1 + b)) / (1 - (X * c + Y * s))) ^ 2 = 1.
Proof.
  intros Hcs Hb Hd Hr. pose proof (unit_poly c s X Y b Hcs Hb) as P.
  assert (Hd' : 1 + b <> 0) by lra.
  replace ((c - X + Y * (X * s - Y * c) / (1 + b)) / (1 - (X * c + Y * s)))
    with (((c - X) * (1 + b) + Y * (X * s - Y * c)) / ((1 + b) * (1 - (X * c + Y * s)))) by (field; split; assumption).
  replace ((s - Y - X * (X * s - Y * c) / (1 + b)) / (1 - (X * c + Y * s)))
    with (((s - Y) * (1 + b) - X * (X * s - Y * c)) / ((1 + b) * (1 - (X * c + Y * s)))) by (field; split; assumption).
  set (D := (1 + b) * (1 - (X * c + Y * s))) in *.
  assert (HD : D <> 0) by (unfold D; apply Rmult_integral_contrapositive_currified; assumption).
  set (N1 := (c - X) * (1 + b) + Y * (X * s - Y * c)) in *.
  set (N2 := (s - Y) * (1 + b) - X * (X * s - Y * c)) in *.
  replace ((N1 / D) ^ 2 + (N2 / D) ^ 2) with ((N1 ^ 2 + N2 ^ 2) / (D ^ 2)) by (field; exact HD).
  rewrite P. field. exact HD.
Qed.

Section Geometry.
  Variable el : elements.
  Variable t : tstate.
  Variables e Ew : R.
  Hypothesis Ha : a el t <> 0.
  Hypothesis HeL : eL2 el t e < 1.

  Let X := axN el t e.
  Let Y := ayN el t e.

  Lemma eL2_nonneg : 0 <= eL2 el t e.
  Proof. unfold eL2. pose proof (pow2_ge_0 (axN el t e)). pose proof (pow2_ge_0 (ayN el t e)). lra. Qed.

  Lemma ecosE_lt1 : ecosE el t e Ew < 1.
  Proof.
    unfold ecosE. assert (H : X ^ 2 + Y ^ 2 < 1) by exact HeL.
    pose proof (lin_bound X Y (cos Ew) (sin Ew) (sincos1 Ew)) as B. apply Rabs_le_between in B.
    pose proof (q_lt1 X Y H). fold X Y. lra.
  Qed.

  Lemma r_nonzero : r el t e Ew <> 0.
  Proof. unfold r. pose proof ecosE_lt1. apply Rmult_integral_contrapositive_currified; lra. Qed.

  Theorem cosu_sinu_unit : cosu el t e Ew ^ 2 + sinu el t e Ew ^ 2 = 1.
  Proof.
    pose proof ecosE_lt1 as Hec. pose proof eL2_nonneg as Hnn.
    set (b := sqrt (1 - eL2 el t e)).
    assert (Hb0 : 0 <= b) by (apply sqrt_pos).
    assert (Hbb : b * b = 1 - (X * X + Y * Y)).
    { unfold b. rewrite sqrt_sqrt by lra. unfold eL2. fold X Y. ring. }
    assert (Hcs : cos Ew * cos Ew + sin Ew * sin Ew = 1) by (pose proof (sincos1 Ew); lra).
    assert (Hr : 1 - (X * cos Ew + Y * sin Ew) <> 0) by (unfold ecosE in Hec; fold X Y in Hec; lra).
    pose proof (unit_id (cos Ew) (sin Ew) X Y b Hcs Hbb ltac:(lra) Hr) as U.
    unfold cosu, sinu, r, esinE, ecosE. fold X Y b.
    replace (a el t / (a el t * (1 - (X * cos Ew + Y * sin Ew))) * (cos Ew - X + Y * (X * sin Ew - Y * cos Ew) / (1 + b)))
      with ((cos Ew - X + Y * (X * sin Ew - Y * cos Ew) / (1 + b)) / (1 - (X * cos Ew + Y * sin Ew)))
      by (field; repeat split; [lra|exact Hr|exact Ha]).
    replace (a el t / (a el t * (1 - (X * cos Ew + Y * sin Ew))) * (sin Ew - Y - X * (X * sin Ew - Y * cos Ew) / (1 + b)))
      with ((sin Ew - Y - X * (X * sin Ew - Y * cos Ew) / (1 + b)) / (1 - (X * cos Ew + Y * sin Ew)))
      by (field; repeat split; [lra|exact Hr|exact Ha]).
    exact U.
  Qed.

  Lemma cos2u_bound : Rabs (cos2u el t e Ew) <= 1.
  Proof.
    pose proof cosu_sinu_unit as U. unfold cos2u.
    pose proof (pow2_ge_0 (cosu el t e Ew)). pose proof (pow2_ge_0 (sinu el t e Ew)).
    apply Rabs_le. lra.
  Qed.

  Lemma sin2u_bound : Rabs (sin2u el t e Ew) <= 1.
  Proof.
    pose proof cosu_sinu_unit as U. unfold sin2u.
    set (c := cosu el t e Ew) in *. set (s := sinu el t e Ew) in *.
    pose proof (pow2_ge_0 (c - s)). pose proof (pow2_ge_0 (c + s)).
    apply Rabs_le. nra.
  Qed.

  (* |cos i sin i| <= 1/2 *)
  Lemma sincos_half x : Rabs (cos x * sin x) <= 1 / 2.
  Proof.
    pose proof (sincos1 x). pose proof (pow2_ge_0 (cos x - sin x)). pose proof (pow2_ge_0 (cos x + sin x)).
    apply Rabs_le. nra.
  Qed.

  Hypothesis HpL : 0 < pL el t e.

  (* inclination: |ik - i0| <= (3/4) k2 / pL^2 *)
  Theorem ik_band : Rabs (ik el t e Ew - el_i0 el) <= 3 / 4 * k2 / (pL el t e) ^ 2.
  Proof.
    unfold ik, theta.
    replace (el_i0 el + 3 * k2 * cos (el_i0 el) / (2 * pL el t e ^ 2) * sin (el_i0 el) * cos2u el t e Ew - el_i0 el)
      with (3 / 2 * k2 / (pL el t e) ^ 2 * ((cos (el_i0 el) * sin (el_i0 el)) * cos2u el t e Ew)) by (field; lra).
    assert (Hk : 0 < 3 / 2 * k2 / pL el t e ^ 2).
    { apply Rdiv_lt_0_compat; [unfold k2; lra|]. apply pow_lt. exact HpL. }
    rewrite Rabs_mult, (Rabs_pos_eq _ (Rlt_le _ _ Hk)), Rabs_mult.
    pose proof (sincos_half (el_i0 el)) as H1. pose proof cos2u_bound as H2.
    pose proof (Rabs_pos (cos (el_i0 el) * sin (el_i0 el))). pose proof (Rabs_pos (cos2u el t e Ew)).
    replace (3 / 4 * k2 / pL el t e ^ 2) with (3 / 2 * k2 / pL el t e ^ 2 * (1 / 2 * 1)) by (field; lra).
    apply Rmult_le_compat_l; [lra|]. apply Rmult_le_compat; lra.
  Qed.

  (* node: |Ok - Om| <= (3/2) k2 / pL^2 *)
  Theorem Ok_band : Rabs (Ok el t e Ew - Om el t) <= 3 / 2 * k2 / (pL el t e) ^ 2.
  Proof.
    unfold Ok, theta.
    replace (Om el t + 3 * k2 * cos (el_i0 el) / (2 * pL el t e ^ 2) * sin2u el t e Ew - Om el t)
      with (3 / 2 * k2 / (pL el t e) ^ 2 * (cos (el_i0 el) * sin2u el t e Ew)) by (field; lra).
    assert (Hk : 0 < 3 / 2 * k2 / pL el t e ^ 2).
    { apply Rdiv_lt_0_compat; [unfold k2; lra|]. apply pow_lt. exact HpL. }
    rewrite Rabs_mult, (Rabs_pos_eq _ (Rlt_le _ _ Hk)), Rabs_mult.
    pose proof (COS_bound (el_i0 el)) as [C1 C2]. assert (H1 : Rabs (cos (el_i0 el)) <= 1) by (apply Rabs_le; lra).
    pose proof sin2u_bound as H2.
    pose proof (Rabs_pos (cos (el_i0 el))). pose proof (Rabs_pos (sin2u el t e Ew)).
    replace (3 / 2 * k2 / pL el t e ^ 2) with (3 / 2 * k2 / pL el t e ^ 2 * (1 * 1)) at 2 by (field; lra).
    apply Rmult_le_compat_l; [lra|]. apply Rmult_le_compat; lra.
  Qed.
End Geometry.

(* ---- vis-viva: before the short-period corrections the report's radial and transverse rates and radius satisfy
        v^2 / 2 - mu / r = - mu / (2 a)   with mu = ke^2, exactly, for every Ew ------------------------------------ *)
Section VisViva.
  Variable el : elements.
  Variable t : tstate.
  Variables e Ew : R.
  Hypothesis Ha : 0 < a el t.
  Hypothesis HeL : eL2 el t e < 1.

  Lemma pL_pos_g : 0 < pL el t e.
  Proof. unfold pL. pose proof (eL2_nonneg el t e). apply Rmult_lt_0_compat; lra. Qed.

  Theorem vis_viva :
    (rdot el t e Ew ^ 2 + rfdot el t e Ew ^ 2) / 2 - ke ^ 2 / r el t e Ew = - ke ^ 2 / (2 * a el t).
  Proof.
    assert (Ha' : a el t <> 0) by lra.
    pose proof (ecosE_lt1 el t e Ew HeL) as Hec. pose proof pL_pos_g as Hp.
    assert (Hr : r el t e Ew <> 0) by (apply r_nonzero; assumption).
    unfold rdot, rfdot.
    replace ((ke * sqrt (a el t) * esinE el t e Ew / r el t e Ew) ^ 2)
      with (ke ^ 2 * (sqrt (a el t) * sqrt (a el t)) * esinE el t e Ew ^ 2 / r el t e Ew ^ 2) by (field; exact Hr).
    replace ((ke * sqrt (pL el t e) / r el t e Ew) ^ 2)
      with (ke ^ 2 * (sqrt (pL el t e) * sqrt (pL el t e)) / r el t e Ew ^ 2) by (field; exact Hr).
    rewrite !sqrt_sqrt by lra.
    (* esinE^2 + ecosE^2 = eL2 *)
    assert (Hid : esinE el t e Ew ^ 2 + ecosE el t e Ew ^ 2 = eL2 el t e).
    { unfold esinE, ecosE, eL2. pose proof (sincos1 Ew) as SC.
      replace ((axN el t e * sin Ew - ayN el t e * cos Ew) ^ 2 + (axN el t e * cos Ew + ayN el t e * sin Ew) ^ 2)
        with ((axN el t e ^ 2 + ayN el t e ^ 2) * (cos Ew ^ 2 + sin Ew ^ 2)) by ring.
      rewrite SC. ring. }
    unfold pL. unfold r in *. set (A := a el t) in *. set (c := ecosE el t e Ew) in *.
    set (s2 := esinE el t e Ew ^ 2) in *. set (L := eL2 el t e) in *.
    assert (Hs : s2 = L - c ^ 2) by lra. rewrite Hs.
    assert (H1c : 1 - c <> 0) by lra.
    field. split; [exact Ha'|exact H1c].
  Qed.

  (* the short-period corrections of the two rates are at most k2 n / pL and 3 k2 n / pL in size *)
  Theorem rdotk_band : Rabs (rdotk el t e Ew - rdot el t e Ew) <= k2 * Rabs (n el t) / pL el t e.
  Proof.
    assert (Ha' : a el t <> 0) by lra. pose proof pL_pos_g as Hp.
    unfold rdotk.
    replace (rdot el t e Ew - k2 * n el t / pL el t e * (1 - theta el ^ 2) * sin2u el t e Ew - rdot el t e Ew)
      with (- (k2 / pL el t e) * (n el t * ((1 - theta el ^ 2) * sin2u el t e Ew))) by (field; lra).
    assert (Hk : 0 < k2 / pL el t e) by (apply Rdiv_lt_0_compat; [unfold k2; lra|exact Hp]).
    rewrite Rabs_mult, Rabs_Ropp, (Rabs_pos_eq _ (Rlt_le _ _ Hk)), Rabs_mult, Rabs_mult.
    pose proof (sin2u_bound el t e Ew Ha' HeL) as S.
    assert (T1 : Rabs (1 - theta el ^ 2) <= 1).
    { unfold theta. pose proof (COS_bound (el_i0 el)) as [C1 C2]. apply Rabs_le. nra. }
    pose proof (Rabs_pos (n el t)). pose proof (Rabs_pos (1 - theta el ^ 2)). pose proof (Rabs_pos (sin2u el t e Ew)).
    replace (k2 * Rabs (n el t) / pL el t e) with (k2 / pL el t e * (Rabs (n el t) * (1 * 1))) by (field; lra).
    apply Rmult_le_compat_l; [lra|]. apply Rmult_le_compat_l; [lra|]. apply Rmult_le_compat; lra.
  Qed.

  Theorem rfdotk_band : Rabs (rfdotk el t e Ew - rfdot el t e Ew) <= 3 * (k2 * Rabs (n el t) / pL el t e).
  Proof.
    assert (Ha' : a el t <> 0) by lra. pose proof pL_pos_g as Hp.
    unfold rfdotk.
    replace (rfdot el t e Ew + k2 * n el t / pL el t e * ((1 - theta el ^ 2) * cos2u el t e Ew - 3 / 2 * (1 - 3 * theta el ^ 2)) - rfdot el t e Ew)
      with ((k2 / pL el t e) * (n el t * ((1 - theta el ^ 2) * cos2u el t e Ew - 3 / 2 * (1 - 3 * theta el ^ 2)))) by (field; lra).
    assert (Hk : 0 < k2 / pL el t e) by (apply Rdiv_lt_0_compat; [unfold k2; lra|exact Hp]).
    rewrite Rabs_mult, (Rabs_pos_eq _ (Rlt_le _ _ Hk)), Rabs_mult.
    pose proof (cos2u_bound el t e Ew Ha' HeL) as C. apply Rabs_le_between in C.
    assert (B : Rabs ((1 - theta el ^ 2) * cos2u el t e Ew - 3 / 2 * (1 - 3 * theta el ^ 2)) <= 3).
    { unfold theta. pose proof (COS_bound (el_i0 el)) as [C1 C2].
      set (th := cos (el_i0 el)) in *. set (c2 := cos2u el t e Ew) in *.
      assert (0 <= th ^ 2 <= 1) by nra. apply Rabs_le. split; nra. }
    pose proof (Rabs_pos (n el t)).
    replace (3 * (k2 * Rabs (n el t) / pL el t e)) with (k2 / pL el t e * (Rabs (n el t) * 3)) by (field; lra).
    apply Rmult_le_compat_l; [lra|]. apply Rmult_le_compat_l; [lra|exact B].
  Qed.
End VisViva.
