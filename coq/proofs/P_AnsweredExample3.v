(* Non-vacuity on the small-eccentricity path: e0 = 5e-5, i = 98.7 deg, n = 14.2 rev/day (the set proved to be on leaf 3,
   C01_small_e_on_leaf3), at epoch, is healthy in the sense of P_Sgp4Answered.  Interval arithmetic on the report's formulas. *)
From Coq Require Import Reals Lra.
From Interval Require Import Tactic.
From Coquelicot Require Import Rcomplements.
From PyOrb.lib Require Import PyReal.
From PyOrb.spec Require Import Spec_SGP4.
Open Scope R_scope.

Definition SE : elements := mkEl ((142 / 10) * (twopi / min_per_day)) (1 / 20000) (deg2rad (987 / 10))
  (deg2rad (1305360 / 10000)) (deg2rad (3250288 / 10000)) (deg2rad (2474627 / 10000)) (1 / 100000).
Definition T3 := mkT true 0.
Ltac unf3 := unfold a0'', n0'', delta0, a0, delta1, a1, powr, theta, k2, ke, SE, twopi, min_per_day, deg2rad, Rpower;
  cbn [t_tau t_small_e el_n0 el_e0 el_i0 el_w0 el_M0 el_O0 el_bstar].
Lemma se_a0 : 112 / 100 <= a0'' SE <= 114 / 100. Proof. unf3. interval. Qed.
Lemma se_n0 : 61 / 1000 <= n0'' SE <= 63 / 1000. Proof. unf3. interval. Qed.
Lemma se_e : 4 / 100000 <= e_unclamped SE T3 <= 6 / 100000.
Proof.
  pose proof se_a0 as Ha. pose proof se_n0 as Hn.
  unfold e_unclamped, Mp, MDF, delta_w, delta_M, C4, C5, C3, C1, C2, Mdot, eta, xi, beta0, s_param, XKMPER, aE, q0ms4, A30, powr, theta, k2, k4, Rpower, T3.
  cbn [t_tau t_small_e]. set (A := a0'' SE) in *. set (N := n0'' SE) in *.
  unfold SE, deg2rad; cbn [el_n0 el_e0 el_i0 el_w0 el_M0 el_O0 el_bstar].
  interval.
Qed.
Lemma se_a : 112 / 100 <= a SE T3 <= 114 / 100.
Proof.
  pose proof se_a0 as Ha. unfold a, T3. cbn [t_tau].
  replace ((1 - C1 SE * 0 - D2 SE * 0 ^ 2 - D3 SE * 0 ^ 3 - D4 SE * 0 ^ 4) ^ 2) with 1 by ring. lra.
Qed.
Lemma se_eL2 : eL2 SE T3 (e_unclamped SE T3) <= 1 / 1000.
Proof.
  pose proof se_e as He. pose proof se_a as Ha.
  set (ee := e_unclamped SE T3) in *.
  assert (Hy : Rabs (ayNL SE T3 ee) <= 1 / 100).
  { unfold ayNL, beta, A30, k2. set (AA := a SE T3) in *. unfold SE, deg2rad; cbn [el_i0]. interval. }
  unfold eL2, axN, ayN. set (y := ayNL SE T3 ee) in *. set (W := w SE T3).
  pose proof (sin2_cos2 W) as SC. unfold Rsqr in SC. apply Rabs_le_between in Hy.
  pose proof (SIN_bound W) as SB.
  replace ((ee * cos W) ^ 2 + (ee * sin W + y) ^ 2) with (ee ^ 2 * (sin W * sin W + cos W * cos W) + 2 * (ee * (sin W * y)) + y ^ 2) by ring.
  rewrite SC.
  assert (H1 : -(1 / 100) <= sin W * y <= 1 / 100) by nra.
  assert (H2 : -(1 / 10000) <= ee * (sin W * y) <= 1 / 10000) by nra.
  assert (H3 : ee ^ 2 <= 1 / 10000) by nra.
  assert (H4 : y ^ 2 <= 1 / 10000) by nra.
  lra.
Qed.
Lemma se_perigee : 1005 / 1000 <= a SE T3 * (1 - sqrt (eL2 SE T3 (e_unclamped SE T3))).
Proof.
  pose proof se_a as Ha. pose proof se_eL2 as He.
  set (z := eL2 SE T3 (e_unclamped SE T3)) in *.
  assert (Hs : sqrt z <= 4 / 100).
  { replace (4 / 100) with (sqrt ((4 / 100) * (4 / 100))) by (rewrite sqrt_square; lra). apply sqrt_le_1_alt. lra. }
  pose proof (sqrt_pos z). nra.
Qed.
