(* Kepler's equation of SGP4 (Spacetrack Report #3, "Solve Kepler's equation for (E + omega)"):
       U = Ew - axN sin Ew + ayN cos Ew        with  axN^2 + ayN^2 < 1.
   For every U there is exactly one solution, and any Ew is within residual / (1 - sqrt(axN^2+ayN^2))
   of it.  Pure analysis over R (mean value theorem, intermediate value theorem); used by C01 to turn
   "the code leaves the Newton loop with |residual| < 1e-12" into a bound on the distance to the
   report's exact E + omega. *)
From Coq Require Import Reals Lra.
From Coquelicot Require Import Coquelicot.
Open Scope R_scope.

Section Kepler.
  Variables ax ay : R.
  Hypothesis Hel : ax ^ 2 + ay ^ 2 < 1.

  Definition kf (x : R) : R := x - ax * sin x + ay * cos x.
  Definition dkf (x : R) : R := 1 - ax * cos x - ay * sin x.
  Definition q : R := sqrt (ax ^ 2 + ay ^ 2).

  Lemma q_ge0 : 0 <= q. Proof. apply sqrt_pos. Qed.
  Lemma q_lt1 : q < 1.
  Proof.
    unfold q. rewrite <- sqrt_1. apply sqrt_lt_1_alt. split; [nra|exact Hel].
  Qed.
  Lemma q_sq : q * q = ax ^ 2 + ay ^ 2.
  Proof. unfold q. apply sqrt_sqrt. nra. Qed.

  (* Cauchy-Schwarz on (ax, ay) . (c, s) with c^2 + s^2 = 1 *)
  Lemma lin_bound c s : c ^ 2 + s ^ 2 = 1 -> Rabs (ax * c + ay * s) <= q.
  Proof.
    intros Hcs.
    assert (Hsq : (ax * c + ay * s) ^ 2 <= q ^ 2).
    { replace (q ^ 2) with (q * q) by ring. rewrite q_sq.
      assert (Hid : (ax * c + ay * s) ^ 2 + (ax * s - ay * c) ^ 2 = (ax ^ 2 + ay ^ 2) * (c ^ 2 + s ^ 2)) by ring.
      rewrite Hcs in Hid. pose proof (pow2_ge_0 (ax * s - ay * c)). lra. }
    apply Rabs_le. pose proof q_ge0 as Hq.
    split.
    - destruct (Rle_dec (- q) (ax * c + ay * s)) as [H|H]; [exact H|exfalso]. apply Rnot_le_lt in H. nra.
    - destruct (Rle_dec (ax * c + ay * s) q) as [H|H]; [exact H|exfalso]. apply Rnot_le_lt in H. nra.
  Qed.

  Lemma sincos1 x : cos x ^ 2 + sin x ^ 2 = 1.
  Proof. pose proof (sin2_cos2 x) as H. unfold Rsqr in H. lra. Qed.

  Lemma dkf_lower x : 1 - q <= dkf x.
  Proof.
    unfold dkf. pose proof (lin_bound (cos x) (sin x) (sincos1 x)) as H.
    apply Rabs_le_between in H. lra.
  Qed.

  Lemma kf_is_derive x : is_derive kf x (dkf x).
  Proof. unfold kf, dkf. auto_derive; [exact I|ring]. Qed.

  Lemma kf_continuity : continuity kf.
  Proof.
    intros x. apply derivable_continuous_pt. apply ex_derive_Reals_0. exists (dkf x). apply kf_is_derive.
  Qed.

  (* the periodic part is bounded by q *)
  Lemma kf_near x : Rabs (kf x - x) <= q.
  Proof.
    unfold kf. replace (x - ax * sin x + ay * cos x - x) with (ax * (- sin x) + ay * cos x) by ring.
    apply lin_bound. pose proof (sincos1 x). nra.
  Qed.

  (* strictly increasing, with slope at least 1 - q *)
  Lemma kf_slope a b : a <= b -> (1 - q) * (b - a) <= kf b - kf a.
  Proof.
    intros Hab.
    destruct (MVT_gen kf a b dkf) as [c [_ Hc]].
    - intros x _. apply kf_is_derive.
    - intros x _. apply kf_continuity.
    - rewrite Hc. apply Rmult_le_compat_r; [lra|apply dkf_lower].
  Qed.

  Lemma kepler_exists (Ucap : R) : exists Es, kf Es = Ucap /\ Rabs (Es - Ucap) <= q.
  Proof.
    pose proof q_lt1 as Hq1. pose proof q_ge0 as Hq0.
    pose (g := fun x => kf x - Ucap).
    assert (Hg : continuity g).
    { unfold g. apply continuity_minus; [apply kf_continuity|apply continuity_const; intros x y; reflexivity]. }
    pose proof (kf_near (Ucap - 1)) as Hlo. pose proof (kf_near (Ucap + 1)) as Hhi.
    apply Rabs_le_between in Hlo. apply Rabs_le_between in Hhi.
    destruct (IVT_cor g (Ucap - 1) (Ucap + 1) Hg) as [z [[Hz1 Hz2] Hz]].
    - lra.
    - unfold g. apply Rle_trans with (0 * 0); [|lra].
      assert (A : kf (Ucap - 1) - Ucap <= 0) by lra. assert (B : 0 <= kf (Ucap + 1) - Ucap) by lra. nra.
    - exists z. unfold g in Hz. split; [lra|].
      pose proof (kf_near z) as Hn. apply Rabs_le_between in Hn. apply Rabs_le. lra.
  Qed.

  Lemma kepler_unique a b : kf a = kf b -> a = b.
  Proof.
    intros H. pose proof q_lt1 as Hq1.
    destruct (Rle_dec a b) as [Hab|Hab].
    - pose proof (kf_slope a b Hab). nra.
    - apply Rnot_le_lt in Hab. pose proof (kf_slope b a (Rlt_le _ _ Hab)). nra.
  Qed.

  (* any Ew is within |residual| / (1 - q) of the exact solution *)
  Lemma kepler_error (Ucap Ew Es : R) : kf Es = Ucap ->
    (1 - q) * Rabs (Ew - Es) <= Rabs (Ucap - kf Ew).
  Proof.
    intros Hs. rewrite <- Hs.
    destruct (Rle_dec Es Ew) as [H|H].
    - pose proof (kf_slope Es Ew H) as Hsl. rewrite (Rabs_pos_eq (Ew - Es)) by lra.
      rewrite Rabs_minus_sym. apply Rle_trans with (kf Ew - kf Es); [exact Hsl|apply Rle_abs].
    - apply Rnot_le_lt in H. pose proof (kf_slope Ew Es (Rlt_le _ _ H)) as Hsl.
      rewrite (Rabs_left (Ew - Es)) by lra.
      apply Rle_trans with (kf Es - kf Ew); [lra|apply Rle_abs].
  Qed.
End Kepler.
