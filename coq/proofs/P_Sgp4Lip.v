(* C01: how far the position moves when E + omega moves.  For semi-major axis 1 <= a <= 4 earth radii (every
   near-earth orbit has a0 < 1.93, so this covers the model's a(t) up to twice its epoch value) and eL^2 <= 4/25, each coordinate of the report's position
       rk * XKMPER * U(uk, Omega_k, i_k)
   is a Lipschitz function of Ew with constant 570000 km/rad; the velocity with 460 (km/s)/rad for every a >= 1.  With the bound on |Ew - E*| from Kepler's equation this
   turns the stopping rule of the Newton loop into a bound on the position error. *)
From Coq Require Import Reals Lra.
From Coquelicot Require Import Coquelicot.
From Interval Require Import Tactic.
From PyOrb.lib Require Import PyReal Atan2Lib.
From PyOrb.spec Require Import Spec_SGP4.
From PyOrb.proofs Require Import P_Kepler P_Sgp4Geometry P_Lip.
Open Scope R_scope.

Lemma Rabs_div_bound n d n0 d0 : 0 < d0 -> d0 <= d -> Rabs n <= n0 -> Rabs (n / d) <= n0 / d0.
Proof.
  intros H0 Hd Hn. unfold Rdiv. rewrite Rabs_mult. rewrite (Rabs_pos_eq (/ d)) by (apply Rlt_le, Rinv_0_lt_compat; lra).
  pose proof (Rabs_pos n). assert (0 < / d) by (apply Rinv_0_lt_compat; lra).
  assert (/ d <= / d0) by (apply Rinv_le_contravar; lra). apply Rmult_le_compat; lra.
Qed.

Section Lip.
  Variable el : elements.
  Variable t : tstate.
  Variable e : R.
  Hypothesis HA1 : 1 <= a el t.
  Hypothesis HA2 : a el t <= 4.
  Hypothesis HeL : eL2 el t e <= 4 / 25.

  Let A := a el t.
  Let X := axN el t e.
  Let Y := ayN el t e.
  Let b := sqrt (1 - eL2 el t e).
  Let p := pL el t e.

  Lemma HeL1 : eL2 el t e < 1. Proof. lra. Qed.
  Lemma HXY : X ^ 2 + Y ^ 2 <= 4 / 25. Proof. exact HeL. Qed.
  Lemma HXY1 : X ^ 2 + Y ^ 2 < 1. Proof. pose proof HXY. lra. Qed.
  Lemma q_le : q X Y <= 2 / 5.
  Proof.
    unfold q. replace (2 / 5) with (sqrt ((2 / 5) * (2 / 5))) by (rewrite sqrt_square; lra).
    apply sqrt_le_1_alt. pose proof HXY. lra.
  Qed.
  Lemma sq_le_abs x c : 0 <= c -> x ^ 2 <= c ^ 2 -> Rabs x <= c.
  Proof.
    intros Hc H. rewrite <- (Rabs_pos_eq c Hc). apply Rsqr_le_abs_0. unfold Rsqr. nra.
  Qed.
  Lemma X_le : Rabs X <= 2 / 5.
  Proof. pose proof HXY. pose proof (pow2_ge_0 Y). apply sq_le_abs; lra. Qed.
  Lemma Y_le : Rabs Y <= 2 / 5.
  Proof. pose proof HXY. pose proof (pow2_ge_0 X). apply sq_le_abs; lra. Qed.
  Lemma b_bounds : 9 / 10 <= b <= 1.
  Proof.
    unfold b. pose proof (eL2_nonneg el t e). split.
    - replace (9 / 10) with (sqrt ((9 / 10) * (9 / 10))) by (rewrite sqrt_square; lra). apply sqrt_le_1_alt. lra.
    - apply Rle_trans with (sqrt 1); [apply sqrt_le_1_alt; lra|rewrite sqrt_1; lra].
  Qed.
  Lemma p_low : 21 / 25 <= p.
  Proof.
    unfold p, pL. pose proof (eL2_nonneg el t e).
    apply Rle_trans with (1 * (21 / 25)); [lra|apply Rmult_le_compat; lra].
  Qed.
  Lemma p2_low : 441 / 625 <= p ^ 2.
  Proof. pose proof p_low. nra. Qed.

  (* e cos E and e sin E: Lipschitz and bounded by sqrt eL2 <= 2/5 *)
  Lemma LB_ec : LB (fun x => X * cos x + Y * sin x) (2 / 5) (2 / 5).
  Proof.
    pose proof q_le as Hq. pose proof (q_ge0 X Y) as Hq0. repeat split; try lra.
    - intros x y.
      destruct (MVT_gen (fun z => X * cos z + Y * sin z) y x (fun z => X * - sin z + Y * cos z)) as [c [_ Hc]].
      + intros z _. auto_derive; [exact I|ring].
      + intros z _. apply derivable_continuous_pt. apply ex_derive_Reals_0. exists (X * - sin z + Y * cos z). auto_derive; [exact I|ring].
      + rewrite Hc, Rabs_mult.
        assert (Hu : (- sin c) ^ 2 + cos c ^ 2 = 1) by (pose proof (sincos1 c); nra).
        pose proof (lin_bound X Y (- sin c) (cos c) Hu) as Hb. pose proof (Rabs_pos (x - y)). nra.
    - intros x. pose proof (lin_bound X Y (cos x) (sin x) (sincos1 x)). lra.
  Qed.

  Lemma LB_es : LB (fun x => X * sin x - Y * cos x) (2 / 5) (2 / 5).
  Proof.
    pose proof q_le as Hq. pose proof (q_ge0 X Y) as Hq0. repeat split; try lra.
    - intros x y.
      destruct (MVT_gen (fun z => X * sin z - Y * cos z) y x (fun z => X * cos z + Y * sin z)) as [c [_ Hc]].
      + intros z _. auto_derive; [exact I|ring].
      + intros z _. apply derivable_continuous_pt. apply ex_derive_Reals_0. exists (X * cos z + Y * sin z). auto_derive; [exact I|ring].
      + rewrite Hc, Rabs_mult. pose proof (lin_bound X Y (cos c) (sin c) (sincos1 c)) as Hb. pose proof (Rabs_pos (x - y)). nra.
    - intros x.
      assert (Hu : sin x ^ 2 + (- cos x) ^ 2 = 1) by (pose proof (sincos1 x); nra).
      pose proof (lin_bound X Y (sin x) (- cos x) Hu) as Hb.
      replace (X * sin x - Y * cos x) with (X * sin x + Y * - cos x) by ring. lra.
  Qed.

  (* w = a / r = 1 / (1 - e cos E) *)
  Lemma LB_w : LB (fun x => / (1 - (X * cos x + Y * sin x))) (10 / 9) (5 / 3).
  Proof.
    assert (H : LB (fun x => 1 - (X * cos x + Y * sin x)) (0 + 2 / 5) (Rabs 1 + 2 / 5)) by (apply LB_sub; [apply LB_const|apply LB_ec]).
    apply (LB_weaken _ ((0 + 2 / 5) / (3 / 5 * (3 / 5))) (/ (3 / 5))); [|lra|lra].
    refine (LB_inv _ _ _ (3 / 5) _ _ H); [lra|].
    intros x. pose proof (LB_bnd _ _ _ LB_ec x) as Hb. apply Rabs_le_between in Hb. lra.
  Qed.

  Let g := / (1 + b).
  Lemma g_bounds : 0 < g <= 1.
  Proof.
    unfold g. pose proof b_bounds. split; [apply Rinv_0_lt_compat; lra|].
    rewrite <- Rinv_1. apply Rinv_le_contravar; lra.
  Qed.

  (* cos u and sin u as functions of Ew *)
  Definition cuf (x : R) : R := / (1 - (X * cos x + Y * sin x)) * (cos x - X + Y * g * (X * sin x - Y * cos x)).
  Definition suf (x : R) : R := / (1 - (X * cos x + Y * sin x)) * (sin x - Y - X * g * (X * sin x - Y * cos x)).

  Lemma cuf_spec x : cuf x = cosu el t e x.
  Proof.
    unfold cuf, cosu, r, ecosE, esinE, g. fold X Y b.
    pose proof (LB_bnd _ _ _ LB_ec x) as Hb. apply Rabs_le_between in Hb. pose proof b_bounds.
    field. repeat split; lra.
  Qed.
  Lemma suf_spec x : suf x = sinu el t e x.
  Proof.
    unfold suf, sinu, r, ecosE, esinE, g. fold X Y b.
    pose proof (LB_bnd _ _ _ LB_ec x) as Hb. apply Rabs_le_between in Hb. pose proof b_bounds.
    field. repeat split; lra.
  Qed.

  Lemma unit_cs x : cuf x ^ 2 + suf x ^ 2 = 1.
  Proof. rewrite cuf_spec, suf_spec. apply cosu_sinu_unit; [lra|exact HeL1]. Qed.
  Lemma cuf_le1 x : Rabs (cuf x) <= 1.
  Proof. pose proof (unit_cs x). pose proof (pow2_ge_0 (suf x)). apply sq_le_abs; lra. Qed.
  Lemma suf_le1 x : Rabs (suf x) <= 1.
  Proof. pose proof (unit_cs x). pose proof (pow2_ge_0 (cuf x)). apply sq_le_abs; lra. Qed.

  Lemma Yg_le : Rabs (Y * g) <= 2 / 5.
  Proof. rewrite Rabs_mult. pose proof Y_le. pose proof g_bounds. rewrite (Rabs_pos_eq g) by lra. pose proof (Rabs_pos Y). nra. Qed.
  Lemma Xg_le : Rabs (X * g) <= 2 / 5.
  Proof. rewrite Rabs_mult. pose proof X_le. pose proof g_bounds. rewrite (Rabs_pos_eq g) by lra. pose proof (Rabs_pos X). nra. Qed.

  Lemma LB_cu : LB cuf (37 / 10) 1.
  Proof.
    apply LB_rebound with (B := 5 / 3 * (1 + 2 / 5 + 4 / 25)); [|lra|exact cuf_le1].
    apply (LB_weaken _ (10 / 9 * (1 + 2 / 5 + 4 / 25) + 5 / 3 * (1 + 0 + 4 / 25)) (5 / 3 * (1 + 2 / 5 + 4 / 25))); [|lra|lra].
    unfold cuf. apply LB_mul; [exact LB_w|].
    apply LB_add.
    - apply (LB_weaken _ (1 + 0) (1 + Rabs X)); [apply LB_sub; [apply LB_cos|apply LB_const]|lra|pose proof X_le; lra].
    - apply (LB_weaken _ (Rabs (Y * g) * (2 / 5)) (Rabs (Y * g) * (2 / 5))).
      + apply (LB_scal (Y * g) _ _ _ LB_es).
      + pose proof Yg_le. pose proof (Rabs_pos (Y * g)). nra.
      + pose proof Yg_le. pose proof (Rabs_pos (Y * g)). nra.
  Qed.

  Lemma LB_su : LB suf (37 / 10) 1.
  Proof.
    apply LB_rebound with (B := 5 / 3 * (1 + 2 / 5 + 4 / 25)); [|lra|exact suf_le1].
    apply (LB_weaken _ (10 / 9 * (1 + 2 / 5 + 4 / 25) + 5 / 3 * (1 + 0 + 4 / 25)) (5 / 3 * (1 + 2 / 5 + 4 / 25))); [|lra|lra].
    unfold suf. apply LB_mul; [exact LB_w|].
    apply LB_sub.
    - apply (LB_weaken _ (1 + 0) (1 + Rabs Y)); [apply LB_sub; [apply LB_sin|apply LB_const]|lra|pose proof Y_le; lra].
    - apply (LB_weaken _ (Rabs (X * g) * (2 / 5)) (Rabs (X * g) * (2 / 5))).
      + apply (LB_scal (X * g) _ _ _ LB_es).
      + pose proof Xg_le. pose proof (Rabs_pos (X * g)). nra.
      + pose proof Xg_le. pose proof (Rabs_pos (X * g)). nra.
  Qed.

  (* sin 2u, cos 2u *)
  Definition s2f (x : R) : R := 2 * (suf x * cuf x).
  Definition c2f (x : R) : R := 2 * (cuf x * cuf x) - 1.
  Lemma LB_s2 : LB s2f 15 2.
  Proof.
    unfold s2f. apply (LB_weaken _ (Rabs 2 * (37 / 10 * 1 + 1 * (37 / 10))) (Rabs 2 * (1 * 1))).
    - apply LB_scal. apply LB_mul; [exact LB_su|exact LB_cu].
    - rewrite Rabs_pos_eq by lra. lra.
    - rewrite Rabs_pos_eq by lra. lra.
  Qed.
  Lemma LB_c2 : LB c2f 15 3.
  Proof.
    unfold c2f. apply (LB_weaken _ (Rabs 2 * (37 / 10 * 1 + 1 * (37 / 10)) + 0) (Rabs 2 * (1 * 1) + Rabs 1)).
    - apply LB_sub; [|apply LB_const]. apply LB_scal. apply LB_mul; exact LB_cu.
    - rewrite Rabs_pos_eq by lra. lra.
    - rewrite !Rabs_pos_eq by lra. lra.
  Qed.
  Lemma s2f_spec x : s2f x = sin2u el t e x.
  Proof. unfold s2f, sin2u. rewrite cuf_spec, suf_spec. ring. Qed.
  Lemma c2f_spec x : c2f x = cos2u el t e x.
  Proof. unfold c2f, cos2u. rewrite cuf_spec. ring. Qed.

  (* the small coefficients of the short-period corrections *)
  Let th := theta el.
  Lemma th_le : Rabs th <= 1.
  Proof. unfold th, theta. pose proof (COS_bound (el_i0 el)). apply Rabs_le. lra. Qed.
  Lemma th2 : 0 <= th ^ 2 <= 1.
  Proof. pose proof th_le as H. apply Rabs_le_between in H. nra. Qed.

  Definition Cc : R := k2 / (4 * p ^ 2) * (7 * th ^ 2 - 1).
  Definition Dc : R := 3 * k2 * th / (2 * p ^ 2).
  Definition Fc : R := 3 * k2 * th / (2 * p ^ 2) * sin (el_i0 el).
  Definition K1 : R := 1 - 3 / 2 * k2 * b / p ^ 2 * (3 * th ^ 2 - 1).
  Definition K2 : R := k2 / (2 * p) * (1 - th ^ 2).

  Lemma Cc_le : Rabs Cc <= 12 / 10000.
  Proof.
    unfold Cc. pose proof p2_low. pose proof th2.
    replace (k2 / (4 * p ^ 2) * (7 * th ^ 2 - 1)) with ((k2 * (7 * th ^ 2 - 1)) / (4 * p ^ 2)) by (field; nra).
    apply Rle_trans with ((k2 * 6) / (4 * (441 / 625))).
    - apply Rabs_div_bound; [lra|lra|]. rewrite Rabs_mult, (Rabs_pos_eq k2) by (unfold k2; lra).
      assert (Rabs (7 * th ^ 2 - 1) <= 6) by (apply Rabs_le; lra). unfold k2 in *. nra.
    - unfold k2. lra.
  Qed.
  Lemma Dc_le : Rabs Dc <= 12 / 10000.
  Proof.
    unfold Dc. pose proof p2_low. pose proof th_le.
    apply Rle_trans with ((3 * k2 * 1) / (2 * (441 / 625))).
    - apply Rabs_div_bound; [lra|lra|]. rewrite !Rabs_mult, (Rabs_pos_eq 3), (Rabs_pos_eq k2) by (unfold k2; lra).
      unfold k2 in *. pose proof (Rabs_pos th). nra.
    - unfold k2. lra.
  Qed.
  Lemma Fc_le : Rabs Fc <= 12 / 10000.
  Proof.
    unfold Fc. fold Dc. rewrite Rabs_mult. pose proof Dc_le. pose proof (SIN_bound (el_i0 el)).
    assert (Rabs (sin (el_i0 el)) <= 1) by (apply Rabs_le; lra). pose proof (Rabs_pos Dc). pose proof (Rabs_pos (sin (el_i0 el))). nra.
  Qed.
  Lemma K1_le : Rabs K1 <= 1003 / 1000.
  Proof.
    unfold K1. pose proof p2_low. pose proof th2. pose proof b_bounds.
    assert (HK : Rabs (3 / 2 * k2 * b / p ^ 2 * (3 * th ^ 2 - 1)) <= 3 / 1000).
    { replace (3 / 2 * k2 * b / p ^ 2 * (3 * th ^ 2 - 1)) with ((3 / 2 * k2 * b * (3 * th ^ 2 - 1)) / (p ^ 2)) by (field; nra).
      apply Rle_trans with ((3 / 2 * k2 * 1 * 2) / (441 / 625)).
      - apply Rabs_div_bound; [lra|lra|]. rewrite !Rabs_mult, (Rabs_pos_eq (3 / 2)), (Rabs_pos_eq k2), (Rabs_pos_eq b) by (unfold k2; lra).
        assert (Rabs (3 * th ^ 2 - 1) <= 2) by (apply Rabs_le; lra). pose proof (Rabs_pos (3 * th ^ 2 - 1)). unfold k2 in *. nra.
      - unfold k2. lra. }
    apply Rabs_le_between in HK. apply Rabs_le. lra.
  Qed.
  Lemma K2_le : Rabs K2 <= 4 / 10000.
  Proof.
    unfold K2. pose proof p_low. pose proof th2.
    replace (k2 / (2 * p) * (1 - th ^ 2)) with ((k2 * (1 - th ^ 2)) / (2 * p)) by (field; lra).
    apply Rle_trans with ((k2 * 1) / (2 * (21 / 25))).
    - apply Rabs_div_bound; [lra|lra|]. rewrite Rabs_mult, (Rabs_pos_eq k2) by (unfold k2; lra).
      assert (Rabs (1 - th ^ 2) <= 1) by (apply Rabs_le; lra). unfold k2 in *. nra.
    - unfold k2. lra.
  Qed.

  (* radius (earth radii): rk = K1 * r + K2 * cos 2u,  r = A (1 - e cos E) *)
  Definition rkf (x : R) : R := K1 * (A * (1 - (X * cos x + Y * sin x))) + K2 * c2f x.
  Lemma LB_rk : LB rkf (162 / 100) (562 / 100).
  Proof.
    unfold rkf.
    assert (Hr : LB (fun x => A * (1 - (X * cos x + Y * sin x))) (Rabs A * (0 + 2 / 5)) (Rabs A * (Rabs 1 + 2 / 5))).
    { apply LB_scal. apply LB_sub; [apply LB_const|apply LB_ec]. }
    assert (HAabs : Rabs A = A) by (apply Rabs_pos_eq; unfold A; lra).
    apply (LB_weaken _ (Rabs K1 * (Rabs A * (0 + 2 / 5)) + Rabs K2 * 15) (Rabs K1 * (Rabs A * (Rabs 1 + 2 / 5)) + Rabs K2 * 3)).
    - apply LB_add; apply LB_scal; [exact Hr|exact LB_c2].
    - rewrite HAabs. pose proof K1_le. pose proof K2_le. pose proof (Rabs_pos K1). pose proof (Rabs_pos K2). unfold A in *. nra.
    - rewrite HAabs, (Rabs_pos_eq 1) by lra. pose proof K1_le. pose proof K2_le. pose proof (Rabs_pos K1). pose proof (Rabs_pos K2). unfold A in *. nra.
  Qed.
  Lemma rkf_spec x : rkf x = rk el t e x.
  Proof.
    unfold rkf, rk, r, ecosE, K1, K2. rewrite c2f_spec. fold A X Y b p th. pose proof p_low. field. lra.
  Qed.

  (* sin and cos of the corrected argument of latitude uk = u - Cc sin 2u, from cos u, sin u *)
  Definition Suf (x : R) : R := suf x * cos (Cc * s2f x) - cuf x * sin (Cc * s2f x).
  Definition Cuf (x : R) : R := cuf x * cos (Cc * s2f x) + suf x * sin (Cc * s2f x).
  Lemma LB_Cs2 : LB (fun x => Cc * s2f x) (2 / 100) (1 / 100).
  Proof.
    apply (LB_weaken _ (Rabs Cc * 15) (Rabs Cc * 2)); [apply LB_scal; exact LB_s2| |]; pose proof Cc_le; pose proof (Rabs_pos Cc); nra.
  Qed.
  Lemma LB_Su : LB Suf (75 / 10) 2.
  Proof.
    unfold Suf. apply (LB_weaken _ ((37 / 10 * 1 + 1 * (2 / 100)) + (37 / 10 * 1 + 1 * (2 / 100))) (1 * 1 + 1 * 1)); [|lra|lra].
    apply LB_sub; apply LB_mul; first [exact LB_su | exact LB_cu | apply (LB_cos_of _ _ _ LB_Cs2) | apply (LB_sin_of _ _ _ LB_Cs2)].
  Qed.
  Lemma LB_Cu : LB Cuf (75 / 10) 2.
  Proof.
    unfold Cuf. apply (LB_weaken _ ((37 / 10 * 1 + 1 * (2 / 100)) + (37 / 10 * 1 + 1 * (2 / 100))) (1 * 1 + 1 * 1)); [|lra|lra].
    apply LB_add; apply LB_mul; first [exact LB_su | exact LB_cu | apply (LB_cos_of _ _ _ LB_Cs2) | apply (LB_sin_of _ _ _ LB_Cs2)].
  Qed.

  (* node and inclination with their corrections *)
  Definition Okf (x : R) : R := Om el t + Dc * s2f x.
  Definition ikf (x : R) : R := el_i0 el + Fc * c2f x.
  Lemma LB_Ok_arg : LB Okf (2 / 100) (Rabs (Om el t) + 1).
  Proof.
    unfold Okf. apply (LB_weaken _ (0 + Rabs Dc * 15) (Rabs (Om el t) + Rabs Dc * 2)).
    - apply LB_add; [apply LB_const|apply LB_scal; exact LB_s2].
    - pose proof Dc_le; pose proof (Rabs_pos Dc); nra.
    - pose proof Dc_le; pose proof (Rabs_pos Dc); nra.
  Qed.
  Lemma LB_ik_arg : LB ikf (2 / 100) (Rabs (el_i0 el) + 1).
  Proof.
    unfold ikf. apply (LB_weaken _ (0 + Rabs Fc * 15) (Rabs (el_i0 el) + Rabs Fc * 3)).
    - apply LB_add; [apply LB_const|apply LB_scal; exact LB_c2].
    - pose proof Fc_le; pose proof (Rabs_pos Fc); nra.
    - pose proof Fc_le; pose proof (Rabs_pos Fc); nra.
  Qed.
  Lemma Okf_spec x : Okf x = Ok el t e x.
  Proof. unfold Okf, Ok, Dc. rewrite s2f_spec. fold p th. pose proof p_low. field. lra. Qed.
  Lemma ikf_spec x : ikf x = ik el t e x.
  Proof. unfold ikf, ik, Fc. rewrite c2f_spec. fold p th. pose proof p_low. field. lra. Qed.

  (* the three coordinates of the unit vector U, each 16-Lipschitz and bounded by 4 *)
  Definition Uxf (x : R) : R := - sin (Okf x) * cos (ikf x) * Suf x + cos (Okf x) * Cuf x.
  Definition Uyf (x : R) : R := cos (Okf x) * cos (ikf x) * Suf x + sin (Okf x) * Cuf x.
  Definition Uzf (x : R) : R := sin (ikf x) * Suf x.

  Ltac trig := first [ apply (LB_sin_of _ _ _ LB_Ok_arg) | apply (LB_cos_of _ _ _ LB_Ok_arg)
                     | apply (LB_sin_of _ _ _ LB_ik_arg) | apply (LB_cos_of _ _ _ LB_ik_arg) ].

  Lemma LB_Ux : LB Uxf 16 4.
  Proof.
    unfold Uxf.
    apply (LB_weaken _ (((2 / 100 * 1 + 1 * (2 / 100)) * 2 + 1 * 1 * (75 / 10)) + (2 / 100 * 2 + 1 * (75 / 10))) (1 * 1 * 2 + 1 * 2)); [|lra|lra].
    apply LB_add; [|apply LB_mul; [trig|exact LB_Cu]].
    apply LB_mul; [|exact LB_Su]. apply LB_mul; [apply LB_opp; trig|trig].
  Qed.
  Lemma LB_Uy : LB Uyf 16 4.
  Proof.
    unfold Uyf.
    apply (LB_weaken _ (((2 / 100 * 1 + 1 * (2 / 100)) * 2 + 1 * 1 * (75 / 10)) + (2 / 100 * 2 + 1 * (75 / 10))) (1 * 1 * 2 + 1 * 2)); [|lra|lra].
    apply LB_add; [|apply LB_mul; [trig|exact LB_Cu]].
    apply LB_mul; [|exact LB_Su]. apply LB_mul; trig.
  Qed.
  Lemma LB_Uz : LB Uzf 16 4.
  Proof.
    unfold Uzf. apply (LB_weaken _ (2 / 100 * 2 + 1 * (75 / 10)) (1 * 2)); [|lra|lra].
    apply LB_mul; [trig|exact LB_Su].
  Qed.

  (* position in km *)
  Definition Pxf (x : R) : R := rkf x * XKMPER * Uxf x.
  Definition Pyf (x : R) : R := rkf x * XKMPER * Uyf x.
  Definition Pzf (x : R) : R := rkf x * XKMPER * Uzf x.

  (* Pxf etc. are the report's position: radius * U(theta, node, inclination) with the report's finishing map *)
  Lemma Suf_spec x : Suf x = sin (uk el t e x (atan2 (sinu el t e x) (cosu el t e x))).
  Proof.
    unfold Suf, uk. rewrite <- s2f_spec, <- suf_spec, <- cuf_spec.
    assert (Hnz : cuf x <> 0 \/ suf x <> 0).
    { pose proof (unit_cs x). destruct (Req_dec (cuf x) 0) as [E|E]; [right|left; exact E]. intros E2. rewrite E, E2 in H. lra. }
    destruct (sin_cos_atan2 (suf x) (cuf x) Hnz) as [S C].
    assert (Hn : sqrt (cuf x * cuf x + suf x * suf x) = 1).
    { replace (cuf x * cuf x + suf x * suf x) with 1 by (pose proof (unit_cs x); lra). apply sqrt_1. }
    rewrite Hn in S, C.
    replace (k2 / (4 * pL el t e ^ 2) * (7 * theta el ^ 2 - 1) * s2f x) with (Cc * s2f x) by (unfold Cc; fold p th; ring).
    rewrite sin_minus, S, C. field.
  Qed.
  Lemma Cuf_spec x : Cuf x = cos (uk el t e x (atan2 (sinu el t e x) (cosu el t e x))).
  Proof.
    unfold Cuf, uk. rewrite <- s2f_spec, <- suf_spec, <- cuf_spec.
    assert (Hnz : cuf x <> 0 \/ suf x <> 0).
    { pose proof (unit_cs x). destruct (Req_dec (cuf x) 0) as [E|E]; [right|left; exact E]. intros E2. rewrite E, E2 in H. lra. }
    destruct (sin_cos_atan2 (suf x) (cuf x) Hnz) as [S C].
    assert (Hn : sqrt (cuf x * cuf x + suf x * suf x) = 1).
    { replace (cuf x * cuf x + suf x * suf x) with 1 by (pose proof (unit_cs x); lra). apply sqrt_1. }
    rewrite Hn in S, C.
    replace (k2 / (4 * pL el t e ^ 2) * (7 * theta el ^ 2 - 1) * s2f x) with (Cc * s2f x) by (unfold Cc; fold p th; ring).
    rewrite cos_minus, S, C. field.
  Qed.

  Theorem position_is_report x :
    let u := atan2 (sinu el t e x) (cosu el t e x) in
    Pxf x = rk el t e x * XKMPER * Ux (uk el t e x u) (Ok el t e x) (ik el t e x) /\
    Pyf x = rk el t e x * XKMPER * Uy (uk el t e x u) (Ok el t e x) (ik el t e x) /\
    Pzf x = rk el t e x * XKMPER * Uz (uk el t e x u) (Ok el t e x) (ik el t e x).
  Proof.
    cbv zeta. unfold Pxf, Pyf, Pzf, Uxf, Uyf, Uzf, Ux, Uy, Uz.
    rewrite rkf_spec, Okf_spec, ikf_spec, Suf_spec, Cuf_spec. repeat split; ring.
  Qed.

  (* ---------------- velocity ---------------- *)
  (* sharper bounds: sin uk and cos uk are a sine and a cosine *)
  Lemma LB_Su1 : LB Suf (75 / 10) 1.
  Proof. apply (LB_rebound _ _ _ _ LB_Su); [lra|]. intros x. rewrite Suf_spec. pose proof (SIN_bound (uk el t e x (atan2 (sinu el t e x) (cosu el t e x)))). apply Rabs_le. lra. Qed.
  Lemma LB_Cu1 : LB Cuf (75 / 10) 1.
  Proof. apply (LB_rebound _ _ _ _ LB_Cu); [lra|]. intros x. rewrite Cuf_spec. pose proof (COS_bound (uk el t e x (atan2 (sinu el t e x) (cosu el t e x)))). apply Rabs_le. lra. Qed.

  Definition Vxf (x : R) : R := - sin (Okf x) * cos (ikf x) * Cuf x - cos (Okf x) * Suf x.
  Definition Vyf (x : R) : R := cos (Okf x) * cos (ikf x) * Cuf x - sin (Okf x) * Suf x.
  Definition Vzf (x : R) : R := sin (ikf x) * Cuf x.

  Lemma LB_U2 (S C : R -> R) (s1 s2 : R -> R) :
    LB S (75 / 10) 1 -> LB C (75 / 10) 1 -> LB s1 (2 / 100) 1 -> LB s2 (2 / 100) 1 ->
    LB (fun x => s1 x * cos (ikf x) * S x + s2 x * C x) (152 / 10) 2.
  Proof.
    intros HS HC H1 H2.
    apply (LB_weaken _ (((2 / 100 * 1 + 1 * (2 / 100)) * 1 + 1 * 1 * (75 / 10)) + (2 / 100 * 1 + 1 * (75 / 10))) (1 * 1 * 1 + 1 * 1)); [|lra|lra].
    apply LB_add; [|apply LB_mul; assumption].
    apply LB_mul; [|exact HS]. apply LB_mul; [exact H1|apply (LB_cos_of _ _ _ LB_ik_arg)].
  Qed.

  Lemma LB_Ux2 : LB Uxf (152 / 10) 2.
  Proof. unfold Uxf. apply (LB_U2 Suf Cuf (fun x => - sin (Okf x)) (fun x => cos (Okf x))); [exact LB_Su1|exact LB_Cu1|apply LB_opp; trig|trig]. Qed.
  Lemma LB_Uy2 : LB Uyf (152 / 10) 2.
  Proof. unfold Uyf. apply (LB_U2 Suf Cuf (fun x => cos (Okf x)) (fun x => sin (Okf x))); [exact LB_Su1|exact LB_Cu1|trig|trig]. Qed.
  Lemma LB_Uz2 : LB Uzf (152 / 10) 2.
  Proof.
    unfold Uzf. apply (LB_weaken _ (2 / 100 * 1 + 1 * (75 / 10)) (1 * 1)); [|lra|lra]. apply LB_mul; [trig|exact LB_Su1].
  Qed.
  (* position: 570000 km/rad *)
  Lemma LB_P (U : R -> R) : LB U (152 / 10) 2 -> LB (fun x => rkf x * XKMPER * U x) 570000 100000.
  Proof.
    intros HU.
    apply (LB_weaken _ ((162 / 100 * Rabs XKMPER + 562 / 100 * 0) * 2 + (562 / 100 * Rabs XKMPER) * (152 / 10)) ((562 / 100 * Rabs XKMPER) * 2)).
    - apply LB_mul; [|exact HU]. apply LB_mul; [exact LB_rk|apply LB_const].
    - rewrite Rabs_pos_eq by (unfold XKMPER; lra). unfold XKMPER. lra.
    - rewrite Rabs_pos_eq by (unfold XKMPER; lra). unfold XKMPER. lra.
  Qed.

  Theorem position_lipschitz x y :
    Rabs (Pxf x - Pxf y) <= 570000 * Rabs (x - y) /\
    Rabs (Pyf x - Pyf y) <= 570000 * Rabs (x - y) /\
    Rabs (Pzf x - Pzf y) <= 570000 * Rabs (x - y).
  Proof.
    repeat split; [apply (LB_lip _ _ _ (LB_P _ LB_Ux2))|apply (LB_lip _ _ _ (LB_P _ LB_Uy2))|apply (LB_lip _ _ _ (LB_P _ LB_Uz2))].
  Qed.

  Lemma LB_Vx2 : LB Vxf (152 / 10) 2.
  Proof.
    unfold Vxf. apply (LB_ext (fun x => - sin (Okf x) * cos (ikf x) * Cuf x + (- cos (Okf x)) * Suf x)); [intros; ring|].
    apply (LB_U2 Cuf Suf (fun x => - sin (Okf x)) (fun x => - cos (Okf x))); [exact LB_Cu1|exact LB_Su1|apply LB_opp; trig|apply LB_opp; trig].
  Qed.
  Lemma LB_Vy2 : LB Vyf (152 / 10) 2.
  Proof.
    unfold Vyf. apply (LB_ext (fun x => cos (Okf x) * cos (ikf x) * Cuf x + (- sin (Okf x)) * Suf x)); [intros; ring|].
    apply (LB_U2 Cuf Suf (fun x => cos (Okf x)) (fun x => - sin (Okf x))); [exact LB_Cu1|exact LB_Su1|trig|apply LB_opp; trig].
  Qed.
  Lemma LB_Vz2 : LB Vzf (152 / 10) 2.
  Proof.
    unfold Vzf. apply (LB_weaken _ (2 / 100 * 1 + 1 * (75 / 10)) (1 * 1)); [|lra|lra]. apply LB_mul; [trig|exact LB_Cu1].
  Qed.

  (* 1 / r = w / A, and the two rates of the report with their short-period corrections [earth radii / min] *)
  Lemma sqrtA_bounds : 1 <= sqrt A.
  Proof. rewrite <- sqrt_1. apply sqrt_le_1_alt. unfold A. lra. Qed.
  Lemma sqrtA_sq : sqrt A * sqrt A = A.
  Proof. apply sqrt_sqrt. unfold A. lra. Qed.
  (* sqrt A / A = 1 / sqrt A <= 1 and sqrt p / A = b / sqrt A <= 1: the rates do not grow with the semi-major axis *)
  Lemma sA_over_A : 0 <= sqrt A * / A <= 1.
  Proof.
    pose proof sqrtA_bounds as H. pose proof sqrtA_sq as S. assert (HA : 1 <= A) by (unfold A; lra).
    assert (I0 : 0 < / A) by (apply Rinv_0_lt_compat; lra).
    assert (I1 : A * / A = 1) by (apply Rinv_r; lra).
    assert (Hle : sqrt A <= A) by nra.
    split; [nra|]. rewrite <- I1. apply Rmult_le_compat_r; lra.
  Qed.
  Lemma sp_over_A : 0 <= sqrt p * / A <= 1.
  Proof.
    pose proof sA_over_A as [H0 H1]. assert (HA : 1 <= A) by (unfold A; lra).
    assert (Hsp : sqrt p <= sqrt A).
    { apply sqrt_le_1_alt. unfold p, pL. fold A. pose proof (eL2_nonneg el t e). nra. }
    pose proof (sqrt_pos p). assert (0 < / A) by (apply Rinv_0_lt_compat; lra). split; nra.
  Qed.

  Definition irf (x : R) : R := / A * / (1 - (X * cos x + Y * sin x)).
  Lemma LB_ir : LB irf (10 / 9) (5 / 3).
  Proof.
    unfold irf. assert (HiA : 0 < / A <= 1).
    { split; [apply Rinv_0_lt_compat; unfold A; lra|]. rewrite <- Rinv_1. apply Rinv_le_contravar; unfold A; lra. }
    apply (LB_weaken _ (Rabs (/ A) * (10 / 9)) (Rabs (/ A) * (5 / 3))); [apply LB_scal; exact LB_w| |];
      rewrite Rabs_pos_eq by lra; nra.
  Qed.

  Definition kn : R := k2 * n el t / p.             (* k2 n / pL *)
  Lemma n_bounds : 0 < n el t <= ke.
  Proof.
    unfold n. fold A. pose proof sqrtA_bounds as HsA. assert (HA : 1 <= A) by (unfold A; lra).
    assert (Hd : 1 <= A * sqrt A) by nra. split.
    - apply Rdiv_lt_0_compat; [unfold ke; lra|lra].
    - apply Rmult_le_reg_r with (A * sqrt A); [lra|]. unfold Rdiv. rewrite Rmult_assoc, Rinv_l by lra. unfold ke in *. nra.
  Qed.
  Lemma kn_le : Rabs kn <= 5 / 100000.
  Proof.
    unfold kn. pose proof n_bounds. pose proof p_low.
    apply Rle_trans with ((k2 * ke) / (21 / 25)).
    - apply Rabs_div_bound; [lra|lra|]. rewrite Rabs_mult, (Rabs_pos_eq k2), (Rabs_pos_eq (n el t)) by (unfold k2; lra). unfold k2, ke in *. nra.
    - unfold k2, ke. lra.
  Qed.

  Definition rdkf (x : R) : R := ke * sqrt A * ((X * sin x - Y * cos x) * irf x) - kn * (1 - th ^ 2) * s2f x.
  Definition rfdkf (x : R) : R := ke * sqrt p * irf x + kn * ((1 - th ^ 2) * c2f x - 3 / 2 * (1 - 3 * th ^ 2)).

  Lemma LB_rdk : LB rdkf (118 / 1000) (71 / 1000).
  Proof.
    pose proof sA_over_A as HsA. pose proof kn_le as Hk. pose proof th2 as Ht.
    apply (LB_ext (fun x => (ke * (sqrt A * / A)) * ((X * sin x - Y * cos x) * / (1 - (X * cos x + Y * sin x))) - kn * (1 - th ^ 2) * s2f x)).
    { intros x. unfold rdkf, irf. ring. }
    assert (Hc1 : Rabs (ke * (sqrt A * / A)) <= 10523 / 100000).
    { rewrite Rabs_pos_eq by (unfold ke; nra). unfold ke. nra. }
    assert (Hc2 : Rabs (kn * (1 - th ^ 2)) <= 5 / 100000).
    { rewrite Rabs_mult. assert (Rabs (1 - th ^ 2) <= 1) by (apply Rabs_le; lra). pose proof (Rabs_pos kn). pose proof (Rabs_pos (1 - th ^ 2)). nra. }
    apply (LB_weaken _ (Rabs (ke * (sqrt A * / A)) * (2 / 5 * (5 / 3) + 2 / 5 * (10 / 9)) + Rabs (kn * (1 - th ^ 2)) * 15)
                       (Rabs (ke * (sqrt A * / A)) * (2 / 5 * (5 / 3)) + Rabs (kn * (1 - th ^ 2)) * 2)).
    - apply LB_sub; apply LB_scal; [apply LB_mul; [exact LB_es|exact LB_w]|exact LB_s2].
    - pose proof (Rabs_pos (ke * (sqrt A * / A))). pose proof (Rabs_pos (kn * (1 - th ^ 2))). nra.
    - pose proof (Rabs_pos (ke * (sqrt A * / A))). pose proof (Rabs_pos (kn * (1 - th ^ 2))). nra.
  Qed.

  Lemma LB_rfdk : LB rfdkf (118 / 1000) (176 / 1000).
  Proof.
    pose proof sp_over_A as Hsp. pose proof kn_le as Hk. pose proof th2 as Ht.
    apply (LB_ext (fun x => (ke * (sqrt p * / A)) * / (1 - (X * cos x + Y * sin x)) + kn * ((1 - th ^ 2) * c2f x - 3 / 2 * (1 - 3 * th ^ 2)))).
    { intros x. unfold rfdkf, irf. ring. }
    assert (Hc1 : Rabs (ke * (sqrt p * / A)) <= 10523 / 100000).
    { rewrite Rabs_pos_eq by (unfold ke; nra). unfold ke. nra. }
    assert (Hc2 : Rabs (1 - th ^ 2) <= 1) by (apply Rabs_le; lra).
    assert (Hc3 : Rabs (3 / 2 * (1 - 3 * th ^ 2)) <= 3) by (apply Rabs_le; lra).
    apply (LB_weaken _ (Rabs (ke * (sqrt p * / A)) * (10 / 9) + Rabs kn * (Rabs (1 - th ^ 2) * 15 + 0))
                       (Rabs (ke * (sqrt p * / A)) * (5 / 3) + Rabs kn * (Rabs (1 - th ^ 2) * 3 + Rabs (3 / 2 * (1 - 3 * th ^ 2))))).
    - apply LB_add; apply LB_scal; [exact LB_w|]. apply LB_sub; [apply LB_scal; exact LB_c2|apply LB_const].
    - pose proof (Rabs_pos (ke * (sqrt p * / A))). pose proof (Rabs_pos kn). pose proof (Rabs_pos (1 - th ^ 2)). nra.
    - pose proof (Rabs_pos (ke * (sqrt p * / A))). pose proof (Rabs_pos kn). pose proof (Rabs_pos (1 - th ^ 2)). pose proof (Rabs_pos (3 / 2 * (1 - 3 * th ^ 2))). nra.
  Qed.

  (* velocity in km/s: (rdotk U + rfdotk V) * 106.30225 *)
  Definition vfac : R := XKMPER / aE * min_per_day / 86400.
  Lemma LB_vel (U V : R -> R) : LB U (152 / 10) 2 -> LB V (152 / 10) 2 ->
    LB (fun x => rdkf x * vfac * U x + rfdkf x * vfac * V x) 460 100.
  Proof.
    intros HU HV.
    assert (Hf : Rabs vfac = 10630225 / 100000) by (unfold vfac, XKMPER, aE, min_per_day; rewrite Rabs_pos_eq; lra).
    apply (LB_weaken _ (((118 / 1000 * Rabs vfac + 71 / 1000 * 0) * 2 + (71 / 1000 * Rabs vfac) * (152 / 10))
                        + ((118 / 1000 * Rabs vfac + 176 / 1000 * 0) * 2 + (176 / 1000 * Rabs vfac) * (152 / 10)))
                       ((71 / 1000 * Rabs vfac) * 2 + (176 / 1000 * Rabs vfac) * 2)).
    - apply LB_add; (apply LB_mul; [apply LB_mul; [first [exact LB_rdk|exact LB_rfdk]|apply LB_const]|assumption]).
    - rewrite Hf. lra.
    - rewrite Hf. lra.
  Qed.

  Definition Vxk (x : R) : R := rdkf x * vfac * Uxf x + rfdkf x * vfac * Vxf x.
  Definition Vyk (x : R) : R := rdkf x * vfac * Uyf x + rfdkf x * vfac * Vyf x.
  Definition Vzk (x : R) : R := rdkf x * vfac * Uzf x + rfdkf x * vfac * Vzf x.

  Theorem velocity_lipschitz x y :
    Rabs (Vxk x - Vxk y) <= 460 * Rabs (x - y) /\
    Rabs (Vyk x - Vyk y) <= 460 * Rabs (x - y) /\
    Rabs (Vzk x - Vzk y) <= 460 * Rabs (x - y).
  Proof.
    repeat split; [apply (LB_lip _ _ _ (LB_vel _ _ LB_Ux2 LB_Vx2))|apply (LB_lip _ _ _ (LB_vel _ _ LB_Uy2 LB_Vy2))|apply (LB_lip _ _ _ (LB_vel _ _ LB_Uz2 LB_Vz2))].
  Qed.

  Lemma rdkf_spec x : rdkf x = rdotk el t e x.
  Proof.
    unfold rdkf, rdotk, rdot, r, ecosE, esinE, irf, kn. rewrite s2f_spec. fold X Y p th.
    pose proof (LB_bnd _ _ _ LB_ec x) as Hb. apply Rabs_le_between in Hb. pose proof p_low.
    unfold A. field. repeat split; lra.
  Qed.
  Lemma rfdkf_spec x : rfdkf x = rfdotk el t e x.
  Proof.
    unfold rfdkf, rfdotk, rfdot, r, ecosE, irf, kn. rewrite c2f_spec. fold X Y p th.
    pose proof (LB_bnd _ _ _ LB_ec x) as Hb. apply Rabs_le_between in Hb. pose proof p_low.
    unfold A. field. repeat split; lra.
  Qed.

  Theorem velocity_is_report x :
    let u := atan2 (sinu el t e x) (cosu el t e x) in
    let th' := uk el t e x u in let O := Ok el t e x in let I := ik el t e x in
    Vxk x = rdotk el t e x * vfac * Ux th' O I + rfdotk el t e x * vfac * Vx th' O I /\
    Vyk x = rdotk el t e x * vfac * Uy th' O I + rfdotk el t e x * vfac * Vy th' O I /\
    Vzk x = rdotk el t e x * vfac * Uz th' O I + rfdotk el t e x * vfac * Vz th' O I.
  Proof.
    cbv zeta. unfold Vxk, Vyk, Vzk, Uxf, Uyf, Uzf, Vxf, Vyf, Vzf, Ux, Uy, Uz, Vx, Vy, Vz.
    rewrite rdkf_spec, rfdkf_spec, Okf_spec, ikf_spec, Suf_spec, Cuf_spec. repeat split; ring.
  Qed.
End Lip.
