(* C20: the perigee / apogee clause in the drag-free case.  At the epoch, or at any time when B* = 0, an accepted element set
   with e0 <= 0.39 returns a geocentric distance between the model's perigee and apogee radii a0'' (1 -+ e0) XKMPER widened by
   40 km: a = a0'', e = e0, the long-period term moves a eL by at most 9 km, the short-period radius correction is below 19 km. *)
From Coq Require Import Reals Lra Lia.
From Coquelicot Require Import Rcomplements.
From PyOrb.lib Require Import PyReal SgpOutcome.
From PyOrb.spec Require Import Spec_SGP4.
From PyOrb.gen Require Import Gen_sgp4 Gen_sgp4_compose.
From PyOrb.proofs Require Import P_Sgp4Geometry P_Sgp4Init P_Sgp4Prop P_Sgp4Tree P_Sgp4Exits P_Sgp4Radius P_Sgp4SmallE P_Sgp4AnsweredEpoch.
Open Scope R_scope.

Section Frozen1.
  Variables e0 incl_deg raan_deg argp_deg ma_deg n_revday bstar ts : R.
  Notation "'GA' f" := (f e0 incl_deg raan_deg argp_deg ma_deg n_revday bstar) (at level 9, f at level 9).
  Notation "'GB' f" := (f e0 incl_deg raan_deg argp_deg ma_deg n_revday bstar ts) (at level 9, f at level 9).
  Let El := E e0 incl_deg raan_deg argp_deg ma_deg n_revday bstar.
  Let T := mkT false ts.
  Let ec := ecl e0 incl_deg raan_deg argp_deg ma_deg n_revday bstar ts.

  Hypothesis Hleaf : GA gen_init_outcome = InitMode NearNorm 1.
  Hypothesis Hfrozen : bstar = 0 \/ ts = 0.
  Hypothesis He39 : e0 <= 39 / 100.

  Theorem distance_between_perigee_and_apogee j Ew radius theta eqinc ascn rdk rfdk smjaxs :
    GB gen_nn1_prop_outcome = PropOk j ->
    exit_ok e0 incl_deg raan_deg argp_deg ma_deg n_revday bstar ts Ew radius theta eqinc ascn rdk rfdk smjaxs ->
    a0'' El * (1 - e0) * XKMPER - 40 <= radius <= a0'' El * (1 + e0) * XKMPER + 40.
  Proof.
    intros Hp Hex. destruct Hex as [Hr _]. fold El T ec in Hr.
    destruct (healthy_when_frozen e0 incl_deg raan_deg argp_deg ma_deg n_revday bstar ts Hleaf Hfrozen He39) as [_ [H2 H3]].
    fold El T ec in H2, H3.
    pose proof (leaf1_He _ _ _ _ _ _ _ Hleaf) as He. pose proof (leaf1_e_gt _ _ _ _ _ _ _ Hleaf) as Hegt.
    pose proof (perigee_guard e0 incl_deg raan_deg argp_deg ma_deg n_revday bstar Hleaf) as Hpg. fold El in Hpg.
    assert (Hfr : el_bstar El = 0 \/ ts = 0) by exact Hfrozen.
    pose proof (frozen_a El false ts Hfr) as Fa. pose proof (frozen_e El false ts Hfr) as Fe. fold T in Fa, Fe.
    change (el_e0 El) with e0 in Fe.
    assert (Hec : ec = e0).
    { unfold ec, ecl. fold El T. rewrite Fe. apply clamp_e_id.
      destruct (leaf1_facts _ _ _ _ _ _ _ Hleaf) as [[_ [_ [Hhi _]]] _]. lra. }
    rewrite Hec in *.
    assert (HA0 : 0 < a0'' El) by (unfold XKMPER in Hpg; nra).
    assert (Ha : 0 < a El T) by (rewrite Fa; exact HA0).
    assert (HeL1 : eL2 El T e0 < 1) by lra.
    pose proof (ayNL_bound El T e0 Ha ltac:(lra)) as Hy.
    pose proof (eL_triangle El T e0 ltac:(lra)) as Htri.
    pose proof (r_band El T e0 Ew Ha) as [Rlo Rhi].
    pose proof (rk_band El T e0 Ew Ha HeL1) as Bk.
    set (Q := sqrt (eL2 El T e0)) in *.
    assert (HQQ : Q * Q = eL2 El T e0) by (apply sqrt_sqrt; apply eL2_nonneg).
    assert (HpL : pL El T e0 = a El T * (1 - Q) * (1 + Q)) by (unfold pL; rewrite <- HQQ; ring).
    rewrite Fa in *.
    set (A := a0'' El) in *. set (y := Rabs (ayNL El T e0)) in *.
    set (r0 := r El T e0 Ew) in *. set (p := pL El T e0) in *. set (RK := rk El T e0 Ew) in *.
    assert (Hy0 : 0 <= y) by apply Rabs_pos. assert (HQ0 : 0 <= Q) by apply sqrt_pos.
    assert (HQ4 : Q <= 2 / 5).
    { destruct (Rle_lt_dec Q (2 / 5)) as [H|H]; [exact H|exfalso]. nra. }
    (* A y <= 0.0014 earth radii *)
    assert (HAy : A * y <= 14 / 10000).
    { assert (A * y * (1 - e0 ^ 2) <= A30 / (4 * k2)) by nra.
      assert (8479 / 10000 <= 1 - e0 ^ 2) by nra. unfold A30, k2 in *. nra. }
    (* short-period correction below 0.003 earth radii *)
    assert (HA0' : 0 < A) by (unfold A; exact HA0).
    assert (Hp1 : 1005 / 1000 <= p).
    { rewrite HpL. apply Rle_trans with (A * (1 - Q) * 1); [lra|]. apply Rmult_le_compat_l; lra. }
    assert (Hrp : r0 * (3 / 5) <= p).
    { rewrite HpL. apply Rle_trans with (A * (1 + Q) * (3 / 5)); [lra|].
      replace (A * (1 - Q) * (1 + Q)) with (A * (1 + Q) * (1 - Q)) by ring.
      apply Rmult_le_compat_l; [apply Rmult_le_pos; lra|lra]. }
    assert (Hcorr : 3 * k2 / p ^ 2 * r0 + k2 / (2 * p) <= 3 / 1000).
    { assert (Ip : 0 < / p <= 1000 / 1005).
      { split; [apply Rinv_0_lt_compat; lra|]. replace (1000 / 1005) with (/ (1005 / 1000)) by field. apply Rinv_le_contravar; lra. }
      assert (Hrp' : r0 * / p <= 5 / 3).
      { apply Rmult_le_reg_r with p; [lra|]. rewrite Rmult_assoc, Rinv_l by lra. lra. }
      assert (Hr0 : 0 < r0) by nra.
      replace (3 * k2 / p ^ 2 * r0 + k2 / (2 * p)) with (3 * k2 * (r0 * / p) * / p + k2 / 2 * / p) by (field; lra).
      assert (0 <= r0 * / p) by (apply Rmult_le_pos; lra).
      unfold k2. nra. }
    apply Rabs_le_between in Bk.
    assert (HAQ : A * Q <= A * e0 + 14 / 10000).
    { apply Rle_trans with (A * (e0 + y)); [apply Rmult_le_compat_l; lra|]. rewrite Rmult_plus_distr_l. lra. }
    assert (HAQ0 : 0 <= A * Q) by (apply Rmult_le_pos; lra).
    set (D := 3 * k2 / p ^ 2 * r0 + k2 / (2 * p)) in *.
    assert (E1 : A * (1 - Q) = A - A * Q) by ring. assert (E2 : A * (1 + Q) = A + A * Q) by ring.
    rewrite E1 in Rlo. rewrite E2 in Rhi.
    replace (A * (1 - e0) * XKMPER) with ((A - A * e0) * XKMPER) by ring.
    replace (A * (1 + e0) * XKMPER) with ((A + A * e0) * XKMPER) by ring.
    rewrite Hr. set (AQ := A * Q) in *. set (Ae := A * e0) in *.
    clear - Bk Hcorr Rlo Rhi HAQ HAQ0. unfold XKMPER. split; nra.
  Qed.
End Frozen1.

Section Frozen3.
  Variables e0 incl_deg raan_deg argp_deg ma_deg n_revday bstar ts : R.
  Notation "'GA' f" := (f e0 incl_deg raan_deg argp_deg ma_deg n_revday bstar) (at level 9, f at level 9).
  Notation "'GB' f" := (f e0 incl_deg raan_deg argp_deg ma_deg n_revday bstar ts) (at level 9, f at level 9).
  Let El := E e0 incl_deg raan_deg argp_deg ma_deg n_revday bstar.
  Let T := mkT true ts.
  Let ec := ecl3 e0 incl_deg raan_deg argp_deg ma_deg n_revday bstar ts.

  Hypothesis Hleaf : GA gen_init_outcome = InitMode NearNorm 3.
  Hypothesis Hfrozen : bstar = 0 \/ ts = 0.
  Hypothesis HA4 : a0'' El <= 4.

  Theorem distance_between_perigee_and_apogee3 j Ew radius theta eqinc ascn rdk rfdk smjaxs :
    GB gen_nn3_prop_outcome = PropOk j ->
    exit_ok3 e0 incl_deg raan_deg argp_deg ma_deg n_revday bstar ts Ew radius theta eqinc ascn rdk rfdk smjaxs ->
    a0'' El * (1 - e0) * XKMPER - 40 <= radius <= a0'' El * (1 + e0) * XKMPER + 40.
  Proof.
    intros Hp Hex. destruct Hex as [Hr _]. fold El T ec in Hr.
    destruct (healthy_when_frozen3 e0 incl_deg raan_deg argp_deg ma_deg n_revday bstar ts Hleaf Hfrozen) as [_ [H2 H3]].
    fold El T ec in H2, H3.
    pose proof (leaf3_He _ _ _ _ _ _ _ Hleaf) as He. pose proof (leaf3_e_le _ _ _ _ _ _ _ Hleaf) as Hele.
    pose proof (perigee_guard3 e0 incl_deg raan_deg argp_deg ma_deg n_revday bstar Hleaf) as Hpg. fold El in Hpg.
    assert (Hfr : el_bstar El = 0 \/ ts = 0) by exact Hfrozen.
    pose proof (frozen_a El true ts Hfr) as Fa. pose proof (frozen_e El true ts Hfr) as Fe. fold T in Fa, Fe.
    change (el_e0 El) with e0 in Fe.
    assert (Hec : 1 / 1000000 <= ec <= 1 / 10000).
    { unfold ec, ecl3. fold El T. rewrite Fe. apply clamp_small. lra. }
    assert (HA0 : 0 < a0'' El) by (unfold XKMPER in Hpg; nra).
    assert (HA1 : 1 + 220 / XKMPER <= a0'' El) by (unfold XKMPER in *; nra).
    assert (Ha : 0 < a El T) by (rewrite Fa; exact HA0).
    assert (HeL1 : eL2 El T ec < 1) by lra.
    pose proof (ayNL_bound El T ec Ha ltac:(lra)) as Hy.
    pose proof (eL_triangle El T ec ltac:(lra)) as Htri.
    pose proof (r_band El T ec Ew Ha) as [Rlo Rhi].
    pose proof (rk_band El T ec Ew Ha HeL1) as Bk.
    set (Q := sqrt (eL2 El T ec)) in *.
    assert (HQQ : Q * Q = eL2 El T ec) by (apply sqrt_sqrt; apply eL2_nonneg).
    assert (HpL : pL El T ec = a El T * (1 - Q) * (1 + Q)) by (unfold pL; rewrite <- HQQ; ring).
    rewrite Fa in *.
    set (A := a0'' El) in *. set (y := Rabs (ayNL El T ec)) in *.
    set (r0 := r El T ec Ew) in *. set (p := pL El T ec) in *. set (RK := rk El T ec Ew) in *.
    assert (Hy0 : 0 <= y) by apply Rabs_pos. assert (HQ0 : 0 <= Q) by apply sqrt_pos.
    assert (HQ4 : Q <= 2 / 5).
    { destruct (Rle_lt_dec Q (2 / 5)) as [H|H]; [exact H|exfalso]. nra. }
    assert (HAy : A * y <= 14 / 10000).
    { assert (9999 / 10000 <= 1 - ec ^ 2) by (clear - Hec; nra).
      assert (A * y * (9999 / 10000) <= A30 / (4 * k2)).
      { apply Rle_trans with (2 := Hy). replace (y * (A * (1 - ec ^ 2))) with (A * y * (1 - ec ^ 2)) by ring.
        apply Rmult_le_compat_l; [nra|lra]. }
      unfold A30, k2 in *. nra. }
    assert (HAe : A * ec <= A * e0 + 4 / 10000).
    { assert (ec <= e0 + 1 / 10000) by lra. apply Rle_trans with (A * (e0 + 1 / 10000)); [apply Rmult_le_compat_l; lra|].
      rewrite Rmult_plus_distr_l. lra. }
    assert (HA0' : 0 < A) by (unfold A; exact HA0).
    assert (Hp1 : 1005 / 1000 <= p).
    { rewrite HpL. apply Rle_trans with (A * (1 - Q) * 1); [lra|]. apply Rmult_le_compat_l; lra. }
    assert (Hrp : r0 * (3 / 5) <= p).
    { rewrite HpL. apply Rle_trans with (A * (1 + Q) * (3 / 5)); [lra|].
      replace (A * (1 - Q) * (1 + Q)) with (A * (1 + Q) * (1 - Q)) by ring.
      apply Rmult_le_compat_l; [apply Rmult_le_pos; lra|lra]. }
    assert (Hcorr : 3 * k2 / p ^ 2 * r0 + k2 / (2 * p) <= 3 / 1000).
    { assert (Ip : 0 < / p <= 1000 / 1005).
      { split; [apply Rinv_0_lt_compat; lra|]. replace (1000 / 1005) with (/ (1005 / 1000)) by field. apply Rinv_le_contravar; lra. }
      assert (Hrp' : r0 * / p <= 5 / 3).
      { apply Rmult_le_reg_r with p; [lra|]. rewrite Rmult_assoc, Rinv_l by lra. lra. }
      assert (Hr0 : 0 < r0) by nra.
      replace (3 * k2 / p ^ 2 * r0 + k2 / (2 * p)) with (3 * k2 * (r0 * / p) * / p + k2 / 2 * / p) by (field; lra).
      assert (0 <= r0 * / p) by (apply Rmult_le_pos; lra).
      unfold k2. nra. }
    apply Rabs_le_between in Bk.
    assert (HAQ : A * Q <= A * e0 + 4 / 10000 + 14 / 10000).
    { apply Rle_trans with (A * (ec + y)); [apply Rmult_le_compat_l; lra|]. rewrite Rmult_plus_distr_l. lra. }
    assert (HAQ0 : 0 <= A * Q) by (apply Rmult_le_pos; lra).
    set (D := 3 * k2 / p ^ 2 * r0 + k2 / (2 * p)) in *.
    assert (E1 : A * (1 - Q) = A - A * Q) by ring. assert (E2 : A * (1 + Q) = A + A * Q) by ring.
    rewrite E1 in Rlo. rewrite E2 in Rhi.
    replace (A * (1 - e0) * XKMPER) with ((A - A * e0) * XKMPER) by ring.
    replace (A * (1 + e0) * XKMPER) with ((A + A * e0) * XKMPER) by ring.
    rewrite Hr. set (AQ := A * Q) in *. set (Ae := A * e0) in *.
    clear - Bk Hcorr Rlo Rhi HAQ HAQ0. unfold XKMPER. split; nra.
  Qed.
End Frozen3.
