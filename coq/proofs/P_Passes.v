(* P_Passes.v — proofs about the pass-pairing logic of Orbital.get_next_passes (model M_Passes.v).
   Everything here holds for EVERY sample list (any length) and EVERY oracle `root` that meets the
   stated contract; nothing about brentq, the parabolic iteration or SGP4 is proved. *)
From Coq Require Import List ZArith QArith Qround Qminmax Bool Lia Sorted Lqa.
From PyOrb.model Require Import M_Passes.
Import ListNotations.
Open Scope Z_scope.

(* ------------------------------------------------------------------ *)
(* generic list facts                                                   *)
(* ------------------------------------------------------------------ *)
Lemma ssorted_seq : forall n a, StronglySorted lt (seq a n).
Proof.
  induction n as [|n IH]; intros a; cbn [seq]; constructor; [apply IH|].
  apply Forall_forall. intros x Hx. apply in_seq in Hx. lia.
Qed.

Lemma ssorted_filter (f : nat -> bool) l : StronglySorted lt l -> StronglySorted lt (filter f l).
Proof.
  induction 1 as [|a l Hs IH Hf]; cbn [filter]; [constructor|].
  destruct (f a); [constructor|]; auto.
  apply Forall_forall. intros x Hx. apply filter_In in Hx as [Hx _].
  rewrite Forall_forall in Hf. auto.
Qed.

Lemma ssorted_app_inv (A : Type) (R : A -> A -> Prop) l1 x l2 :
  StronglySorted R (l1 ++ x :: l2) ->
  (forall y, In y l1 -> R y x) /\ (forall y, In y l2 -> R x y) /\ StronglySorted R l2
  /\ (forall y z, In y l1 -> In z l2 -> R y z).
Proof.
  induction l1 as [|a l1 IH]; cbn [app]; intros H.
  - apply StronglySorted_inv in H as [H1 H2]. rewrite Forall_forall in H2.
    split; [intros y []|]. split; [exact H2|]. split; [exact H1|]. intros y z [].
  - apply StronglySorted_inv in H as [H1 H2]. rewrite Forall_forall in H2.
    destruct (IH H1) as (I1 & I2 & I3 & I4). repeat split; auto.
    + intros y [<-|Hy]; [apply H2, in_or_app; right; left; reflexivity | auto].
    + intros y z [<-|Hy] Hz; [apply H2, in_or_app; right; right; exact Hz | auto].
Qed.

Lemma ssorted_map_inj (A : Type) (f : A -> nat) l x y :
  StronglySorted lt (map f l) -> In x l -> In y l -> f x = f y -> x = y.
Proof.
  induction l as [|a l IH]; cbn [map]; intros H Hx Hy E; [destruct Hx|].
  apply StronglySorted_inv in H as [H1 H2]. rewrite Forall_forall in H2.
  destruct Hx as [<-|Hx], Hy as [<-|Hy]; auto.
  - exfalso. specialize (H2 (f y) (in_map f l y Hy)). lia.
  - exfalso. specialize (H2 (f x) (in_map f l x Hx)). lia.
Qed.

(* ------------------------------------------------------------------ *)
(* zcs                                                                  *)
(* ------------------------------------------------------------------ *)
Lemma zcs_In xs g :
  In g (zcs xs) <-> (S g < length xs)%nat /\
    ((sample xs g < 0 /\ 0 <= sample xs (S g)) \/ (0 <= sample xs g /\ sample xs (S g) < 0)).
Proof.
  unfold zcs, sign_change, neg. rewrite filter_In, in_seq, negb_true_iff.
  destruct (Z.ltb_spec (sample xs g) 0), (Z.ltb_spec (sample xs (S g)) 0); cbn [Bool.eqb]; split; intros [A B];
    (split; [lia|]); try discriminate; try reflexivity; try lia.
Qed.

Lemma zcs_sorted xs : StronglySorted lt (zcs xs).
Proof. apply ssorted_filter, ssorted_seq. Qed.

(* ------------------------------------------------------------------ *)
(* the pairing loop                                                     *)
(* ------------------------------------------------------------------ *)
Definition upd (xs : list Z) (st : option nat) (g : nat) : option nat :=
  if sample xs g <? 0 then Some g else st.
Definition state_after (xs : list Z) (zs : list nat) (st : option nat) : option nat :=
  fold_left (upd xs) zs st.

Lemma pairs_app xs l1 : forall l2 st,
  pairs xs (l1 ++ l2) st = pairs xs l1 st ++ pairs xs l2 (state_after xs l1 st).
Proof.
  induction l1 as [|g l1 IH]; intros l2 st; [reflexivity|].
  cbn [app pairs state_after fold_left]. unfold upd at 2.
  destruct (sample xs g <? 0).
  - apply IH.
  - destruct st as [rg|]; [cbn [app]; f_equal|]; apply IH.
Qed.

Lemma state_after_Some xs l : forall st rg,
  state_after xs l st = Some rg ->
  (exists a b, l = a ++ rg :: b /\ sample xs rg < 0 /\ forall h, In h b -> 0 <= sample xs h)
  \/ (st = Some rg /\ forall h, In h l -> 0 <= sample xs h).
Proof.
  induction l as [|g l IH]; intros st rg H.
  - right. split; [exact H | intros h []].
  - cbn [state_after fold_left] in H. apply IH in H as [(a & b & -> & H1 & H2)|[H1 H2]].
    + left. exists (g :: a), b. auto.
    + unfold upd in H1. destruct (sample xs g <? 0) eqn:E.
      * left. injection H1 as <-. exists [], l. apply Z.ltb_lt in E. auto.
      * right. apply Z.ltb_ge in E. split; [exact H1|]. intros h [<-|Hh]; auto.
Qed.

Lemma pairs_In xs zs : forall st rg fg,
  In (rg, fg) (pairs xs zs st) ->
  exists l1 l2, zs = l1 ++ fg :: l2 /\ 0 <= sample xs fg /\ state_after xs l1 st = Some rg.
Proof.
  induction zs as [|g zs IH]; intros st rg fg H; [destruct H|].
  cbn [pairs] in H. destruct (sample xs g <? 0) eqn:E.
  - apply IH in H as (l1 & l2 & -> & H1 & H2). exists (g :: l1), l2.
    cbn [state_after fold_left]. unfold upd. rewrite E. auto.
  - apply Z.ltb_ge in E. destruct st as [r|].
    + destruct H as [H|H].
      * injection H as <- <-. exists [], zs. auto.
      * apply IH in H as (l1 & l2 & -> & H1 & H2). exists (g :: l1), l2.
        cbn [state_after fold_left]. unfold upd.
        destruct (sample xs g <? 0) eqn:E'; [apply Z.ltb_lt in E'; lia|]. auto.
    + apply IH in H as (l1 & l2 & -> & H1 & H2). exists (g :: l1), l2.
      cbn [state_after fold_left]. unfold upd.
      destruct (sample xs g <? 0) eqn:E'; [apply Z.ltb_lt in E'; lia|]. auto.
Qed.

Lemma pairs_snd_sorted xs zs : forall st,
  StronglySorted lt zs -> StronglySorted lt (map snd (pairs xs zs st)).
Proof.
  induction zs as [|g zs IH]; intros st H; [constructor|].
  apply StronglySorted_inv in H as [H1 H2]. rewrite Forall_forall in H2.
  cbn [pairs]. destruct (sample xs g <? 0); [apply IH; exact H1|].
  destruct st as [r|]; [|apply IH; exact H1].
  cbn [map snd]. constructor; [apply IH; exact H1|].
  apply Forall_forall. intros x Hx. apply in_map_iff in Hx as ([a b] & <- & Hp).
  apply pairs_In in Hp as (l1 & l2 & -> & _ & _). apply H2, in_or_app. right. left. reflexivity.
Qed.

(* structure of one reported (rise guess, fall guess) pair *)
Lemma pair_struct xs rg fg :
  In (rg, fg) (pass_pairs xs) ->
  In rg (zcs xs) /\ In fg (zcs xs) /\ (rg < fg)%nat /\ sample xs rg < 0 /\ 0 <= sample xs fg /\
  (forall h, In h (zcs xs) -> (rg < h < fg)%nat -> 0 <= sample xs h).
Proof.
  unfold pass_pairs. intros H. apply pairs_In in H as (l1 & l2 & E & Hf & Hs).
  apply state_after_Some in Hs as [(a & b & -> & Hr & Hb)|[Hs _]]; [|discriminate].
  pose proof (zcs_sorted xs) as S. rewrite E in S.
  destruct (ssorted_app_inv _ _ _ _ _ S) as (S1 & S2 & _ & _).
  rewrite <- app_assoc in S. cbn [app] in S.
  destruct (ssorted_app_inv _ _ _ _ _ S) as (T1 & T2 & _ & _).
  assert (Irg : In rg (zcs xs)). { rewrite E. apply in_or_app. left. apply in_or_app. right. left. reflexivity. }
  assert (Ifg : In fg (zcs xs)). { rewrite E. apply in_or_app. right. left. reflexivity. }
  assert (L : (rg < fg)%nat). { apply S1, in_or_app. right. left. reflexivity. }
  repeat split; auto.
  intros h Hh Hr'. rewrite E in Hh. apply Hb.
  apply in_app_or in Hh as [Hh|Hh].
  - apply in_app_or in Hh as [Hh|[<-|Hh]]; [apply T1 in Hh; lia | lia | exact Hh].
  - destruct Hh as [<-|Hh]; [lia | apply S2 in Hh; lia].
Qed.

(* no sample between the rise bracket and the fall bracket is below the horizon *)
Lemma find_upcross xs fg : forall d i,
  (i + d = fg)%nat -> sample xs i < 0 -> 0 <= sample xs fg ->
  exists j, (i <= j < fg)%nat /\ sample xs j < 0 /\ 0 <= sample xs (S j).
Proof.
  induction d as [|d IH]; intros i E Hi Hf.
  - replace i with fg in Hi by lia. lia.
  - destruct (Z_lt_ge_dec (sample xs (S i)) 0) as [N|P].
    + destruct (IH (S i)) as (j & Hj & H1 & H2); [lia|exact N|exact Hf|]. exists j. repeat split; auto; lia.
    + exists i. repeat split; auto; lia.
Qed.

Lemma pair_samples_nonneg xs rg fg :
  In (rg, fg) (pass_pairs xs) -> forall i, (rg < i <= fg)%nat -> 0 <= sample xs i.
Proof.
  intros H i Hi. destruct (pair_struct _ _ _ H) as (Irg & Ifg & L & Hr & Hf & Hm).
  destruct (Z_lt_ge_dec (sample xs i) 0) as [N|P]; [exfalso|lia].
  destruct (find_upcross xs fg (fg - i) i) as (j & Hj & H1 & H2); [lia|exact N|exact Hf|].
  assert (Ij : In j (zcs xs)).
  { apply zcs_In. apply zcs_In in Ifg as [Lf _]. split; [lia|]. left. lia. }
  specialize (Hm j Ij). lia.
Qed.

Definition nozero (xs : list Z) : Prop := forall i, (i < length xs)%nat -> sample xs i <> 0.

Lemma pair_samples_pos xs rg fg :
  nozero xs -> In (rg, fg) (pass_pairs xs) -> forall i, (rg < i <= fg)%nat -> 0 < sample xs i.
Proof.
  intros NZ H i Hi. pose proof (pair_samples_nonneg _ _ _ H i Hi) as P.
  destruct (pair_struct _ _ _ H) as (_ & Ifg & _). apply zcs_In in Ifg as [Lf _].
  specialize (NZ i). lia.
Qed.

Lemma pair_after_fall_neg xs rg fg :
  In (rg, fg) (pass_pairs xs) -> sample xs (S fg) < 0.
Proof.
  intros H. destruct (pair_struct _ _ _ H) as (_ & Ifg & L & _ & Hf & _).
  apply zcs_In in Ifg as [Lf D]. lia.
Qed.

(* order of the reported pairs *)
Lemma pairs_order xs l1 p1 l2 p2 l3 :
  pass_pairs xs = l1 ++ p1 :: l2 ++ p2 :: l3 -> (snd p1 < snd p2)%nat.
Proof.
  intros E. pose proof (pairs_snd_sorted xs (zcs xs) None (zcs_sorted xs)) as S.
  fold (pass_pairs xs) in S. rewrite E, map_app in S. cbn [map] in S.
  destruct (ssorted_app_inv _ _ _ _ _ S) as (_ & S2 & _). apply S2.
  rewrite map_app. apply in_or_app. right. left. reflexivity.
Qed.

Lemma pairs_disjoint xs l1 r1 f1 l2 r2 f2 l3 :
  pass_pairs xs = l1 ++ (r1, f1) :: l2 ++ (r2, f2) :: l3 -> (f1 < r2)%nat.
Proof.
  intros E. pose proof (pairs_order _ _ _ _ _ _ E) as O. cbn [snd] in O.
  assert (I1 : In (r1, f1) (pass_pairs xs)). { rewrite E. apply in_or_app. right. left. reflexivity. }
  assert (I2 : In (r2, f2) (pass_pairs xs)).
  { rewrite E. apply in_or_app. right. right. apply in_or_app. right. left. reflexivity. }
  pose proof (pair_after_fall_neg _ _ _ I1) as N.
  destruct (pair_struct _ _ _ I1) as (_ & _ & _ & _ & Hf1 & _).
  destruct (pair_struct _ _ _ I2) as (_ & _ & _ & Hr2 & _ & _).
  destruct (le_lt_dec r2 f1) as [L|L]; [exfalso|exact L].
  assert (r2 <> f1) by (intros ->; lia).
  pose proof (pair_samples_nonneg _ _ _ I2 (S f1)). lia.
Qed.

Lemma pairs_fg_unique xs p q :
  In p (pass_pairs xs) -> In q (pass_pairs xs) -> snd p = snd q -> p = q.
Proof.
  apply ssorted_map_inj. apply pairs_snd_sorted, zcs_sorted.
Qed.

(* completeness, discrete core: a maximal run r+1..b of positive samples flanked by negative
   samples inside the window is reported, with exactly these brackets *)
Lemma run_reported xs r b :
  (r < b)%nat -> (S b < length xs)%nat -> sample xs r < 0 ->
  (forall i, (r < i <= b)%nat -> 0 <= sample xs i) -> sample xs (S b) < 0 ->
  In (r, b) (pass_pairs xs).
Proof.
  intros L Lb Hr Hrun Hb.
  assert (Ir : In r (zcs xs)).
  { apply zcs_In. split; [lia|]. left. split; [lia|]. apply Hrun. lia. }
  assert (Ib : In b (zcs xs)).
  { apply zcs_In. split; [lia|]. right. split; [|lia]. apply Hrun. lia. }
  destruct (in_split _ _ Ir) as (l1 & rest & E).
  pose proof (zcs_sorted xs) as S. rewrite E in S.
  destruct (ssorted_app_inv _ _ _ _ _ S) as (S1 & S2 & S3 & _).
  assert (Ib' : In b rest).
  { rewrite E in Ib. apply in_app_or in Ib as [Ib|[Ib|Ib]]; [apply S1 in Ib; lia | lia | exact Ib]. }
  destruct (in_split _ _ Ib') as (m1 & l2 & E2). subst rest.
  destruct (ssorted_app_inv _ _ _ _ _ S3) as (T1 & _).
  destruct m1 as [|h m1].
  - unfold pass_pairs. rewrite E, pairs_app. apply in_or_app. right.
    cbn [app pairs]. destruct (sample xs r <? 0) eqn:E1; [|apply Z.ltb_ge in E1; lia].
    destruct (sample xs b <? 0) eqn:E2; [apply Z.ltb_lt in E2; specialize (Hrun b); lia|].
    left. reflexivity.
  - exfalso. assert (Hh : In h (zcs xs)). { rewrite E. apply in_or_app. right. right. left. reflexivity. }
    assert (r < h)%nat by (apply S2; left; reflexivity).
    assert (h < b)%nat by (apply T1; left; reflexivity).
    apply zcs_In in Hh as [_ D]. pose proof (Hrun h). pose proof (Hrun (Datatypes.S h)). lia.
Qed.

(* ------------------------------------------------------------------ *)
(* np.argmax and slices                                                 *)
(* ------------------------------------------------------------------ *)
Lemma argmax_aux_spec : forall l pre best,
  (best < length pre)%nat ->
  (forall k, (k < length pre)%nat -> nth k pre 0 <= nth best pre 0) ->
  (forall k, (k < best)%nat -> nth k pre 0 < nth best pre 0) ->
  let m := argmax_aux l (length pre) best (nth best pre 0) in
  (m < length (pre ++ l))%nat /\
  (forall k, (k < length (pre ++ l))%nat -> nth k (pre ++ l) 0 <= nth m (pre ++ l) 0) /\
  (forall k, (k < m)%nat -> nth k (pre ++ l) 0 < nth m (pre ++ l) 0).
Proof.
  induction l as [|a l IH]; intros pre best Hb H1 H2; cbn [argmax_aux].
  - rewrite app_nil_r. auto.
  - assert (La : length (pre ++ [a]) = S (length pre)) by (rewrite app_length; cbn; lia).
    assert (Na : nth (length pre) (pre ++ [a]) 0 = a).
    { rewrite app_nth2 by lia. rewrite Nat.sub_diag. reflexivity. }
    assert (Nk : forall k, (k < length pre)%nat -> nth k (pre ++ [a]) 0 = nth k pre 0).
    { intros k Hk. apply app_nth1. exact Hk. }
    replace (pre ++ a :: l) with ((pre ++ [a]) ++ l) by (rewrite <- app_assoc; reflexivity).
    destruct (nth best pre 0 <? a) eqn:E.
    + apply Z.ltb_lt in E. specialize (IH (pre ++ [a]) (length pre)).
      rewrite La, Na in IH. apply IH; [lia| |].
      * intros k Hk. destruct (Nat.eq_dec k (length pre)) as [->|Hn]; [lia|].
        rewrite Nk by lia. specialize (H1 k). lia.
      * intros k Hk. rewrite Nk by lia. specialize (H1 k). lia.
    + apply Z.ltb_ge in E. specialize (IH (pre ++ [a]) best).
      rewrite La, (Nk best Hb) in IH. apply IH; [lia| |].
      * intros k Hk. destruct (Nat.eq_dec k (length pre)) as [->|Hn]; [lia|].
        rewrite Nk by lia. apply H1. lia.
      * intros k Hk. rewrite Nk by lia. apply H2. exact Hk.
Qed.

Lemma argmax_spec l : l <> [] ->
  exists m, argmax l = Some m /\ (m < length l)%nat /\
    (forall k, (k < length l)%nat -> nth k l 0 <= nth m l 0) /\
    (forall k, (k < m)%nat -> nth k l 0 < nth m l 0).
Proof.
  destruct l as [|x t]; [congruence|]. intros _. exists (argmax_aux t 1 0 x). split; [reflexivity|].
  apply (argmax_aux_spec t [x] 0%nat); cbn [length nth]; [lia| |].
  - intros k Hk. replace k with 0%nat by lia. lia.
  - intros k Hk. lia.
Qed.

Lemma nth_firstn_lt (l : list Z) : forall n k, (k < n)%nat -> nth k (firstn n l) 0 = nth k l 0.
Proof.
  induction l as [|a l IH]; intros n k H; [rewrite firstn_nil; reflexivity|].
  destruct n; [lia|]. destruct k; [reflexivity|]. cbn [firstn nth]. apply IH. lia.
Qed.
Lemma nth_skipn_add (l : list Z) : forall s k, nth k (skipn s l) 0 = nth (s + k) l 0.
Proof.
  induction l as [|a l IH]; intros s k.
  - rewrite skipn_nil. destruct k, (s + _)%nat; reflexivity.
  - destruct s; [reflexivity|]. cbn [skipn plus nth]. apply IH.
Qed.

Lemma slice_length xs s e : (e <= length xs)%nat -> length (slice xs s e) = (e - s)%nat.
Proof. intros H. unfold slice. rewrite firstn_length, skipn_length. lia. Qed.
Lemma slice_nth xs s e k : (k < e - s)%nat -> nth k (slice xs s e) 0 = sample xs (s + k).
Proof. intros H. unfold slice, sample. rewrite nth_firstn_lt by exact H. apply nth_skipn_add. Qed.

Lemma slice_argmax xs s e : (s < e <= length xs)%nat ->
  exists m, argmax (slice xs s e) = Some m /\ (s + m < e)%nat /\
    (forall i, (s <= i < e)%nat -> sample xs i <= sample xs (s + m)) /\
    (forall i, (s <= i < s + m)%nat -> sample xs i < sample xs (s + m)).
Proof.
  intros H. assert (L : length (slice xs s e) = (e - s)%nat) by (apply slice_length; lia).
  destruct (argmax_spec (slice xs s e)) as (m & E & Hm & H1 & H2).
  { intros N. rewrite N in L. cbn in L. lia. }
  rewrite L in Hm, H1. exists m. split; [exact E|]. split; [lia|]. split.
  - intros i Hi. specialize (H1 (i - s)%nat). rewrite !slice_nth in H1 by lia.
    replace (s + (i - s))%nat with i in H1 by lia. apply H1. lia.
  - intros i Hi. specialize (H2 (i - s)%nat). rewrite !slice_nth in H2 by lia.
    replace (s + (i - s))%nat with i in H2 by lia. apply H2. lia.
Qed.

(* ------------------------------------------------------------------ *)
(* the reported passes (minutes as rationals)                           *)
(* ------------------------------------------------------------------ *)
(* contract of _get_root on a bracketing minute: the result lies in it (brentq returns a point of
   its bracket; the fall-back added by fix 4faaafe returns an end point) *)
Definition root_ok (xs : list Z) (root : nat -> Q) : Prop :=
  forall g, In g (zcs xs) -> (qn g <= root g /\ root g <= qn (S g))%Q.
(* when a single non-negative sample lies between two negative ones, the two roots differ
   (true for real crossings of an interval of positive length) *)
Definition root_sep (xs : list Z) (root : nat -> Q) : Prop :=
  forall g, In g (zcs xs) -> In (S g) (zcs xs) -> (root g < root (S g))%Q.

Lemma qn_le a b : (a <= b)%nat -> (qn a <= qn b)%Q.
Proof. intros H. unfold qn. rewrite <- Zle_Qle. lia. Qed.
Lemma qn_lt a b : (a < b)%nat -> (qn a < qn b)%Q.
Proof. intros H. unfold qn. rewrite <- Zlt_Qlt. lia. Qed.
Lemma qn_le_inv a b : (qn a <= qn b)%Q -> (a <= b)%nat.
Proof. unfold qn. rewrite <- Zle_Qle. lia. Qed.
Lemma qn_lt_inv a b : (qn a < qn b)%Q -> (a < b)%nat.
Proof. unfold qn. rewrite <- Zlt_Qlt. lia. Qed.

Lemma Qltb_lt x y : Qltb x y = true <-> (x < y)%Q.
Proof.
  unfold Qltb. rewrite negb_true_iff. split.
  - intros H. apply Qnot_le_lt. intros L. apply Qle_bool_iff in L. congruence.
  - intros H. destruct (Qle_bool y x) eqn:E; [|reflexivity]. apply Qle_bool_iff in E.
    exfalso. apply (Qlt_not_le _ _ H E).
Qed.

Lemma root_sep_lt xs root rg fg :
  root_ok xs root -> root_sep xs root -> In rg (zcs xs) -> In fg (zcs xs) -> (rg < fg)%nat ->
  (root rg < root fg)%Q.
Proof.
  intros R Sp Ir If L. destruct (Nat.eq_dec fg (S rg)) as [->|N]; [apply Sp; assumption|].
  destruct (R rg Ir) as [_ A]. destruct (R fg If) as [B _].
  apply Qle_lt_trans with (qn (S rg)); [exact A|]. apply Qlt_le_trans with (qn fg); [apply qn_lt; lia | exact B].
Qed.

Lemma passes_In xs root p :
  In p (passes xs root) <->
  exists rg fg, In (rg, fg) (pass_pairs xs) /\ (root rg < root fg)%Q /\ p = mkpass xs root (rg, fg).
Proof.
  unfold passes. rewrite in_map_iff. split.
  - intros ([rg fg] & <- & H). apply filter_In in H as [H G]. apply Qltb_lt in G. exists rg, fg. auto.
  - intros (rg & fg & H & G & ->). exists (rg, fg). split; [reflexivity|].
    apply filter_In. split; [exact H|]. apply Qltb_lt. exact G.
Qed.

Lemma mkpass_rg xs root rg fg : p_rg (mkpass xs root (rg, fg)) = rg. Proof. reflexivity. Qed.
Lemma mkpass_fg xs root rg fg : p_fg (mkpass xs root (rg, fg)) = fg. Proof. reflexivity. Qed.
Lemma mkpass_rise xs root rg fg : p_rise (mkpass xs root (rg, fg)) = root rg. Proof. reflexivity. Qed.
Lemma mkpass_fall xs root rg fg : p_fall (mkpass xs root (rg, fg)) = root fg. Proof. reflexivity. Qed.

(* rise < fall for every reported pass: the guard `if not risemins < fallmins: continue` *)
Lemma pass_rise_lt_fall xs root p : In p (passes xs root) -> (p_rise p < p_fall p)%Q.
Proof.
  intros H. apply passes_In in H as (rg & fg & _ & G & ->). rewrite mkpass_rise, mkpass_fall. exact G.
Qed.

(* each pass: rise guess before fall guess, roots in their minutes *)
Lemma pass_order xs root p :
  root_ok xs root -> In p (passes xs root) ->
  (p_rg p < p_fg p)%nat /\ In (p_rg p) (zcs xs) /\ In (p_fg p) (zcs xs) /\
  (qn (p_rg p) <= p_rise p /\ p_rise p <= qn (S (p_rg p)))%Q /\
  (qn (p_fg p) <= p_fall p /\ p_fall p <= qn (S (p_fg p)))%Q /\
  (0 <= p_rise p /\ p_rise p < p_fall p /\ p_fall p <= qn (length xs - 1))%Q.
Proof.
  intros R H. pose proof (pass_rise_lt_fall _ _ _ H) as G.
  apply passes_In in H as (rg & fg & H & _ & ->).
  rewrite mkpass_rg, mkpass_fg, mkpass_rise, mkpass_fall in *.
  destruct (pair_struct _ _ _ H) as (Irg & Ifg & L & _).
  destruct (R rg Irg) as [R1 R2]. destruct (R fg Ifg) as [F1 F2].
  repeat split; auto.
  - apply Qle_trans with (qn rg); [|exact R1]. unfold qn. change 0%Q with (inject_Z 0). rewrite <- Zle_Qle. lia.
  - apply Qle_trans with (qn (S fg)); [exact F2|]. apply qn_le. apply zcs_In in Ifg as [Lf _]. lia.
Qed.

Lemma filter_split (A : Type) (f : A -> bool) (l : list A) : forall a x b,
  filter f l = a ++ x :: b ->
  exists l1 l2, l = l1 ++ x :: l2 /\ filter f l1 = a /\ filter f l2 = b.
Proof.
  induction l as [|h l IH]; intros a x b E; cbn [filter] in E.
  - destruct a; discriminate.
  - destruct (f h) eqn:F.
    + destruct a as [|a0 a].
      * cbn [app] in E. injection E as <- E. exists [], l. auto.
      * cbn [app] in E. injection E as <- E. apply IH in E as (l1 & l2 & -> & <- & <-).
        exists (h :: l1), l2. cbn [filter app]. rewrite F. auto.
    + apply IH in E as (l1 & l2 & -> & <- & <-). exists (h :: l1), l2. cbn [filter app]. rewrite F. auto.
Qed.

Lemma passes_split xs root l1 p1 l2 p2 l3 :
  passes xs root = l1 ++ p1 :: l2 ++ p2 :: l3 ->
  exists k1 a1 k2 a2 k3, pass_pairs xs = k1 ++ a1 :: k2 ++ a2 :: k3 /\
     p1 = mkpass xs root a1 /\ p2 = mkpass xs root a2.
Proof.
  unfold passes. intros E.
  apply map_eq_app in E as (k1 & r1 & E1 & _ & E). apply map_eq_cons in E as (a1 & r2 & -> & <- & E).
  apply map_eq_app in E as (k2 & r3 & -> & _ & E). apply map_eq_cons in E as (a2 & k3 & -> & <- & _).
  apply filter_split in E1 as (m1 & m2 & E1 & _ & E2).
  apply filter_split in E2 as (m3 & m4 & -> & _ & _).
  exists m1, a1, m3, a2, m4. auto.
Qed.

(* passes are reported in time order and do not overlap *)
Lemma passes_disjoint xs root l1 p1 l2 p2 l3 :
  root_ok xs root -> passes xs root = l1 ++ p1 :: l2 ++ p2 :: l3 ->
  (p_fg p1 < p_rg p2)%nat /\ (p_fall p1 <= p_rise p2)%Q.
Proof.
  intros R E. apply passes_split in E as (k1 & [r1 f1] & k2 & [r2 f2] & k3 & E & -> & ->).
  pose proof (pairs_disjoint _ _ _ _ _ _ _ _ E) as D.
  rewrite mkpass_rg, mkpass_fg, mkpass_rise, mkpass_fall. split; [exact D|].
  assert (I1 : In (r1, f1) (pass_pairs xs)). { rewrite E. apply in_or_app. right. left. reflexivity. }
  assert (I2 : In (r2, f2) (pass_pairs xs)).
  { rewrite E. apply in_or_app. right. right. apply in_or_app. right. left. reflexivity. }
  destruct (pair_struct _ _ _ I1) as (_ & If1 & _). destruct (pair_struct _ _ _ I2) as (Ir2 & _).
  destruct (R f1 If1) as [_ X1]. destruct (R r2 Ir2) as [X2 _].
  apply Qle_trans with (qn (S f1)); [exact X1|]. apply Qle_trans with (qn r2); [apply qn_le; lia | exact X2].
Qed.

(* soundness on the samples *)
Lemma pass_samples xs root p :
  In p (passes xs root) ->
  (forall i, (p_rg p < i <= p_fg p)%nat -> 0 <= sample xs i) /\
  sample xs (p_rg p) < 0 /\ sample xs (S (p_fg p)) < 0.
Proof.
  intros H. apply passes_In in H as (rg & fg & H & _ & ->). rewrite mkpass_rg, mkpass_fg.
  split; [apply pair_samples_nonneg; exact H|].
  split; [apply (pair_struct _ _ _ H) | eapply pair_after_fall_neg; eassumption].
Qed.

Lemma pass_samples_between xs root p :
  root_ok xs root -> In p (passes xs root) ->
  forall i, (p_rise p < qn i /\ qn i < p_fall p)%Q -> 0 <= sample xs i.
Proof.
  intros R H i [H1 H2]. destruct (pass_order _ _ _ R H) as (_ & _ & _ & [A _] & [_ B] & _).
  destruct (pass_samples _ _ _ H) as (P & _). apply P.
  assert (qn (p_rg p) < qn i)%Q by (eapply Qle_lt_trans; eassumption).
  assert (qn i < qn (S (p_fg p)))%Q by (eapply Qlt_le_trans; eassumption).
  apply qn_lt_inv in H0, H3. lia.
Qed.

(* completeness on the samples *)
Lemma run_pass xs root r b :
  (r < b)%nat -> (S b < length xs)%nat -> sample xs r < 0 ->
  (forall i, (r < i <= b)%nat -> 0 <= sample xs i) -> sample xs (S b) < 0 ->
  (root r < root b)%Q ->
  exists p, In p (passes xs root) /\ p_rg p = r /\ p_fg p = b /\
    p_rise p = root r /\ p_fall p = root b /\
    (forall q, In q (passes xs root) -> p_fg q = b -> q = p).
Proof.
  intros L Lb Hr Hrun Hb G. pose proof (run_reported xs r b L Lb Hr Hrun Hb) as I.
  exists (mkpass xs root (r, b)). split; [apply passes_In; exists r, b; auto|].
  repeat split; auto.
  intros q Hq E. apply passes_In in Hq as (rg & fg & Hq & _ & ->). rewrite mkpass_fg in E. subst fg.
  f_equal. apply (pairs_fg_unique xs); auto.
Qed.

Lemma run_pass_sep xs root r b :
  root_ok xs root -> root_sep xs root ->
  (r < b)%nat -> (S b < length xs)%nat -> sample xs r < 0 ->
  (forall i, (r < i <= b)%nat -> 0 <= sample xs i) -> sample xs (S b) < 0 ->
  exists p, In p (passes xs root) /\ p_rg p = r /\ p_fg p = b /\
    p_rise p = root r /\ p_fall p = root b /\
    (forall q, In q (passes xs root) -> p_fg q = b -> q = p).
Proof.
  intros R Sp L Lb Hr Hrun Hb. apply run_pass; auto.
  destruct (pair_struct _ _ _ (run_reported xs r b L Lb Hr Hrun Hb)) as (Ir & Ib & _).
  apply (root_sep_lt xs); assumption.
Qed.

(* ------------------------------------------------------------------ *)
(* the culmination bracket                                              *)
(* ------------------------------------------------------------------ *)
Lemma floor_in g (x : Q) : (qn g <= x /\ x <= qn (S g))%Q ->
  (g <= Z.to_nat (Z.max 0 (Qfloor x)) <= S g)%nat.
Proof.
  intros [A B]. apply Qfloor_resp_le in A, B. unfold qn in A, B. rewrite Qfloor_Z in A, B. lia.
Qed.
Lemma ceil_in n g (x : Q) : (S g < n)%nat -> (qn g <= x /\ x <= qn (S g))%Q ->
  (S g <= Z.to_nat (Z.min (Z.of_nat n) (Qceiling x + 1)) <= S (S g))%nat.
Proof.
  intros L [A B]. apply Qceiling_resp_le in A, B. unfold qn in A, B. rewrite Qceiling_Z in A, B. lia.
Qed.

Lemma pass_bracket xs root p :
  root_ok xs root -> In p (passes xs root) ->
  p_ok p = true /\
  (p_rg p <= p_istart p <= S (p_rg p))%nat /\ (S (p_fg p) <= p_iend p <= S (S (p_fg p)))%nat /\
  (p_iend p <= length xs)%nat /\ (p_istart p <= p_middle p < p_iend p)%nat /\
  (forall i, (p_istart p <= i < p_iend p)%nat -> sample xs i <= sample xs (p_middle p)) /\
  (forall i, (p_istart p <= i < p_middle p)%nat -> sample xs i < sample xs (p_middle p)) /\
  (p_lo p == Qmax (p_rise p) (inject_Z (Z.of_nat (p_middle p) - 1)))%Q /\
  (p_hi p == Qmin (p_fall p) (inject_Z (Z.of_nat (p_middle p) + 1)))%Q /\
  (p_rise p <= p_lo p /\ p_lo p < p_hi p /\ p_hi p <= p_fall p)%Q.
Proof.
  intros R H. destruct (pass_order _ _ _ R H) as (L & Irg & Ifg & Rr & Rf & _ & RF & _).
  apply passes_In in H as (rg & fg & H & _ & ->).
  rewrite mkpass_rg, mkpass_fg, mkpass_rise, mkpass_fall in *.
  pose proof (floor_in rg (root rg) Rr) as IS.
  assert (Lf : (S fg < length xs)%nat) by (apply zcs_In in Ifg; tauto).
  pose proof (ceil_in (length xs) fg (root fg) Lf Rf) as IE.
  set (istart := Z.to_nat (Z.max 0 (Qfloor (root rg)))) in *.
  set (iend := Z.to_nat (Z.min (Z.of_nat (length xs)) (Qceiling (root fg) + 1))) in *.
  destruct (slice_argmax xs istart iend) as (m & Em & M1 & M2 & M3); [lia|].
  assert (Ek : mkpass xs root (rg, fg) =
     mkPass rg fg (root rg) (root fg) istart iend true (istart + m)%nat
       (Qmax (root rg) (inject_Z (Z.of_nat (istart + m) - 1)))
       (Qmin (root fg) (inject_Z (Z.of_nat (istart + m) + 1)))).
  { unfold mkpass. fold istart iend. rewrite Em. reflexivity. }
  rewrite Ek. cbn [p_ok p_istart p_iend p_middle p_lo p_hi p_rise p_fall p_rg p_fg].
  split; [reflexivity|]. split; [exact IS|]. split; [exact IE|]. split; [lia|]. split; [lia|].
  split; [exact M2|]. split; [exact M3|]. split; [reflexivity|]. split; [reflexivity|].
  (* rise - 1 < floor(rise) <= middle and middle <= ceil(fall) < fall + 1 *)
  assert (A : (root rg < inject_Z (Z.of_nat (istart + m) + 1))%Q).
  { eapply Qlt_le_trans; [apply Qlt_floor|]. rewrite <- Zle_Qle. lia. }
  assert (B : (inject_Z (Z.of_nat (istart + m) - 1) < root fg)%Q).
  { eapply Qle_lt_trans; [|apply Qceiling_lt]. rewrite <- Zle_Qle. lia. }
  split; [apply Q.le_max_l|]. split; [|apply Q.le_min_l].
  apply Q.max_lub_lt; apply Q.min_glb_lt; auto.
  rewrite <- Zlt_Qlt. lia.
Qed.

(* the best minute sample is an in-pass sample and lies in the bracket *)
Lemma pass_bracket_best xs root p :
  root_ok xs root -> In p (passes xs root) ->
  (p_rg p < p_middle p <= p_fg p)%nat /\ 0 <= sample xs (p_middle p) /\
  (forall i, (p_rg p < i <= p_fg p)%nat -> sample xs i <= sample xs (p_middle p)) /\
  (p_lo p <= qn (p_middle p) /\ qn (p_middle p) <= p_hi p)%Q.
Proof.
  intros R H. destruct (pass_bracket _ _ _ R H) as (_ & IS & IE & Le & Mi & M2 & _ & Elo & Ehi & _).
  destruct (pass_order _ _ _ R H) as (L & _ & _ & Rr & Rf & _).
  destruct (pass_samples _ _ _ H) as (P & Nr & Nf).
  assert (Pm : 0 <= sample xs (p_middle p)).
  { specialize (M2 (S (p_rg p))). specialize (P (S (p_rg p))). lia. }
  assert (Rm : (p_rg p < p_middle p <= p_fg p)%nat).
  { destruct (Nat.eq_dec (p_middle p) (p_rg p)) as [E|E]; [rewrite E in Pm; lia|].
    destruct (Nat.eq_dec (p_middle p) (S (p_fg p))) as [E'|E']; [rewrite E' in Pm; lia|]. lia. }
  split; [exact Rm|]. split; [exact Pm|]. split; [intros i Hi; apply M2; lia|].
  rewrite Elo, Ehi. split.
  - apply Q.max_lub; [|unfold qn; rewrite <- Zle_Qle; lia].
    apply Qle_trans with (qn (S (p_rg p))); [apply Rr | apply qn_le; lia].
  - apply Q.min_glb; [|unfold qn; rewrite <- Zle_Qle; lia].
    apply Qle_trans with (qn (p_fg p)); [apply qn_le; lia | apply Rf].
Qed.

(* ------------------------------------------------------------------ *)
(* corners                                                              *)
(* ------------------------------------------------------------------ *)
(* a pass already in progress at the window start is not reported (allowed by the property) *)
Lemma cut_by_start_dropped : forall root, passes [3; 2; -1; -2] root = [].
Proof. reflexivity. Qed.
(* ... and one still in progress at the window end is not reported either *)
Lemma cut_by_end_dropped : forall root, passes [-3; -2; 1; 2] root = [].
Proof. reflexivity. Qed.
(* a sample exactly on the horizon counts as above: one pass, once *)
Lemma zero_sample_now :
  map (fun p => (p_rg p, p_fg p)) (passes [-2; 0; 3; 5; -1] (fun g => (inject_Z (Z.of_nat g) + (1 # 2))%Q)) = [(0, 3)]%nat /\
  map (fun p => (p_rg p, p_fg p)) (passes [-1; 2; 0; -3] (fun g => (inject_Z (Z.of_nat g) + (1 # 2))%Q)) = [(0, 2)]%nat /\
  passes [-1; 0; -1] (fun _ => 1%Q) = [].
Proof. vm_compute. auto. Qed.

(* BEFORE fixes b1a947a / f25c902 (three-valued np.sign, no rise < fall guard): why they were needed.
   Both were replayed on the implementation of that time (NOAA-18, horizon := elevation of a sample). *)
Definition w_asc : list Z := [-2; 0; 3; 5; -1].
Definition w_asc_root (g : nat) : Q := match g with 0%nat => 1 | 1%nat => 1 | _ => 7 # 2 end.
Definition w_desc : list Z := [-1; 2; 0; -3].
Definition w_desc_root (g : nat) : Q := match g with 0%nat => 1 # 2 | _ => 2 end.
Definition root_ok3 (xs : list Z) (root : nat -> Q) : Prop :=
  forall g, In g (zcs3 xs) -> (qn g <= root g /\ root g <= qn (S g))%Q.

Lemma w_asc_ok : root_ok3 w_asc w_asc_root.
Proof.
  intros g Hg. change (zcs3 w_asc) with [0%nat; 1%nat; 3%nat] in Hg.
  destruct Hg as [<-|[<-|[<-|[]]]]; vm_compute; split; discriminate.
Qed.
Lemma w_desc_ok : root_ok3 w_desc w_desc_root.
Proof.
  intros g Hg. change (zcs3 w_desc) with [0%nat; 1%nat; 2%nat] in Hg.
  destruct Hg as [<-|[<-|[<-|[]]]]; vm_compute; split; discriminate.
Qed.

(* ascending through an exact zero: a zero-length pass (rise = fall, bracket lo = hi) was reported,
   followed by the real pass with the same rise *)
Lemma zero_sample_empty_pass_before_fix :
  exists xs root, root_ok3 xs root /\
    exists p1 p2, passes_before_fix xs root = [p1; p2] /\ (p_rise p1 == p_fall p1)%Q /\ (p_lo p1 == p_hi p1)%Q /\
                  (p_rise p2 == p_rise p1)%Q /\ (p_rise p2 < p_fall p2)%Q.
Proof.
  exists w_asc, w_asc_root. split; [exact w_asc_ok|].
  eexists; eexists. split; [vm_compute; reflexivity|]. vm_compute. repeat split; discriminate.
Qed.

(* descending through an exact zero: the same pass was reported twice (two consecutive falls,
   risetime not reset), so reported passes overlapped *)
Lemma zero_sample_duplicate_pass_before_fix :
  exists xs root, root_ok3 xs root /\
    exists p1 p2, passes_before_fix xs root = [p1; p2] /\ (p_rise p2 < p_fall p1)%Q /\
                  (p_rise p1 == p_rise p2)%Q /\ (p_fall p1 == p_fall p2)%Q /\ p_fg p1 <> p_fg p2.
Proof.
  exists w_desc, w_desc_root. split; [exact w_desc_ok|].
  eexists; eexists. split; [vm_compute; reflexivity|]. vm_compute. repeat split; discriminate.
Qed.

(* non-trivial inhabitant of the hypotheses: a pass cut by the window start (dropped), two full
   passes, the second a single sample exactly on the horizon *)
Definition ex_xs : list Z := [2; -1; -3; 1; 4; 6; 5; -2; -4; 0; -1; -5].
Definition ex_root (g : nat) : Q := inject_Z (Z.of_nat g) + (1 # 3).
Lemma ex_root_ok : root_ok ex_xs ex_root /\ root_sep ex_xs ex_root.
Proof.
  split.
  - intros g Hg. change (zcs ex_xs) with [0%nat; 2%nat; 6%nat; 8%nat; 9%nat] in Hg.
    destruct Hg as [<-|[<-|[<-|[<-|[<-|[]]]]]]; vm_compute; split; discriminate.
  - intros g Hg Hs. change (zcs ex_xs) with [0%nat; 2%nat; 6%nat; 8%nat; 9%nat] in Hg, Hs.
    destruct Hg as [<-|[<-|[<-|[<-|[<-|[]]]]]]; vm_compute; reflexivity.
Qed.
Lemma ex_passes :
  map (fun p => (p_rg p, p_fg p, p_middle p)) (passes ex_xs ex_root) = [(2, 6, 5); (8, 9, 9)]%nat.
Proof. vm_compute. reflexivity. Qed.

(* ------------------------------------------------------------------ *)
(* lift to an elevation function of real time (minutes from the start)  *)
(* ------------------------------------------------------------------ *)
From Coq Require Import Reals Lra.

Section ContinuousLift.
  Open Scope R_scope.
  Variable el : R -> R.               (* elevation minus horizon at `t` minutes after utc_time *)
  Variable xs : list Z.               (* the minute samples *)
  Variable root : nat -> Q.
  (* the samples are negative exactly where el is negative at the integer minutes *)
  Hypothesis link : forall i, (i < length xs)%nat ->
    ((sample xs i < 0)%Z <-> el (IZR (Z.of_nat i)) < 0).
  Hypothesis RO : root_ok xs root.
  Hypothesis RS : root_sep xs root.
  Variables t1 t2 : R.                (* an interval [t1, t2] on which the satellite is not below the horizon *)
  Hypothesis after_start : 0 < t1.
  Hypothesis longer_than_a_minute : t1 + 1 < t2.
  Hypothesis before_end : t2 < IZR (Z.of_nat (length xs)) - 1.   (* the last sample is minute len-1 *)
  Hypothesis above : forall t, t1 <= t <= t2 -> 0 <= el t.
  (* the satellite is below the horizon during the minute before t1 and the minute after t2 *)
  Hypothesis below_before : forall t, t1 - 1 <= t < t1 -> el t < 0.
  Hypothesis below_after : forall t, t2 < t <= t2 + 1 -> el t < 0.

  Lemma interval_reported :
    exists p, In p (passes xs root) /\
      IZR (Z.of_nat (p_rg p)) < t1 <= IZR (Z.of_nat (p_rg p)) + 1 /\
      IZR (Z.of_nat (p_fg p)) <= t2 < IZR (Z.of_nat (p_fg p)) + 1 /\
      p_rise p = root (p_rg p) /\ p_fall p = root (p_fg p) /\
      (forall q, In q (passes xs root) -> p_fg q = p_fg p -> q = p).
  Proof.
    destruct (archimed (- t1)) as [A1 A2]. destruct (archimed t2) as [B1 B2].
    set (rz := (- up (- t1))%Z). set (bz := (up t2 - 1)%Z).
    assert (Er' : IZR rz = - IZR (up (- t1))) by (unfold rz; rewrite opp_IZR; reflexivity).
    assert (Eb' : IZR bz = IZR (up t2) - 1) by (unfold bz; rewrite minus_IZR; reflexivity).
    assert (F1 : IZR rz < t1 <= IZR rz + 1) by lra.
    assert (F2 : IZR bz <= t2 < IZR bz + 1) by lra.
    assert (Rz : (0 <= rz)%Z).
    { assert (IZR (-1) < IZR rz) by (simpl; lra). apply lt_IZR in H. lia. }
    assert (RB : (rz < bz)%Z). { apply lt_IZR. lra. }
    assert (BN : (bz + 1 < Z.of_nat (length xs))%Z).
    { assert (H : IZR bz < IZR (Z.of_nat (length xs) - 1)) by (rewrite minus_IZR; simpl; lra).
      apply lt_IZR in H. lia. }
    assert (Er : Z.of_nat (Z.to_nat rz) = rz) by (apply Z2Nat.id; lia).
    assert (Eb : Z.of_nat (Z.to_nat bz) = bz) by (apply Z2Nat.id; lia).
    destruct (run_pass_sep xs root (Z.to_nat rz) (Z.to_nat bz) RO RS) as (p & Ip & E1 & E2 & E3 & E4 & U).
    - lia.
    - lia.
    - apply (link (Z.to_nat rz)); [lia|]. rewrite Er. apply below_before. lra.
    - intros i Hi. destruct (Z_lt_ge_dec (sample xs i) 0) as [N|P]; [exfalso|lia].
      apply (link i) in N; [|lia].
      assert (IZR (rz + 1) <= IZR (Z.of_nat i)) by (apply IZR_le; lia).
      assert (IZR (Z.of_nat i) <= IZR bz) by (apply IZR_le; lia).
      rewrite plus_IZR in H. simpl in H.
      assert (0 <= el (IZR (Z.of_nat i))) by (apply above; lra). lra.
    - apply (link (S (Z.to_nat bz))); [lia|].
      replace (Z.of_nat (S (Z.to_nat bz))) with (bz + 1)%Z by lia. rewrite plus_IZR. simpl.
      apply below_after. lra.
    - exists p. rewrite E1, E2, Er, Eb. repeat split; auto; try lra.
  Qed.
End ContinuousLift.

Section UnimodalCulmination.
  Open Scope R_scope.
  Variable el : R -> R.
  Variable xs : list Z.
  Variable root : nat -> Q.
  Hypothesis RO : root_ok xs root.
  (* the samples are ordered like el at the integer minutes *)
  Hypothesis link_le : forall i j, (i < length xs)%nat -> (j < length xs)%nat ->
    (sample xs i <= sample xs j)%Z -> el (IZR (Z.of_nat i)) <= el (IZR (Z.of_nat j)).
  Variable p : pass.
  Hypothesis Ip : In p (passes xs root).
  (* el is strictly unimodal over the pass with its maximum at tstar *)
  Variable tstar : R.
  Hypothesis tstar_in : IZR (Z.of_nat (p_rg p)) <= tstar <= IZR (Z.of_nat (p_fg p)) + 1.
  Hypothesis increasing : forall a b, IZR (Z.of_nat (p_rg p)) < a -> a < b -> b <= tstar -> el a < el b.
  Hypothesis decreasing : forall a b, tstar <= a -> a < b -> b < IZR (Z.of_nat (p_fg p)) + 1 -> el b < el a.

  Lemma culmination_in_bracket :
    IZR (Z.of_nat (p_middle p)) - 1 <= tstar <= IZR (Z.of_nat (p_middle p)) + 1.
  Proof.
    destruct (pass_bracket_best _ _ _ RO Ip) as (Rm & _ & Mx & _).
    destruct (pass_order _ _ _ RO Ip) as (_ & _ & Ifg & _). apply zcs_In in Ifg as [Lf _].
    set (m := p_middle p) in *. set (rg := p_rg p) in *. set (fg := p_fg p) in *.
    split.
    - destruct (Rle_lt_dec (IZR (Z.of_nat m) - 1) tstar) as [?|C]; [assumption|exfalso].
      assert (Hm : (rg < m - 1)%nat).
      { assert (IZR (Z.of_nat rg) < IZR (Z.of_nat m - 1)) by (rewrite minus_IZR; simpl; lra).
        apply lt_IZR in H. lia. }
      assert (E : IZR (Z.of_nat (m - 1)) = IZR (Z.of_nat m) - 1).
      { rewrite <- minus_IZR. f_equal. lia. }
      pose proof (link_le (m - 1)%nat m ltac:(lia) ltac:(lia) (Mx (m - 1)%nat ltac:(lia))) as L.
      assert (IZR (Z.of_nat m) <= IZR (Z.of_nat fg)) by (apply IZR_le; lia).
      pose proof (decreasing (IZR (Z.of_nat (m - 1))) (IZR (Z.of_nat m))) as D.
      rewrite E in *. lra.
    - destruct (Rle_lt_dec tstar (IZR (Z.of_nat m) + 1)) as [?|C]; [assumption|exfalso].
      assert (Hm : (m + 1 <= fg)%nat).
      { assert (IZR (Z.of_nat m + 1) < IZR (Z.of_nat fg + 1)) by (rewrite !plus_IZR; simpl; lra).
        apply lt_IZR in H. lia. }
      assert (E : IZR (Z.of_nat (m + 1)) = IZR (Z.of_nat m) + 1).
      { rewrite <- plus_IZR. f_equal. lia. }
      pose proof (link_le (m + 1)%nat m ltac:(lia) ltac:(lia) (Mx (m + 1)%nat ltac:(lia))) as L.
      assert (IZR (Z.of_nat rg) < IZR (Z.of_nat m)) by (apply IZR_lt; lia).
      pose proof (increasing (IZR (Z.of_nat m)) (IZR (Z.of_nat (m + 1)))) as D.
      rewrite E in *. lra.
  Qed.
End UnimodalCulmination.
