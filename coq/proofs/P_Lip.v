(* A small calculus of Lipschitz-and-bounded real functions: LB f L B says that f is L-Lipschitz and bounded by B.
   Closed under constants, sums, differences, products, scaling, sin / cos of a function, and inverses of functions
   bounded away from zero.  Used to bound, without differentiating the whole composite, how far the SGP4 position moves
   when the solution of Kepler's equation moves. *)
From Coq Require Import Reals Lra.
From Coquelicot Require Import Coquelicot.
Open Scope R_scope.

Definition LB (f : R -> R) (L B : R) : Prop :=
  0 <= L /\ 0 <= B /\ (forall x y, Rabs (f x - f y) <= L * Rabs (x - y)) /\ (forall x, Rabs (f x) <= B).

Lemma LB_lip f L B : LB f L B -> forall x y, Rabs (f x - f y) <= L * Rabs (x - y).
Proof. intros [_ [_ [H _]]]. exact H. Qed.
Lemma LB_bnd f L B : LB f L B -> forall x, Rabs (f x) <= B.
Proof. intros [_ [_ [_ H]]]. exact H. Qed.

Lemma LB_ext f g L B : (forall x, f x = g x) -> LB f L B -> LB g L B.
Proof.
  intros E [HL [HB [H1 H2]]]. repeat split; try assumption.
  - intros x y. rewrite <- !E. apply H1.
  - intros x. rewrite <- E. apply H2.
Qed.

Lemma LB_weaken f L B L' B' : LB f L B -> L <= L' -> B <= B' -> LB f L' B'.
Proof.
  intros [HL [HB [H1 H2]]] HLL HBB. repeat split; try lra.
  - intros x y. apply Rle_trans with (1 := H1 x y). apply Rmult_le_compat_r; [apply Rabs_pos|exact HLL].
  - intros x. apply Rle_trans with (1 := H2 x). exact HBB.
Qed.

(* a sharper bound known from elsewhere (e.g. a unit vector's component) *)
Lemma LB_rebound f L B B' : LB f L B -> 0 <= B' -> (forall x, Rabs (f x) <= B') -> LB f L B'.
Proof. intros [HL [HB [H1 H2]]] HB' H. repeat split; assumption. Qed.

Lemma LB_const c : LB (fun _ => c) 0 (Rabs c).
Proof.
  repeat split; try lra; try apply Rabs_pos.
  - intros x y. replace (c - c) with 0 by ring. rewrite Rabs_R0. lra.
  - intros x. lra.
Qed.

Lemma sin_lip x y : Rabs (sin x - sin y) <= Rabs (x - y).
Proof.
  destruct (MVT_gen sin y x cos) as [c [_ Hc]].
  - intros z _. auto_derive; [exact I|ring].
  - intros z _. apply derivable_continuous_pt. apply derivable_pt_sin.
  - rewrite Hc, Rabs_mult. pose proof (COS_bound c) as [C1 C2].
    assert (Rabs (cos c) <= 1) by (apply Rabs_le; lra). pose proof (Rabs_pos (x - y)). nra.
Qed.

Lemma cos_lip x y : Rabs (cos x - cos y) <= Rabs (x - y).
Proof.
  destruct (MVT_gen cos y x (fun z => - sin z)) as [c [_ Hc]].
  - intros z _. auto_derive; [exact I|ring].
  - intros z _. apply derivable_continuous_pt. apply derivable_pt_cos.
  - rewrite Hc, Rabs_mult, Rabs_Ropp. pose proof (SIN_bound c) as [C1 C2].
    assert (Rabs (sin c) <= 1) by (apply Rabs_le; lra). pose proof (Rabs_pos (x - y)). nra.
Qed.

Lemma LB_sin : LB sin 1 1.
Proof.
  repeat split; try lra.
  - intros x y. rewrite Rmult_1_l. apply sin_lip.
  - intros x. pose proof (SIN_bound x). apply Rabs_le. lra.
Qed.
Lemma LB_cos : LB cos 1 1.
Proof.
  repeat split; try lra.
  - intros x y. rewrite Rmult_1_l. apply cos_lip.
  - intros x. pose proof (COS_bound x). apply Rabs_le. lra.
Qed.

Lemma LB_add f g Lf Bf Lg Bg : LB f Lf Bf -> LB g Lg Bg -> LB (fun x => f x + g x) (Lf + Lg) (Bf + Bg).
Proof.
  intros [HLf [HBf [F1 F2]]] [HLg [HBg [G1 G2]]]. repeat split; try lra.
  - intros x y. replace (f x + g x - (f y + g y)) with ((f x - f y) + (g x - g y)) by ring.
    apply Rle_trans with (1 := Rabs_triang _ _). specialize (F1 x y). specialize (G1 x y). lra.
  - intros x. apply Rle_trans with (1 := Rabs_triang _ _). specialize (F2 x). specialize (G2 x). lra.
Qed.

Lemma LB_opp f L B : LB f L B -> LB (fun x => - f x) L B.
Proof.
  intros [HL [HB [H1 H2]]]. repeat split; try assumption.
  - intros x y. replace (- f x - - f y) with (- (f x - f y)) by ring. rewrite Rabs_Ropp. apply H1.
  - intros x. rewrite Rabs_Ropp. apply H2.
Qed.

Lemma LB_sub f g Lf Bf Lg Bg : LB f Lf Bf -> LB g Lg Bg -> LB (fun x => f x - g x) (Lf + Lg) (Bf + Bg).
Proof. intros F G. apply (LB_ext (fun x => f x + - g x)); [intros; ring|]. apply LB_add; [exact F|apply LB_opp; exact G]. Qed.

Lemma LB_mul f g Lf Bf Lg Bg : LB f Lf Bf -> LB g Lg Bg -> LB (fun x => f x * g x) (Lf * Bg + Bf * Lg) (Bf * Bg).
Proof.
  intros [HLf [HBf [F1 F2]]] [HLg [HBg [G1 G2]]]. repeat split.
  - apply Rplus_le_le_0_compat; apply Rmult_le_pos; assumption.
  - apply Rmult_le_pos; assumption.
  - intros x y. replace (f x * g x - f y * g y) with ((f x - f y) * g x + f y * (g x - g y)) by ring.
    apply Rle_trans with (1 := Rabs_triang _ _). rewrite !Rabs_mult.
    specialize (F1 x y). specialize (G1 x y). pose proof (F2 y). pose proof (G2 x).
    pose proof (Rabs_pos (f x - f y)). pose proof (Rabs_pos (g x - g y)). pose proof (Rabs_pos (g x)). pose proof (Rabs_pos (f y)).
    pose proof (Rabs_pos (x - y)).
    assert (A1 : Rabs (f x - f y) * Rabs (g x) <= (Lf * Rabs (x - y)) * Bg) by (apply Rmult_le_compat; lra).
    assert (A2 : Rabs (f y) * Rabs (g x - g y) <= Bf * (Lg * Rabs (x - y))) by (apply Rmult_le_compat; lra).
    lra.
  - intros x. rewrite Rabs_mult. apply Rmult_le_compat; try apply Rabs_pos; [apply F2|apply G2].
Qed.

Lemma LB_scal c f L B : LB f L B -> LB (fun x => c * f x) (Rabs c * L) (Rabs c * B).
Proof.
  intros H. apply (LB_weaken _ (0 * B + Rabs c * L) (Rabs c * B)).
  - apply (LB_mul (fun _ => c) f 0 (Rabs c) L B); [apply LB_const|exact H].
  - lra.
  - lra.
Qed.

Lemma LB_sin_of f L B : LB f L B -> LB (fun x => sin (f x)) L 1.
Proof.
  intros [HL [HB [H1 H2]]]. repeat split; try lra.
  - intros x y. apply Rle_trans with (1 := sin_lip _ _). apply H1.
  - intros x. pose proof (SIN_bound (f x)). apply Rabs_le. lra.
Qed.
Lemma LB_cos_of f L B : LB f L B -> LB (fun x => cos (f x)) L 1.
Proof.
  intros [HL [HB [H1 H2]]]. repeat split; try lra.
  - intros x y. apply Rle_trans with (1 := cos_lip _ _). apply H1.
  - intros x. pose proof (COS_bound (f x)). apply Rabs_le. lra.
Qed.

(* 1 / f for f >= m > 0 *)
Lemma LB_inv f L B m : 0 < m -> (forall x, m <= f x) -> LB f L B -> LB (fun x => / f x) (L / (m * m)) (/ m).
Proof.
  intros Hm Hf [HL [HB [H1 H2]]]. assert (Hmm : 0 < m * m) by (apply Rmult_lt_0_compat; exact Hm). repeat split.
  - apply Rmult_le_pos; [exact HL|]. apply Rlt_le, Rinv_0_lt_compat; exact Hmm.
  - apply Rlt_le, Rinv_0_lt_compat; exact Hm.
  - intros x y. pose proof (Hf x) as Hx. pose proof (Hf y) as Hy.
    replace (/ f x - / f y) with ((f y - f x) * / (f x * f y)) by (field; lra).
    rewrite Rabs_mult. specialize (H1 y x). rewrite (Rabs_minus_sym y x) in H1.
    assert (Hp : m * m <= f x * f y) by (apply Rmult_le_compat; lra).
    assert (Hi : Rabs (/ (f x * f y)) <= / (m * m)).
    { rewrite Rabs_pos_eq by (apply Rlt_le, Rinv_0_lt_compat; lra). apply Rinv_le_contravar; [exact Hmm|exact Hp]. }
    pose proof (Rabs_pos (f y - f x)). pose proof (Rabs_pos (/ (f x * f y))). pose proof (Rabs_pos (x - y)).
    assert (0 <= / (m * m)) by (apply Rlt_le, Rinv_0_lt_compat; exact Hmm).
    unfold Rdiv. replace (L * / (m * m) * Rabs (x - y)) with ((L * Rabs (x - y)) * / (m * m)) by ring.
    apply Rmult_le_compat; lra.
  - intros x. pose proof (Hf x) as Hx. rewrite Rabs_pos_eq by (apply Rlt_le, Rinv_0_lt_compat; lra).
    apply Rinv_le_contravar; [exact Hm|exact Hx].
Qed.
