(* C14: geoloc.geodetic_lat terminates, and what its exit test implies for subpoint.
   The loop is  phi <- atan2(z + a C(phi) e2 sin phi, r)  with  a = 6378.137 km, e2 = (a^2 - b^2)/a^2 (b = 6356.75231414 km),
   C = 1/sqrt(1 - e2 sin^2 phi), started at atan2(z, r) and left when np.allclose(new, old): |new - old| <= 1e-8 + 1e-5 |old|.
   For every point off the polar axis and at least sqrt(0.993) a = 6355.8 km from the centre (every point on or outside the
   ellipsoid) the step is a contraction with factor below 0.0069 and the first move is below 0.0069 rad, so the FOURTH
   comparison succeeds at the latest.  From the exit test alone: the point is within 1 m of the geodetic normal through
   subpoint(point).  gstep is tied to the step map regenerated from the source (gen_geodetic_step, gen_geodetic_lat_1). *)
From Coq Require Import Reals Lra Lia.
From Coquelicot Require Import Coquelicot.
From Interval Require Import Tactic.
From PyOrb.lib Require Import PyReal Atan2Lib.
From PyOrb.gen Require Import Gen_geoloc.
From PyOrb.proofs Require Import P_Roundtrip P_LatLoop.
Open Scope R_scope.

Definition ag : R := 6378137 / 1000.
Definition e2g : R := 680829018611886890151 / 101701578976922500000000.
Definition Cg (p : R) : R := 1 / sqrt (1 - e2g * (sin p) ^ 2).
Definition gstep (phi r z : R) : R := atan2 (z + ag * Cg phi * e2g * sin phi) r.

(* ---- tie to the regenerated step map ---- *)
Lemma gen_step_is x y z phi : gen_geodetic_step phi x y z = gstep phi (sqrt (x * x + y * y)) z.
Proof. unfold gen_geodetic_step, gstep, Cg, ag, e2g. cbv zeta. unfold Rdiv. norm_args. f_equal; try ring. Qed.
Lemma gen_first_is x y z : gen_geodetic_lat_1 x y z = gstep (atan2 z (sqrt (x * x + y * y))) (sqrt (x * x + y * y)) z.
Proof. unfold gen_geodetic_lat_1, gstep, Cg, ag, e2g. cbv zeta. unfold Rdiv. norm_args. f_equal; try ring. Qed.

(* ---- C(phi) sin(phi): derivative and bounds ---- *)
Lemma e2g_bounds : 669 / 100000 < e2g < 670 / 100000.
Proof. unfold e2g. lra. Qed.
Lemma Cg_den_pos p : 0 < 1 - e2g * (sin p) ^ 2.
Proof. pose proof e2g_bounds. pose proof (SIN_bound p). assert (0 <= (sin p) ^ 2 <= 1) by nra. nra. Qed.
Lemma sqrt_Cg_den_pos p : 0 < sqrt (1 - e2g * (sin p) ^ 2).
Proof. apply sqrt_lt_R0, Cg_den_pos. Qed.

Definition dCg (p : R) : R := e2g * sin p * cos p * (Cg p) ^ 3.
Definition CgSin (p : R) : R := Cg p * sin p.
Definition dCgSin (p : R) : R := dCg p * sin p + Cg p * cos p.

Lemma Cg_is_derive (p : R) : is_derive Cg p (dCg p).
Proof.
  unfold dCg, Cg.
  pose proof (Cg_den_pos p) as Hd. pose proof (sqrt_Cg_den_pos p) as Hs.
  assert (Eq : 1 + - (e2g * (sin p * (sin p * 1))) = 1 - e2g * sin p ^ 2) by ring.
  auto_derive.
  - rewrite Eq. split; [exact Hd|]. split; [apply Rgt_not_eq; exact Hs|exact I].
  - replace (1 + - (e2g * (sin p * (sin p * 1)))) with (1 - e2g * sin p ^ 2) by ring.
    set (s := sqrt (1 - e2g * sin p ^ 2)) in *.
    field. lra.
Qed.
Lemma CgSin_is_derive (p : R) : is_derive CgSin p (dCgSin p).
Proof.
  unfold CgSin, dCgSin.
  pose proof (Cg_is_derive p) as H.
  auto_derive.
  - exists (dCg p). exact H.
  - change (fun x : R => Cg x) with Cg. rewrite (is_derive_unique _ _ _ H). ring.
Qed.
Lemma dCgSin_bound c : Rabs (dCgSin c) <= 1011 / 1000.
Proof. unfold dCgSin, dCg, Cg, e2g. interval. Qed.
Lemma CgSin_lipschitz a b : Rabs (CgSin b - CgSin a) <= 1011 / 1000 * Rabs (b - a).
Proof. apply (lipschitz CgSin dCgSin); [apply CgSin_is_derive|apply dCgSin_bound]. Qed.
Lemma CgSin_e2_bound p : Rabs (Cg p * e2g * sin p) <= 675 / 100000.
Proof. unfold Cg, e2g. interval. Qed.

(* ---- contraction, in units of a: rn = r / a, uz = z / a ---- *)
Definition dmax : R := 675 / 100000.
Definition Kg : R := 69 / 10000.

Section GContraction.
  Variables rn uz : R.
  Hypothesis Hr : 0 < rn.
  Hypothesis Hrho : 993 / 1000 <= rn * rn + uz * uz.

  Let ynum (lat : R) : R := uz + Cg lat * e2g * sin lat.
  Definition gstep_n (lat : R) : R := atan2 (ynum lat) rn.

  Lemma ynum_near lat : Rabs (ynum lat - uz) <= dmax.
  Proof. unfold ynum. replace (uz + Cg lat * e2g * sin lat - uz) with (Cg lat * e2g * sin lat) by ring. apply CgSin_e2_bound. Qed.

  Lemma radius_lower c : Rabs (c - uz) <= dmax -> 978 / 1000 <= rn * rn + c * c.
  Proof.
    intros Hc. apply Rabs_le_between in Hc. unfold dmax in Hc.
    set (rho := sqrt (rn * rn + uz * uz)).
    assert (Hq : 0 <= rn * rn + uz * uz) by nra.
    assert (Hrr : rho * rho = rn * rn + uz * uz) by (apply sqrt_sqrt; exact Hq).
    assert (Hrho1 : 996 / 1000 <= rho).
    { unfold rho. replace (996 / 1000) with (sqrt ((996 / 1000) * (996 / 1000))) by (rewrite sqrt_square; lra).
      apply sqrt_le_1_alt. lra. }
    assert (Huz : Rabs uz <= rho).
    { apply Rabs_le. split.
      - destruct (Rle_dec (- rho) uz) as [H|H]; [exact H|exfalso]. apply Rnot_le_lt in H. nra.
      - destruct (Rle_dec uz rho) as [H|H]; [exact H|exfalso]. apply Rnot_le_lt in H. nra. }
    apply Rabs_le_between in Huz.
    assert (Hc2 : uz * uz - 2 * rho * (675 / 100000) <= c * c).
    { destruct (Rle_dec 0 uz) as [Hp|Hn].
      - destruct (Rle_dec (675 / 100000) uz) as [Hbig|Hsmall]; nra.
      - apply Rnot_le_lt in Hn. destruct (Rle_dec uz (- (675 / 100000))) as [Hbig|Hsmall]; nra. }
    assert (Hm : 978 / 1000 <= rho * rho - 2 * rho * (675 / 100000)).
    { assert (0 <= (rho - 996 / 1000) * (rho + 996 / 1000 - 2 * (675 / 100000))) by (apply Rmult_le_pos; lra). nra. }
    lra.
  Qed.

  Lemma gstep_n_eq lat : gstep_n lat = gat rn (ynum lat).
  Proof. unfold gstep_n, gat. apply atan2_pos_x. exact Hr. Qed.

  Definition Lg : R := 1012 / 1000.

  Lemma gat_lip_near y1 y2 : Rabs (y1 - uz) <= dmax -> Rabs (y2 - uz) <= dmax ->
    Rabs (gat rn y2 - gat rn y1) <= Lg * Rabs (y2 - y1).
  Proof.
    intros H1 H2. apply (gat_lipschitz rn Hr (978 / 1000) Lg); unfold Lg; try lra.
    intros c [Hlo Hhi]. apply radius_lower.
    apply Rabs_le_between in H1. apply Rabs_le_between in H2. apply Rabs_le.
    unfold Rmin in Hlo. unfold Rmax in Hhi. destruct (Rle_dec y1 y2); lra.
  Qed.

  Lemma gstep_contracts a b : Rabs (gstep_n a - gstep_n b) <= Kg * Rabs (a - b).
  Proof.
    rewrite !gstep_n_eq.
    apply Rle_trans with (Lg * Rabs (ynum a - ynum b)); [apply gat_lip_near; apply ynum_near|].
    unfold ynum. replace (uz + Cg a * e2g * sin a - (uz + Cg b * e2g * sin b))
      with (e2g * (CgSin a - CgSin b)) by (unfold CgSin; ring).
    rewrite Rabs_mult. pose proof (CgSin_lipschitz b a) as HL. pose proof e2g_bounds as He.
    rewrite (Rabs_pos_eq e2g) by lra.
    pose proof (Rabs_pos (CgSin a - CgSin b)). pose proof (Rabs_pos (a - b)).
    unfold Lg, Kg. nra.
  Qed.

  Lemma gfirst_move : Rabs (gstep_n (atan2 uz rn) - atan2 uz rn) <= Kg.
  Proof.
    rewrite gstep_n_eq. rewrite (atan2_pos_x uz rn Hr). change (atan (uz / rn)) with (gat rn uz).
    apply Rle_trans with (Lg * Rabs (ynum (atan (uz / rn)) - uz)).
    - apply gat_lip_near; [|apply ynum_near].
      replace (uz - uz) with 0 by ring. rewrite Rabs_R0. unfold dmax. lra.
    - pose proof (ynum_near (atan (uz / rn))) as H. pose proof (Rabs_pos (ynum (atan (uz / rn)) - uz)).
      unfold Lg, Kg, dmax in *. nra.
  Qed.
End GContraction.

(* back to kilometres *)
Lemma gstep_normalised phi r z : 0 < r -> gstep phi r z = gstep_n (r / ag) (z / ag) phi.
Proof.
  intros Hr. assert (Ha : 0 < ag) by (unfold ag; lra). assert (Hrn : 0 < r / ag) by (apply Rdiv_lt_0_compat; assumption).
  unfold gstep, gstep_n. rewrite (atan2_pos_x _ r Hr), (atan2_pos_x _ (r / ag) Hrn). f_equal. field. split; lra.
Qed.
Lemma atan2_normalised r z : 0 < r -> atan2 z r = atan2 (z / ag) (r / ag).
Proof.
  intros Hr. assert (Ha : 0 < ag) by (unfold ag; lra). assert (Hrn : 0 < r / ag) by (apply Rdiv_lt_0_compat; assumption).
  rewrite (atan2_pos_x _ r Hr), (atan2_pos_x _ (r / ag) Hrn). f_equal. field. split; lra.
Qed.

Section GTerminates.
  Variables r z : R.
  Hypothesis Hr : 0 < r.
  Hypothesis Habove : 993 / 1000 * (ag * ag) <= r * r + z * z.

  Let rn := r / ag.
  Let uz := z / ag.
  Lemma Hrn : 0 < rn. Proof. apply Rdiv_lt_0_compat; [exact Hr|unfold ag; lra]. Qed.
  Lemma Hrho_n : 993 / 1000 <= rn * rn + uz * uz.
  Proof.
    unfold rn, uz. assert (Ha : 0 < ag) by (unfold ag; lra).
    replace (r / ag * (r / ag) + z / ag * (z / ag)) with ((r * r + z * z) / (ag * ag)) by (field; lra).
    apply Rmult_le_reg_r with (ag * ag); [nra|].
    assert (E : (r * r + z * z) / (ag * ag) * (ag * ag) = r * r + z * z) by (field; lra). rewrite E. lra.
  Qed.

  Theorem step_contracts a b : Rabs (gstep a r z - gstep b r z) <= Kg * Rabs (a - b).
  Proof. rewrite !(gstep_normalised _ r z Hr). apply (gstep_contracts rn uz Hrn Hrho_n). Qed.
  Theorem first_move_small : Rabs (gstep (atan2 z r) r z - atan2 z r) <= Kg.
  Proof. rewrite (gstep_normalised _ r z Hr), (atan2_normalised r z Hr). apply (gfirst_move rn uz Hrn Hrho_n). Qed.

  (* the iterates of the loop *)
  Let p0 := atan2 z r.
  Let p1 := gstep p0 r z.
  Let p2 := gstep p1 r z.
  Let p3 := gstep p2 r z.
  Let p4 := gstep p3 r z.

  Theorem fourth_comparison_passes : Rabs (p4 - p3) <= 1 / 100000000 + 1 / 100000 * Rabs p3.
  Proof.
    pose proof first_move_small as M1. fold p0 p1 in M1.
    pose proof (step_contracts p1 p0) as M2. fold p1 p2 in M2.
    pose proof (step_contracts p2 p1) as M3. fold p2 p3 in M3.
    pose proof (step_contracts p3 p2) as M4. fold p3 p4 in M4.
    pose proof (Rabs_pos (p1 - p0)). pose proof (Rabs_pos (p2 - p1)). pose proof (Rabs_pos (p3 - p2)). pose proof (Rabs_pos p3).
    unfold Kg in *. nra.
  Qed.

  (* so the loop is left at one of its first four comparisons *)
  Theorem loop_exits_by_4 : exists k, (k <= 3)%nat /\
    let it := fix it (n : nat) : R := match n with O => p0 | S m => gstep (it m) r z end in
    Rabs (it (S k) - it k) <= 1 / 100000000 + 1 / 100000 * Rabs (it k).
  Proof. exists 3%nat. split; [lia|]. cbv zeta. cbn. exact fourth_comparison_passes. Qed.
End GTerminates.

(* ---- from the exit test: the point is within 1 m of the geodetic normal through subpoint(point) ---- *)
Section Normal.
  Variables x y z phik tol : R.
  Hypothesis Hxy : 0 < x * x + y * y.
  Hypothesis Htol : tol <= 2 / 100000.

  Let r := sqrt (x * x + y * y).
  Let phi := gen_geodetic_step phik x y z.
  Hypothesis Hexit : Rabs (phi - phik) <= tol.

  (* the subpoint the code computes from that latitude, the ellipsoid's unit normal there, and the offset *)
  Let Sx := gen_subpoint_x x y z phi.
  Let Sy := gen_subpoint_y x y z phi.
  Let Sz := gen_subpoint_z x y z phi.
  Let nx := cos phi * cos (atan2 y x).
  Let ny := cos phi * sin (atan2 y x).
  Let nz := sin phi.
  Let dx := x - Sx.
  Let dy := y - Sy.
  Let dz := z - Sz.

  Lemma r_pos : 0 < r. Proof. apply sqrt_lt_R0. exact Hxy. Qed.
  Lemma rr : r * r = x * x + y * y. Proof. apply sqrt_sqrt. lra. Qed.

  Lemma normal_is_unit : nx * nx + ny * ny + nz * nz = 1.
  Proof.
    unfold nx, ny, nz. pose proof (sin2_cos2 phi) as S1. pose proof (sin2_cos2 (atan2 y x)) as S2. unfold Rsqr in *.
    replace (cos phi * cos (atan2 y x) * (cos phi * cos (atan2 y x)) + cos phi * sin (atan2 y x) * (cos phi * sin (atan2 y x)) + sin phi * sin phi)
      with (cos phi * cos phi * (sin (atan2 y x) * sin (atan2 y x) + cos (atan2 y x) * cos (atan2 y x)) + sin phi * sin phi) by ring.
    rewrite S2. lra.
  Qed.

  (* the normal is the ellipsoid's gradient direction at the subpoint: (Sx / a^2, Sy / a^2, Sz / b^2), b^2 = a^2 (1 - e2) *)
  Lemma normal_is_gradient :
    let N := ag * Cg phi in
    Sx / (ag * ag) = N / (ag * ag) * nx /\ Sy / (ag * ag) = N / (ag * ag) * ny /\ Sz / (ag * ag * (1 - e2g)) = N / (ag * ag) * nz.
  Proof.
    cbv zeta. unfold Sx, Sy, Sz, gen_subpoint_x, gen_subpoint_y, gen_subpoint_z, nx, ny, nz, Cg, ag, e2g. cbv zeta.
    pose proof (sqrt_Cg_den_pos phi) as Hs. unfold e2g in Hs. revert Hs. unfold Rdiv. norm_args. intros Hs.
    repeat split; field; lra.
  Qed.

  Theorem point_near_normal : (dx * dx + dy * dy + dz * dz) - (dx * nx + dy * ny + dz * nz) ^ 2 <= (1 / 1000) ^ 2.
  Proof.
    pose proof r_pos as Hr. pose proof rr as Hrr.
    destruct (sin_cos_atan2 y x) as [Sl Cl].
    { destruct (Req_dec x 0) as [E|E]; [right; intros E2; subst; nra|left; exact E]. }
    fold r in Sl, Cl.
    set (N := ag * Cg phi). set (c := cos phi). set (s := sin phi).
    assert (HSx : Sx = N * c * (x / r)).
    { unfold Sx, gen_subpoint_x, N, Cg, ag, e2g, c. rewrite Cl. pose proof (sqrt_Cg_den_pos phi) as Hs. unfold e2g in Hs. revert Hs. unfold Rdiv. norm_args. intros Hs. field. lra. }
    assert (HSy : Sy = N * c * (y / r)).
    { unfold Sy, gen_subpoint_y, N, Cg, ag, e2g, c. rewrite Sl. pose proof (sqrt_Cg_den_pos phi) as Hs. unfold e2g in Hs. revert Hs. unfold Rdiv. norm_args. intros Hs. field. lra. }
    assert (HSz : Sz = (1 - e2g) * N * s).
    { unfold Sz, gen_subpoint_z, N, Cg, ag, e2g, s. cbv zeta. pose proof (sqrt_Cg_den_pos phi) as Hs. unfold e2g in Hs. revert Hs. unfold Rdiv. norm_args. intros Hs. field. lra. }
    assert (Hcs : c * c + s * s = 1).
    { unfold c, s. pose proof (sin2_cos2 phi) as S1. unfold Rsqr in S1. lra. }
    (* the squared distance to the normal, in the meridian plane *)
    assert (Hperp : (dx * dx + dy * dy + dz * dz) - (dx * nx + dy * ny + dz * nz) ^ 2
                    = (r * s - z * c - e2g * N * s * c) ^ 2).
    { unfold dx, dy, dz, nx, ny, nz. rewrite HSx, HSy, HSz, Sl, Cl. fold c s.
      assert (Hu : x / r * (x / r) + y / r * (y / r) = 1).
      { replace (x / r * (x / r) + y / r * (y / r)) with ((x * x + y * y) / (r * r)) by (field; lra). rewrite Hrr. field. lra. }
      set (u := x / r) in *. set (v := y / r) in *.
      assert (Ex : x = r * u) by (unfold u; field; lra). assert (Ey : y = r * v) by (unfold v; field; lra).
      rewrite Ex, Ey.
      replace ((r * u - N * c * u) * (r * u - N * c * u) + (r * v - N * c * v) * (r * v - N * c * v) + (z - (1 - e2g) * N * s) * (z - (1 - e2g) * N * s)
               - ((r * u - N * c * u) * (c * u) + (r * v - N * c * v) * (c * v) + (z - (1 - e2g) * N * s) * s) ^ 2)
        with ((r - N * c) ^ 2 * (u * u + v * v) + (z - (1 - e2g) * N * s) ^ 2
              - ((r - N * c) * c * (u * u + v * v) + (z - (1 - e2g) * N * s) * s) ^ 2) by ring.
      rewrite Hu.
      replace ((r - N * c) ^ 2 * 1 + (z - (1 - e2g) * N * s) ^ 2 - ((r - N * c) * c * 1 + (z - (1 - e2g) * N * s) * s) ^ 2)
        with (((r - N * c) ^ 2 + (z - (1 - e2g) * N * s) ^ 2) * (c * c + s * s) - ((r - N * c) * c + (z - (1 - e2g) * N * s) * s) ^ 2) by (rewrite Hcs; ring).
      ring. }
    rewrite Hperp.
    (* r sin phi = (z + e2 N_k sin phik) cos phi, from phi = atan2 (z + ...) r *)
    set (Yk := z + ag * Cg phik * e2g * sin phik).
    assert (Hphi : phi = atan2 Yk r).
    { unfold phi. rewrite gen_step_is. reflexivity. }
    assert (Hc0 : 0 < c) by (unfold c; rewrite Hphi; apply cos_atan2_pos_x; exact Hr).
    assert (Htan : r * s = Yk * c).
    { pose proof (tan_atan2_pos_x Yk r Hr) as T. rewrite <- Hphi in T. unfold tan in T. fold c s in T.
      apply Rmult_eq_reg_r with (/ c); [|apply Rgt_not_eq, Rinv_0_lt_compat; exact Hc0].
      replace (Yk * c * / c) with Yk by (field; lra). replace (r * s * / c) with (r * (s / c)) by (field; lra). rewrite T. field. lra. }
    replace (r * s - z * c - e2g * N * s * c) with (c * (e2g * ag * (CgSin phik - CgSin phi))).
    2:{ rewrite Htan. unfold Yk, N, CgSin. fold s. ring. }
    pose proof (CgSin_lipschitz phi phik) as HL. pose proof e2g_bounds as He.
    assert (Hc1 : c <= 1) by (unfold c; pose proof (COS_bound phi); lra).
    rewrite Rabs_minus_sym in Hexit.
    assert (Hb : Rabs (c * (e2g * ag * (CgSin phik - CgSin phi))) <= 1 / 1000).
    { rewrite !Rabs_mult. rewrite (Rabs_pos_eq c), (Rabs_pos_eq e2g), (Rabs_pos_eq ag) by (unfold ag; lra).
      pose proof (Rabs_pos (CgSin phik - CgSin phi)). pose proof (Rabs_pos (phik - phi)).
      assert (Hd : Rabs (CgSin phik - CgSin phi) <= 1011 / 1000 * (2 / 100000)) by lra.
      assert (Hm : e2g * ag * Rabs (CgSin phik - CgSin phi) <= 1 / 1000).
      { apply Rle_trans with ((670 / 100000) * (6378137 / 1000) * (1011 / 1000 * (2 / 100000))); [|lra].
        unfold ag. apply Rmult_le_compat; try lra; try nra. }
      assert (0 <= e2g * ag * Rabs (CgSin phik - CgSin phi)) by (unfold ag; nra).
      rewrite Rmult_assoc. nra. }
    rewrite <- Rsqr_pow2, <- (Rsqr_pow2 (1 / 1000)). apply Rsqr_le_abs_1. rewrite (Rabs_pos_eq (1 / 1000)) by lra. exact Hb.
  Qed.
End Normal.

(* the tolerance np.allclose grants is small enough: |old| <= pi/2 for every iterate *)
Lemma allclose_tol phik : Rabs phik <= PI / 2 -> 1 / 100000000 + 1 / 100000 * Rabs phik <= 2 / 100000.
Proof. intros H. assert (PI <= 315 / 100) by interval. lra. Qed.

(* squared distance [km^2] of (x, y, z) from the line through subpoint(x, y, z; lat) along the ellipsoid's normal there *)
Definition perp2 (x y z lat : R) : R :=
  let dx := x - gen_subpoint_x x y z lat in let dy := y - gen_subpoint_y x y z lat in let dz := z - gen_subpoint_z x y z lat in
  let nx := cos lat * cos (atan2 y x) in let ny := cos lat * sin (atan2 y x) in let nz := sin lat in
  (dx * dx + dy * dy + dz * dz) - (dx * nx + dy * ny + dz * nz) ^ 2.

Theorem exit_implies_1m x y z phik : 0 < x * x + y * y -> Rabs phik <= PI / 2 ->
  Rabs (gen_geodetic_step phik x y z - phik) <= 1 / 100000000 + 1 / 100000 * Rabs phik ->
  perp2 x y z (gen_geodetic_step phik x y z) <= (1 / 1000) ^ 2.
Proof.
  intros Hxy Hp Hex.
  exact (point_near_normal x y z phik (1 / 100000000 + 1 / 100000 * Rabs phik) Hxy (allclose_tol phik Hp) Hex).
Qed.

(* every iterate of the loop is in [-pi/2, pi/2], so the hypothesis on phik is met at every comparison *)
Lemma iterate_range x y z phik : 0 < x * x + y * y -> Rabs (gen_geodetic_step phik x y z) <= PI / 2.
Proof.
  intros Hxy. rewrite gen_step_is. unfold gstep. assert (Hr : 0 < sqrt (x * x + y * y)) by (apply sqrt_lt_R0; exact Hxy).
  pose proof (atan2_range_pos_x (z + ag * Cg phik * e2g * sin phik) _ Hr). apply Rabs_le. lra.
Qed.
Lemma start_range x y z : 0 < x * x + y * y -> Rabs (atan2 z (sqrt (x * x + y * y))) <= PI / 2.
Proof.
  intros Hxy. assert (Hr : 0 < sqrt (x * x + y * y)) by (apply sqrt_lt_R0; exact Hxy).
  pose proof (atan2_range_pos_x z _ Hr). apply Rabs_le. lra.
Qed.

(* termination in terms of the regenerated step map *)
Theorem gen_loop_exits_by_4 x y z : 0 < x * x + y * y -> 993 / 1000 * (ag * ag) <= x * x + y * y + z * z ->
  let p0 := atan2 z (sqrt (x * x + y * y)) in
  let p1 := gen_geodetic_step p0 x y z in let p2 := gen_geodetic_step p1 x y z in
  let p3 := gen_geodetic_step p2 x y z in let p4 := gen_geodetic_step p3 x y z in
  p1 = gen_geodetic_lat_1 x y z /\
  Rabs (p4 - p3) <= 1 / 100000000 + 1 / 100000 * Rabs p3.
Proof.
  intros Hxy Hab. cbv zeta. set (r := sqrt (x * x + y * y)).
  assert (Hr : 0 < r) by (apply sqrt_lt_R0; exact Hxy).
  assert (Hrr : r * r = x * x + y * y) by (apply sqrt_sqrt; lra).
  split; [rewrite gen_step_is, gen_first_is; reflexivity|].
  rewrite !gen_step_is. fold r. apply (fourth_comparison_passes r z Hr). rewrite Hrr. exact Hab.
Qed.

(* the direction used in perp2 is the ellipsoid's outward unit normal at subpoint(.; lat), for every lat *)
Lemma normal_unit x y lat :
  (cos lat * cos (atan2 y x)) ^ 2 + (cos lat * sin (atan2 y x)) ^ 2 + (sin lat) ^ 2 = 1.
Proof.
  pose proof (sin2_cos2 lat) as S1. pose proof (sin2_cos2 (atan2 y x)) as S2. unfold Rsqr in *.
  replace ((cos lat * cos (atan2 y x)) ^ 2 + (cos lat * sin (atan2 y x)) ^ 2 + sin lat ^ 2)
    with (cos lat * cos lat * (sin (atan2 y x) * sin (atan2 y x) + cos (atan2 y x) * cos (atan2 y x)) + sin lat * sin lat) by ring.
  rewrite S2. lra.
Qed.
Lemma normal_gradient x y z lat :
  let k := ag * Cg lat / (ag * ag) in
  0 < k /\
  gen_subpoint_x x y z lat / (ag * ag) = k * (cos lat * cos (atan2 y x)) /\
  gen_subpoint_y x y z lat / (ag * ag) = k * (cos lat * sin (atan2 y x)) /\
  gen_subpoint_z x y z lat / (ag * ag * (1 - e2g)) = k * sin lat.
Proof.
  cbv zeta. pose proof (sqrt_Cg_den_pos lat) as Hs. split.
  - unfold Cg, ag. apply Rdiv_lt_0_compat; [|lra]. apply Rmult_lt_0_compat; [lra|]. apply Rdiv_lt_0_compat; lra.
  - unfold gen_subpoint_x, gen_subpoint_y, gen_subpoint_z, Cg, ag, e2g in *. cbv zeta. revert Hs. unfold Rdiv. norm_args. intros Hs.
    repeat split; field; lra.
Qed.
(* b^2 = a^2 (1 - e2): the module's B *)
Lemma b_squared : ag * ag * (1 - e2g) = (635675231414 / 100000000) ^ 2.
Proof. unfold ag, e2g. field. Qed.
