From Coq Require Import Reals Lra Lia Nsatz.
From Coq Require Import Psatz.
From PyOrb.lib Require Import PyReal.
From PyOrb.spec Require Import Spec_Rot.
From PyOrb.gen Require Import Gen_geoloc.
Open Scope R_scope.

(* nsatz does not reify x ^ 2 *)
Ltac nopow := repeat rewrite <- Rsqr_pow2; unfold Rsqr.

(* ---------- the quaternion sandwich as the code writes it, abstractly ---------- *)
(* row k of the code's matrix contracted with v ("kj, ikj->ij": out_i = sum_k v_k M[i][k]) *)
Definition qmat_x (vx vy vz x y z w : R) : R :=
  vx * (w^2 + x^2 - y^2 - z^2) + vy * (2*x*y + 2*z*w) + vz * (2*x*z - 2*y*w).
Definition qmat_y (vx vy vz x y z w : R) : R :=
  vx * (2*x*y - 2*z*w) + vy * (w^2 - x^2 + y^2 - z^2) + vz * (2*y*z + 2*x*w).
Definition qmat_z (vx vy vz x y z w : R) : R :=
  vx * (2*x*z + 2*y*w) + vy * (2*y*z - 2*x*w) + vz * (w^2 - x^2 - y^2 + z^2).

Lemma norm3_pow a b c : sqrt (a ^ 2 + b ^ 2 + c ^ 2) = norm3 a b c.
Proof. unfold norm3. f_equal. ring. Qed.

Lemma gen_qrotate_x_qmat vx vy vz ax ay az t :
  gen_qrotate_x vx vy vz ax ay az t =
  let n := norm3 ax ay az in let s := sin (t / 2) in
  qmat_x vx vy vz (ax / n * s) (ay / n * s) (az / n * s) (cos (t / 2)).
Proof.
  unfold gen_qrotate_x, qmat_x. cbv zeta.
  rewrite ?norm3_pow. unfold Rdiv. ring.
Qed.

Lemma nonzero3_pos ax ay az : nonzero3 ax ay az -> 0 < ax * ax + ay * ay + az * az.
Proof.
  intros H. unfold nonzero3 in H.
  destruct (Req_dec ax 0) as [Hx|Hx]; [|nra].
  destruct (Req_dec ay 0) as [Hy|Hy]; [|nra].
  destruct (Req_dec az 0) as [Hz|Hz]; [|nra].
  exfalso; apply H; auto.
Qed.

Lemma unit_axis ax ay az : nonzero3 ax ay az ->
  let n := norm3 ax ay az in
  n <> 0 /\ (ax / n) * (ax / n) + (ay / n) * (ay / n) + (az / n) * (az / n) = 1.
Proof.
  intros H n. pose proof (nonzero3_pos _ _ _ H) as Hp.
  assert (Hn : 0 < n) by (apply sqrt_lt_R0; exact Hp).
  assert (Hnn : n * n = ax * ax + ay * ay + az * az) by (apply sqrt_sqrt; lra).
  split; [lra|].
  replace (ax / n * (ax / n) + ay / n * (ay / n) + az / n * (az / n))
    with ((ax * ax + ay * ay + az * az) / (n * n)) by (field; lra).
  rewrite <- Hnn. field. lra.
Qed.

Lemma half_angle t :
  sin t = 2 * sin (t / 2) * cos (t / 2) /\ cos t = 1 - 2 * sin (t / 2) * sin (t / 2) /\
  sin (t / 2) * sin (t / 2) + cos (t / 2) * cos (t / 2) = 1.
Proof.
  pose proof (sin2_cos2 (t / 2)) as Hsc. unfold Rsqr in Hsc.
  repeat split; [| |exact Hsc].
  - replace t with (2 * (t / 2)) at 1 by field. apply sin_2a.
  - replace t with (2 * (t / 2)) at 1 by field. apply cos_2a_sin.
Qed.

(* half-angle form = Rodrigues at -t, for a unit axis *)
Lemma qmat_rodrigues_x vx vy vz nx ny nz t :
  nx * nx + ny * ny + nz * nz = 1 ->
  qmat_x vx vy vz (nx * sin (t / 2)) (ny * sin (t / 2)) (nz * sin (t / 2)) (cos (t / 2))
  = rodrigues_x vx vy vz nx ny nz (- t).
Proof.
  intros Hn. unfold qmat_x, rodrigues_x, cross_x, dot3.
  rewrite cos_neg, sin_neg.
  destruct (half_angle t) as (Hs & Hc & Hsc). rewrite Hs, Hc.
  set (s := sin (t / 2)) in *. set (c := cos (t / 2)) in *.
  clearbody s c. nopow. nsatz.
Qed.
Lemma qmat_rodrigues_y vx vy vz nx ny nz t :
  nx * nx + ny * ny + nz * nz = 1 ->
  qmat_y vx vy vz (nx * sin (t / 2)) (ny * sin (t / 2)) (nz * sin (t / 2)) (cos (t / 2))
  = rodrigues_y vx vy vz nx ny nz (- t).
Proof.
  intros Hn. unfold qmat_y, rodrigues_y, cross_y, dot3.
  rewrite cos_neg, sin_neg.
  destruct (half_angle t) as (Hs & Hc & Hsc). rewrite Hs, Hc.
  set (s := sin (t / 2)) in *. set (c := cos (t / 2)) in *.
  clearbody s c. nopow. nsatz.
Qed.

Lemma qmat_rodrigues_z vx vy vz nx ny nz t :
  nx * nx + ny * ny + nz * nz = 1 ->
  qmat_z vx vy vz (nx * sin (t / 2)) (ny * sin (t / 2)) (nz * sin (t / 2)) (cos (t / 2))
  = rodrigues_z vx vy vz nx ny nz (- t).
Proof.
  intros Hn. unfold qmat_z, rodrigues_z, cross_z, dot3.
  rewrite cos_neg, sin_neg.
  destruct (half_angle t) as (Hs & Hc & Hsc). rewrite Hs, Hc.
  set (s := sin (t / 2)) in *. set (c := cos (t / 2)) in *.
  clearbody s c. nopow. nsatz.
Qed.

Lemma gen_qrotate_y_qmat vx vy vz ax ay az t :
  gen_qrotate_y vx vy vz ax ay az t =
  let n := norm3 ax ay az in let s := sin (t / 2) in
  qmat_y vx vy vz (ax / n * s) (ay / n * s) (az / n * s) (cos (t / 2)).
Proof.
  unfold gen_qrotate_y, qmat_y. cbv zeta.
  rewrite ?norm3_pow. unfold Rdiv. ring.
Qed.

Lemma gen_qrotate_z_qmat vx vy vz ax ay az t :
  gen_qrotate_z vx vy vz ax ay az t =
  let n := norm3 ax ay az in let s := sin (t / 2) in
  qmat_z vx vy vz (ax / n * s) (ay / n * s) (az / n * s) (cos (t / 2)).
Proof.
  unfold gen_qrotate_z, qmat_z. cbv zeta.
  rewrite ?norm3_pow. unfold Rdiv. ring.
Qed.

(* ---------- C14_rodrigues: the generated components are Rodrigues about axis/|axis| by -angle ---------- *)
Theorem qrotate_is_rodrigues vx vy vz ax ay az t :
  nonzero3 ax ay az ->
  gen_qrotate_x vx vy vz ax ay az t = cw_rot_x vx vy vz ax ay az t /\
  gen_qrotate_y vx vy vz ax ay az t = cw_rot_y vx vy vz ax ay az t /\
  gen_qrotate_z vx vy vz ax ay az t = cw_rot_z vx vy vz ax ay az t.
Proof.
  intros Ha. destruct (unit_axis _ _ _ Ha) as [_ Hu]. cbv zeta in Hu.
  rewrite gen_qrotate_x_qmat, gen_qrotate_y_qmat, gen_qrotate_z_qmat.
  unfold cw_rot_x, cw_rot_y, cw_rot_z. cbv zeta.
  repeat split.
  - apply qmat_rodrigues_x; exact Hu.
  - apply qmat_rodrigues_y; exact Hu.
  - apply qmat_rodrigues_z; exact Hu.
Qed.

(* ---------- properties of Rodrigues' formula for a unit axis ---------- *)
Section Rod.
  Variables nx ny nz : R.
  Hypothesis Hn : nx * nx + ny * ny + nz * nz = 1.

  Lemma rod_dot vx vy vz wx wy wz t :
    dot3 (rodrigues_x vx vy vz nx ny nz t) (rodrigues_y vx vy vz nx ny nz t) (rodrigues_z vx vy vz nx ny nz t)
         (rodrigues_x wx wy wz nx ny nz t) (rodrigues_y wx wy wz nx ny nz t) (rodrigues_z wx wy wz nx ny nz t)
    = dot3 vx vy vz wx wy wz.
  Proof.
    unfold rodrigues_x, rodrigues_y, rodrigues_z, cross_x, cross_y, cross_z, dot3.
    pose proof (sin2_cos2 t) as Hsc. unfold Rsqr in Hsc.
    set (s := sin t) in *. set (c := cos t) in *. clearbody s c.
    nsatz.
  Qed.

  Lemma rod_axis_fixed k t :
    rodrigues_x (k * nx) (k * ny) (k * nz) nx ny nz t = k * nx /\
    rodrigues_y (k * nx) (k * ny) (k * nz) nx ny nz t = k * ny /\
    rodrigues_z (k * nx) (k * ny) (k * nz) nx ny nz t = k * nz.
  Proof.
    unfold rodrigues_x, rodrigues_y, rodrigues_z, cross_x, cross_y, cross_z, dot3.
    set (s := sin t). set (c := cos t). clearbody s c.
    repeat split; nsatz.
  Qed.

  Lemma rod_additive vx vy vz a b :
    let rx := rodrigues_x vx vy vz nx ny nz a in
    let ry := rodrigues_y vx vy vz nx ny nz a in
    let rz := rodrigues_z vx vy vz nx ny nz a in
    rodrigues_x rx ry rz nx ny nz b = rodrigues_x vx vy vz nx ny nz (a + b) /\
    rodrigues_y rx ry rz nx ny nz b = rodrigues_y vx vy vz nx ny nz (a + b) /\
    rodrigues_z rx ry rz nx ny nz b = rodrigues_z vx vy vz nx ny nz (a + b).
  Proof.
    cbv zeta.
    unfold rodrigues_x, rodrigues_y, rodrigues_z, cross_x, cross_y, cross_z, dot3.
    rewrite sin_plus, cos_plus.
    set (sa := sin a). set (ca := cos a). set (sb := sin b). set (cb := cos b).
    clearbody sa ca sb cb.
    repeat split; nsatz.
  Qed.
End Rod.

Lemma rod_zero vx vy vz nx ny nz :
  rodrigues_x vx vy vz nx ny nz 0 = vx /\ rodrigues_y vx vy vz nx ny nz 0 = vy /\
  rodrigues_z vx vy vz nx ny nz 0 = vz.
Proof.
  unfold rodrigues_x, rodrigues_y, rodrigues_z. rewrite sin_0, cos_0. repeat split; ring.
Qed.

Lemma rod_2pi vx vy vz nx ny nz :
  rodrigues_x vx vy vz nx ny nz (- (2 * PI)) = vx /\ rodrigues_y vx vy vz nx ny nz (- (2 * PI)) = vy /\
  rodrigues_z vx vy vz nx ny nz (- (2 * PI)) = vz.
Proof.
  unfold rodrigues_x, rodrigues_y, rodrigues_z. rewrite sin_neg, cos_neg, sin_2PI, cos_2PI.
  repeat split; ring.
Qed.

(* ---------- the same facts for the generated model of qrotate ---------- *)
Ltac to_rod Ha :=
  repeat match goal with
  | |- context [gen_qrotate_x ?a ?b ?c ?d ?e ?f ?t] =>
      rewrite (proj1 (qrotate_is_rodrigues a b c d e f t Ha))
  | |- context [gen_qrotate_y ?a ?b ?c ?d ?e ?f ?t] =>
      rewrite (proj1 (proj2 (qrotate_is_rodrigues a b c d e f t Ha)))
  | |- context [gen_qrotate_z ?a ?b ?c ?d ?e ?f ?t] =>
      rewrite (proj2 (proj2 (qrotate_is_rodrigues a b c d e f t Ha)))
  end; unfold cw_rot_x, cw_rot_y, cw_rot_z; cbv zeta.

Theorem qrotate_dot vx vy vz wx wy wz ax ay az t :
  nonzero3 ax ay az ->
  dot3 (gen_qrotate_x vx vy vz ax ay az t) (gen_qrotate_y vx vy vz ax ay az t) (gen_qrotate_z vx vy vz ax ay az t)
       (gen_qrotate_x wx wy wz ax ay az t) (gen_qrotate_y wx wy wz ax ay az t) (gen_qrotate_z wx wy wz ax ay az t)
  = dot3 vx vy vz wx wy wz.
Proof.
  intros Ha. destruct (unit_axis _ _ _ Ha) as [_ Hu]. cbv zeta in Hu.
  to_rod Ha. apply rod_dot. exact Hu.
Qed.

Theorem qrotate_length vx vy vz ax ay az t :
  nonzero3 ax ay az ->
  norm3 (gen_qrotate_x vx vy vz ax ay az t) (gen_qrotate_y vx vy vz ax ay az t) (gen_qrotate_z vx vy vz ax ay az t)
  = norm3 vx vy vz.
Proof.
  intros Ha. unfold norm3. f_equal.
  exact (qrotate_dot vx vy vz vx vy vz ax ay az t Ha).
Qed.

Theorem qrotate_axis_fixed k ax ay az t :
  nonzero3 ax ay az ->
  gen_qrotate_x (k * ax) (k * ay) (k * az) ax ay az t = k * ax /\
  gen_qrotate_y (k * ax) (k * ay) (k * az) ax ay az t = k * ay /\
  gen_qrotate_z (k * ax) (k * ay) (k * az) ax ay az t = k * az.
Proof.
  intros Ha. destruct (unit_axis _ _ _ Ha) as [Hn0 Hu]. cbv zeta in Hu, Hn0.
  to_rod Ha. set (n := norm3 ax ay az) in *.
  replace (k * ax) with ((k * n) * (ax / n)) by (field; exact Hn0).
  replace (k * ay) with ((k * n) * (ay / n)) by (field; exact Hn0).
  replace (k * az) with ((k * n) * (az / n)) by (field; exact Hn0).
  apply rod_axis_fixed. exact Hu.
Qed.

Theorem qrotate_identity vx vy vz ax ay az :
  nonzero3 ax ay az ->
  (gen_qrotate_x vx vy vz ax ay az 0 = vx /\ gen_qrotate_y vx vy vz ax ay az 0 = vy /\
   gen_qrotate_z vx vy vz ax ay az 0 = vz) /\
  (gen_qrotate_x vx vy vz ax ay az (2 * PI) = vx /\ gen_qrotate_y vx vy vz ax ay az (2 * PI) = vy /\
   gen_qrotate_z vx vy vz ax ay az (2 * PI) = vz).
Proof.
  intros Ha. split; to_rod Ha.
  - rewrite Ropp_0. apply rod_zero.
  - apply rod_2pi.
Qed.

Theorem qrotate_additive vx vy vz ax ay az a b :
  nonzero3 ax ay az ->
  let rx := gen_qrotate_x vx vy vz ax ay az a in
  let ry := gen_qrotate_y vx vy vz ax ay az a in
  let rz := gen_qrotate_z vx vy vz ax ay az a in
  gen_qrotate_x rx ry rz ax ay az b = gen_qrotate_x vx vy vz ax ay az (a + b) /\
  gen_qrotate_y rx ry rz ax ay az b = gen_qrotate_y vx vy vz ax ay az (a + b) /\
  gen_qrotate_z rx ry rz ax ay az b = gen_qrotate_z vx vy vz ax ay az (a + b).
Proof.
  intros Ha. cbv zeta. destruct (unit_axis _ _ _ Ha) as [_ Hu]. cbv zeta in Hu.
  to_rod Ha. replace (- (a + b)) with (- a + - b) by ring.
  apply rod_additive. exact Hu.
Qed.

(* ---------- every accepted axis/angle/shape variant computes the same per-column formula ---------- *)
Lemma variants_one_column vx vy vz ax ay az t :
  (gen_qrotate_cs_x vx vy vz ax ay az t = gen_qrotate_x vx vy vz ax ay az t /\
   gen_qrotate_cs_y vx vy vz ax ay az t = gen_qrotate_y vx vy vz ax ay az t /\
   gen_qrotate_cs_z vx vy vz ax ay az t = gen_qrotate_z vx vy vz ax ay az t) /\
  (gen_qrotate_ca_x vx vy vz ax ay az t = gen_qrotate_x vx vy vz ax ay az t /\
   gen_qrotate_ca_y vx vy vz ax ay az t = gen_qrotate_y vx vy vz ax ay az t /\
   gen_qrotate_ca_z vx vy vz ax ay az t = gen_qrotate_z vx vy vz ax ay az t) /\
  (gen_qrotate_ss_x vx vy vz ax ay az t = gen_qrotate_x vx vy vz ax ay az t /\
   gen_qrotate_ss_y vx vy vz ax ay az t = gen_qrotate_y vx vy vz ax ay az t /\
   gen_qrotate_ss_z vx vy vz ax ay az t = gen_qrotate_z vx vy vz ax ay az t) /\
  (gen_qrotate_sa_x vx vy vz ax ay az t = gen_qrotate_x vx vy vz ax ay az t /\
   gen_qrotate_sa_y vx vy vz ax ay az t = gen_qrotate_y vx vy vz ax ay az t /\
   gen_qrotate_sa_z vx vy vz ax ay az t = gen_qrotate_z vx vy vz ax ay az t) /\
  (gen_qrotate_s0_x vx vy vz ax ay az t = gen_qrotate_x vx vy vz ax ay az t /\
   gen_qrotate_s0_y vx vy vz ax ay az t = gen_qrotate_y vx vy vz ax ay az t /\
   gen_qrotate_s0_z vx vy vz ax ay az t = gen_qrotate_z vx vy vz ax ay az t).
Proof. repeat split; variant_eq. Qed.

(* two columns (v | w), axes (a | e), angles (t | u): column 1 of the result is the one-column
   formula on column 1 of the inputs (column 0 likewise), whatever is shared *)
Lemma variants_two_columns vx vy vz wx wy wz ax ay az ex ey ez t u :
  (gen_qrotate2_pp_c1_x vx vy vz wx wy wz ax ay az ex ey ez t u = gen_qrotate_x wx wy wz ex ey ez u /\
   gen_qrotate2_pp_c1_y vx vy vz wx wy wz ax ay az ex ey ez t u = gen_qrotate_y wx wy wz ex ey ez u /\
   gen_qrotate2_pp_c1_z vx vy vz wx wy wz ax ay az ex ey ez t u = gen_qrotate_z wx wy wz ex ey ez u) /\
  (gen_qrotate2_pp_c0_x vx vy vz wx wy wz ax ay az ex ey ez t u = gen_qrotate_x vx vy vz ax ay az t /\
   gen_qrotate2_pp_c0_y vx vy vz wx wy wz ax ay az ex ey ez t u = gen_qrotate_y vx vy vz ax ay az t /\
   gen_qrotate2_pp_c0_z vx vy vz wx wy wz ax ay az ex ey ez t u = gen_qrotate_z vx vy vz ax ay az t) /\
  (gen_qrotate2_ps_c1_x vx vy vz wx wy wz ax ay az ex ey ez t = gen_qrotate_x wx wy wz ex ey ez t /\
   gen_qrotate2_ps_c1_y vx vy vz wx wy wz ax ay az ex ey ez t = gen_qrotate_y wx wy wz ex ey ez t /\
   gen_qrotate2_ps_c1_z vx vy vz wx wy wz ax ay az ex ey ez t = gen_qrotate_z wx wy wz ex ey ez t) /\
  (gen_qrotate2_sp_c1_x vx vy vz wx wy wz ax ay az t u = gen_qrotate_x wx wy wz ax ay az u /\
   gen_qrotate2_sp_c1_y vx vy vz wx wy wz ax ay az t u = gen_qrotate_y wx wy wz ax ay az u /\
   gen_qrotate2_sp_c1_z vx vy vz wx wy wz ax ay az t u = gen_qrotate_z wx wy wz ax ay az u) /\
  (gen_qrotate2_ss_c1_x vx vy vz wx wy wz ax ay az t = gen_qrotate_x wx wy wz ax ay az t /\
   gen_qrotate2_ss_c1_y vx vy vz wx wy wz ax ay az t = gen_qrotate_y wx wy wz ax ay az t /\
   gen_qrotate2_ss_c1_z vx vy vz wx wy wz ax ay az t = gen_qrotate_z wx wy wz ax ay az t) /\
  (gen_qrotate2_s1s_c1_x vx vy vz wx wy wz ax ay az t = gen_qrotate_x wx wy wz ax ay az t /\
   gen_qrotate2_s1s_c1_y vx vy vz wx wy wz ax ay az t = gen_qrotate_y wx wy wz ax ay az t /\
   gen_qrotate2_s1s_c1_z vx vy vz wx wy wz ax ay az t = gen_qrotate_z wx wy wz ax ay az t) /\
  (gen_qrotate3_pp_c1_x vx vy vz wx wy wz ax ay az ex ey ez t u = gen_qrotate_x wx wy wz ex ey ez u /\
   gen_qrotate3_pp_c1_y vx vy vz wx wy wz ax ay az ex ey ez t u = gen_qrotate_y wx wy wz ex ey ez u /\
   gen_qrotate3_pp_c1_z vx vy vz wx wy wz ax ay az ex ey ez t u = gen_qrotate_z wx wy wz ex ey ez u) /\
  (gen_qrotate3_ss_c1_x vx vy vz wx wy wz ax ay az t = gen_qrotate_x wx wy wz ax ay az t /\
   gen_qrotate3_ss_c1_y vx vy vz wx wy wz ax ay az t = gen_qrotate_y wx wy wz ax ay az t /\
   gen_qrotate3_ss_c1_z vx vy vz wx wy wz ax ay az t = gen_qrotate_z wx wy wz ax ay az t).
Proof. repeat split; variant_eq. Qed.

(* ---------- subpoint lies on the module's ellipsoid (A, B) for ANY latitude / longitude value ---------- *)
Lemma ecc_den_pos lat :
  0 < 1 - (680829018611886890151 / 101701578976922500000000) * (sin lat * sin lat).
Proof.
  pose proof (sin2_cos2 lat) as H. unfold Rsqr in H.
  assert (0 <= cos lat * cos lat) by nra.
  assert (sin lat * sin lat <= 1) by lra.
  assert (0 <= sin lat * sin lat) by nra.
  lra.
Qed.

Theorem subpoint_on_ellipsoid x y z lat :
  on_ellipsoid A_wgs84 B_grs80 (gen_subpoint_x x y z lat) (gen_subpoint_y x y z lat) (gen_subpoint_z x y z lat).
Proof.
  unfold on_ellipsoid, ellipsoid_form, gen_subpoint_x, gen_subpoint_y, gen_subpoint_z, A_wgs84, B_grs80.
  cbv zeta.
  pose proof (ecc_den_pos lat) as Hd.
  replace (sin lat ^ 2) with (sin lat * sin lat) by ring.
  set (D := 1 - 680829018611886890151 / 101701578976922500000000 * (sin lat * sin lat)) in *.
  (* whatever way the source spells the argument of the square root *)
  repeat match goal with
         | |- context [sqrt ?a] => lazymatch a with D => fail | _ => replace a with D by (unfold D; ring) end
         end.
  assert (Hq : sqrt D * sqrt D = D) by (apply sqrt_sqrt; lra).
  assert (Hq0 : 0 < sqrt D) by (apply sqrt_lt_R0; exact Hd).
  pose proof (sin2_cos2 lat) as H1. unfold Rsqr in H1.
  pose proof (sin2_cos2 (atan2 y x)) as H2. unfold Rsqr in H2.
  set (q := sqrt D) in *. set (S := sin lat) in *. set (C := cos lat) in *.
  set (sl := sin (atan2 y x)) in *. set (cl := cos (atan2 y x)) in *.
  assert (Hq' : q <> 0) by lra.
  match goal with |- ?L = 1 =>
    replace L with ((C * C * (sl * sl + cl * cl)
                     + (101020749958310613109849 / 101701578976922500000000) * (S * S)) / (q * q))
      by (field; exact Hq')
  end.
  rewrite H2, Hq. replace (C * C) with (1 - S * S) by lra.
  replace ((1 - S * S) * 1 + 101020749958310613109849 / 101701578976922500000000 * (S * S)) with D
    by (unfold D; field).
  field. lra.
Qed.

(* the documented sense on a concrete input: x axis turned about z by +90 deg goes to -y (clockwise
   seen from the tip of the axis) *)
Lemma qrotate_sense_example :
  gen_qrotate_x 1 0 0 0 0 1 (PI / 2) = 0 /\ gen_qrotate_y 1 0 0 0 0 1 (PI / 2) = -1 /\
  gen_qrotate_z 1 0 0 0 0 1 (PI / 2) = 0.
Proof.
  assert (Ha : nonzero3 0 0 1) by (unfold nonzero3; intros (_ & _ & H); lra).
  to_rod Ha.
  assert (Hn : norm3 0 0 1 = 1).
  { unfold norm3. replace (0 * 0 + 0 * 0 + 1 * 1) with 1 by ring. apply sqrt_1. }
  rewrite Hn. unfold rodrigues_x, rodrigues_y, rodrigues_z, cross_x, cross_y, cross_z, dot3.
  rewrite sin_neg, cos_neg, sin_PI2, cos_PI2. repeat split; field.
Qed.

Lemma nonzero3_example : nonzero3 1 (-2) 3.
Proof. unfold nonzero3; intros (H & _ & _); lra. Qed.
