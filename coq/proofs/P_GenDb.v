(* C15, source tie for the sqlite oracle: M_Db models a per-satellite table as a finite map keyed by the ISO text of
   the epoch, INSERT on an existing key as IntegrityError, and the export as the row with the bytewise greatest key.
   Those assumptions are about the following statements; Gen_db.v holds the statements the code issues NOW
   (regenerated on every run), and this file records that they are the same. *)
From Coq Require Import String List.
From PyOrb.gen Require Import Gen_db.
Import ListNotations.
Open Scope string_scope.

Record sql_assumed := mkSql {
  a_platform_table : string;   (* platform_names: satid is the primary key *)
  a_satid_table : string;      (* one table per satellite: epoch is the PRIMARY KEY (so a second row with the same
                                  epoch is refused), declared `date` (NUMERIC affinity: an ISO text stays TEXT) *)
  a_satid_insert : string;     (* plain INSERT (not INSERT OR REPLACE): the first row of an epoch wins *)
  a_platform_insert : string;
  a_table_exists : string;
  a_export : string;           (* newest = greatest epoch TEXT under the default BINARY collation, one row *)
  a_epoch_key : string;        (* the key is datetime.isoformat() of the epoch: what M_Db.iso prints *)
  a_row : list string          (* (key, tle text, insertion time, source): the order of the four columns *)
}.

Definition model_sql : sql_assumed := mkSql
  "(satid text primary key, platform_name text)"
  "'{}' (epoch date primary key, tle text, insertion_time date, source text)"
  "INSERT INTO '{}' VALUES (?, ?, ?, ?)"
  "INSERT INTO platform_names VALUES (?, ?)"
  "SELECT 1 FROM sqlite_master WHERE type='table' and name=?"
  "SELECT epoch, tle FROM '{satid:d}' ORDER BY epoch DESC LIMIT 1"
  "tle.epoch.item().isoformat()"
  ["epoch"; "tle"; "now"; "source"].

Definition generated_sql : sql_assumed := mkSql
  gen_sql_platform_table gen_sql_satid_table gen_sql_satid_insert gen_sql_platform_insert
  gen_sql_table_exists gen_sql_export gen_epoch_key gen_insert_row.

Theorem generated_sql_is_model_sql : generated_sql = model_sql.
Proof. reflexivity. Qed.
