(* C13 / C01: every accepted near-earth element set with e0 <= 0.39 IS answered at its epoch, and at every time when it is
   drag-free (B* = 0).  At tau = 0 or B* = 0 the drag polynomial and the drag terms of the eccentricity vanish:
   a = a0'', e = e0; the long-period term |ayNL| is at most A30 / (4 k2 a (1 - e0^2)); with the constructor's perigee guard
   a0'' (1 - e0) >= 1 + 220 / XKMPER this gives eL^2 <= 4/25 and a (1 - eL) >= 1.03, i.e. the orbit is healthy in the sense of
   P_Sgp4Answered, so the regenerated propagation returns a state.  Only conditions on the INPUT remain. *)
From Coq Require Import Reals Lra Lia.
From Coquelicot Require Import Rcomplements.
From PyOrb.lib Require Import PyReal SgpOutcome.
From PyOrb.spec Require Import Spec_SGP4.
From PyOrb.gen Require Import Gen_sgp4 Gen_sgp4_compose.
From PyOrb.proofs Require Import P_Sgp4Geometry P_Sgp4Init P_Sgp4Prop P_Sgp4Tree P_Sgp4Exits P_Sgp4Answered.
Open Scope R_scope.

Section Frozen.
  Variable el : elements.
  Variable s : bool.
  Variable tau : R.
  Hypothesis Hfrozen : el_bstar el = 0 \/ tau = 0.
  Let T := mkT s tau.

  Lemma frozen_a : a el T = a0'' el.
  Proof.
    unfold a, D2, D3, D4, C1, T. cbn [t_tau]. destruct Hfrozen as [H|H]; rewrite H; ring.
  Qed.

  Lemma frozen_e : e_unclamped el T = el_e0 el.
  Proof.
    unfold e_unclamped. destruct Hfrozen as [H|H].
    - unfold T. cbn [t_tau]. rewrite H. ring.
    - assert (HM : Mp el T = el_M0 el).
      { unfold Mp, delta_w, delta_M, MDF, T. cbn [t_tau t_small_e]. rewrite H.
        replace (el_M0 el + Mdot el * 0) with (el_M0 el) by ring. destruct s; ring. }
      rewrite HM. unfold T. cbn [t_tau]. rewrite H. ring.
  Qed.
End Frozen.

(* the long-period term is small: |ayNL| <= A30 / (4 k2 a (1 - e^2)) *)
Lemma ayNL_bound el t e : 0 < a el t -> 0 <= e < 1 ->
  Rabs (ayNL el t e) * (a el t * (1 - e ^ 2)) <= A30 / (4 * k2).
Proof.
  intros Ha He. unfold ayNL, beta. assert (H1 : 0 < 1 - e ^ 2) by nra.
  rewrite pow2_sqrt by lra.
  assert (Hd : 0 < 4 * k2 * a el t * (1 - e ^ 2)) by (unfold k2; apply Rmult_lt_0_compat; [nra|lra]).
  unfold Rdiv at 1. rewrite Rabs_mult, (Rabs_pos_eq (/ _)) by (apply Rlt_le, Rinv_0_lt_compat; exact Hd).
  pose proof (SIN_bound (el_i0 el)) as Hs.
  assert (Hn : Rabs (A30 * sin (el_i0 el)) <= A30).
  { rewrite Rabs_mult, (Rabs_pos_eq A30) by (unfold A30; lra). assert (Rabs (sin (el_i0 el)) <= 1) by (apply Rabs_le; lra).
    unfold A30 in *. pose proof (Rabs_pos (sin (el_i0 el))). nra. }
  replace (Rabs (A30 * sin (el_i0 el)) * / (4 * k2 * a el t * (1 - e ^ 2)) * (a el t * (1 - e ^ 2)))
    with (Rabs (A30 * sin (el_i0 el)) / (4 * k2)) by (unfold k2; field; split; lra).
  unfold Rdiv. apply Rmult_le_compat_r; [unfold k2; lra|exact Hn].
Qed.

(* eL <= e + |ayNL| *)
Lemma eL_triangle el t e : 0 <= e -> sqrt (eL2 el t e) <= e + Rabs (ayNL el t e).
Proof.
  intros He. unfold eL2, axN, ayN. set (W := w el t). set (y := ayNL el t e).
  pose proof (Rabs_pos y) as Hy0.
  replace (e + Rabs y) with (sqrt ((e + Rabs y) * (e + Rabs y))) by (rewrite sqrt_square; lra).
  apply sqrt_le_1_alt.
  pose proof (sin2_cos2 W) as SC. unfold Rsqr in SC. pose proof (SIN_bound W) as SB.
  replace ((e * cos W) ^ 2 + (e * sin W + y) ^ 2) with (e ^ 2 * (sin W * sin W + cos W * cos W) + 2 * e * (sin W * y) + y ^ 2) by ring.
  rewrite SC.
  assert (H1 : sin W * y <= Rabs y).
  { apply Rle_trans with (Rabs (sin W * y)); [apply Rle_abs|]. rewrite Rabs_mult.
    assert (Rabs (sin W) <= 1) by (apply Rabs_le; lra). pose proof (Rabs_pos (sin W)). nra. }
  assert (H2 : y ^ 2 = Rabs y * Rabs y) by (rewrite <- Rabs_mult, Rabs_pos_eq; [ring|nra]).
  rewrite H2. nra.
Qed.

Section AtEpoch.
  Variables e0 incl_deg raan_deg argp_deg ma_deg n_revday bstar ts : R.
  Notation "'GA' f" := (f e0 incl_deg raan_deg argp_deg ma_deg n_revday bstar) (at level 9, f at level 9).
  Notation "'GB' f" := (f e0 incl_deg raan_deg argp_deg ma_deg n_revday bstar ts) (at level 9, f at level 9).
  Let El := E e0 incl_deg raan_deg argp_deg ma_deg n_revday bstar.
  Let T := mkT false ts.
  Let ec := ecl e0 incl_deg raan_deg argp_deg ma_deg n_revday bstar ts.

  Hypothesis Hleaf : GA gen_init_outcome = InitMode NearNorm 1.
  Hypothesis Hfrozen : bstar = 0 \/ ts = 0.
  Hypothesis He39 : e0 <= 39 / 100.

  Lemma perigee_guard : 1 + 220 / XKMPER <= a0'' El * (1 - e0).
  Proof.
    destruct (leaf1_facts _ _ _ _ _ _ _ Hleaf) as [_ [_ [Hp _]]].
    rewrite (perigee_spec _ _ _ _ _ _ _ (leaf1_He _ _ _ _ _ _ _ Hleaf)) in Hp.
    fold El in Hp. unfold perigee_km, aE, XKMPER in *. change (el_e0 El) with e0 in Hp. lra.
  Qed.

  Theorem healthy_when_frozen :
    - (1 / 1000) <= e_unclamped El T /\ eL2 El T ec <= 4 / 25 /\ 103 / 100 <= a El T * (1 - sqrt (eL2 El T ec)).
  Proof.
    pose proof (leaf1_He _ _ _ _ _ _ _ Hleaf) as He. pose proof (leaf1_e_gt _ _ _ _ _ _ _ Hleaf) as Hegt.
    pose proof perigee_guard as Hp.
    assert (Hfr : el_bstar El = 0 \/ ts = 0) by exact Hfrozen.
    pose proof (frozen_a El false ts Hfr) as Fa. pose proof (frozen_e El false ts Hfr) as Fe. fold T in Fa, Fe.
    change (el_e0 El) with e0 in Fe.
    assert (Hec : ec = e0).
    { unfold ec, ecl. fold El T. rewrite Fe. apply clamp_e_id.
      destruct (leaf1_facts _ _ _ _ _ _ _ Hleaf) as [[_ [_ [Hhi _]]] _]. lra. }
    rewrite Hec, Fe, Fa.
    assert (HA : 0 < a0'' El) by (unfold XKMPER in Hp; nra).
    assert (Ha' : 0 < a El T) by (rewrite Fa; exact HA).
    pose proof (ayNL_bound El T e0 Ha' ltac:(lra)) as Hy. rewrite Fa in Hy.
    pose proof (eL_triangle El T e0 ltac:(lra)) as Htri.
    set (y := Rabs (ayNL El T e0)) in *. set (A := a0'' El) in *. set (Q := sqrt (eL2 El T e0)) in *.
    assert (Hy0 : 0 <= y) by apply Rabs_pos.
    (* A (1 - e0^2) >= A (1 - e0) >= 1.0344 *)
    assert (HAe : 1 + 220 / XKMPER <= A * (1 - e0 ^ 2)) by (unfold XKMPER in *; nra).
    assert (Hyb : y <= 12 / 10000).
    { assert (y * (1 + 220 / XKMPER) <= A30 / (4 * k2)) by (unfold XKMPER, A30, k2 in *; nra).
      unfold XKMPER, A30, k2 in *. lra. }
    assert (HAy : A * y <= 14 / 10000).
    { assert (A * y * (1 - e0 ^ 2) <= A30 / (4 * k2)) by nra.
      assert (8479 / 10000 <= 1 - e0 ^ 2) by nra. unfold A30, k2 in *. nra. }
    assert (HQ : Q <= e0 + y) by exact Htri.
    assert (HQ0 : 0 <= Q) by apply sqrt_pos.
    split; [lra|]. split.
    - assert (HQQ : Q * Q = eL2 El T e0) by (apply sqrt_sqrt; apply eL2_nonneg).
      rewrite <- HQQ. nra.
    - unfold XKMPER in *. nra.
  Qed.

  Theorem answered_when_frozen : exists j, (j <= 5)%nat /\ GB gen_nn1_prop_outcome = PropOk j.
  Proof.
    destruct healthy_when_frozen as [H1 [H2 H3]].
    assert (H3' : 1005 / 1000 <= a El T * (1 - sqrt (eL2 El T ec))) by lra.
    exact (answered_when_healthy _ _ _ _ _ _ _ ts Hleaf H1 H2 H3').
  Qed.
End AtEpoch.

(* the small-eccentricity path (e0 <= 1e-4; the clamp may raise the eccentricity of the long-period terms to 1e-6) *)
From PyOrb.proofs Require Import P_Sgp4SmallE.
Lemma clamp_small e : 0 < e <= 1 / 10000 -> 1 / 1000000 <= clamp_e e <= 1 / 10000.
Proof.
  intros H. unfold clamp_e, ite_lt. cbv zeta.
  destruct (Rlt_dec e (1 / 1000000)); destruct (Rlt_dec (999999 / 1000000) _); lra.
Qed.

Section AtEpoch3.
  Variables e0 incl_deg raan_deg argp_deg ma_deg n_revday bstar ts : R.
  Notation "'GA' f" := (f e0 incl_deg raan_deg argp_deg ma_deg n_revday bstar) (at level 9, f at level 9).
  Notation "'GB' f" := (f e0 incl_deg raan_deg argp_deg ma_deg n_revday bstar ts) (at level 9, f at level 9).
  Let El := E e0 incl_deg raan_deg argp_deg ma_deg n_revday bstar.
  Let T := mkT true ts.
  Let ec := ecl3 e0 incl_deg raan_deg argp_deg ma_deg n_revday bstar ts.

  Hypothesis Hleaf : GA gen_init_outcome = InitMode NearNorm 3.
  Hypothesis Hfrozen : bstar = 0 \/ ts = 0.

  Lemma perigee_guard3 : 1 + 220 / XKMPER <= a0'' El * (1 - e0).
  Proof.
    destruct (leaf3_facts _ _ _ _ _ _ _ Hleaf) as [_ [_ [Hp _]]].
    rewrite (perigee_spec _ _ _ _ _ _ _ (leaf3_He _ _ _ _ _ _ _ Hleaf)) in Hp.
    fold El in Hp. unfold perigee_km, aE, XKMPER in *. change (el_e0 El) with e0 in Hp. lra.
  Qed.

  Theorem healthy_when_frozen3 :
    - (1 / 1000) <= e_unclamped El T /\ eL2 El T ec <= 4 / 25 /\ 103 / 100 <= a El T * (1 - sqrt (eL2 El T ec)).
  Proof.
    pose proof (leaf3_He _ _ _ _ _ _ _ Hleaf) as He. pose proof (leaf3_e_le _ _ _ _ _ _ _ Hleaf) as Hele.
    pose proof perigee_guard3 as Hp.
    assert (Hfr : el_bstar El = 0 \/ ts = 0) by exact Hfrozen.
    pose proof (frozen_a El true ts Hfr) as Fa. pose proof (frozen_e El true ts Hfr) as Fe. fold T in Fa, Fe.
    change (el_e0 El) with e0 in Fe.
    assert (Hec : 1 / 1000000 <= ec <= 1 / 10000).
    { unfold ec, ecl3. fold El T. rewrite Fe. apply clamp_small. lra. }
    rewrite Fe, Fa.
    assert (HA : 1 + 220 / XKMPER <= a0'' El) by (unfold XKMPER in *; nra).
    assert (HA0 : 0 < a0'' El) by (unfold XKMPER in *; lra).
    assert (Ha' : 0 < a El T) by (rewrite Fa; exact HA0).
    pose proof (ayNL_bound El T ec Ha' ltac:(lra)) as Hy. rewrite Fa in Hy.
    pose proof (eL_triangle El T ec ltac:(lra)) as Htri.
    set (y := Rabs (ayNL El T ec)) in *. set (A := a0'' El) in *. set (Q := sqrt (eL2 El T ec)) in *.
    assert (Hy0 : 0 <= y) by apply Rabs_pos.
    assert (Hyb : y <= 12 / 10000).
    { assert (H1 : 9999 / 10000 <= 1 - ec ^ 2) by nra.
      assert (y * ((1 + 220 / XKMPER) * (9999 / 10000)) <= A30 / (4 * k2)).
      { apply Rle_trans with (2 := Hy). apply Rmult_le_compat_l; [exact Hy0|]. unfold XKMPER in *. nra. }
      unfold XKMPER, A30, k2 in *. lra. }
    assert (HQ : Q <= ec + y) by exact Htri.
    assert (HQ0 : 0 <= Q) by apply sqrt_pos.
    split; [lra|]. split.
    - assert (HQQ : Q * Q = eL2 El T ec) by (apply sqrt_sqrt; apply eL2_nonneg).
      rewrite <- HQQ. nra.
    - unfold XKMPER in *. nra.
  Qed.

  Theorem answered_when_frozen3 : exists j, (j <= 5)%nat /\ GB gen_nn3_prop_outcome = PropOk j.
  Proof.
    destruct healthy_when_frozen3 as [H1 [H2 H3]].
    assert (H3' : 1005 / 1000 <= a El T * (1 - sqrt (eL2 El T ec))) by lra.
    exact (answered_when_healthy3 _ _ _ _ _ _ _ ts Hleaf H1 H2 H3').
  Qed.
End AtEpoch3.

(* a0'' <= 2 earth radii for every TLE mean motion of a near-earth orbit (6.4 .. 18 rev/day), e0 <= 0.39, any inclination *)
From Interval Require Import Tactic.
Lemma a0_upper n e i w m o b : 64 / 10 <= n <= 18 -> 0 <= e <= 39 / 100 ->
  a0'' (mkEl (n * (twopi / min_per_day)) e i w m o b) <= 2.
Proof.
  intros Hn He.
  unfold a0'', delta0, a0, delta1, a1, powr, theta, k2, ke, twopi, min_per_day, Rpower.
  cbn [el_n0 el_e0 el_i0 el_w0 el_M0 el_O0 el_bstar].
  set (c := cos i). assert (Hc : -1 <= c <= 1) by (unfold c; apply COS_bound). clearbody c.
  interval with (i_bisect n, i_depth 10).
Qed.

(* INPUT-ONLY form of the accuracy claim: an accepted element set (e0 > 1e-4) with e0 <= 0.39 and TLE mean motion 6.4 .. 18
   rev/day, at its epoch or drag-free at any time, IS answered, and the returned state is within 1 mm / 1 um/s of the report *)
From PyOrb.gen Require Import Gen_astronomy Gen_orbital.
From PyOrb.proofs Require Import P_Sgp4Lip P_Sgp4EndToEnd.
Theorem accuracy_when_frozen e0 i r w m n b ts :
  gen_init_outcome e0 i r w m n b = InitMode NearNorm 1 ->
  b = 0 \/ ts = 0 -> e0 <= 39 / 100 -> 64 / 10 <= n <= 18 ->
  exists j, (j <= 5)%nat /\ gen_nn1_prop_outcome e0 i r w m n b ts = PropOk j /\
  let El := E e0 i r w m n b in let T := mkT false ts in let ec := ecl e0 i r w m n b ts in
  let Ucap := fmodR (U El T ec) (2 * PI) in
  let '(radius, theta, eqinc, ascn, rdk, rfdk) := nn1_returned j e0 i r w m n b ts in
  exists Es, kepler_residual El T ec Ucap Es = 0 /\
    (forall Es', kepler_residual El T ec Ucap Es' = 0 -> Es' = Es) /\
    Rabs (gen_kep2xyz_x radius theta eqinc ascn rdk rfdk - Pxf El T ec Es) <= 1 / 1000000 /\
    Rabs (gen_kep2xyz_y radius theta eqinc ascn rdk rfdk - Pyf El T ec Es) <= 1 / 1000000 /\
    Rabs (gen_kep2xyz_z radius theta eqinc ascn rdk rfdk - Pzf El T ec Es) <= 1 / 1000000 /\
    Rabs (gen_kep2xyz_vx radius theta eqinc ascn rdk rfdk - Vxk El T ec Es) <= 1 / 1000000000 /\
    Rabs (gen_kep2xyz_vy radius theta eqinc ascn rdk rfdk - Vyk El T ec Es) <= 1 / 1000000000 /\
    Rabs (gen_kep2xyz_vz radius theta eqinc ascn rdk rfdk - Vzk El T ec Es) <= 1 / 1000000000.
Proof.
  intros Hleaf Hfr He39 Hn.
  destruct (answered_when_frozen e0 i r w m n b ts Hleaf Hfr He39) as [j [Hj Hp]].
  exists j. split; [exact Hj|]. split; [exact Hp|].
  destruct (healthy_when_frozen e0 i r w m n b ts Hleaf Hfr He39) as [_ [HeL _]].
  pose proof (leaf1_He _ _ _ _ _ _ _ Hleaf) as He.
  assert (Hfr' : el_bstar (E e0 i r w m n b) = 0 \/ ts = 0) by exact Hfr.
  pose proof (frozen_a (E e0 i r w m n b) false ts Hfr') as Fa.
  assert (HA : a (E e0 i r w m n b) (mkT false ts) <= 4).
  { rewrite Fa. pose proof (a0_upper n e0 (P_Sgp4Init.i0 i) (P_Sgp4Init.w0 w) (P_Sgp4Init.M0 m) (P_Sgp4Init.O0 r) b Hn ltac:(lra)) as H. 
    change (E e0 i r w m n b) with (mkEl (n * (twopi / min_per_day)) e0 (P_Sgp4Init.i0 i) (P_Sgp4Init.w0 w) (P_Sgp4Init.M0 m) (P_Sgp4Init.O0 r) b). lra. }
  exact (answered_position_accuracy e0 i r w m n b ts j Hleaf Hp HA HeL).
Qed.
