(* The exposed summary and the returned trajectory, drag-free case: the geocentric distance of every answered state lies
   between OrbitElements.perigee + XKMPER - 41.3 km and OrbitElements.semi_major_axis (1 + e0) XKMPER + 42 km. *)
From Coq Require Import Reals Lra.
From Coquelicot Require Import Rcomplements.
From PyOrb.lib Require Import PyReal SgpOutcome.
From PyOrb.spec Require Import Spec_SGP4.
From PyOrb.gen Require Import Gen_sgp4.
From PyOrb.proofs Require Import P_Sgp4Init P_Sgp4Exits P_Sgp4RadiusFrozen P_OeSummary.
Open Scope R_scope.

Theorem distance_within_summary_band : forall e0 i r0 w m n b ts,
  gen_init_outcome e0 i r0 w m n b = InitMode NearNorm 1 -> b = 0 \/ ts = 0 ->
  0 < e0 <= 39 / 100 -> 64 / 10 <= n <= 17 ->
  forall j Ew radius theta eqinc ascn rdk rfdk smjaxs,
  gen_nn1_prop_outcome e0 i r0 w m n b ts = PropOk j ->
  exit_ok e0 i r0 w m n b ts Ew radius theta eqinc ascn rdk rfdk smjaxs ->
  gen_oe_perigee e0 i r0 w m n b + XKMPER - 413 / 10 <= radius <=
  gen_oe_semi_major_axis e0 i r0 w m n b * (1 + e0) * XKMPER + 42.
Proof.
  intros e0 i r0 w m n b ts Hinit Hfz He Hn j Ew radius theta eqinc ascn rdk rfdk smjaxs Hp Hx.
  pose proof (distance_between_perigee_and_apogee e0 i r0 w m n b ts Hinit Hfz (proj2 He) j Ew radius theta eqinc ascn rdk rfdk smjaxs Hp Hx) as [Hlo Hhi].
  assert (He' : 0 <= e0 <= 4 / 10) by lra.
  pose proof (oe_semi_major_axis_close e0 i r0 w m n b He' Hn) as Hc.
  rewrite (aodp_spec e0 i r0 w m n b) in Hc by lra.
  unfold gen_oe_perigee. unfold XKMPER in *.
  set (A := a0'' (E e0 i r0 w m n b)) in *. set (Ao := gen_oe_semi_major_axis e0 i r0 w m n b) in *.
  replace (1275627 / 200) with (6378135 / 1000) in * by lra.
  assert (Hd : Rabs (Ao - A) <= 13 / 10 / (6378135 / 1000)).
  { apply Rmult_le_reg_r with (6378135 / 1000); [lra|]. unfold Rdiv at 2. rewrite Rmult_assoc, Rinv_l by lra. lra. }
  apply Rabs_le_between in Hd.
  assert (K : 13 / 10 / (6378135 / 1000) * (6378135 / 1000) = 13 / 10) by (field).
  split; nra.
Qed.
