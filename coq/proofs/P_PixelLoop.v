(* C07: converting a geolocated pixel to longitude / latitude / altitude terminates.  A pixel on the WGS-84 ellipsoid is at
   least the polar radius 6356.75 km from the centre, which is more than sqrt(0.993) * 6378.135 km, so the contraction
   argument of P_LatLoop applies: geoloc.get_lonlatalt leaves its latitude loop at the fifth test at the latest. *)
From Coq Require Import Reals Lra.
From PyOrb.lib Require Import PyReal.
From PyOrb.spec Require Import Spec_Rot Spec_Geodesy.
From PyOrb.gen Require Import Gen_astronomy Gen_orbital.
From PyOrb.proofs Require Import P_LatLoop.
Open Scope R_scope.

Lemma on_ellipsoid_above x y z : on_ellipsoid A_wgs84 B_wgs84 x y z ->
  993 / 1000 * (XKMPER * XKMPER) <= x * x + y * y + z * z.
Proof.
  unfold on_ellipsoid, ellipsoid_form, A_wgs84, B_wgs84, XKMPER. intros H.
  set (A2 := 6378137 / 1000 * (6378137 / 1000)) in *. set (B2 := 6356752314245 / 1000000000 * (6356752314245 / 1000000000)) in *.
  assert (HA : 0 < A2) by (unfold A2; lra). assert (HB : 0 < B2) by (unfold B2; lra). assert (HBA : B2 <= A2) by (unfold A2, B2; lra).
  assert (Hx : 0 <= x * x) by nra. assert (Hy : 0 <= y * y) by nra. assert (Hz : 0 <= z * z) by nra.
  assert (E : x * x + y * y + z * z >= B2 * ((x * x + y * y) / A2 + z * z / B2)).
  { replace (B2 * ((x * x + y * y) / A2 + z * z / B2)) with ((x * x + y * y) * (B2 / A2) + z * z) by (field; lra).
    assert (B2 / A2 <= 1). { apply Rmult_le_reg_r with A2; [lra|]. unfold Rdiv. rewrite Rmult_assoc, Rinv_l by lra. lra. }
    assert (0 <= B2 / A2) by (apply Rlt_le, Rdiv_lt_0_compat; lra). nra. }
  assert (F : (x * x + y * y) / A2 + z * z / B2 = 1).
  { rewrite <- H. unfold A2, B2. field. }
  rewrite F in E. unfold B2 in E. lra.
Qed.

Theorem pixel_conversion_exits_by_5 x y z d : 0 < x * x + y * y -> on_ellipsoid A_wgs84 B_wgs84 x y z ->
  gen_geoloc_lla_exit_p1 x y z d \/ gen_geoloc_lla_exit_p2 x y z d \/ gen_geoloc_lla_exit_p3 x y z d \/
  gen_geoloc_lla_exit_p4 x y z d \/ gen_geoloc_lla_exit_p5 x y z d.
Proof. intros Hxy Hon. exact (module_loop_exits_by_5 x y z d Hxy (on_ellipsoid_above x y z Hon)). Qed.
