(* C20: on every answered propagation (both reachable near-earth-normal leaves, every Newton exit) the
   inclination returned for the orbital plane differs from the element set's inclination by at most
   (3/4) k2 / pL^2, which is below 0.05 deg whenever pL >= 0.69 earth radii, and the node differs from the
   secular node by at most (3/2) k2 / pL^2. *)
From Coq Require Import Reals Lra.
From Interval Require Import Tactic.
From PyOrb.lib Require Import PyReal SgpOutcome.
From PyOrb.spec Require Import Spec_SGP4.
From PyOrb.gen Require Import Gen_sgp4 Gen_sgp4_compose.
From PyOrb.proofs Require Import P_Sgp4Init P_Sgp4Prop P_Sgp4Tree P_Sgp4Exits P_Sgp4SmallE P_Sgp4Geometry.
Open Scope R_scope.

Lemma band_number p : 69 / 100 <= p -> 3 / 4 * k2 / p ^ 2 <= deg2rad (5 / 100).
Proof.
  intros Hp. assert (Hp2 : 4761 / 10000 <= p ^ 2) by nra.
  apply Rle_trans with (3 / 4 * k2 / (4761 / 10000)).
  - unfold Rdiv. apply Rmult_le_compat_l; [unfold k2; lra|]. apply Rinv_le_contravar; lra.
  - unfold k2, deg2rad. interval.
Qed.

Section Plane.
  Variables e0 incl_deg raan_deg argp_deg ma_deg n_revday bstar ts : R.
  Notation "'GA' f" := (f e0 incl_deg raan_deg argp_deg ma_deg n_revday bstar) (at level 9, f at level 9).
  Notation "'GB' f" := (f e0 incl_deg raan_deg argp_deg ma_deg n_revday bstar ts) (at level 9, f at level 9).
  Let El := E e0 incl_deg raan_deg argp_deg ma_deg n_revday bstar.

  Theorem plane_leaf1 j Ew radius theta eqinc ascn rdk rfdk smjaxs :
    GA gen_init_outcome = InitMode NearNorm 1 -> GB gen_nn1_prop_outcome = PropOk j ->
    exit_ok e0 incl_deg raan_deg argp_deg ma_deg n_revday bstar ts Ew radius theta eqinc ascn rdk rfdk smjaxs ->
    let T := mkT false ts in let ec := ecl e0 incl_deg raan_deg argp_deg ma_deg n_revday bstar ts in
    0 < pL El T ec /\
    Rabs (eqinc - deg2rad incl_deg) <= 3 / 4 * k2 / (pL El T ec) ^ 2 /\
    Rabs (ascn - Om El T) <= 3 / 2 * k2 / (pL El T ec) ^ 2 /\
    (69 / 100 <= pL El T ec -> Rabs (eqinc - deg2rad incl_deg) <= deg2rad (5 / 100)).
  Proof.
    intros Hleaf Hp Hex T ec.
    destruct (prop_ok_guards _ _ _ _ _ _ _ _ Hleaf _ Hp) as [G1 [_ G3]]. fold El T ec in G1, G3.
    destruct Hex as [_ [_ [Hi [Ho _]]]]. fold El T ec in Hi, Ho.
    assert (Ha : a El T <> 0) by lra.
    assert (HpL : 0 < pL El T ec) by (unfold pL; pose proof (eL2_nonneg El T ec); nra).
    pose proof (ik_band El T ec Ew Ha G3 HpL) as B1. pose proof (Ok_band El T ec Ew Ha G3 HpL) as B2.
    rewrite <- Hi in B1. rewrite <- Ho in B2.
    change (el_i0 El) with (deg2rad incl_deg) in B1.
    repeat split; try assumption.
    intros H69. apply Rle_trans with (1 := B1). apply band_number. exact H69.
  Qed.

  Theorem plane_leaf3 j Ew radius theta eqinc ascn rdk rfdk smjaxs :
    GA gen_init_outcome = InitMode NearNorm 3 -> GB gen_nn3_prop_outcome = PropOk j ->
    exit_ok3 e0 incl_deg raan_deg argp_deg ma_deg n_revday bstar ts Ew radius theta eqinc ascn rdk rfdk smjaxs ->
    let T := mkT true ts in let ec := ecl3 e0 incl_deg raan_deg argp_deg ma_deg n_revday bstar ts in
    0 < pL El T ec /\
    Rabs (eqinc - deg2rad incl_deg) <= 3 / 4 * k2 / (pL El T ec) ^ 2 /\
    Rabs (ascn - Om El T) <= 3 / 2 * k2 / (pL El T ec) ^ 2 /\
    (69 / 100 <= pL El T ec -> Rabs (eqinc - deg2rad incl_deg) <= deg2rad (5 / 100)).
  Proof.
    intros Hleaf Hp Hex T ec.
    destruct (prop_ok_guards3 _ _ _ _ _ _ _ _ Hleaf _ Hp) as [G1 [_ G3]]. fold El T ec in G1, G3.
    destruct Hex as [_ [_ [Hi [Ho _]]]]. fold El T ec in Hi, Ho.
    assert (Ha : a El T <> 0) by lra.
    assert (HpL : 0 < pL El T ec) by (unfold pL; pose proof (eL2_nonneg El T ec); nra).
    pose proof (ik_band El T ec Ew Ha G3 HpL) as B1. pose proof (Ok_band El T ec Ew Ha G3 HpL) as B2.
    rewrite <- Hi in B1. rewrite <- Ho in B2.
    change (el_i0 El) with (deg2rad incl_deg) in B1.
    repeat split; try assumption.
    intros H69. apply Rle_trans with (1 := B1). apply band_number. exact H69.
  Qed.
End Plane.
