(* M_Collection.v — hand-written executable model of reading a platform from a TLE collection:
     pyorbital/tlefile.py  _decode_lines (371-389), _get_tles_from_url (352-362),
     _get_tles_from_uris / _get_first_tle (327-339), Tle.__init__ / _read_tle (166-238),
     _parse_tles_for_downloader / Downloader.read_tle_files, read_tles_from_mmam_xml_files,
     read_tle_from_mmam_xml_file (identity on (line-1, line-2) pairs), read_platform_numbers (86-106).
   Domain: 7-bit ASCII.  A source is the list of its lines as the file iterator yields them
   (split after every "\n", terminators kept, so a line holds "\n" at most as its last character);
   the cursor of `for l_0 in fid` / `next(fid)` is the remaining list. *)
From Coq Require Import List Ascii Bool Arith NArith.
Import ListNotations.

Definition line := list ascii.

(* ---------- str primitives ---------- *)
(* str.isspace for ASCII: \t \n \v \f \r, \x1c-\x1f, space *)
Definition is_space (c : ascii) : bool :=
  let n := N_of_ascii c in ((9 <=? n) && (n <=? 13) || (28 <=? n) && (n <=? 32))%N.

Fixpoint lstrip (l : line) : line :=
  match l with c :: t => if is_space c then lstrip t else l | [] => [] end.
Fixpoint rstrip (l : line) : line :=
  match l with
  | [] => []
  | c :: t => match rstrip t with
              | [] => if is_space c then [] else [c]
              | t' => c :: t'
              end
  end.
Definition strip (l : line) : line := lstrip (rstrip l).

(* str.upper for ASCII *)
Definition upper_char (c : ascii) : ascii :=
  let n := N_of_ascii c in if ((97 <=? n) && (n <=? 122))%N then ascii_of_N (n - 32) else c.
Definition upper (l : line) : line := map upper_char l.

Fixpoint leqb (a b : line) : bool :=
  match a, b with
  | [], [] => true
  | x :: a', y :: b' => Ascii.eqb x y && leqb a' b'
  | _, _ => false
  end.

(* str.startswith *)
Fixpoint prefixb (p l : line) : bool :=
  match p, l with
  | [], _ => true
  | x :: p', y :: l' => Ascii.eqb x y && prefixb p' l'
  | _ :: _, [] => false
  end.

Definition isempty (l : line) : bool := match l with [] => true | _ => false end.

Definition ch (n : nat) : ascii := ascii_of_nat n.
Definition nl : ascii := ch 10.
Definition one_sp : line := [ch 49; ch 32].      (* "1 " *)
Definition two_sp : line := [ch 50; ch 32].      (* "2 " *)

(* ---------- dict (insertion ordered, assignment overwrites) ---------- *)
Definition dict := list (line * line).
Fixpoint dict_get (d : dict) (k : line) : option line :=
  match d with
  | [] => None
  | (k', v) :: t => if leqb k k' then Some v else dict_get t k
  end.
Definition dict_mem (d : dict) (k : line) : bool :=
  match dict_get d k with Some _ => true | None => false end.
Fixpoint dict_set (d : dict) (k v : line) : dict :=
  match d with
  | [] => [(k, v)]
  | (k', v') :: t => if leqb k k' then (k, v) :: t else (k', v') :: dict_set t k v
  end.

(* ---------- _decode_lines ---------- *)
Definition tle := (line * line)%type.     (* l_1.strip() + "\n" + l_2.strip() *)

(* designator = "1 " + SATELLITES.get(platform, "") *)
Definition designator (sats : dict) (platform : line) : line :=
  one_sp ++ match dict_get sats platform with Some id => id | None => [] end.

Inductive branch := BName | BDesig | BOther.

(* which arm of the if / elif / elif chain l_0 selects *)
Definition classify (sats : dict) (platform : line) (l0 : line) : branch :=
  if negb (isempty platform) && leqb (strip l0) platform then BName     (* platform and l_0.strip() == platform *)
  else if prefixb (designator sats platform) (strip l0) then BDesig     (* l_0.strip().startswith(designator) *)
  else BOther.                                                          (* third arm only logs *)

(* (platform in SATELLITES or not only_first) or (open_is_dummy and not platform) *)
Definition take_cond (sats : dict) (platform : line) (only_first dummy : bool) : bool :=
  (dict_mem sats platform || negb only_first) || (dummy && isempty platform).

Inductive result := Res (tles : list tle) | StopIter.

(* _get_tles_from_url: `for l_0 in fid:` with the `next(fid)` calls of _decode_lines acting on the
   same cursor; next() on an exhausted cursor raises StopIteration, which leaves every frame up to
   the caller of Tle()/read() (no generator frame is crossed except contextlib's, which re-raises it) *)
Fixpoint scan (sats : dict) (platform : line) (only_first dummy : bool)
              (fid : list line) (tles : list tle) {struct fid} : result :=
  match fid with
  | [] => Res tles
  | l0 :: fid1 =>
      match classify sats platform l0 with
      | BName =>
          match fid1 with
          | l1 :: l2 :: fid3 =>                       (* l_1 = next(fid); l_2 = next(fid) *)
              if only_first then Res [(strip l1, strip l2)]
              else scan sats platform only_first dummy fid3 (tles ++ [(strip l1, strip l2)])
          | _ => StopIter
          end
      | BDesig =>
          if take_cond sats platform only_first dummy then
            match fid1 with
            | l2 :: fid2 =>                           (* l_1 = l_0; l_2 = next(fid) *)
                if only_first then Res [(strip l0, strip l2)]
                else scan sats platform only_first dummy fid2 (tles ++ [(strip l0, strip l2)])
            | [] => StopIter
            end
          else scan sats platform only_first dummy fid1 tles
      | BOther => scan sats platform only_first dummy fid1 tles
      end
  end.

(* _get_tles_from_uris: every uri is opened and scanned, in order *)
Fixpoint from_uris (sats : dict) (platform : line) (only_first dummy : bool)
                   (uris : list (list line)) : result :=
  match uris with
  | [] => Res []
  | u :: us =>
      match scan sats platform only_first dummy u [] with
      | StopIter => StopIter
      | Res a => match from_uris sats platform only_first dummy us with
                 | StopIter => StopIter
                 | Res b => Res (a ++ b)
                 end
      end
  end.

Inductive outcome := Found (l1 l2 : line) | KeyError | StopIteration.

(* _get_first_tle + Tle._read_tle: `if tles: return tles[0]` / `return ""` / `if not tle: raise KeyError` *)
Definition read_tle (sats : dict) (dummy : bool) (platform : line) (uris : list (list line)) : outcome :=
  match from_uris sats platform true dummy uris with
  | StopIter => StopIteration
  | Res [] => KeyError
  | Res ((a, b) :: _) => Found a b
  end.

(* Tle.__init__: self._platform = platform.strip().upper() *)
Definition tle_read (sats : dict) (dummy : bool) (requested : line) (uris : list (list line)) : outcome :=
  read_tle sats dummy (upper (strip requested)) uris.

(* ---------- MMAM XML admin message: identity on the (line-1, line-2) texts ---------- *)
(* "\n".join(data) read back through io.StringIO: every line but the last ends in "\n" *)
Fixpoint add_newlines (ls : list line) : list line :=
  match ls with
  | [] => []
  | [l] => [l]
  | l :: t => (l ++ [nl]) :: add_newlines t
  end.
Definition xml_lines (navs : list (line * line)) : list line :=
  add_newlines (flat_map (fun p => [fst p; snd p]) navs).

(* ---------- bulk reads ---------- *)
(* Tle("", tle_file=io.StringIO(tle)) on one merged "l1\nl2" string.  io.StringIO splits it after the
   "\n" (stripped lines hold no "\n" themselves); an empty second part yields NO second line *)
Definition merged_lines (t : tle) : list line :=
  (fst t ++ [nl]) :: match snd t with [] => [] | b => [b] end.
Definition tle_of_pair (sats : dict) (t : tle) : outcome :=
  read_tle sats true [] [merged_lines t].

Inductive bulk := BulkOk (ts : list tle) | BulkErr (o : outcome).

Fixpoint collect (os : list outcome) : bulk :=
  match os with
  | [] => BulkOk []
  | Found a b :: t => match collect t with BulkOk ts => BulkOk ((a, b) :: ts) | e => e end
  | o :: _ => BulkErr o
  end.

(* Downloader.read_tle_files -> _parse_tles_for_downloader(fnames, open): platform "", only_first False,
   builtin open (so open_is_dummy is False), then one Tle per merged string *)
Definition read_tle_files (sats : dict) (files : list (list line)) : bulk :=
  match from_uris sats [] false false files with
  | StopIter => BulkErr StopIteration
  | Res ts => collect (map (tle_of_pair sats) ts)
  end.

(* read_tles_from_mmam_xml_files: chunks of two, `if not all(two_lines): continue` *)
Definition read_xml_files (sats : dict) (files : list (list (line * line))) : bulk :=
  collect (flat_map (fun navs =>
     flat_map (fun p => if isempty (fst p) || isempty (snd p) then []
                        else [read_tle sats true [] [[fst p ++ [nl]; snd p]]]) navs) files).

(* ---------- read_platform_numbers ---------- *)
(* str.split(): maximal runs of non-whitespace *)
Fixpoint split_aux (l : line) (cur : line) : list line :=
  match l with
  | [] => match cur with [] => [] | _ => [rev cur] end
  | c :: t => if is_space c then match cur with [] => split_aux t [] | _ => rev cur :: split_aux t [] end
              else split_aux t (c :: cur)
  end.
Definition split_ws (l : line) : list line := split_aux l [].

Fixpoint join_sp (ws : list line) : line :=
  match ws with
  | [] => []
  | [w] => w
  | w :: t => w ++ [ch 32] ++ join_sp t
  end.

(* one row of the platforms file: None = skipped *)
Definition platform_row (in_upper : bool) (row : line) : option (line * line) :=
  if prefixb [ch 35] row then None                       (* row.startswith("#") *)
  else let parts := split_ws row in
       if length parts <? 2 then None
       else let name := join_sp (removelast parts) in     (* " ".join(parts[:-1]) *)
            Some (if in_upper then upper name else name, last parts []).

Definition read_platform_numbers (in_upper : bool) (rows : list line) : dict :=
  fold_left (fun d row => match platform_row in_upper row with
                          | Some (k, v) => dict_set d k v
                          | None => d
                          end) rows [].

(* ---------- collections of entries (used by the theorems and by the check) ---------- *)
Record entry := mk_entry { e_name : option line; e_l1 : line; e_l2 : line }.

Definition entry_lines (e : entry) : list line :=
  match e_name e with Some n => [n] | None => [] end ++ [e_l1 e; e_l2 e].
Definition lines_of (es : list entry) : list line := flat_map entry_lines es.
Definition entry_tle (e : entry) : tle := (strip (e_l1 e), strip (e_l2 e)).

(* ---------- helpers for the correspondence run ---------- *)
(* position of the first source line whose strip() is the given text *)
Fixpoint locate (ls : list line) (x : line) (i : nat) : nat :=
  match ls with
  | [] => 9999
  | l :: t => if leqb (strip l) x then i else locate t x (S i)
  end.
Definition code_outcome (ls : list line) (o : outcome) : list nat :=
  match o with
  | Found a b => [1; locate ls a 0; locate ls b 0]
  | KeyError => [2; 0; 0]
  | StopIteration => [3; 0; 0]
  end.
Definition code_bulk (ls : list line) (b : bulk) : list nat :=
  match b with
  | BulkOk ts => 1 :: flat_map (fun t => [locate ls (fst t) 0; locate ls (snd t) 0]) ts
  | BulkErr o => [0; hd 0 (code_outcome ls o)]
  end.
(* a source line given as (text, terminator code): 0 none, 1 "\n", 2 "\r\n", 3 "\r" *)
Definition mkline (p : line * nat) : line :=
  fst p ++ match snd p with 0 => [] | 1 => [nl] | 2 => [ch 13; nl] | _ => [ch 13] end.
