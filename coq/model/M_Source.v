(* M_Source.v — hand-written executable model of the source decision of pyorbital/tlefile.py:
     Tle._read_tle (227-238), _get_uris_and_open_func (295-324), _get_first_tle /
     _get_tles_from_uris (327-339, which opens EVERY uri), _get_config_path (55-68),
     get_platforms_filepath (71-83)
   over the finite configuration space of property C16
     {line1/line2: both, one, none} x {tle_file: none, path, StringIO, admin-message XML}
     x {TLES: unset, several files of different age, matches nothing}
     x {PYORBITAL_CONFIG_PATH: unset, dir with platforms.txt, dir without} x {PPP_CONFIG_DIR: unset, set}
   (216 configurations), each taken with the requested platform present in / absent from the
   consulted source ("even if it yields nothing"). *)
From Coq Require Import List Bool Arith.
Import ListNotations.

Inductive lines_arg := LBoth | LOne | LNone.
Inductive file_arg := FNone | FPath | FStream | FXml.
Inductive tles_env := TUnset | TSeveral | TNothing.
Inductive cfgpath_env := PUnset | PWithFile | PWithout.
Inductive ppp_env := QUnset | QSet.

Record cfg := mkcfg {
  c_lines : lines_arg; c_file : file_arg; c_tles : tles_env;
  c_cfgpath : cfgpath_env; c_ppp : ppp_env;
  c_has : bool          (* does the consulted source hold an entry for the requested platform *)
}.

(* ---- the environment as the code sees it ---- *)
(* os.environ.get("TLES") followed by glob.glob: None = variable unset; Some files = the matching
   files as (file id, change time) in glob order.  The concrete lists are those the check builds. *)
Definition tles_glob (t : tles_env) : option (list (nat * nat)) :=
  match t with
  | TUnset => None
  | TSeveral => Some [(0, 20); (1, 30); (2, 10)]
  | TNothing => Some []
  end.

(* max(list_of_tle_files, key=os.path.getctime): the first maximal element; None = ValueError *)
Definition newest (files : list (nat * nat)) : option (nat * nat) :=
  fold_left (fun best f => match best with
                           | None => Some f
                           | Some b => if snd b <? snd f then Some f else Some b
                           end) files None.

Inductive opener := ODummy | OOpen | OUrlopen.
Inductive uri := UGivenStream | UXmlStream | UPath | UTlesFile (id : nat) | UUrl (k : nat).
Inductive exn := EValueError | EKeyError | EOSError.

Definition n_tle_urls : nat := 9.       (* len(TLE_URLS) = len(TLE_GROUPS) *)

(* _get_uris_and_open_func: `if tle_file:` ... `elif local_tle_path:` ... `else:` *)
Definition get_uris_and_open_func (tle_file : file_arg) (local : option (list (nat * nat)))
  : (list uri * opener) + exn :=
  match tle_file with
  | FStream => inl ([UGivenStream], ODummy)        (* isinstance(tle_file, io.StringIO) *)
  | FXml => inl ([UXmlStream], ODummy)             (* "ADMIN_MESSAGE" in tle_file *)
  | FPath => inl ([UPath], OOpen)
  | FNone =>
      match local with
      | Some files =>
          match newest files with
          | Some f => inl ([UTlesFile (fst f)], OOpen)
          | None => inr EValueError                (* max() of an empty sequence *)
          end
      | None => inl (map UUrl (seq 0 n_tle_urls), OUrlopen)
      end
  end.

Inductive source := SLines | SStream | SXml | SPath | STles (id : nat) | SNet | SNoSource.

Definition source_of_uri (u : uri) : source :=
  match u with
  | UGivenStream => SStream | UXmlStream => SXml | UPath => SPath
  | UTlesFile i => STles i | UUrl _ => SNet
  end.

Record outcome := mkout {
  o_source : source;        (* where the elements were looked for / taken from *)
  o_net : nat;              (* number of urlopen calls *)
  o_exn : option exn
}.

(* _get_first_tle -> _get_tles_from_uris(only_first=True): every uri is opened, the first hit wins *)
Definition get_first_tle (uris : list uri) (o : opener) (has : bool) : outcome :=
  let net := match o with OUrlopen => length uris | _ => 0 end in
  let src := match uris with u :: _ => source_of_uri u | [] => SNoSource end in
  mkout src net (if has then None else Some EKeyError).   (* `if not tle: raise KeyError` *)

(* Tle._read_tle *)
Definition read_tle (c : cfg) : outcome :=
  match c_lines c with
  | LBoth => mkout SLines 0 None          (* line1 is not None and line2 is not None *)
  | _ =>
      match get_uris_and_open_func (c_file c) (tles_glob (c_tles c)) with
      | inl (uris, o) => get_first_tle uris o (c_has c)
      | inr e => mkout SNoSource 0 (Some e)
      end
  end.

(* ---- platforms registry ---- *)
Inductive dir := DPkg | DCustom.

Definition in_env_pyorb (p : cfgpath_env) : bool := match p with PUnset => false | _ => true end.
Definition in_env_ppp (q : ppp_env) : bool := match q with QUnset => false | QSet => true end.

(* _get_config_path *)
Definition get_config_path (p : cfgpath_env) (q : ppp_env) : dir :=
  if in_env_ppp q && negb (in_env_pyorb p) then DPkg
  else (* os.getenv("PYORBITAL_CONFIG_PATH", PKG_CONFIG_DIR) *)
       if in_env_pyorb p then DCustom else DPkg.

(* os.path.isfile(os.path.join(dir, "platforms.txt")) *)
Definition isfile_platforms (p : cfgpath_env) (pkg_ok : bool) (d : dir) : bool :=
  match d with
  | DPkg => pkg_ok
  | DCustom => match p with PWithFile => true | _ => false end
  end.

(* get_platforms_filepath: inr = OSError *)
Definition get_platforms_filepath (p : cfgpath_env) (q : ppp_env) (pkg_ok : bool) : dir + exn :=
  let d := get_config_path p q in
  if isfile_platforms p pkg_ok d then inl d
  else if isfile_platforms p pkg_ok DPkg then inl DPkg
  else inr EOSError.

Definition platforms_of (c : cfg) : dir + exn := get_platforms_filepath (c_cfgpath c) (c_ppp c) true.

(* ---- enumeration and encoding for the correspondence run ---- *)
Definition all_lines := [LBoth; LOne; LNone].
Definition all_files := [FNone; FPath; FStream; FXml].
Definition all_tles := [TUnset; TSeveral; TNothing].
Definition all_cfgpaths := [PUnset; PWithFile; PWithout].
Definition all_ppp := [QUnset; QSet].

Definition all_cfgs : list cfg :=
  flat_map (fun l => flat_map (fun f => flat_map (fun t => flat_map (fun p => flat_map (fun q =>
    map (fun h => mkcfg l f t p q h) [true; false]) all_ppp) all_cfgpaths) all_tles) all_files) all_lines.

Definition code_lines l := match l with LBoth => 0 | LOne => 1 | LNone => 2 end.
Definition code_file f := match f with FNone => 0 | FPath => 1 | FStream => 2 | FXml => 3 end.
Definition code_tles t := match t with TUnset => 0 | TSeveral => 1 | TNothing => 2 end.
Definition code_cfgpath p := match p with PUnset => 0 | PWithFile => 1 | PWithout => 2 end.
Definition code_ppp q := match q with QUnset => 0 | QSet => 1 end.
Definition code_source s :=
  match s with SLines => 0 | SStream => 1 | SXml => 2 | SPath => 3 | STles i => 10 + i | SNet => 4 | SNoSource => 5 end.
Definition code_exn (e : option exn) :=
  match e with None => 0 | Some EValueError => 1 | Some EKeyError => 2 | Some EOSError => 3 end.
Definition code_plat (d : dir + exn) :=
  match d with inl DPkg => 0 | inl DCustom => 1 | inr _ => 2 end.

Definition encode (c : cfg) : list nat :=
  let o := read_tle c in
  [code_lines (c_lines c); code_file (c_file c); code_tles (c_tles c); code_cfgpath (c_cfgpath c);
   code_ppp (c_ppp c); (if c_has c then 1 else 0);
   code_source (o_source o); o_net o; code_exn (o_exn o); code_plat (platforms_of c)].

Definition table : list (list nat) := map encode all_cfgs.
