(* M_PyStr.v — the Python string/number primitives that the source-to-Gallina translator
   translator/gen_tle.py targets (Gen_tle.v is REGENERATED from pyorbital/tlefile.py on every run).
   Strings are lists of 7-bit ASCII characters, a character is a 1-element string as in Python.
   Python exceptions are values: `res A` = Ok a | Err kind, so that `except ValueError` catches
   exactly ValueError.  float()/int()/strptime are the hand models of M_TleText (validated against
   CPython by the correspondence run of C02); everything structural — which columns, which
   converter, the order of evaluation, which exception escapes — comes from the source. *)
From Coq Require Import List ZArith Ascii Bool Lia.
From PyOrb.spec Require Import Spec_TLE.
From PyOrb.model Require Import M_Checksum M_TleText.
Import ListNotations.
Open Scope Z_scope.

Inductive exn := EValue | EIndex | EChecksum.
Inductive res (A : Type) := Ok (a : A) | Err (e : exn).
Arguments Ok {A} a.
Arguments Err {A} e.

Definition bindr {A B} (r : res A) (f : A -> res B) : res B :=
  match r with Ok a => f a | Err e => Err e end.
Definition of_opt {A} (e : exn) (o : option A) : res A :=
  match o with Some a => Ok a | None => Err e end.
Definition to_option {A} (r : res A) : option A :=
  match r with Ok a => Some a | Err _ => None end.
(* try: x = <r>  except ValueError: x = d *)
Definition catch_value {A} (r : res A) (d : A) : res A :=
  match r with Err EValue => Ok d | _ => r end.

(* s[lo:hi] with Python's treatment of negative and out-of-range bounds *)
Definition norm_idx (n : nat) (i : Z) : nat :=
  if i <? 0 then Z.to_nat (Z.max 0 (Z.of_nat n + i)) else Nat.min n (Z.to_nat i).
Definition py_slice (lo hi : option Z) (s : list ascii) : list ascii :=
  let n := length s in
  let a := match lo with None => O | Some i => norm_idx n i end in
  let b := match hi with None => n | Some i => norm_idx n i end in
  firstn (b - a) (skipn a s).
(* s[i]: IndexError outside -n .. n-1 *)
Definition py_index (s : list ascii) (i : Z) : res (list ascii) :=
  let n := Z.of_nat (length s) in
  let j := if i <? 0 then n + i else i in
  if (0 <=? j) && (j <? n) then
    match nth_error s (Z.to_nat j) with Some c => Ok [c] | None => Err EIndex end
  else Err EIndex.

Definition py_strip : list ascii -> list ascii := strip.
Definition py_float (s : list ascii) : res dec := of_opt EValue (M_TleText.py_float s).
Definition py_int (s : list ascii) : res Z := of_opt EValue (M_TleText.py_int s).
(* str.isdigit(): non-empty and all digits (ASCII domain) *)
Definition py_isdigit (s : list ascii) : bool :=
  match s with [] => false | _ => forallb is_digit s end.
Fixpoint str_eqb (a b : list ascii) : bool :=
  match a, b with
  | [], [] => true
  | x :: a', y :: b' => Ascii.eqb x y && str_eqb a' b'
  | _, _ => false
  end.
Fixpoint str_in (a : list ascii) (l : list (list ascii)) : bool :=
  match l with [] => false | b :: t => str_eqb a b || str_in a t end.

(* `for c in s: <body>` with one loop-carried variable; an exception in the body ends the loop *)
Fixpoint fold_res {A} (f : A -> list ascii -> res A) (s : list ascii) (a : A) : res A :=
  match s with
  | [] => Ok a
  | c :: t => bindr (f a [c]) (fold_res f t)
  end.

(* int * 10 ** k as an exact decimal *)
Definition dec_scale (v : Z) (k : Z) : dec := mkdec (v <? 0) (Z.abs v) k.
(* np.datetime64(datetime.strptime(y, "%y") + timedelta(days=d - 1), "us") *)
Definition py_epoch (y : list ascii) (d : dec) : res (Z * Z) :=
  bindr (of_opt EValue (strptime_y y)) (fun year => Ok (epoch_q year d)).
(* a, b = s.split("\n") *)
Definition py_split2_nl (s : list ascii) : res (list ascii * list ascii) :=
  match split_nl s with [a; b] => Ok (a, b) | _ => Err EValue end.

Definition outcome_of {A} (r : res A) : outcome :=
  match r with
  | Ok _ => Accept
  | Err EChecksum => ChecksumError
  | Err EValue => ValueError
  | Err EIndex => IndexError
  end.
