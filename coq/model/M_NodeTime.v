(* M_NodeTime.v — hand-written executable models for C11:
   * Orbital.get_last_an_time (pyorbital/orbital.py:169-203) on INTEGER TICKS of the numpy unit the
     loop works in, over an abstract z : tick -> Q (the z coordinate returned by get_position, km);
   * the integer/TBUS logic of Orbital.get_orbit_number (orbital.py:298-337);
   * the lazily cached (an_time, an_period) cell.
   numpy facts used (checked on numpy 2.5.3 by checks/c11.py): datetime64[u] - timedelta64(10,'m') stays in
   unit u for u in {ms, us, ns}; timedelta64 / 2 is integer division truncating toward zero (Z.quot). *)
From Coq Require Import ZArith QArith Qabs Bool List.
Import ListNotations.
Open Scope Z_scope.

Definition qltb (x y : Q) : bool := negb (Qle_bool y x).

(* ------------------------------------------------------------------ *)
(* time units                                                           *)
(* ------------------------------------------------------------------ *)
Inductive tunit := U_m | U_s | U_ms | U_us | U_ns.
(* fix e2cf667: `if np.datetime_data(t_old.dtype)[0] not in ("ms","us","ns","ps","fs","as"):
                    t_old = t_old.astype("datetime64[us]")`; datetime objects become datetime64[us] *)
Definition work_unit (u : tunit) : tunit := match u with U_m | U_s => U_us | _ => u end.
Definition to_work (u : tunit) (t : Z) : Z :=
  match u with U_m => t * 60000000 | U_s => t * 1000000 | _ => t end.
Definition ticks_per_second (u : tunit) : Z :=
  match u with U_ms => 1000 | U_us => 1000000 | U_ns => 1000000000 | U_s => 1 | U_m => 0 end.
(* dt = np.timedelta64(10, "m") in ticks of the working unit *)
Definition ten_minutes (u : tunit) : Z :=
  match u with U_m => 10 | _ => 600 * ticks_per_second u end.

(* ------------------------------------------------------------------ *)
(* get_last_an_time                                                     *)
(* ------------------------------------------------------------------ *)
Inductive outcome :=
| Ret (t : Z) (calls : nat)      (* returned tick, number of get_position calls made *)
| OutOfFuel                      (* the fuel-indexed model ran out: the Python loop is still running *)
| Unbound.                       (* `return t_mid` with t_mid never assigned (|z(t_new)| == 1.0 exactly) *)

Section Node.
  Variable z : Z -> Q.           (* pos[2] of get_position(t, normalize=False), km *)
  Variable d : Z.                (* ten minutes, in ticks *)

  (* `while not (pos0[2] > 0 and pos1[2] < 0): pos0 = pos1; t_old = t_new; t_new = t_old - dt; pos1 = ...`
     state: t_old, pos0 = z t_old, pos1 = z (t_old - d) *)
  Fixpoint stepping (fuel : nat) (t_old : Z) (p0 p1 : Q) (n : nat) : option (Z * Q * Q * nat) :=
    if qltb 0 p0 && qltb p1 0 then Some (t_old, p0, p1, n)
    else match fuel with
         | O => None
         | S f => let t_old' := t_old - d in stepping f t_old' p1 (z (t_old' - d)) (S n)
         end.

  (* `while np.abs(pos1[2]) > 1: dt = (t_old - t_new) / 2; t_mid = t_old - dt; pos1 = get_position(t_mid);
        if pos1[2] > 0: t_old = t_mid  else: t_new = t_mid`   then `return t_mid` *)
  Fixpoint bisect (fuel : nat) (t_old t_new : Z) (p1 : Q) (t_mid : option Z) (n : nat) : outcome :=
    if qltb 1 (Qabs p1) then
      match fuel with
      | O => OutOfFuel
      | S f =>
          let dt := Z.quot (t_old - t_new) 2 in
          let tm := t_old - dt in
          let p := z tm in
          if qltb 0 p then bisect f tm t_new p (Some tm) (S n)
          else bisect f t_old tm p (Some tm) (S n)
      end
    else match t_mid with Some t => Ret t n | None => Unbound end.

  Definition last_an (fuel1 fuel2 : nat) (t : Z) : outcome :=
    match stepping fuel1 t (z t) (z (t - d)) 2 with
    | None => OutOfFuel
    | Some (t_old, p0, p1, n) =>
        if qltb (Qabs p0) 1 then Ret t_old n               (* `if np.abs(pos0[2]) < 1: return t_old` *)
        else if qltb (Qabs p1) 1 then Ret (t_old - d) n    (* `elif np.abs(pos1[2]) < 1: return t_new` *)
        else bisect fuel2 t_old (t_old - d) p1 None n
    end.
End Node.

(* fix 2488c71: every returned time goes through
     `_refine_an_time(t_an): pos, vel = get_position(t_an); return t_an - np.timedelta64(int(round(pos[2] / vel[2] * 1e6)), "us")`
   (one Newton step on z).  ORACLE `shift t` = int(round(pos[2]/vel[2]*1e6)) as computed in binary64 at
   working tick t (microseconds to subtract).  datetime64[ms] - timedelta64[us] is datetime64[us],
   datetime64[ns] - timedelta64[us] is datetime64[ns]: the result unit is the finer of the two. *)
Definition result_unit (u : tunit) : tunit := match work_unit u with U_ms => U_us | w => w end.
Definition to_res (u : tunit) (x : Z) : Z := match work_unit u with U_ms => x * 1000 | _ => x end.
Definition shift_res (u : tunit) (s : Z) : Z := match work_unit u with U_ns => s * 1000 | _ => s end.
Definition refine (u : tunit) (shift : Z -> Z) (r : Z) : Z := to_res u r - shift_res u (shift r).

(* the method as called: argument tick `t` in unit `u` (a datetime is unit us); `zw`, `shift` are
   functions of ticks of the WORKING unit; the result is a tick of the RESULT unit; one more
   get_position call is made by the refinement *)
Definition get_last_an_time (u : tunit) (zw : Z -> Q) (shift : Z -> Z) (fuel1 fuel2 : nat) (t : Z) : outcome :=
  match last_an zw (ten_minutes (work_unit u)) fuel1 fuel2 (to_work u t) with
  | Ret r n => Ret (refine u shift r) (S n)
  | o => o
  end.
(* the method BEFORE fixes e2cf667 / 2488c71: no conversion, the loop runs in the argument's own unit *)
Definition get_last_an_time_before_fix (u : tunit) (zu : Z -> Q) (fuel1 fuel2 : nat) (t : Z) : outcome :=
  last_an zu (ten_minutes u) fuel1 fuel2 t.

(* ------------------------------------------------------------------ *)
(* get_orbit_number                                                     *)
(* ------------------------------------------------------------------ *)
(* Python int(float): truncation toward zero *)
Definition Qtrunc (x : Q) : Z := Z.quot (Qnum x) (Zpos (Qden x)).
(* orbit = tle.orbit + dt / orbit_period + mean_motion_derivative * dt**2 + mean_motion_sec_derivative * dt**3 *)
Definition orbit_float (rev : Z) (dt period nd ndd : Q) : Q :=
  (inject_Z rev + dt / period + nd * (dt * dt) + ndd * (dt * dt * dt))%Q.
(* `if not as_float: orbit = int(orbit)`; `if tbus_style: orbit += 1` *)
Definition orbit_number (tbus as_float : bool) (x : Q) : Q :=
  let o := if as_float then x else inject_Z (Qtrunc x) in
  if tbus then (o + 1)%Q else o.

(* ------------------------------------------------------------------ *)
(* the try/except AttributeError cache of (an_time, an_period)          *)
(* ------------------------------------------------------------------ *)
Section Cache.
  Variables (T V A : Type).
  Variable init : V.                 (* (an_time, an_period) as computed in the except branch: a function of the TLE alone *)
  Variable compute : V -> T -> A.    (* the orbit number from the cached pair and the query time *)
  Definition query (st : option V) (t : T) : A * option V :=
    match st with
    | Some c => (compute c t, st)              (* try: attributes exist *)
    | None => (compute init t, Some init)      (* except AttributeError: compute, store, use *)
    end.
  Fixpoint run (st : option V) (ts : list T) : list A :=
    match ts with
    | [] => []
    | t :: r => let (v, st') := query st t in v :: run st' r
    end.
End Cache.

(* ------------------------------------------------------------------ *)
(* used by the correspondence run: z as a finite table of the recorded evaluations *)
(* ------------------------------------------------------------------ *)
Fixpoint ztab (tbl : list (Z * Q)) (t : Z) : Q :=
  match tbl with
  | [] => 0%Q
  | (k, v) :: r => if Z.eqb k t then v else ztab r t
  end.
Definition outcome_flat (o : outcome) : list Z :=
  match o with Ret t n => [0; t; Z.of_nat n] | OutOfFuel => [1] | Unbound => [2] end.
Fixpoint stab (tbl : list (Z * Z)) (t : Z) : Z :=
  match tbl with
  | [] => 0
  | (k, v) :: r => if Z.eqb k t then v else stab r t
  end.
Definition replay (u : tunit) (tbl : list (Z * Q)) (sh : list (Z * Z)) (t : Z) : list Z :=
  outcome_flat (get_last_an_time u (ztab tbl) (stab sh) 2000 200 t).
Definition trunc_flat (xs : list Q) : list Z := map Qtrunc xs.
