(* M_TleText.v — hand-written executable model of pyorbital/tlefile.py
     Tle._read_tle (line1/line2 given: strip, join with "\n", split)       lines 227-238
     Tle._parse_tle (slice table and converters)                           lines 240-278
     Tle.__init__ order: _read_tle ; _checksum ; _parse_tle                lines 195-197
   over lists of 7-bit ASCII characters.  Every Python exception (IndexError, ValueError) is
   collapsed to None.  Numbers are EXACT: a float attribute is modelled by the decimal value
   (-1)^neg * mant * 10^e10 that the converted text denotes (type `dec` of Spec_TLE, imported
   only for the value types `dec` and `elements`); the binary64 rounding done by CPython's
   float() is not modelled here (see checks/c02.py for what is validated about it).

   Converters modelled on the TLE sub-grammar, returning None outside it:
     int(s)    [ws][+-]digits[ws]                       (Python also accepts '_' separators)
     float(s)  [ws][+-](digits[.digits*] | .digits)[(e|E)[+-]digits][ws]
                                                        (Python also accepts inf/nan/'_')
     strptime(s, "%y")   exactly two digits; 00-68 -> 20xx, 69-99 -> 19xx (_strptime.py)
     datetime(y,1,1) as days since 1970 via CPython's _days_before_year
     timedelta(days=d-1): exact rational microseconds (the float product / round-half-even of
                          the C implementation is validated by the correspondence run only). *)
From Coq Require Import List ZArith Ascii Bool.
From PyOrb.spec Require Import Spec_TLE.
From PyOrb.model Require Import M_Checksum.
Import ListNotations.
Open Scope Z_scope.

(* s[a:b] for 0 <= a <= b (clipping like Python) and s[i] *)
Definition slice (a b : nat) (l : list ascii) : list ascii := firstn (b - a) (skipn a l).
Definition index (l : list ascii) (i : nat) : option ascii := nth_error l i.
Definition bind {A B} (o : option A) (f : A -> option B) : option B :=
  match o with Some a => f a | None => None end.

Definition num (l : list ascii) : Z := fold_left (fun a c => 10 * a + digit_val c) l 0.
Fixpoint span_digits (l : list ascii) : list ascii * list ascii :=
  match l with
  | c :: t => if is_digit c then let (a, b) := span_digits t in (c :: a, b) else ([], l)
  | [] => ([], [])
  end.
Definition take_sign (s : list ascii) : bool * list ascii :=
  match s with
  | c :: t => if Ascii.eqb c "-" then (true, t) else if Ascii.eqb c "+" then (false, t) else (false, s)
  | [] => (false, [])
  end.

(* int(s) *)
Definition py_int (s : list ascii) : option Z :=
  let (ng, s1) := take_sign (strip s) in
  match s1 with
  | [] => None
  | _ :: _ => if forallb is_digit s1 then Some (if ng then - num s1 else num s1) else None
  end.

(* float(s) *)
Definition float_exp (s : list ascii) : option Z :=
  match s with
  | [] => Some 0
  | c :: t =>
      if (Ascii.eqb c "e" || Ascii.eqb c "E")%bool then
        let (ng, t1) := take_sign t in
        let (ds, t2) := span_digits t1 in
        match ds, t2 with
        | _ :: _, [] => Some (if ng then - num ds else num ds)
        | _, _ => None
        end
      else None
  end.
Definition float_body (s : list ascii) : option dec :=
  let (ng, s1) := take_sign s in
  let (ip, s2) := span_digits s1 in
  let (fp, s3) := match s2 with
                  | c :: t => if Ascii.eqb c "." then span_digits t else ([], s2)
                  | [] => ([], [])
                  end in
  match ip ++ fp with
  | [] => None
  | _ :: _ =>
      match float_exp s3 with
      | Some ev => Some (mkdec ng (num (ip ++ fp)) (ev - Z.of_nat (length fp)))
      | None => None
      end
  end.
Definition py_float (s : list ascii) : option dec := float_body (strip s).

(* the nested helper of _parse_tle:
     if rep[0] in ["-", " ", "+"]: digits = rep[1:-2].strip(); val = rep[0] + "." + digits + "e" + rep[-2:]
     else:                         digits = rep[:-2].strip();  val = "." + digits + "e" + rep[-2:]
     return float(val) *)
Definition read_tle_decimal (rep : list ascii) : option dec :=
  match rep with
  | [] => None                                             (* rep[0]: IndexError *)
  | c0 :: _ =>
      let n := length rep in
      let tail2 := skipn (n - 2) rep in                     (* rep[-2:] *)
      if (Ascii.eqb c0 "-" || Ascii.eqb c0 " " || Ascii.eqb c0 "+")%bool then
        let digits := strip (firstn (n - 2 - 1) (skipn 1 rep)) in      (* rep[1:-2] *)
        py_float (c0 :: "."%char :: digits ++ "e"%char :: tail2)
      else
        let digits := strip (firstn (n - 2) rep) in                     (* rep[:-2] *)
        py_float ("."%char :: digits ++ "e"%char :: tail2)
  end.

(* dt.datetime.strptime(s, "%y").year *)
Definition strptime_y (s : list ascii) : option Z :=
  match s with
  | [a; b] =>
      if (is_digit a && is_digit b)%bool then
        let y := 10 * digit_val a + digit_val b in
        Some (if y <=? 68 then 2000 + y else 1900 + y)
      else None
  | _ => None
  end.

(* datetime(year, 1, 1) in microseconds since 1970-01-01 (CPython datetime.py:
   _days_before_year(y) = (y-1)*365 + (y-1)//4 - (y-1)//100 + (y-1)//400, ordinal = that + 1,
   ordinal of 1970-01-01 = 719163) *)
Definition days_before_year (year : Z) : Z :=
  let y := year - 1 in y * 365 + y / 4 - y / 100 + y / 400.
Definition jan1_us (year : Z) : Z := (days_before_year year + 1 - 719163) * 86400000000.

(* datetime(year,1,1) + timedelta(days = day - 1), exact, as (numerator, denominator) of microseconds *)
Definition epoch_q (year : Z) (d : dec) : Z * Z :=
  let sm := if neg d then - mant d else mant d in
  if 0 <=? e10 d then (jan1_us year + (sm * 10 ^ e10 d - 1) * 86400000000, 1)
  else let den := 10 ^ (- e10 d) in (jan1_us year * den + (sm - den) * 86400000000, den).

(* int(s) * 10 ** -7 *)
Definition ecc_of_int (n : Z) : dec := mkdec (n <? 0) (Z.abs n) (-7).

(* _parse_tle *)
Definition decode (l1 l2 : list ascii) : option elements :=
  bind (index l1 7) (fun cls =>
  bind (strptime_y (slice 18 20 l1)) (fun year =>
  bind (py_float (slice 20 32 l1)) (fun eday =>
  bind (py_float (slice 33 43 l1)) (fun ndot =>
  bind (read_tle_decimal (slice 44 52 l1)) (fun nddot =>
  bind (read_tle_decimal (slice 53 61 l1)) (fun bst =>
  bind (index l1 62) (fun et =>
  bind (py_int (slice 64 68 l1)) (fun elnum =>
  bind (py_float (slice 8 16 l2)) (fun inc =>
  bind (py_float (slice 17 25 l2)) (fun raan =>
  bind (py_int (slice 26 33 l2)) (fun ecc =>
  bind (py_float (slice 34 42 l2)) (fun argp =>
  bind (py_float (slice 43 51 l2)) (fun ma =>
  bind (py_float (slice 52 63 l2)) (fun mm =>
  bind (py_int (slice 63 68 l2)) (fun rev =>
  Some {| satnumber := slice 2 7 l1;
          classification := [cls];
          id_launch_year := slice 9 11 l1;
          id_launch_number := slice 11 14 l1;
          id_launch_piece := slice 14 17 l1;
          epoch_year := slice 18 20 l1;
          epoch_day := eday;
          epoch := epoch_q year eday;
          mean_motion_derivative := ndot;
          mean_motion_sec_derivative := nddot;
          bstar := bst;
          ephemeris_type := match py_int [et] with Some v => v | None => 0 end;   (* except ValueError: 0 *)
          element_number := elnum;
          inclination := inc;
          right_ascension := raan;
          excentricity := ecc_of_int ecc;
          arg_perigee := argp;
          mean_anomaly := ma;
          mean_motion := mm;
          orbit := rev |}))))))))))))))).

(* _read_tle with line1/line2 given:
     tle = self._line1.strip() + "\n" + self._line2.strip(); self._line1, self._line2 = tle.split("\n") *)
Definition nl : ascii := "010"%char.
Fixpoint split_nl (l : list ascii) : list (list ascii) :=
  match l with
  | [] => [[]]
  | c :: t =>
      if Ascii.eqb c nl then [] :: split_nl t
      else match split_nl t with h :: r => (c :: h) :: r | [] => [[c]] end
  end.
Definition read_tle (l1 l2 : list ascii) : option (list ascii * list ascii) :=
  match split_nl (strip l1 ++ nl :: strip l2) with
  | [a; b] => Some (a, b)
  | _ => None                                   (* unpacking ValueError *)
  end.

(* Tle(platform, line1=l1, line2=l2): the attributes line1, line2 and the parsed elements *)
Definition tle_init (l1 l2 : list ascii) : option (list ascii * list ascii * elements) :=
  bind (read_tle l1 l2) (fun ab =>
    match check_tle (fst ab) (snd ab) with
    | Accept => bind (decode (fst ab) (snd ab)) (fun e => Some (fst ab, snd ab, e))
    | _ => None
    end).

(* --- used by the correspondence run: flatten a result to integers --- *)
Definition show_str (s : list ascii) : list Z := Z.of_nat (length s) :: map (fun c => Z.of_N (N_of_ascii c)) s.
Definition show_dec (d : dec) : list Z := [if neg d then 1 else 0; mant d; e10 d].
Definition show (o : option (list ascii * list ascii * elements)) : list Z :=
  match o with
  | None => []
  | Some (a, b, e) =>
      [1] ++ show_str a ++ show_str b ++ show_str (satnumber e) ++ show_str (classification e)
      ++ show_str (id_launch_year e) ++ show_str (id_launch_number e) ++ show_str (id_launch_piece e)
      ++ show_str (epoch_year e) ++ show_dec (epoch_day e) ++ [fst (epoch e); snd (epoch e)]
      ++ show_dec (mean_motion_derivative e) ++ show_dec (mean_motion_sec_derivative e) ++ show_dec (bstar e)
      ++ [ephemeris_type e; element_number e]
      ++ show_dec (inclination e) ++ show_dec (right_ascension e) ++ show_dec (excentricity e)
      ++ show_dec (arg_perigee e) ++ show_dec (mean_anomaly e) ++ show_dec (mean_motion e) ++ [orbit e]
  end.
