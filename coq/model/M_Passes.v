(* M_Passes.v — hand-written executable model of the control logic of
   Orbital.get_next_passes (pyorbital/orbital.py:339-385) over the one-minute samples.

   Inputs of the model
     xs   : list Z    the samples `elev = get_observer_look(times)[1] - horizon`, through ANY map
                      float -> Z that preserves order, sign and zero (the logic only uses
                      np.sign, `< 0` and np.argmax); checks/c03.py uses the sign-magnitude
                      integer reading of the IEEE-754 bits.
     root : nat -> Q  ORACLE: the value returned by `_get_root(elev_func, guess, guess + 1.0)`
                      (scipy.optimize.brentq) for the bracketing minute `guess`, in minutes.
   Not modelled (oracles, validated by sampling only): brentq itself, `_get_max_parab`
   (successive parabolic interpolation; only its start bracket [lo, hi] is modelled), the
   rounding of `utc_time + timedelta(minutes=x)` to microseconds, NaN samples. *)
From Coq Require Import List ZArith QArith Qround Qminmax Bool.
Import ListNotations.
Open Scope Z_scope.

Definition sample (xs : list Z) (i : nat) : Z := nth i xs 0.

(* zcs = np.where(np.diff(np.signbit(elev)))[0]: indices i where exactly one of elev[i], elev[i+1]
   has its sign bit set.  On the model's domain (no -0.0 and no NaN among the samples: elev is
   `arcsin-degrees - horizon`, and x - y is -0.0 only for x = -0.0, y = +0.0, which needs the
   topocentric z component to be exactly -0.0) signbit(x) is `x < 0`, the same test as the
   classification `if elev[guess] < 0`.  A sample exactly on the horizon counts as above it. *)
Definition neg (xs : list Z) (i : nat) : bool := sample xs i <? 0.
Definition sign_change (xs : list Z) (i : nat) : bool := negb (Bool.eqb (neg xs i) (neg xs (S i))).
Definition zcs (xs : list Z) : list nat :=
  filter (sign_change xs) (seq 0 (length xs - 1)).

(* the `for guess in zcs` loop, reduced to its pairing decisions.
   state `rise` = index of the guess that produced the current `risetime` (None = risetime is None).
   `if elev[guess] < 0:` rise  `else:` fall; `if risetime is None: continue`;
   risetime is NOT reset after a pass has been emitted. *)
Fixpoint pairs (xs : list Z) (zs : list nat) (rise : option nat) : list (nat * nat) :=
  match zs with
  | [] => []
  | g :: zs' =>
      if sample xs g <? 0 then pairs xs zs' (Some g)
      else match rise with
           | None => pairs xs zs' None
           | Some rg => (rg, g) :: pairs xs zs' rise
           end
  end.

(* np.argmax: index of the FIRST maximum *)
Fixpoint argmax_aux (l : list Z) (i best : nat) (bv : Z) : nat :=
  match l with
  | [] => best
  | x :: t => if bv <? x then argmax_aux t (S i) i x else argmax_aux t (S i) best bv
  end.
Definition argmax (l : list Z) : option nat :=
  match l with [] => None | x :: t => Some (argmax_aux t 1 0 x) end.
Definition slice (xs : list Z) (s e : nat) : list Z := firstn (e - s) (skipn s xs).

Definition qn (n : nat) : Q := inject_Z (Z.of_nat n).

Record pass := mkPass {
  p_rg : nat;        (* guess (minute index) whose root is the rise *)
  p_fg : nat;        (* guess whose root is the fall *)
  p_rise : Q;        (* risemins *)
  p_fall : Q;        (* fallmins *)
  p_istart : nat;    (* int_start = max(0, int(np.floor(risemins))) *)
  p_iend : nat;      (* int_end = min(len(elev), int(np.ceil(fallmins) + 1)) *)
  p_ok : bool;       (* elev[int_start:int_end] non-empty (np.argmax raises ValueError otherwise) *)
  p_middle : nat;    (* int_start + np.argmax(elev[int_start:int_end]) *)
  p_lo : Q;          (* max(risemins, middle - 1) *)
  p_hi : Q           (* min(fallmins, middle + 1) *)
}.

Definition mkpass (xs : list Z) (root : nat -> Q) (rf : nat * nat) : pass :=
  let (rg, fg) := rf in
  let rise := root rg in
  let fall := root fg in
  let istart := Z.to_nat (Z.max 0 (Qfloor rise)) in
  let iend := Z.to_nat (Z.min (Z.of_nat (length xs)) (Qceiling fall + 1)) in
  let am := argmax (slice xs istart iend) in
  let middle := (istart + match am with Some m => m | None => 0 end)%nat in
  mkPass rg fg rise fall istart iend
         (match am with Some _ => true | None => false end) middle
         (Qmax rise (inject_Z (Z.of_nat middle - 1)))
         (Qmin fall (inject_Z (Z.of_nat middle + 1))).

Definition pass_pairs (xs : list Z) : list (nat * nat) := pairs xs (zcs xs) None.
(* `if not risemins < fallmins: continue` (after `if risetime is None: continue`; it does not touch
   the loop state, so it is a filter on the emitted pairs) *)
Definition Qltb (x y : Q) : bool := negb (Qle_bool y x).
Definition proper (root : nat -> Q) (rf : nat * nat) : bool := Qltb (root (fst rf)) (root (snd rf)).
Definition passes (xs : list Z) (root : nat -> Q) : list pass :=
  map (mkpass xs root) (filter (proper root) (pass_pairs xs)).

(* --- the logic BEFORE fixes b1a947a and f25c902 (kept only to document why it was needed):
   zcs = np.where(np.diff(np.sign(elev)))[0] with the three-valued np.sign, so that a sample exactly
   on the horizon produced TWO indices, the second always classified as a fall; no rise < fall guard --- *)
Definition sign_change3 (xs : list Z) (i : nat) : bool :=
  negb (Z.sgn (sample xs i) =? Z.sgn (sample xs (S i))).
Definition zcs3 (xs : list Z) : list nat :=
  filter (sign_change3 xs) (seq 0 (length xs - 1)).
Definition passes_before_fix (xs : list Z) (root : nat -> Q) : list pass :=
  map (mkpass xs root) (pairs xs (zcs3 xs) None).

(* --- used by the correspondence run: the oracle as a finite table aligned with zcs --- *)
Fixpoint lookup (tbl : list (nat * Q)) (g : nat) : Q :=
  match tbl with
  | [] => 0%Q
  | (k, v) :: t => if Nat.eqb k g then v else lookup t g
  end.
Definition qpair (q : Q) : Z * Z := let r := Qred q in (Qnum r, Zpos (Qden r)).
Definition pass_code (p : pass) :=
  (Z.of_nat (p_rg p), Z.of_nat (p_fg p), Z.of_nat (p_istart p), Z.of_nat (p_iend p),
   (if p_ok p then 1 else 0, Z.of_nat (p_middle p)), qpair (p_lo p), qpair (p_hi p)).
Definition run_table (xs : list Z) (roots : list Q) :=
  let z := zcs xs in
  (map Z.of_nat z, map pass_code (passes xs (lookup (combine z roots)))).
(* flat integer rendering for checks/c03.py:
   [#zcs; zcs...; #passes; per pass: rg fg int_start int_end ok middle lo_num lo_den hi_num hi_den] *)
Definition pass_flat (p : pass) : list Z :=
  let (ln, ld) := qpair (p_lo p) in
  let (hn, hd) := qpair (p_hi p) in
  [Z.of_nat (p_rg p); Z.of_nat (p_fg p); Z.of_nat (p_istart p); Z.of_nat (p_iend p);
   if p_ok p then 1 else 0; Z.of_nat (p_middle p); ln; ld; hn; hd].
Definition run_flat (xs : list Z) (roots : list Q) : list Z :=
  let z := zcs xs in
  let ps := passes xs (lookup (combine z roots)) in
  Z.of_nat (length z) :: map Z.of_nat z ++ Z.of_nat (length ps) :: flat_map pass_flat ps.
