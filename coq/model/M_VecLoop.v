(* M_VecLoop.v — model of the exit test of the vectorised fixed-point loops in
   geoloc.get_lonlatalt (lines 197-202) and geoloc.geodetic_lat (lines 54-59).

   One pass of the loop updates every element; the loop is left when the exit test holds for the
   whole array.  An element is an extended real: [Some d] is the finite difference new - old of
   that element in this pass, [None] stands for NaN (a NaN position stays NaN in every pass: every
   arithmetic operation propagates it).

     after the fix  (b534fb9):  np.all((abs(lat - lat2) < 1e-10) | np.isnan(lat))
     before the fix          :  np.all(abs(lat - lat2) < 1e-10)          (NaN < x is False)    *)
From Coq Require Import Reals List Bool Lia Lra.
Import ListNotations.
Open Scope R_scope.

Definition eps : R := 1 / 10000000000.

Definition small (d : R) : bool := if Rlt_dec (Rabs d) eps then true else false.

Definition pass_fixed (e : option R) : bool :=
  match e with Some d => small d | None => true end.
Definition pass_orig (e : option R) : bool :=
  match e with Some d => small d | None => false end.

Definition exit_fixed (l : list (option R)) : bool := forallb pass_fixed l.
Definition exit_orig (l : list (option R)) : bool := forallb pass_orig l.

(* the loop: [passes k] is the list of differences seen by the exit test of pass k; it runs
   until the first k whose test holds.  [exits_within test passes n] = it is left after at most n passes. *)
Fixpoint exits_within (test : list (option R) -> bool) (passes : nat -> list (option R)) (n : nat) : bool :=
  match n with
  | O => false
  | S m => exits_within test passes m || test (passes m)
  end.

Lemma exits_within_iff test passes n :
  exits_within test passes n = true <-> exists k, (k < n)%nat /\ test (passes k) = true.
Proof.
  induction n as [|m IH]; simpl.
  - split; [discriminate|intros (k & Hk & _); lia].
  - rewrite orb_true_iff, IH. split.
    + intros [(k & Hk & Ht)|Ht]; [exists k; split; [lia|exact Ht]|exists m; split; [lia|exact Ht]].
    + intros (k & Hk & Ht). destruct (Nat.eq_dec k m) as [->|Hne]; [right; exact Ht|].
      left. exists k. split; [lia|exact Ht].
Qed.
