(* M_Download.v — hand-written executable model of tlefile.Downloader.fetch_plain_tle
   (pyorbital/tlefile.py:412-435), Downloader.fetch_spacetrack (437-469) and of the text -> Tle
   step `_parse_tles_for_downloader((req.text,), io.StringIO)` (491-493) as far as it decides
   WHICH lines become entries (the line scanner `_get_tles_from_url` / `_decode_lines` with
   platform "" and only_first False, then `Tle("", tle_file=StringIO(l1 + "\n" + l2))`).

   A response body is a list of lines, each line in one of five classes:
     LBlank    a line whose strip() is "" (skipped by the scanner)
     LOne i    the (valid) first line of TLE number i    (strip() starts with "1 ")
     LTwo i    the (valid) second line of TLE number i   (starts with "2 ")
     LText     any other non-blank line not starting with "1 " (name line, HTML, "No GP data found")
     LJunk1    a line starting with "1 " that is not a valid TLE line ("1 error occurred")
   An entry is the pair (id of line 1, id of line 2) the Tle object carries. *)
From Coq Require Import List ZArith Bool.
Import ListNotations.
Open Scope Z_scope.

Inductive line := LBlank | LOne (i : Z) | LTwo (i : Z) | LText | LJunk1.
Definition entry := (Z * Z)%type.

(* exceptions that escape the parser *)
Inductive perr := EStop      (* StopIteration out of next(fid) *)
                | ETle.      (* ChecksumError / ValueError / IndexError from Tle.__init__ *)

(* `for l_0 in fid: tle = _decode_lines(fid, l_0, "", False, open_is_dummy=True)` (tlefile.py:371-389,
   as of commit 2106197: the name branch is guarded by `if platform and ...`, so blank lines are skipped):
     l_0.strip().startswith("1 ") -> l_1 = l_0; l_2 = next(fid)     (no validation of either line)
     otherwise                    -> skipped
   None = StopIteration (next on an exhausted stream); it escapes the for loop, the context
   manager and the list comprehension. *)
Fixpoint scan (ls : list line) : option (list (line * line)) :=
  match ls with
  | [] => Some []
  | LOne i :: l2 :: r => option_map (cons (LOne i, l2)) (scan r)
  | LOne _ :: [] => None
  | LJunk1 :: l2 :: r => option_map (cons (LJunk1, l2)) (scan r)
  | LJunk1 :: [] => None
  | _ :: r => scan r
  end.

(* `Tle("", tle_file=io.StringIO(a.strip() + "\n" + b.strip()))`: _read_tle scans the two-line
   stream again (only_first True, open_is_dummy and not platform): a starts with "1 " so it is
   taken with next(fid) as line 2 — which raises StopIteration when b is "" (the stream then has
   one line only); then _checksum, then _parse_tle *)
Definition mk_tle (p : line * line) : entry + perr :=
  match p with
  | (_, LBlank) => inr EStop
  | (LOne i, LTwo j) => inl (i, j)           (* both lines pass their own checksum and parse *)
  | (_, _) => inr ETle                       (* junk line 1, or line 2 is not a line 2 *)
  end.

Fixpoint mk_all (ps : list (line * line)) : list entry + perr :=
  match ps with
  | [] => inl []
  | p :: r => match mk_tle p with
              | inr e => inr e
              | inl t => match mk_all r with inl ts => inl (t :: ts) | inr e => inr e end
              end
  end.

(* the scanner runs over the whole body first (the list comprehension iterates its result) *)
Definition parse_body (ls : list line) : list entry + perr :=
  match scan ls with
  | None => inr EStop
  | Some ps => mk_all ps
  end.

(* ---- fetch_plain_tle ---- *)
Inductive outcome :=
  | Resp (status : Z) (body : list line)   (* requests.get returned *)
  | Timeout.                               (* requests.exceptions.Timeout raised *)

Inductive exn := TimeoutError              (* TleDownloadTimeoutError *)
               | ParseError (e : perr).

Inductive res (A : Type) := Ok (a : A) | Raise (e : exn).
Arguments Ok {A} a.
Arguments Raise {A} e.

(* inner loop: `for uri in sources[source]` with accumulator tles[source] *)
Fixpoint fetch_uris (us : list outcome) (acc : list entry) : res (list entry) :=
  match us with
  | [] => Ok acc
  | Timeout :: _ => Raise TimeoutError
  | Resp st body :: r =>
      if st =? 200 then
        match parse_body body with
        | inl es => fetch_uris r (acc ++ es)
        | inr e => Raise (ParseError e)
        end
      else fetch_uris r acc                 (* failures.append(uri): logged only *)
  end.

(* outer loop: `for source in sources` (dict order), `tles[source] = []` first *)
Fixpoint fetch_sources {S : Type} (cfg : list (S * list outcome)) : res (list (S * list entry)) :=
  match cfg with
  | [] => Ok []
  | (s, us) :: r =>
      match fetch_uris us [] with
      | Raise e => Raise e
      | Ok es => match fetch_sources r with
                 | Raise e => Raise e
                 | Ok rr => Ok ((s, es) :: rr)
                 end
      end
  end.

(* `if "fetch_plain_tle" in self.config["downloaders"]` else {} *)
Definition fetch_plain_tle {S : Type} (c : option (list (S * list outcome))) : res (list (S * list entry)) :=
  match c with None => Ok [] | Some cfg => fetch_sources cfg end.

(* ---- fetch_spacetrack: session.post(login) ; session.get(query) ---- *)
(* returns (result, was the query issued?) *)
Definition fetch_spacetrack (login_status : Z) (query : Z * list line) : res (list entry) * bool :=
  if login_status =? 200 then
    if fst query =? 200 then
      (match parse_body (snd query) with inl es => Ok es | inr e => Raise (ParseError e) end, true)
    else (Ok [], true)
  else (Ok [], false).

(* ---- encodings for the correspondence run (checks/c17.py) ---- *)
Definition perr_code (e : perr) : Z := match e with EStop => 2 | ETle => 4 end.
Definition enc_entry (e : entry) : Z := fst e * 1000 + snd e.
Definition enc_res (r : res (list (Z * list entry))) : list Z :=
  match r with
  | Raise TimeoutError => [1]
  | Raise (ParseError e) => [perr_code e]
  | Ok l => 0 :: Z.of_nat (length l) ::
            flat_map (fun se => fst se :: Z.of_nat (length (snd se)) :: map enc_entry (snd se)) l
  end.
Definition enc_parse (r : list entry + perr) : list Z :=
  match r with inr e => [perr_code e] | inl es => 0 :: map enc_entry es end.
Definition enc_st (r : res (list entry) * bool) : list Z :=
  (if snd r then 1 else 0) ::
  match fst r with
  | Raise TimeoutError => [1]
  | Raise (ParseError e) => [perr_code e]
  | Ok es => 0 :: map enc_entry es
  end.
