(* M_Instruments.v — hand-written executable model of the instrument scan definitions of
   pyorbital/geoloc_instrument_definitions.py (default options) and of the seconds -> timedelta64[ns]
   conversion of ScanGeometry.__init__ (pyorbital/geoloc.py:86-90).

   Angles are kept as "rational coefficient x unit": the across-track angle is a rational number of
   DEGREES (the code multiplies by np.deg2rad(.)), the along-track angle (VIIRS only) a rational
   multiple of y_max = arctan2(11.87/2, 824.0); all other along-track angles are 0.

   Times: every arithmetic step of the code is written once, parameterised by a rounding function
   [rnd : Q -> Q].  [rnd := id] gives the exact-rational (ideal) model about which the unbounded
   theorems are proved; [rnd := fl] (binary64 round-to-nearest-even, below) reproduces the
   implementation's integer nanoseconds bit for bit (checked by checks/c19.py).
   numpy: float64 array * timedelta64(10^9,'ns') = (int64)(double)(x * 1e9), i.e. the binary64
   product truncated toward zero. *)
From Coq Require Import List ZArith QArith Qround Bool.
Import ListNotations.
Open Scope Q_scope.

Definition nq (n : nat) : Q := inject_Z (Z.of_nat n).

(* ---------- binary64 rounding of a rational (normal range; 0 exact) ---------- *)
Definition rne (q : Q) : Z :=
  let f := Qfloor q in
  match Qcompare (q - inject_Z f) (1 # 2) with
  | Lt => f
  | Gt => (f + 1)%Z
  | Eq => if Z.even f then f else (f + 1)%Z
  end.
Definition pow2 (z : Z) : Q := Qpower 2 z.
Definition flpos (q : Q) : Q :=
  let k := (Z.log2 (Qnum q) - Z.log2 (Zpos (Qden q)))%Z in
  let e := if Qle_bool (pow2 k) q then k else (k - 1)%Z in     (* 2^e <= q < 2^(e+1) *)
  let s := (52 - e)%Z in
  inject_Z (rne (q * pow2 s)) * pow2 (- s).
Definition fl (q : Q) : Q :=
  Qred (match Qnum q with
        | Z0 => 0
        | Zpos _ => flpos q
        | Zneg _ => - flpos (- q)
        end).
Definition exact (q : Q) : Q := q.     (* the ideal "rounding" *)

(* C cast double -> int64: truncation toward zero *)
Definition Qtrunc (q : Q) : Z := Z.quot (Qnum q) (Zpos (Qden q)).

(* ---------- instrument templates ---------- *)
Record inst := mkInst {
  npos : nat;                               (* number of scan positions of the full scan *)
  ndet : nat;                               (* lines recorded per scan (detectors) *)
  across : nat -> Q;                        (* position -> across-track angle, degrees *)
  along : nat -> Q;                         (* detector -> along-track angle, units of y_max *)
  sample : (Q -> Q) -> nat -> nat -> Q;     (* rnd, max selected position, position -> seconds *)
  offset : (Q -> Q) -> nat -> Q;            (* rnd, scan -> seconds *)
  period : Q;                               (* scan period, seconds (the decimal literal) *)
  swath : Q                                 (* documented across-track limit, degrees *)
}.

(* (scan_points / c - 1) * np.deg2rad(a): the coefficient of deg2rad(1) *)
Definition ramp (c a : Q) (p : nat) : Q := (nq p / c - 1) * a.
(* np.linspace(a, b, len)[i] = a + i * ((b - a) / (len - 1))  (len >= 2); [a] for len = 1 *)
Definition linspace (a b : Q) (len i : nat) : Q :=
  if (len <=? 1)%nat then a else a + nq i * ((b - a) / nq (len - 1)).

(* avhrr(scans_nb, scan_points, scan_angle=55.37, frequency=1/6.0, apply_offset=True) *)
Definition avhrr : inst := mkInst 2048 1
  (ramp (10235 # 10) (- (5537 # 100))) (fun _ => 0)
  (fun rnd _ p => rnd (nq p * rnd (25 # 1000000)))
  (fun rnd s => rnd (nq s * rnd (1 / 6)))
  (1 / 6) (5537 # 100).

(* avhrr_gac(scan_times:int, scan_points, scan_angle=55.37, frequency=0.5): the TypeError branch *)
Definition avhrr_gac : inst := mkInst 2048 1
  (ramp (10235 # 10) (- (5537 # 100))) (fun _ => 0)
  (fun rnd _ p => rnd (nq p * rnd (25 # 1000000)))
  (fun rnd s => rnd (nq s * rnd (1 # 2)))
  (1 # 2) (5537 # 100).

(* amsua: scan_len 30, scan_rate 8 (int), angle -48.3, sampling 0.2, sync 0.00355;
   scan_len * 0.5 - 0.5 = 14.5 *)
Definition amsua : inst := mkInst 30 1
  (ramp (145 # 10) (- (483 # 10))) (fun _ => 0)
  (fun rnd _ p => rnd (rnd (nq p * rnd (2 # 10)) + rnd (355 # 100000)))
  (fun rnd s => nq s * 8)
  8 (483 # 10).

(* mhs: 90, rate 8/3., angle -49.444, sampling (8/3. - 1)/90., sync 0.0 *)
Definition mhs : inst := mkInst 90 1
  (ramp (445 # 10) (- (49444 # 1000))) (fun _ => 0)
  (fun rnd _ p => rnd (rnd (nq p * rnd (rnd (rnd (8 / 3) - 1) / 90)) + 0))
  (fun rnd s => rnd (nq s * rnd (8 / 3)))
  (8 / 3) (49444 # 1000).

(* hirs4: 56, rate 6.4, angle -49.5, sampling abs(rate)/56 *)
Definition hirs4 : inst := mkInst 56 1
  (ramp (275 # 10) (- (495 # 10))) (fun _ => 0)
  (fun rnd _ p => rnd (nq p * rnd (rnd (64 # 10) / 56)))
  (fun rnd s => rnd (nq s * rnd (64 # 10)))
  (64 # 10) (495 # 10).

(* atms: 96, rate 8/3., linspace(-deg2rad(-52.7), deg2rad(-52.7), 96)[p], sampling 18e-3 *)
Definition atms : inst := mkInst 96 1
  (linspace (527 # 10) (- (527 # 10)) 96) (fun _ => 0)
  (fun rnd _ p => rnd (nq p * rnd (18 # 1000)))
  (fun rnd s => rnd (nq s * rnd (8 / 3)))
  (8 / 3) (527 # 10).

(* mwhs2: 98, rate 8/3., angle -53.35, sampling (8/3. - 1)/98., sync 0.0 *)
Definition mwhs2 : inst := mkInst 98 1
  (ramp (485 # 10) (- (5335 # 100))) (fun _ => 0)
  (fun rnd _ p => rnd (rnd (nq p * rnd (rnd (rnd (8 / 3) - 1) / 98)) + 0))
  (fun rnd s => rnd (nq s * rnd (8 / 3)))
  (8 / 3) (5335 # 100).

(* viirs(scans_nb, scan_indices, chn_pixels=6400, scan_lines=32, scan_step=1):
   across (p / 3199.5 - 1) * deg2rad(-56.28); along -(d / 15.5 - 1) * y_max;
   times p * 0.0002779947917 + repeat(arange(scans) * 1.779166667 * 1, 32) *)
Definition viirs : inst := mkInst 6400 32
  (ramp (31995 # 10) (- (5628 # 100)))
  (fun d => - (nq d / (155 # 10) - 1))
  (fun rnd _ p => rnd (nq p * rnd (2779947917 # 10000000000000)))
  (fun rnd s => rnd (rnd (nq s * rnd (1779166667 # 1000000000)) * 1))
  (1779166667 # 1000000000) (5628 # 100).

(* ascat: concatenate(linspace(53, 25, 21), linspace(-25, -53, 21))[p] degrees;
   sampling_interval = 3.74747474747 / float(max(scan_points) + 1) *)
Definition ascat : inst := mkInst 42 1
  (fun p => if (p <? 21)%nat then linspace 53 25 21 p else linspace (- (25)) (- (53)) 21 (p - 21))
  (fun _ => 0)
  (fun rnd m p => rnd (nq p * rnd (rnd (374747474747 # 100000000000) / nq (m + 1))))
  (fun rnd s => rnd (nq s * rnd (374747474747 # 100000000000)))
  (374747474747 # 100000000000) 53.

(* ---------- the geometry: map of the template over lines x selected positions ---------- *)
Definition lines (t : inst) (n : nat) : list nat := seq 0 (n * ndet t).

(* fovs: [across rows; along rows], each (lines x positions) *)
Definition angles (t : inst) (n : nat) (ps : list nat) : list (list (list Q)) :=
  [ map (fun _ => map (across t) ps) (lines t n);
    map (fun L => map (fun _ => along t (L mod ndet t)) ps) (lines t n) ].

Definition time_s (rnd : Q -> Q) (t : inst) (m s p : nat) : Q :=
  rnd (sample t rnd m p + offset t rnd s).
(* np.array(times) * np.timedelta64(1000000000, "ns") *)
Definition time_ns (rnd : Q -> Q) (t : inst) (m s p : nat) : Z :=
  Qtrunc (rnd (time_s rnd t m s p * 1000000000)).

Definition pmax (ps : list nat) : nat := list_max ps.
Definition times (rnd : Q -> Q) (t : inst) (n : nat) (ps : list nat) : list (list Z) :=
  map (fun L => map (time_ns rnd t (pmax ps) (L / ndet t)) ps) (lines t n).

(* selecting columns of a (lines x positions) array *)
Definition select {A} (d : A) (ps : list nat) (row : list A) : list A := map (fun p => nth p row d) ps.
Definition full (t : inst) : list nat := seq 0 (npos t).

(* OLCI / SLSTR nadir: scan_points only gives the LENGTH of the resampled swath;
   linspace(deg2rad(46.5), deg2rad(-22.1), len); times are zero *)
Definition swath_angles (n len : nat) : list (list (list Q)) :=
  [ map (fun _ => map (linspace (465 # 10) (- (221 # 10)) len) (seq 0 len)) (seq 0 n);
    map (fun _ => map (fun _ => 0) (seq 0 len)) (seq 0 n) ].
Definition swath_times (n len : nat) : list (list Z) :=
  map (fun _ => map (fun _ => 0%Z) (seq 0 len)) (seq 0 n).

(* ---------- evaluation with sharing (used by the correspondence run; proved equal to the
   definitions above in P_Instruments.v) ---------- *)
Definition angles_exec (t : inst) (n : nat) (ps : list nat) : list (list (list Q)) :=
  let row := map (fun p => Qred (across t p)) ps in
  let arows := map (fun d => let a := Qred (along t d) in map (fun _ => a) ps) (seq 0 (ndet t)) in
  [ map (fun _ => row) (lines t n);
    map (fun L => nth (L mod ndet t) arows []) (lines t n) ].
Definition times_exec (rnd : Q -> Q) (t : inst) (n : nat) (ps : list nat) : list (list Z) :=
  let m := pmax ps in
  let rows := map (fun s => map (time_ns rnd t m s) ps) (seq 0 n) in
  map (fun L => nth (L / ndet t) rows []) (lines t n).

(* run-length compression for printing *)
Fixpoint rle {A} (eqb : A -> A -> bool) (l : list A) : list (nat * A) :=
  match l with
  | [] => []
  | x :: t => match rle eqb t with
              | (k, y) :: r => if eqb x y then (S k, y) :: r else (1%nat, x) :: (k, y) :: r
              | [] => [(1%nat, x)]
              end
  end.
Fixpoint list_eqb {A} (eqb : A -> A -> bool) (a b : list A) : bool :=
  match a, b with
  | [], [] => true
  | x :: a', y :: b' => eqb x y && list_eqb eqb a' b'
  | _, _ => false
  end.
Definition Qeqb (a b : Q) : bool := (Qnum a =? Qnum b)%Z && (Qden a =? Qden b)%positive.
Definition hashP : Z := 2305843009213693951.   (* 2^61 - 1 *)
Definition row_hash (r : list Z) : Z := fold_left (fun acc x => ((acc * 1000003 + x) mod hashP)%Z) r 0%Z.

(* printed per case: angle planes as rle of rows of rle of reduced rationals;
   times as rle of (row length, row hash, first, last) *)
Definition show_angles (a : list (list (list Q))) : list (list (nat * list (nat * Q))) :=
  map (fun plane => rle (list_eqb (fun x y => Nat.eqb (fst x) (fst y) && Qeqb (snd x) (snd y)))
                        (map (rle Qeqb) plane)) a.
Definition show_times (tm : list (list Z)) : list (nat * (nat * Z * Z * Z)) :=
  rle (fun x y => match x, y with (a, b, c, d), (a', b', c', d') =>
                    Nat.eqb a a' && (b =? b')%Z && (c =? c')%Z && (d =? d')%Z end)
      (map (fun r => (length r, row_hash r, hd 0%Z r, last r 0%Z)) tm).

(* ---------- bounded sweep of the binary64 model (theorems with the bound in the statement) ---------- *)
Definition sweep_cell (t : inst) (m s p : nat) : bool :=
  let a := time_ns fl t m s p in
  let b := time_ns fl t m (S s) p in
  (Z.abs (a - time_ns exact t m s p) <=? 1)%Z
  && (if (p <? m)%nat then (a <? time_ns fl t m s (S p))%Z else true)
  && (time_ns fl t m s m <? time_ns fl t m (S s) 0)%Z
  && Qle_bool (inject_Z (b - a) - period t * 1000000000) 2
  && Qle_bool (- (2)) (inject_Z (b - a) - period t * 1000000000).
Definition sweep (t : inst) (maxes : list nat) (nscans : nat) : bool :=
  forallb (fun m => forallb (fun s => forallb (fun p => sweep_cell t m s p) (seq 0 (S m))) (seq 0 nscans)) maxes.
