(* M_Instruments.v — hand-written executable model of the instrument scan definitions of
   pyorbital/geoloc_instrument_definitions.py (default options) and of the seconds -> timedelta64[ns]
   conversion of ScanGeometry.__init__ (pyorbital/geoloc.py:86-90).

   Angles are kept as "rational coefficient x unit": the across-track angle is a rational number of
   DEGREES (the code multiplies by np.deg2rad(.)), the along-track angle (VIIRS only) a rational
   multiple of y_max = arctan2(11.87/2, 824.0); all other along-track angles are 0.

   Times: every arithmetic step of the code is written once, over an abstract arithmetic [arith].
   [Exact] (rationals) gives the ideal model about which the unbounded theorems are proved;
   [B64] (Coq primitive floats = IEEE binary64) reproduces the implementation's integer
   nanoseconds bit for bit (checked by checks/c19.py); bounded theorems tie the two.
   numpy: float64 array * timedelta64(10^9,'ns') = (int64)(double)(x * 1e9), i.e. the binary64
   product truncated toward zero. *)
From Coq Require Import List ZArith QArith Qround Bool Floats Uint63.
Import ListNotations.
Open Scope Q_scope.

Definition nq (n : nat) : Q := inject_Z (Z.of_nat n).

(* ---------- the arithmetic the time formulas are written over ---------- *)
Record arith := mkArith {
  num : Type;
  lit : Z -> positive -> num;        (* decimal literal n/d of the source *)
  ofZ : Z -> num;                    (* int -> float conversion *)
  add : num -> num -> num;
  sub : num -> num -> num;
  mul : num -> num -> num;
  div : num -> num -> num;
  to_ns : num -> Z                   (* x * np.timedelta64(1000000000, "ns") as int64 *)
}.

(* C cast double -> int64: truncation toward zero *)
Definition Qtrunc (q : Q) : Z := Z.quot (Qnum q) (Zpos (Qden q)).

(* exact rationals *)
Definition Exact : arith :=
  mkArith Q (fun n d => n # d) inject_Z Qplus Qminus Qmult Qdiv (fun x => Qtrunc (x * 1000000000)).

(* binary64: Coq's primitive floats (IEEE 754 binary64, round to nearest even).  A decimal literal
   n/d with n, d < 2^53 is the correctly rounded quotient, which is what Python's parser yields. *)
Definition fofZ (z : Z) : float :=
  match z with
  | Zneg p => PrimFloat.opp (PrimFloat.of_uint63 (Uint63.of_Z (Zpos p)))
  | _ => PrimFloat.of_uint63 (Uint63.of_Z z)
  end.
Definition ftrunc (x : float) : Z :=
  match Prim2SF x with
  | S754_finite s m e =>
      let v := if (0 <=? e)%Z then Z.shiftl (Zpos m) e else Z.shiftr (Zpos m) (- e) in
      if s then (- v)%Z else v
  | _ => 0%Z
  end.
Definition B64 : arith :=
  mkArith float (fun n d => PrimFloat.div (fofZ n) (fofZ (Zpos d))) fofZ
          PrimFloat.add PrimFloat.sub PrimFloat.mul PrimFloat.div
          (fun x => ftrunc (PrimFloat.mul x (fofZ 1000000000))).

(* ---------- instrument templates ---------- *)
Record inst := mkInst {
  npos : Z;                                 (* number of scan positions of the full scan *)
  ndet : nat;                               (* lines recorded per scan (detectors) *)
  across : Z -> Q;                          (* position -> across-track angle, degrees *)
  along : nat -> Q;                         (* detector -> along-track angle, units of y_max *)
  sample : forall A : arith, Z -> Z -> num A;   (* max selected position, position -> seconds *)
  offset : forall A : arith, nat -> num A;      (* scan -> seconds *)
  period : Q;                               (* scan period, seconds (exact value of the source expression) *)
  swath : Q                                 (* documented across-track limit, degrees *)
}.

Definition zn (n : nat) : Z := Z.of_nat n.

(* (scan_points / c - 1) * np.deg2rad(a): the coefficient of deg2rad(1) *)
Definition ramp (c a : Q) (p : Z) : Q := (inject_Z p / c - 1) * a.
(* np.linspace(a, b, len)[i] = a + i * ((b - a) / (len - 1))  (len >= 2); [a] for len = 1 *)
Definition linspace (a b : Q) (len i : Z) : Q :=
  if (len <=? 1)%Z then a else a + inject_Z i * ((b - a) / inject_Z (len - 1)).

(* avhrr(scans_nb, scan_points, scan_angle=55.37, frequency=1/6.0, apply_offset=True) *)
Definition avhrr : inst := mkInst 2048 1
  (ramp (10235 # 10) (- (5537 # 100))) (fun _ => 0)
  (fun A _ p => mul A (ofZ A p) (lit A 25 1000000))
  (fun A s => mul A (ofZ A (zn s)) (div A (ofZ A 1) (ofZ A 6)))
  (1 / 6) (5537 # 100).

(* avhrr_gac(scan_times:int, scan_points, scan_angle=55.37, frequency=0.5): the TypeError branch *)
Definition avhrr_gac : inst := mkInst 2048 1
  (ramp (10235 # 10) (- (5537 # 100))) (fun _ => 0)
  (fun A _ p => mul A (ofZ A p) (lit A 25 1000000))
  (fun A s => mul A (ofZ A (zn s)) (lit A 5 10))
  (1 # 2) (5537 # 100).

(* amsua: scan_len 30, scan_rate 8 (int: the offsets are an int64 array), angle -48.3,
   sampling 0.2, sync 0.00355;  scan_len * 0.5 - 0.5 = 14.5 *)
Definition amsua : inst := mkInst 30 1
  (ramp (145 # 10) (- (483 # 10))) (fun _ => 0)
  (fun A _ p => add A (mul A (ofZ A p) (lit A 2 10)) (lit A 355 100000))
  (fun A s => ofZ A (zn s * 8))
  8 (483 # 10).

(* mhs: 90, rate 8/3., angle -49.444, sampling (8/3. - 1)/90., sync 0.0 *)
Definition mhs : inst := mkInst 90 1
  (ramp (445 # 10) (- (49444 # 1000))) (fun _ => 0)
  (fun A _ p => add A (mul A (ofZ A p) (div A (sub A (div A (ofZ A 8) (ofZ A 3)) (ofZ A 1)) (ofZ A 90)))
                      (lit A 0 1))
  (fun A s => mul A (ofZ A (zn s)) (div A (ofZ A 8) (ofZ A 3)))
  (8 / 3) (49444 # 1000).

(* hirs4: 56, rate 6.4, angle -49.5, sampling abs(rate)/56 *)
Definition hirs4 : inst := mkInst 56 1
  (ramp (275 # 10) (- (495 # 10))) (fun _ => 0)
  (fun A _ p => mul A (ofZ A p) (div A (lit A 64 10) (ofZ A 56)))
  (fun A s => mul A (ofZ A (zn s)) (lit A 64 10))
  (64 # 10) (495 # 10).

(* atms: 96, rate 8/3., linspace(-deg2rad(-52.7), deg2rad(-52.7), 96)[p], sampling 18e-3 *)
Definition atms : inst := mkInst 96 1
  (linspace (527 # 10) (- (527 # 10)) 96) (fun _ => 0)
  (fun A _ p => mul A (ofZ A p) (lit A 18 1000))
  (fun A s => mul A (ofZ A (zn s)) (div A (ofZ A 8) (ofZ A 3)))
  (8 / 3) (527 # 10).

(* mwhs2: 98, rate 8/3., angle -53.35, sampling (8/3. - 1)/98., sync 0.0 *)
Definition mwhs2 : inst := mkInst 98 1
  (ramp (485 # 10) (- (5335 # 100))) (fun _ => 0)
  (fun A _ p => add A (mul A (ofZ A p) (div A (sub A (div A (ofZ A 8) (ofZ A 3)) (ofZ A 1)) (ofZ A 98)))
                      (lit A 0 1))
  (fun A s => mul A (ofZ A (zn s)) (div A (ofZ A 8) (ofZ A 3)))
  (8 / 3) (5335 # 100).

(* viirs(scans_nb, scan_indices, chn_pixels=6400, scan_lines=32, scan_step=1):
   across (p / 3199.5 - 1) * deg2rad(-56.28); along -(d / 15.5 - 1) * y_max;
   times p * 0.0002779947917 + repeat(arange(scans) * 1.779166667 * 1, 32) *)
Definition viirs : inst := mkInst 6400 32
  (ramp (31995 # 10) (- (5628 # 100)))
  (fun d => - (inject_Z (zn d) / (155 # 10) - 1))
  (fun A _ p => mul A (ofZ A p) (lit A 2779947917 10000000000000))
  (fun A s => mul A (mul A (ofZ A (zn s)) (lit A 1779166667 1000000000)) (ofZ A 1))
  (1779166667 # 1000000000) (5628 # 100).

(* ascat: concatenate(linspace(53, 25, 21), linspace(-25, -53, 21))[p] degrees;
   sampling_interval = 3.74747474747 / float(max(scan_points) + 1) *)
Definition ascat : inst := mkInst 42 1
  (fun p => if (p <? 21)%Z then linspace 53 25 21 p else linspace (- (25)) (- (53)) 21 (p - 21))
  (fun _ => 0)
  (fun A m p => mul A (ofZ A p) (div A (lit A 374747474747 100000000000) (ofZ A (m + 1))))
  (fun A s => mul A (ofZ A (zn s)) (lit A 374747474747 100000000000))
  (374747474747 # 100000000000) 53.

(* ---------- the geometry: map of the template over lines x selected positions ---------- *)
Definition lines (t : inst) (n : nat) : list nat := seq 0 (n * ndet t).

(* fovs: [across rows; along rows], each (lines x positions) *)
Definition angles (t : inst) (n : nat) (ps : list Z) : list (list (list Q)) :=
  [ map (fun _ => map (across t) ps) (lines t n);
    map (fun L => map (fun _ => along t (L mod ndet t)) ps) (lines t n) ].

(* times (+)= offset, then ScanGeometry: np.array(times) * np.timedelta64(1000000000, "ns") *)
Definition time_ns (A : arith) (t : inst) (m : Z) (s : nat) (p : Z) : Z :=
  to_ns A (add A (sample t A m p) (offset t A s)).

Definition pmax (ps : list Z) : Z := fold_right Z.max 0%Z ps.
Definition times (A : arith) (t : inst) (n : nat) (ps : list Z) : list (list Z) :=
  map (fun L => map (time_ns A t (pmax ps) (L / ndet t)) ps) (lines t n).

(* selecting columns of a (lines x positions) array *)
Definition select {X} (d : X) (ps : list Z) (row : list X) : list X :=
  map (fun p => nth (Z.to_nat p) row d) ps.
Definition zrange (n : Z) : list Z := map Z.of_nat (seq 0 (Z.to_nat n)).
Definition full (t : inst) : list Z := zrange (npos t).

(* OLCI / SLSTR nadir: scan_points only gives the LENGTH of the resampled swath;
   linspace(deg2rad(46.5), deg2rad(-22.1), len); times are zero *)
Definition swath_angles (n : nat) (len : Z) : list (list (list Q)) :=
  let row := map (linspace (465 # 10) (- (221 # 10)) len) (zrange len) in
  let zero := map (fun _ => 0) (zrange len) in
  [ map (fun _ => row) (seq 0 n); map (fun _ => zero) (seq 0 n) ].
Definition swath_times (n : nat) (len : Z) : list (list Z) :=
  let zero := map (fun _ => 0%Z) (zrange len) in map (fun _ => zero) (seq 0 n).

(* ---------- evaluation with sharing (used by the correspondence run; proved equal to the
   definitions above in P_Instruments.v) ---------- *)
Definition angles_exec (t : inst) (n : nat) (ps : list Z) : list (list (list Q)) :=
  let row := map (across t) ps in
  let arows := map (fun d => let a := along t d in map (fun _ => a) ps) (seq 0 (ndet t)) in
  [ map (fun _ => row) (lines t n);
    map (fun L => nth (L mod ndet t) arows []) (lines t n) ].
Definition times_exec (A : arith) (t : inst) (n : nat) (ps : list Z) : list (list Z) :=
  let m := pmax ps in
  let smp := map (sample t A m) ps in
  let rows := map (fun s => let o := offset t A s in map (fun x => to_ns A (add A x o)) smp) (seq 0 n) in
  map (fun L => nth (L / ndet t) rows []) (lines t n).

(* ---------- bounded sweep of the binary64 model (theorems with the bound in the statement) ---------- *)
Definition near (a b : Z) (q : Q) (tol : Q) : bool :=
  Qle_bool (inject_Z (b - a) - q) tol && Qle_bool (- tol) (inject_Z (b - a) - q).
Definition period_ns (t : inst) : Q := Qred (period t * 1000000000).
Definition sweep_cell (t : inst) (tq : Q) (m : Z) (s : nat) (p : Z) : bool :=
  let a := time_ns B64 t m s p in
  (Z.abs (a - time_ns Exact t m s p) <=? 1)%Z
  && (if (p <? m)%Z then (a <? time_ns B64 t m s (p + 1))%Z else true)
  && near a (time_ns B64 t m (S s) p) tq 2.
Definition sweep_line (t : inst) (tq : Q) (m : Z) (zr : list Z) (s : nat) : bool :=
  (time_ns B64 t m s m <? time_ns B64 t m (S s) 0)%Z
  && forallb (sweep_cell t tq m s) zr.
Definition sweep (t : inst) (maxes : list Z) (nscans : nat) : bool :=
  let tq := period_ns t in
  forallb (fun m => let zr := zrange (m + 1) in forallb (sweep_line t tq m zr) (seq 0 nscans)) maxes.
