(* M_Db.v — hand-written executable model of tlefile.SQLiteTLE (pyorbital/tlefile.py, class SQLiteTLE:
   __init__, update_db, write_tle_txt, close; table_exists) as of /repo HEAD (commits 99030e6, c174073:
   write_tle_txt skips configured platforms without a table or with an empty table, and parses the
   epoch with fromisoformat).

   sqlite is an oracle: a table is a finite map keyed by its primary key; INSERT on an existing key
   raises IntegrityError and changes nothing; a statement inside `with self.db:` that does not reach
   the commit leaves no trace; text keys compare bytewise (BINARY collation: the column type `date`
   has NUMERIC affinity, and an ISO string is not a numeric literal, so it is stored as TEXT).

   The column insertion_time (wall clock) is not modelled.  TLE texts, sources and platform names are
   abstract identifiers (Z); the satellite number and the epoch (civil fields of
   `tle.epoch.item()`, a datetime with microsecond resolution) come from the parsed Tle. *)
From Coq Require Import List ZArith NArith Ascii String Bool.
Import ListNotations.
Local Notation length := List.length.

(* ---------- epoch and its ISO string (datetime.isoformat()) ---------- *)
Record epoch := mkEpoch { eY : N; eM : N; eD : N; eh : N; em : N; es : N; eus : N }.

Definition digit (d : N) : ascii := ascii_of_N (48 + d).
(* "%0<w>d" for n < 10^w *)
Fixpoint digits (w : nat) (n : N) : list ascii :=
  match w with
  | O => []
  | S w' => digits w' (n / 10) ++ [digit (n mod 10)]
  end.

(* 'YYYY-MM-DDTHH:MM:SS' and, only when microsecond != 0, '.ffffff' *)
Definition iso_head (e : epoch) : list ascii :=
  digits 4 (eY e) ++ "-"%char :: digits 2 (eM e) ++ "-"%char :: digits 2 (eD e) ++ "T"%char ::
  digits 2 (eh e) ++ ":"%char :: digits 2 (em e) ++ ":"%char :: digits 2 (es e).
Definition iso_tail (e : epoch) : list ascii :=
  if (eus e =? 0)%N then [] else "."%char :: digits 6 (eus e).
Definition iso (e : epoch) : list ascii := iso_head e ++ iso_tail e.

(* bytewise order of sqlite's BINARY collation: memcmp, then the shorter string first *)
Fixpoint lexcmp (a b : list ascii) : comparison :=
  match a, b with
  | [], [] => Eq
  | [], _ :: _ => Lt
  | _ :: _, [] => Gt
  | x :: a', y :: b' =>
      match (N_of_ascii x ?= N_of_ascii y)%N with
      | Eq => lexcmp a' b'
      | c => c
      end
  end.
Definition key := list ascii.
Definition key_eqb (a b : key) : bool := match lexcmp a b with Eq => true | _ => false end.

(* ---------- database ---------- *)
Definition val := (Z * Z)%type.                     (* (tle text id, source id) *)
Definition row := (key * val)%type.
Record db := mkDb { tables : list (Z * list row);   (* satid -> rows, creation / insertion order *)
                    names : list (Z * Z) }.         (* platform_names: satid -> name id *)
Record state := mkState { sdb : db; updated : bool }.
Definition config := list (Z * Z).                  (* self.platforms: satid -> name id, dict order *)

Fixpoint lookup {A} (k : Z) (l : list (Z * A)) : option A :=
  match l with
  | [] => None
  | (k', v) :: r => if (k =? k')%Z then Some v else lookup k r
  end.
Fixpoint set_assoc {A} (k : Z) (v : A) (l : list (Z * A)) : list (Z * A) :=
  match l with
  | [] => []
  | (k', v') :: r => if (k =? k')%Z then (k', v) :: r else (k', v') :: set_assoc k v r
  end.
Definition has_key (k : key) (rows : list row) : bool := existsb (fun r => key_eqb k (fst r)) rows.

(* table_exists(db, name) *)
Definition table_exists (sat : Z) (d : db) : bool :=
  match lookup sat (tables d) with Some _ => true | None => false end.
Definition rows_of (sat : Z) (d : db) : list row :=
  match lookup sat (tables d) with Some r => r | None => [] end.

Inductive stmt :=
  | SCreate (sat : Z)                       (* CREATE TABLE '<sat>' (epoch date primary key, ...) *)
  | SName (sat : Z) (nm : Z)                (* INSERT INTO platform_names VALUES (sat, name) *)
  | SRow (sat : Z) (k : key) (v : val).     (* INSERT INTO '<sat>' VALUES (epoch, tle, now, source) *)

Inductive sqlres := Done (d : db) | Integrity | OpErr.

Definition exec (s : stmt) (d : db) : sqlres :=
  match s with
  | SCreate sat => if table_exists sat d then OpErr        (* "table already exists" *)
                   else Done (mkDb (tables d ++ [(sat, [])]) (names d))
  | SName sat nm => match lookup sat (names d) with
                    | Some _ => Integrity
                    | None => Done (mkDb (tables d) (names d ++ [(sat, nm)]))
                    end
  | SRow sat k v => match lookup sat (tables d) with
                    | None => OpErr                         (* "no such table" *)
                    | Some rows => if has_key k rows then Integrity
                                   else Done (mkDb (set_assoc sat (rows ++ [(k, v)]) (tables d)) (names d))
                    end
  end.

(* ---------- update_db ---------- *)
Record tle := mkTle { t_sat : Z; t_epoch : epoch; t_text : Z }.

(* the statements update_db issues, each in its own `with self.db:` transaction:
   nothing for `num not in self.platforms`; CREATE TABLE + platform_names INSERT only when
   `not table_exists(self.db, num)`; then the row INSERT *)
Definition plan (cfg : config) (t : tle) (src : Z) (d : db) : list stmt :=
  match lookup (t_sat t) cfg with
  | None => []
  | Some nm =>
      (if table_exists (t_sat t) d then [] else [SCreate (t_sat t); SName (t_sat t) nm]) ++
      [SRow (t_sat t) (iso (t_epoch t)) (t_text t, src)]
  end.

Definition is_row (s : stmt) : bool := match s with SRow _ _ _ => true | _ => false end.

(* run statements in order; only the row INSERT is wrapped in `except sqlite3.IntegrityError: pass`
   and sets `self.updated = True` when it succeeds; any other error escapes update_db.
   Result: (db, updated flag, did an exception escape?) *)
Fixpoint exec_plan (p : list stmt) (d : db) (upd : bool) : db * bool * bool :=
  match p with
  | [] => (d, upd, false)
  | s :: r =>
      match exec s d with
      | Done d' => exec_plan r d' (upd || is_row s)
      | Integrity => if is_row s then exec_plan r d upd else (d, upd, true)
      | OpErr => (d, upd, true)
      end
  end.

Definition update (cfg : config) (t : tle) (src : Z) (st : state) : state * bool :=
  let '(d, u, raised) := exec_plan (plan cfg t src (sdb st)) (sdb st) (updated st) in
  (mkState d u, raised).

(* close() + SQLiteTLE(same file, same platforms): tables persist, `self.updated = False`;
   platform_names exists already, so __init__ issues no statement *)
Definition reopen (st : state) : state := mkState (sdb st) false.

(* ---------- crash points ---------- *)
(* the process dies at a statement boundary of update_db: the statements before it are committed,
   the others never run.  InRow: dies inside the row transaction after execute() and before the
   commit (rolled back).  A death after the row commit is `Update` followed by `Reopen`. *)
Inductive cpoint := BeforeCreate | AfterCreate | AfterName | InRow.
Definition cp_level (c : cpoint) : nat :=
  match c with BeforeCreate => 0 | AfterCreate => 1 | AfterName => 2 | InRow => 2 end.
Definition stmt_level (s : stmt) : nat :=
  match s with SCreate _ => 1 | SName _ _ => 2 | SRow _ _ _ => 3 end.
Fixpoint committed (c : cpoint) (p : list stmt) : list stmt :=
  match p with
  | [] => []
  | s :: r => if Nat.leb (stmt_level s) (cp_level c) then s :: committed c r else []
  end.
(* the next process opens the same file *)
Definition crash (cfg : config) (c : cpoint) (t : tle) (src : Z) (st : state) : state :=
  let '(d, _, _) := exec_plan (committed c (plan cfg t src (sdb st))) (sdb st) false in
  mkState d false.

(* ---------- write_tle_txt ---------- *)
Inductive item := IName (nm : Z) | IText (txt : Z).

(* SELECT epoch, tle FROM '<sat>' ORDER BY epoch DESC LIMIT 1 *)
Fixpoint newest (rows : list row) : option row :=
  match rows with
  | [] => None
  | r :: t => match newest t with
              | None => Some r
              | Some m => match lexcmp (fst m) (fst r) with Lt => Some r | _ => Some m end
              end
  end.

(* None: returned early, no file written.  Some items: the file is "\n".join(items) *)
Definition export (cfg : config) (st : state) (write_name write_always : bool) : option (list item) :=
  if negb (updated st) && negb write_always then None
  else Some (flat_map (fun p : Z * Z =>
               let (sat, nm) := p in
               match lookup sat (tables (sdb st)) with
               | None => []                                   (* if not table_exists: continue *)
               | Some rows =>
                   match newest rows with
                   | None => []                               (* row is None: continue *)
                   | Some r => (if write_name then [IName nm] else []) ++ [IText (fst (snd r))]
                   end
               end) cfg).

(* ---------- histories ---------- *)
Inductive op :=
  | Update (t : tle) (src : Z)
  | Crash (c : cpoint) (t : tle) (src : Z)
  | Export (write_name write_always : bool)
  | Reopen.

Inductive output := ONone | ORaised | OFile (f : option (list item)).

Definition step (cfg : config) (st : state) (o : op) : state * output :=
  match o with
  | Update t src => let (st', raised) := update cfg t src st in (st', if raised then ORaised else ONone)
  | Crash c t src => (crash cfg c t src st, ONone)
  | Export wn wa => (st, OFile (export cfg st wn wa))
  | Reopen => (reopen st, ONone)
  end.

Fixpoint run (cfg : config) (ops : list op) (st : state) : state * list output :=
  match ops with
  | [] => (st, [])
  | o :: r => let (st1, out) := step cfg st o in
              let (st2, outs) := run cfg r st1 in (st2, out :: outs)
  end.

Definition init : state := mkState (mkDb [] []) false.
Definition final (cfg : config) (ops : list op) : state := fst (run cfg ops init).
Definition outputs (cfg : config) (ops : list op) : list output := snd (run cfg ops init).

(* ---------- encodings for the correspondence run (checks/c15.py) ---------- *)
Open Scope Z_scope.
Definition enc_item (i : item) : Z := match i with IName n => - 1 - n | IText t => t end.
Definition nrows (d : db) : Z := fold_left (fun a t => a + Z.of_nat (length (snd t))) (tables d) 0.
(* per op: (updated, raised, total rows, exported items) *)
Definition snap := (bool * bool * Z * option (list Z))%type.
Fixpoint trace (cfg : config) (ops : list op) (st : state) : list snap * state :=
  match ops with
  | [] => ([], st)
  | o :: r =>
      let (st1, out) := step cfg st o in
      let s := (updated st1, match out with ORaised => true | _ => false end, nrows (sdb st1),
                match out with OFile (Some l) => Some (map enc_item l) | _ => None end) in
      let (ss, st2) := trace cfg r st1 in (s :: ss, st2)
  end.
Definition dump (st : state) : list (Z * list (string * val)) * list (Z * Z) :=
  (map (fun t => (fst t, map (fun r => (string_of_list_ascii (fst r), snd r)) (snd t))) (tables (sdb st)),
   names (sdb st)).
Definition play (cfg : config) (ops : list op) :=
  let (ss, st) := trace cfg ops init in (ss, dump st).
Definition E (y mo d h mi s us : N) : epoch := mkEpoch y mo d h mi s us.
