(* M_Kinds.v — hand-written executable model of the container/dtype DISPATCH of the numeric entry points
   (pyorbital/astronomy.py get_alt_az, cos_zen, sun_zenith_angle, observer_position, gmst, jdays, jdays2000,
   sun_ra_dec; pyorbital/orbital.py get_observer_look (function and method), get_position, get_lonlatalt;
   pyorbital/__init__.py dt2np), written from the code as it is now, and of the tick -> day conversion
   astronomy._days.  Values are abstracted to their KIND = (container, dtype).

   The numpy/dask behaviour the model relies on is the table of ORACLE FACTS below (uf1, bin, np_clip, np_where,
   isinstance_float, astype, sibling ...); checks/c08.py compares every cell of these tables with the real numpy/dask
   on every run, and every entry point x kind with the implementation. *)
From Coq Require Import List ZArith QArith Qreduction Bool.
Import ListNotations.

(* ------------------------------------------------------------------ kinds *)
Inductive dty := I64 | F32 | F64.
Inductive cont := CPy      (* python int / float *)
                | CNp      (* numpy scalar (np.float32, np.float64, np.int64) *)
                | C0d      (* 0-d ndarray *)
                | CNd      (* ndarray, ndim >= 1 *)
                | CDask.   (* dask array *)
Definition vk := (cont * dty)%type.

(* the input kinds of the property's quantifier *)
Inductive numkind :=
| PyInt | PyFloat | NpF32 | NpF64 | NpI64 | Arr0dI | Arr0dF32 | Arr0dF64
| ArrI | ArrF32 | ArrF64 | DaskI | DaskF32 | DaskF64.
Definition all_numkinds :=
  [PyInt; PyFloat; NpF32; NpF64; NpI64; Arr0dI; Arr0dF32; Arr0dF64; ArrI; ArrF32; ArrF64; DaskI; DaskF32; DaskF64].
Definition kind_of (k : numkind) : vk :=
  match k with
  | PyInt => (CPy, I64) | PyFloat => (CPy, F64)
  | NpF32 => (CNp, F32) | NpF64 => (CNp, F64) | NpI64 => (CNp, I64)
  | Arr0dI => (C0d, I64) | Arr0dF32 => (C0d, F32) | Arr0dF64 => (C0d, F64)
  | ArrI => (CNd, I64) | ArrF32 => (CNd, F32) | ArrF64 => (CNd, F64)
  | DaskI => (CDask, I64) | DaskF32 => (CDask, F32) | DaskF64 => (CDask, F64)
  end.

Inductive tunit := US_s | US_ms | US_us | US_ns.
Inductive timekind :=
| TDatetime                 (* datetime.datetime *)
| TDt64 (u : tunit)         (* np.datetime64 scalar *)
| TObjArr                   (* object ndarray of datetimes *)
| TDt64Arr (u : tunit).     (* ndarray of datetime64[u] *)
Definition all_units := [US_s; US_ms; US_us; US_ns].
Definition all_timekinds :=
  [TDatetime; TDt64 US_s; TDt64 US_ms; TDt64 US_us; TDt64 US_ns; TObjArr;
   TDt64Arr US_s; TDt64Arr US_ms; TDt64Arr US_us; TDt64Arr US_ns].

Inductive res (A : Type) := Ok (a : A) | AttributeError | TypeError.
Arguments Ok {A}.
Arguments AttributeError {A}.
Arguments TypeError {A}.
Definition bind {A B} (r : res A) (f : A -> res B) : res B :=
  match r with Ok a => f a | AttributeError => AttributeError | TypeError => TypeError end.
Notation "x <- r ;; k" := (bind r (fun x => k)) (at level 61, r at next level, right associativity).

(* ------------------------------------------------------------------ ORACLE FACTS about numpy 2 / dask *)
Definition pyf : vk := (CPy, F64).      (* a python float constant in the source *)

(* a float ufunc of one argument: np.deg2rad, np.rad2deg, np.sin, np.cos, np.tan, np.arcsin, np.arccos, np.sqrt *)
Definition uf1 (k : vk) : vk :=
  (match fst k with CPy | CNp | C0d => CNp | CNd => CNd | CDask => CDask end,
   match snd k with I64 => F64 | d => d end).

(* NEP 50 promotion for + - * (and two-argument float ufuncs such as arctan2, mod on floats):
   python scalars are weak, numpy scalars and arrays are strong *)
Definition promote (a b : dty) : dty :=
  match a, b with
  | F64, _ | _, F64 => F64
  | F32, F32 => F32
  | I64, I64 => I64
  | _, _ => F64            (* int64 with float32 *)
  end.
Definition bin_dty (a b : vk) : dty :=
  match fst a, fst b with
  | CPy, CPy => promote (snd a) (snd b)
  | CPy, _ => match snd a, snd b with F64, I64 => F64 | _, d => d end     (* weak python scalar *)
  | _, CPy => match snd b, snd a with F64, I64 => F64 | _, d => d end
  | _, _ => promote (snd a) (snd b)
  end.
Definition bin_cont (a b : cont) : cont :=
  match a, b with
  | CDask, _ | _, CDask => CDask
  | CNd, _ | _, CNd => CNd
  | CPy, CPy => CPy
  | _, _ => CNp            (* numpy scalars and 0-d arrays combine to numpy scalars *)
  end.
Definition bin (a b : vk) : vk := (bin_cont (fst a) (fst b), bin_dty a b).

(* np.clip(x, -1.0, 1.0) *)
Definition np_clip (k : vk) : vk :=
  (match fst k with CPy | CNp | C0d => CNp | c => c end,
   match snd k with I64 => F64 | d => d end).

(* np.where(cond, a, b) with cond of the container of a *)
Definition np_where (a b : vk) : vk :=
  (match bin_cont (fst a) (fst b) with CPy | CNp | C0d => C0d | c => c end, bin_dty a b).

Definition isinstance_float (k : vk) : bool :=
  match k with (CPy, F64) | (CNp, F64) => true | _ => false end.
Definition dtype_of (k : vk) : res dty := match fst k with CPy => AttributeError | _ => Ok (snd k) end.
Definition astype (k : vk) (d : dty) : res vk := match fst k with CPy => AttributeError | c => Ok (c, d) end.
(* x.clip(max=1): a method of numpy scalars and arrays *)
Definition clip_method (k : vk) : res vk :=
  match fst k with CPy => AttributeError | C0d => Ok (CNp, snd k) | _ => Ok k end.

(* astronomy._float_to_sibling_result(0.0, template) *)
Definition sibling (t : vk) : res vk :=
  if isinstance_float t then Ok t
  else match fst t with
       | CPy => AttributeError                  (* python int: no .data *)
       | CNp => TypeError                       (* np.float32 / np.int64: np.asarray(0.0, like=<memoryview>) *)
       | C0d | CNd => Ok (C0d, F64)             (* np.asarray(0.0, like=ndarray) *)
       | CDask => Ok (CDask, F64)
       end.

(* ------------------------------------------------------------------ time *)
Definition dt2np_unit (t : timekind) : tunit :=
  match t with
  | TDatetime => US_us                 (* np.datetime64(datetime) *)
  | TDt64 u => u                       (* unchanged *)
  | TObjArr | TDt64Arr _ => US_ns      (* ValueError -> .astype("datetime64[ns]") *)
  end.
Definition time_is_array (t : timekind) : bool :=
  match t with TObjArr | TDt64Arr _ => true | _ => false end.
(* kind of every time-derived quantity (jdays2000, gmst, sun_ra_dec ...): float64, scalar or array *)
Definition tv (t : timekind) : vk := if time_is_array t then (CNd, F64) else (CNp, F64).

Definition jdays2000_k (t : timekind) : vk := tv t.
Definition jdays_k (t : timekind) : vk := bin (jdays2000_k t) pyf.
Definition gmst_k (t : timekind) : vk :=
  let ut1 := bin (jdays2000_k t) pyf in
  let theta := bin pyf (bin ut1 (bin pyf (bin ut1 (bin pyf (bin ut1 pyf))))) in
  bin (uf1 (bin theta pyf)) pyf.
Definition sun_ra_dec_k (t : timekind) : vk * vk :=
  let j := bin (jdays2000_k t) pyf in
  let eps := uf1 (bin pyf (bin j pyf)) in
  let eclon := uf1 (bin (bin pyf j) (bin (bin pyf j) (uf1 (uf1 (bin pyf j))))) in
  let x := uf1 eclon in let y := bin (uf1 eps) (uf1 eclon) in let z := bin (uf1 eps) (uf1 eclon) in
  let r := uf1 (bin pyf (bin z z)) in
  (bin pyf (bin y (bin x r)), bin z r).

(* ------------------------------------------------------------------ astronomy entry points *)
Definition hour_angle (t : timekind) (lon' : vk) : vk := bin (bin (gmst_k t) lon') (fst (sun_ra_dec_k t)).

(* astronomy.py:136-152 *)
Definition get_alt_az_k (t : timekind) (lon lat : vk) : res (vk * vk) :=
  let lon' := uf1 lon in let lat' := uf1 lat in
  let dec := snd (sun_ra_dec_k t) in
  let h := hour_angle t lon' in
  let alt := uf1 (np_clip (bin (bin (uf1 lat') (uf1 dec)) (bin (bin (uf1 lat') (uf1 dec)) (uf1 h)))) in
  let az := bin (uf1 h) (bin (bin (uf1 lat') (uf1 dec)) (bin (uf1 lat') (uf1 h))) in
  if isinstance_float lon' then Ok (alt, az)
  else d <- dtype_of lon' ;; a <- astype alt d ;; z <- astype az d ;; Ok (a, z).

(* astronomy.py:155-171 *)
Definition cos_zen_k (t : timekind) (lon lat : vk) : res vk :=
  let lon' := uf1 lon in let lat' := uf1 lat in
  let dec := snd (sun_ra_dec_k t) in
  let h := hour_angle t lon' in
  let csza := bin (bin (uf1 lat') (uf1 dec)) (bin (bin (uf1 lat') (uf1 dec)) (uf1 h)) in
  if isinstance_float lon' then Ok csza else d <- dtype_of lon' ;; astype csza d.

(* astronomy.py:174-183: isinstance is evaluated on cos_zen's RESULT *)
Definition sun_zenith_angle_k (t : timekind) (lon lat : vk) : res vk :=
  csza <- cos_zen_k t lon lat ;;
  let sza := uf1 (uf1 (np_clip csza)) in
  if isinstance_float csza then Ok sza else d <- dtype_of csza ;; astype sza d.

(* astronomy.py:209-238 *)
Definition observer_position_k (t : timekind) (lon lat alt : vk) : res ((vk * vk * vk) * (vk * vk * vk)) :=
  let lon' := uf1 lon in let lat' := uf1 lat in
  let theta := bin (bin (gmst_k t) lon') pyf in
  let c := bin pyf (uf1 (bin pyf (bin pyf (bin (uf1 lat') pyf)))) in
  let sq := bin c pyf in
  let achcp := bin (bin (bin pyf c) alt) (uf1 lat') in
  let x := bin achcp (uf1 theta) in
  let y := bin achcp (uf1 theta) in
  let z := bin (bin (bin pyf sq) alt) (uf1 lat') in
  let vx := bin pyf y in
  let vy := bin pyf x in
  vz <- sibling vx ;;
  if isinstance_float lon' then Ok ((x, y, z), (vx, vy, vz))
  else d <- dtype_of lon' ;;
       x' <- astype x d ;; y' <- astype y d ;; z' <- astype z d ;;
       vx' <- astype vx d ;; vy' <- astype vy d ;; vz' <- astype vz d ;;
       Ok ((x', y', z'), (vx', vy', vz')).

(* ------------------------------------------------------------------ orbital.py *)
(* the common tail of both look-angle computations, from satellite position components p and the observer *)
Definition look_tail (t : timekind) (p : vk) (lon lat alt : vk) (method : bool) : res (vk * vk) :=
  o <- observer_position_k t lon lat alt ;;
  let '((ox, oy, oz), _) := o in
  let lon' := uf1 lon in let lat' := uf1 lat in
  let theta := bin (bin (gmst_k t) lon') pyf in
  let rx := bin p ox in let ry := bin p oy in let rz := bin p oz in
  let sl := uf1 lat' in let cl := uf1 lat' in let st := uf1 theta in let ct := uf1 theta in
  let top_s := bin (bin (bin (bin sl ct) rx) (bin (bin sl st) ry)) (bin cl rz) in
  let top_e := bin (bin st rx) (bin ct ry) in
  let top_z := bin (bin (bin (bin cl ct) rx) (bin (bin cl st) ry)) (bin sl rz) in
  let rg := uf1 (bin (bin (bin rx rx) (bin ry ry)) (bin rz rz)) in
  if method then
    (* Orbital.get_observer_look, orbital.py:256-304 *)
    let az0 := uf1 (bin top_e top_s) in
    let az1 := np_where (bin az0 pyf) az0 in
    let az2 := np_where (bin az1 pyf) az1 in
    let el := uf1 (np_clip (bin top_z rg)) in
    Ok (uf1 az2, uf1 el)
  else
    (* module-level get_observer_look, orbital.py:95-146 *)
    let az := bin (bin (bin top_e top_s) pyf) pyf in
    q <- clip_method (bin top_z rg) ;;
    Ok (uf1 az, uf1 (uf1 q)).

(* module-level function: the satellite position comes from observer_position(utc_time, sat_lon, sat_lat, sat_alt) *)
Definition look_function_k (t : timekind) (slon slat salt lon lat alt : vk) : res (vk * vk) :=
  s <- observer_position_k t slon slat salt ;;
  let '((px, _, _), _) := s in
  look_tail t px lon lat alt false.

(* Orbital.get_position: np.array((x, y, z)) of float64 — (3,) for a scalar time, (3, n) for n times *)
Definition position_k (t : timekind) : vk := (CNd, F64).
(* a row of the position array *)
Definition position_component_k (t : timekind) : vk := tv t.
Definition look_method_k (t : timekind) (lon lat alt : vk) : res (vk * vk) :=
  look_tail t (position_component_k t) lon lat alt true.
(* Orbital.get_lonlatalt, orbital.py:222-247 *)
Definition lonlatalt_k (t : timekind) : vk * vk * vk :=
  let p := position_component_k t in
  let lon0 := bin (bin (bin p pyf) (gmst_k t)) pyf in
  let lon1 := np_where (bin lon0 pyf) lon0 in
  let lon2 := np_where (bin lon1 pyf) lon1 in
  let r := uf1 (bin (bin p p) (bin p p)) in
  let lat := bin p r in
  let c := bin pyf (uf1 (bin pyf (bin pyf (bin (uf1 lat) pyf)))) in
  let lat' := bin (bin p (bin (bin c pyf) (uf1 lat))) r in
  let alt := bin (bin (bin r (uf1 lat')) c) pyf in
  (uf1 lon2, uf1 lat', alt).

(* ------------------------------------------------------------------ what the property documents *)
(* ints at their real values -> float64; float32 stays float32 *)
Definition doc_dty (k : vk) : dty := match snd k with F32 => F32 | _ => F64 end.
(* scalars give scalars (numpy scalars), arrays give arrays, dask stays dask; an array of times gives arrays *)
Definition doc_cont (t : timekind) (k : vk) : cont :=
  match fst k with
  | CDask => CDask
  | CNd => CNd
  | _ => if time_is_array t then CNd else CNp
  end.
Definition doc (t : timekind) (k : vk) : vk := (doc_cont t k, doc_dty k).
Definition vk_eqb (a b : vk) : bool :=
  match fst a, fst b with
  | CPy, CPy | CNp, CNp | C0d, C0d | CNd, CNd | CDask, CDask => true | _, _ => false end
  && match snd a, snd b with I64, I64 | F32, F32 | F64, F64 => true | _, _ => false end.
(* the constant velocity component may be a scalar / 0-d array that broadcasts *)
Definition doc_vz (t : timekind) (k vz : vk) : bool :=
  match snd vz, doc_dty k with F32, F32 | F64, F64 => true | _, _ => false end
  && match fst vz, doc_cont t k with
     | CNp, CNp | C0d, CNd | CNd, CNd | CDask, CDask => true
     | _, _ => false
     end.

(* ------------------------------------------------------------------ tick -> day conversion (astronomy._days) *)
Open Scope Z_scope.
Definition ticks_per_second (u : tunit) : Z :=
  match u with US_s => 1 | US_ms => 1000 | US_us => 1000000 | US_ns => 1000000000 end.
Definition ticks_per_day (u : tunit) : Z := 86400 * ticks_per_second u.
(* J2000 = 2000-01-01T12:00 = 946728000 s after 1970-01-01 *)
Definition j2000 (u : tunit) : Z := 946728000 * ticks_per_second u.

(* exact: (t - J2000) / timedelta64(1, 'D') as a rational number of days; [ticks] counts from 1970 *)
Definition days_exact (u : tunit) (ticks : Z) : Q := inject_Z (ticks - j2000 u) / inject_Z (ticks_per_day u).

(* binary64 round-to-nearest-even of a positive rational n/d (no overflow/subnormals in range) *)
Definition rn_pos (n d : Z) : Q :=
  let e0 := Z.log2 n - Z.log2 d - 53 in
  let scale (e : Z) := if 0 <=? e then (n, d * 2 ^ e) else (n * 2 ^ (- e), d) in
  let m0 := fst (scale e0) / snd (scale e0) in
  let e := if m0 <? 2 ^ 52 then e0 - 1 else if m0 <? 2 ^ 53 then e0 else e0 + 1 in
  let '(nn, dd) := scale e in
  let m := nn / dd in
  let r := nn - m * dd in
  let m' := if 2 * r <? dd then m else if dd <? 2 * r then m + 1 else if Z.even m then m else m + 1 in
  if 0 <=? e then inject_Z (m' * 2 ^ e) else inject_Z m' / inject_Z (2 ^ (- e)).
Definition rn (x : Q) : Q :=
  let y := Qred x in
  match Qnum y with
  | 0 => 0%Q
  | Zpos p => rn_pos (Zpos p) (Zpos (Qden y))
  | Zneg p => Qopp (rn_pos (Zpos p) (Zpos (Qden y)))
  end.
(* int64 -> double: exact below 2^53, rounded above *)
Definition to_double (t : Z) : Q := if Z.abs t <? 2 ^ 53 then inject_Z t else rn (inject_Z t).
(* numpy: timedelta64 / timedelta64 = (double)a / (double)b, both converted to the finer unit first *)
Definition fdiv_ticks (a b : Z) : Q := rn (to_double a / to_double b).
(* astronomy._days as it is now (astronomy.py:59-68):
     day = np.timedelta64(1, "D"); whole = dt // day; return whole + (dt - whole * day) / day
   floor division of tick counts is exact integer arithmetic; int64 + float64 converts the integer *)
Definition days_float (u : tunit) (ticks : Z) : Q :=
  let d := ticks - j2000 u in
  let whole := d / ticks_per_day u in
  let r := d - whole * ticks_per_day u in
  rn (to_double whole + fdiv_ticks r (ticks_per_day u)).
Definition finer (u : tunit) : tunit := match u with US_ns => US_ns | _ => US_us end.
(* the common form  whole + (d - whole * unit) / unit  of a tick count d and a unit of [per] ticks *)
Definition whole_plus_fraction (d per : Z) : Q :=
  let whole := d / per in
  rn (to_double whole + fdiv_ticks (d - whole * per) per).
(* _Keplerians._get_timedelta_in_minutes as it is now (orbital.py):
     delta = dt2np(t) - t_0; minute = np.timedelta64(1, "m"); whole = delta // minute
     self._ts = whole + (delta - whole * minute) / minute
   [ticks_since_epoch] is delta in unit u (the finer of the argument's unit and the epoch's unit, us) *)
Definition minutes_float (u : tunit) (ticks_since_epoch : Z) : Q :=
  whole_plus_fraction ticks_since_epoch (60 * ticks_per_second u).
Close Scope Z_scope.
