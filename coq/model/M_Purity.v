(* M_Purity.v — hand-written executable model of the SHARED STATE of a pyorbital.orbital.Orbital object
   and of its public queries as programs of ATOMIC steps, parameterised by the facts that
   translator/purity_facts.py regenerates from the source on every run (gen/Gen_Purity.v).

   Object state (orbital.py:157-165, 307-326): immutable parameters (tle, orbit_elements.*, _sgdp4._params.*:
   written only by constructors) + two lazily set cache cells orbit_elements.an_time / an_period
   (unset = the attribute does not exist; reading it raises AttributeError) + a flag recording whether
   ANYTHING else that pre-exists (another attribute, the Tle, an argument array, a module table) was stored to.

   What is assumed (trusted, see checks/c18.py): attribute loads/stores are atomic under the GIL;
   numpy/scipy/datetime functions are pure; a piece of code that performs no store to a pre-existing
   object and no in-place operation on one computes a function of the values it reads. *)
From Coq Require Import List String Bool Arith.
Import ListNotations.
Open Scope string_scope.

(* ------------------------------------------------------------------ generated facts (interface) *)
Record facts := {
  f_stores : list (string * string * bool * list string);   (* query, cell, arg-dependent?, cells read by the value *)
  f_store_functions : list (string * list string);          (* cell -> functions whose code stores to it *)
  f_inplace_on_args : list (string * string);
  f_nondet : list (string * string);
  f_unclassified : list (string * string);
  f_hit_miss_same : list (string * bool)
}.

Inductive cell := AnTime | AnPeriod.
Definition s_time := "orbit_elements.an_time".
Definition s_period := "orbit_elements.an_period".
Definition s_accessor := "get_orbit_number".
Definition cell_of_string (s : string) : option cell :=
  if String.eqb s s_time then Some AnTime else if String.eqb s s_period then Some AnPeriod else None.
Definition cell_eqb (a b : cell) : bool :=
  match a, b with AnTime, AnTime | AnPeriod, AnPeriod => true | _, _ => false end.

Definition row_ok (r : string * string * bool * list string) : bool :=
  let '(_, c, dep, reads) := r in
  negb dep &&
  match cell_of_string c with
  | Some AnTime => match reads with [] => true | _ => false end          (* from the TLE alone *)
  | Some AnPeriod => forallb (fun s => String.eqb s s_time) reads          (* from the TLE and reads of an_time *)
  | None => false                                                          (* any other pre-existing object *)
  end.
Definition is_nil {A} (l : list A) : bool := match l with [] => true | _ => false end.

(* THE premise of every theorem: a boolean computed from the generated data *)
Definition facts_ok (F : facts) : bool :=
  forallb row_ok (f_stores F)
  && forallb (fun cf => match snd cf with [f] => String.eqb f ("Orbital." ++ s_accessor) | _ => false end) (f_store_functions F)
  && is_nil (f_inplace_on_args F) && is_nil (f_nondet F) && is_nil (f_unclassified F)
  && forallb (fun qb => snd qb) (f_hit_miss_same F)
  && existsb (fun qb => String.eqb (fst qb) s_accessor) (f_hit_miss_same F).

(* how the facts shape the programs *)
Definition touches (F : facts) (q : string) : bool :=
  existsb (fun r => let '(q', _, _, _) := r in String.eqb q' q) (f_stores F).
Definition argdep (F : facts) (c : cell) : bool :=
  existsb (fun r => let '(_, c', dep, _) := r in
     dep && match cell_of_string c' with Some c'' => cell_eqb c c'' | None => false end) (f_stores F).
Definition stores_elsewhere (F : facts) (q : string) : bool :=
  existsb (fun r => let '(q', c, _, _) := r in
     String.eqb q' q && match cell_of_string c with None => true | Some _ => false end) (f_stores F)
  || existsb (fun r => String.eqb (fst r) q) (f_inplace_on_args F)
  || existsb (fun r => String.eqb (fst r) q) (f_unclassified F).

Section Model.
  Variables tle arg val res : Type.
  (* meaning of the straight-line, store-free pieces of code (functions of what they read) *)
  Variable time_of : tle -> val.                       (* orbital.py:316-323: from self.tle.epoch alone *)
  Variable period_of : tle -> val -> val -> val.       (* :325-327 from the TLE and two reads of an_time *)
  Variable time_dep : tle -> arg -> val.               (* what would be stored if the facts said "argument-dependent" *)
  Variable period_dep : tle -> arg -> val -> val -> val.
  Variable orbit_result : tle -> arg -> val -> val -> res.   (* :329-338 from the arguments and the two cells *)
  Variable pure_result : string -> tle -> arg -> res.        (* a query without any store *)
  Variable driver : string -> tle -> arg -> list res -> arg + res.  (* a query calling get_orbit_number repeatedly *)
  Variable raise_attr out_of_fuel : res.
  Variable fuel : nat.

  Record state := { st_time : option val; st_period : option val; st_touched : bool }.
  Definition fresh_state := {| st_time := None; st_period := None; st_touched := false |}.
  Definition get (s : state) (c : cell) := match c with AnTime => st_time s | AnPeriod => st_period s end.
  Definition set (s : state) (c : cell) (v : val) :=
    match c with
    | AnTime => {| st_time := Some v; st_period := st_period s; st_touched := st_touched s |}
    | AnPeriod => {| st_time := st_time s; st_period := Some v; st_touched := st_touched s |}
    end.
  Definition touch (s : state) := {| st_time := st_time s; st_period := st_period s; st_touched := true |}.

  (* programs: trees of atomic steps *)
  Inductive prog :=
  | Ret (r : res)
  | ReadC (c : cell) (k : option val -> prog)     (* LOAD_ATTR; None = AttributeError *)
  | WriteC (c : cell) (v : val) (k : prog)        (* STORE_ATTR *)
  | Touch (k : prog).                             (* a store to anything else that pre-exists *)

  Fixpoint bind (p : prog) (f : res -> prog) : prog :=
    match p with
    | Ret r => f r
    | ReadC c k => ReadC c (fun o => bind (k o) f)
    | WriteC c v k => WriteC c v (bind k f)
    | Touch k => Touch (bind k f)
    end.

  Section WithFacts.
    Variable F : facts.
    Definition wtime t a := if argdep F AnTime then time_dep t a else time_of t.
    Definition wperiod t a v1 v2 := if argdep F AnPeriod then period_dep t a v1 v2 else period_of t v1 v2.

    (* get_orbit_number, except-branch (orbital.py:313-329) *)
    Definition miss (t : tle) (a : arg) : prog :=
      WriteC AnTime (wtime t a)
       (ReadC AnTime (fun o1 => ReadC AnTime (fun o2 =>
          match o1, o2 with
          | Some v1, Some v2 =>
              WriteC AnPeriod (wperiod t a v1 v2)
               (ReadC AnTime (fun o3 => ReadC AnPeriod (fun o4 =>
                  match o3, o4 with
                  | Some v3, Some v4 => Ret (orbit_result t a v3 v4)
                  | _, _ => Ret raise_attr
                  end)))
          | _, _ => Ret raise_attr
          end))).
    (* get_orbit_number (orbital.py:307-338): try both loads, fall into the handler on the first unset one *)
    Definition accessor (t : tle) (a : arg) : prog :=
      ReadC AnTime (fun o1 =>
        match o1 with
        | None => miss t a
        | Some v1 => ReadC AnPeriod (fun o2 =>
            match o2 with None => miss t a | Some v2 => Ret (orbit_result t a v1 v2) end)
        end).

    Fixpoint drive (n : nat) (t : tle) (d : list res -> arg + res) (hist : list res) : prog :=
      match n with
      | O => Ret out_of_fuel
      | S n => match d hist with
               | inr r => Ret r
               | inl a' => bind (accessor t a') (fun r => drive n t d (hist ++ [r]))
               end
      end.

    Definition body (q : string) (t : tle) (a : arg) : prog :=
      if String.eqb q s_accessor then accessor t a
      else if touches F q then drive fuel t (driver q t a) []
      else Ret (pure_result q t a).
    Definition query_prog (q : string) (t : tle) (a : arg) : prog :=
      if stores_elsewhere F q then Touch (body q t a) else body q t a.
  End WithFacts.

  (* ---- sequential execution (one thread, to completion) *)
  Fixpoint exec (p : prog) (s : state) : res * state :=
    match p with
    | Ret r => (r, s)
    | ReadC c k => exec (k (get s c)) s
    | WriteC c v k => exec k (set s c v)
    | Touch k => exec k (touch s)
    end.
  Fixpoint run_history (ps : list prog) (s : state) : list res * state :=
    match ps with
    | [] => ([], s)
    | p :: ps => let (r, s1) := exec p s in let (rs, s2) := run_history ps s1 in (r :: rs, s2)
    end.

  (* trace of cell accesses, for the correspondence run *)
  Inductive event := ERead (c : cell) (was_set : bool) | EWrite (c : cell) | ETouch.
  Fixpoint trace (p : prog) (s : state) : list event :=
    match p with
    | Ret _ => []
    | ReadC c k => ERead c (match get s c with Some _ => true | None => false end) :: trace (k (get s c)) s
    | WriteC c v k => EWrite c :: trace k (set s c v)
    | Touch k => ETouch :: trace k (touch s)
    end.

  (* ---- thread pool: at each step ANY thread may be chosen; a schedule is any list of thread ids *)
  Definition step1 (p : prog) (s : state) : prog * state :=
    match p with
    | Ret r => (Ret r, s)
    | ReadC c k => (k (get s c), s)
    | WriteC c v k => (k, set s c v)
    | Touch k => (k, touch s)
    end.
  Fixpoint step_pool (i : nat) (pool : list prog) (s : state) : list prog * state :=
    match pool, i with
    | [], _ => ([], s)
    | p :: rest, O => let (p', s') := step1 p s in (p' :: rest, s')
    | p :: rest, S j => let (rest', s') := step_pool j rest s in (p :: rest', s')
    end.
  Fixpoint run (sched : list nat) (pool : list prog) (s : state) : list prog * state :=
    match sched with
    | [] => (pool, s)
    | i :: sched' => let (pool', s') := step_pool i pool s in run sched' pool' s'
    end.
  Definition result_of (pool : list prog) (i : nat) : option res :=
    match nth_error pool i with Some (Ret r) => Some r | _ => None end.
  Definition all_done (pool : list prog) : bool :=
    forallb (fun p => match p with Ret _ => true | _ => false end) pool.

  (* the result of one query on a FRESH object *)
  Definition fresh_result (F : facts) (q : string) (t : tle) (a : arg) : res :=
    fst (exec (query_prog F q t a) fresh_state).
End Model.

Arguments Ret {val res}.
Arguments ReadC {val res}.
Arguments WriteC {val res}.
Arguments Touch {val res}.
Arguments fresh_state {val}.
