(* M_Checksum.v — hand-written executable model of tlefile.Tle._checksum and of the order
   _read_tle ; _checksum ; _parse_tle in Tle.__init__ (pyorbital/tlefile.py:195-225).
   Domain: lines of 7-bit ASCII characters (the property quantifies over printable replacements). *)
From Coq Require Import List ZArith Ascii Bool.
Import ListNotations.
Open Scope Z_scope.

Definition is_digit (c : ascii) : bool :=
  let n := N_of_ascii c in (48 <=? n)%N && (n <=? 57)%N.
Definition digit_val (c : ascii) : Z := Z.of_N (N_of_ascii c) - 48.
Definition is_minus (c : ascii) : bool := (N_of_ascii c =? 45)%N.

(* the loop body: `if char.isdigit(): check += int(char)` then `if char == "-": check += 1` *)
Definition step (check : Z) (c : ascii) : Z :=
  let check := if is_digit c then check + digit_val c else check in
  if is_minus c then check + 1 else check.

Definition cksum (body : list ascii) : Z := fold_left step body 0.

Inductive outcome := Accept | ChecksumError | ValueError | IndexError.

(* one line: `for char in line[:-1]` ... `if (check % 10) != int(line[-1]): raise ChecksumError` *)
Definition check_line (l : list ascii) : outcome :=
  match rev l with
  | [] => IndexError                               (* line[-1] on an empty string *)
  | last :: rbody =>
      if is_digit last then
        if (cksum (rev rbody)) mod 10 =? digit_val last then Accept else ChecksumError
      else ValueError                              (* int(line[-1]) on a non-digit *)
  end.

(* `for line in [self._line1, self._line2]`: first failing line decides *)
Definition check_tle (l1 l2 : list ascii) : outcome :=
  match check_line l1 with
  | Accept => check_line l2
  | o => o
  end.

(* _read_tle: `self._line1.strip()` (also _merge_tle_from_two_lines for files/streams) *)
Definition is_space (c : ascii) : bool :=
  let n := N_of_ascii c in ((9 <=? n) && (n <=? 13) || (28 <=? n) && (n <=? 32))%N.
Fixpoint lstrip (l : list ascii) : list ascii :=
  match l with c :: t => if is_space c then lstrip t else l | [] => [] end.
Definition strip (l : list ascii) : list ascii := rev (lstrip (rev (lstrip l))).
Definition tle_outcome (l1 l2 : list ascii) : outcome := check_tle (strip l1) (strip l2).

(* Tle.__init__ after _read_tle: parsing is reached only through an accepted checksum *)
Definition ctor {A} (parse : list ascii -> list ascii -> A) (l1 l2 : list ascii) : outcome * option A :=
  match check_tle l1 l2 with
  | Accept => (Accept, Some (parse l1 l2))
  | o => (o, None)
  end.

(* replacement of the character at position i *)
Fixpoint subst (l : list ascii) (i : nat) (c : ascii) : list ascii :=
  match l, i with
  | [], _ => []
  | _ :: t, O => c :: t
  | h :: t, S j => h :: subst t j c
  end.

(* --- used by the correspondence run: sweep every position x every printable replacement and
   return the (position, char code) pairs the model accepts --- *)
Definition printable : list ascii := map (fun n => ascii_of_nat (32 + n)) (seq 0 95).
Definition sweep_line (l : list ascii) : list (nat * N) :=
  flat_map (fun i => flat_map (fun c =>
     match check_line (subst l i c) with Accept => [(i, N_of_ascii c)] | _ => [] end) printable)
   (seq 0 (length l)).
(* per position: outcomes of the 95 printable replacements packed base 4, given the other line *)
Definition sweep_codes (first : bool) (l other : list ascii) : list N :=
  map (fun i => fold_left (fun acc c =>
        let o := if first then tle_outcome (subst l i c) other else tle_outcome other (subst l i c) in
        (4 * acc + match o with Accept => 0 | ChecksumError => 1 | ValueError => 2 | IndexError => 3 end)%N)
        printable 0%N) (seq 0 (length l)).
Definition outcome_code (o : outcome) : N :=
  match o with Accept => 0 | ChecksumError => 1 | ValueError => 2 | IndexError => 3 end%N.
