(* outcome types of the generated SGP4 decision trees *)
Inductive sgp_mode := ZeroEcc | DeepNorm | NearSimp | NearNorm.
Inductive init_outcome :=
  | InitOrbitalError                       (* OrbitalError raised by the constructor *)
  | InitNotImplemented                     (* NotImplementedError raised by the constructor *)
  | InitMode (m : sgp_mode) (variant : nat). (* object built; near-earth-normal leaf index *)
Inductive prop_outcome :=
  | PropCrash                              (* Exception("Satellite crashed ...") / e**2 >= 1 *)
  | PropEccLow                             (* ValueError: modified eccentricity too low *)
  | PropOk (newton_exit : nat).            (* result returned; which Newton exit was taken *)
