(* PyReal.v — real-number meaning of the numpy/Python numeric operators the
   translator emits.  Hand-written library; no axioms beyond the stdlib reals. *)
From Coq Require Import Reals Lra Lia ZArith.
From Flocq Require Import Core.
Open Scope R_scope.

Definition deg2rad (x : R) : R := x * (PI / 180).
Definition rad2deg (x : R) : R := x * (180 / PI).

(* Python / numpy float  x % m  (result has the sign of m) *)
Definition pymod (x m : R) : R := x - IZR (Zfloor (x / m)) * m.
(* C fmod / np.fmod (result has the sign of x) *)
Definition fmodR (x m : R) : R := x - IZR (Ztrunc (x / m)) * m.

Definition Rsign (x : R) : R :=
  if Rlt_dec 0 x then 1 else if Rlt_dec x 0 then -1 else 0.

(* np.where(a < b, x, y) and friends; also traced scalar branches *)
Definition ite_lt (a b x y : R) : R := if Rlt_dec a b then x else y.
Definition ite_le (a b x y : R) : R := if Rle_dec a b then x else y.

(* x ** (p/q) for positive x, as numpy computes it (pow) *)
Definition Rpowq (x y : R) : R := Rpower x y.

(* atan2 with the C / numpy convention, result in (-PI, PI] *)
Definition atan2 (y x : R) : R :=
  if Rlt_dec 0 x then atan (y / x)
  else if Rlt_dec x 0 then
         (if Rle_dec 0 y then atan (y / x) + PI else atan (y / x) - PI)
  else (if Rlt_dec 0 y then PI / 2 else if Rlt_dec y 0 then - PI / 2 else 0).

Lemma pymod_range x m : 0 < m -> 0 <= pymod x m < m.
Proof.
  intros Hm. unfold pymod.
  pose proof (Zfloor_lb (x / m)) as Hl.
  pose proof (Zfloor_ub (x / m)) as Hu.
  assert (E : x = (x / m) * m) by (field; lra).
  split.
  - apply Rmult_le_compat_r with (r := m) in Hl; [|lra]. lra.
  - apply Rmult_lt_compat_r with (r := m) in Hu; [|lra].
    lra.
Qed.

Lemma pymod_congr x m : exists k : Z, pymod x m = x + IZR k * m.
Proof.
  exists (- Zfloor (x / m))%Z. unfold pymod. rewrite opp_IZR. ring.
Qed.

Lemma pymod_id x m : 0 <= x < m -> pymod x m = x.
Proof.
  intros [H0 H1]. unfold pymod.
  assert (Hm : 0 < m) by lra.
  replace (Zfloor (x / m)) with 0%Z; [simpl; ring|].
  symmetry. apply Zfloor_imp. rewrite plus_IZR. simpl.
  split.
  - apply Rmult_le_reg_r with m; [lra|]. unfold Rdiv. rewrite Rmult_assoc, Rinv_l by lra. lra.
  - apply Rmult_lt_reg_r with m; [lra|]. unfold Rdiv. rewrite Rmult_assoc, Rinv_l by lra. lra.
Qed.

Lemma sin_period_Z x (k : Z) : sin (x + 2 * IZR k * PI) = sin x.
Proof.
  destruct (Z_le_gt_dec 0 k) as [Hk|Hk].
  - rewrite <- (Z2Nat.id k Hk), <- INR_IZR_INZ. apply sin_period.
  - assert (Hk' : (0 <= - k)%Z) by lia.
    rewrite <- (sin_period (x + 2 * IZR k * PI) (Z.to_nat (- k))).
    rewrite INR_IZR_INZ, Z2Nat.id by exact Hk'. rewrite opp_IZR.
    f_equal. ring.
Qed.
Lemma cos_period_Z x (k : Z) : cos (x + 2 * IZR k * PI) = cos x.
Proof.
  destruct (Z_le_gt_dec 0 k) as [Hk|Hk].
  - rewrite <- (Z2Nat.id k Hk), <- INR_IZR_INZ. apply cos_period.
  - assert (Hk' : (0 <= - k)%Z) by lia.
    rewrite <- (cos_period (x + 2 * IZR k * PI) (Z.to_nat (- k))).
    rewrite INR_IZR_INZ, Z2Nat.id by exact Hk'. rewrite opp_IZR.
    f_equal. ring.
Qed.

Lemma sin_pymod_2PI x : sin (pymod x (2 * PI)) = sin x.
Proof.
  destruct (pymod_congr x (2 * PI)) as [k ->].
  replace (x + IZR k * (2 * PI)) with (x + 2 * IZR k * PI) by ring.
  apply sin_period_Z.
Qed.

Lemma cos_pymod_2PI x : cos (pymod x (2 * PI)) = cos x.
Proof.
  destruct (pymod_congr x (2 * PI)) as [k ->].
  replace (x + IZR k * (2 * PI)) with (x + 2 * IZR k * PI) by ring.
  apply cos_period_Z.
Qed.

Lemma ite_lt_true a b x y : a < b -> ite_lt a b x y = x.
Proof. intros H. unfold ite_lt. destruct (Rlt_dec a b); [reflexivity|contradiction]. Qed.
Lemma ite_lt_false a b x y : ~ a < b -> ite_lt a b x y = y.
Proof. intros H. unfold ite_lt. destruct (Rlt_dec a b); [contradiction|reflexivity]. Qed.
Lemma ite_le_true a b x y : a <= b -> ite_le a b x y = x.
Proof. intros H. unfold ite_le. destruct (Rle_dec a b); [reflexivity|contradiction]. Qed.
Lemma ite_le_false a b x y : ~ a <= b -> ite_le a b x y = y.
Proof. intros H. unfold ite_le. destruct (Rle_dec a b); [contradiction|reflexivity]. Qed.

Lemma deg2rad_rad2deg x : deg2rad (rad2deg x) = x.
Proof. unfold deg2rad, rad2deg. field. apply PI_neq0. Qed.
Lemma rad2deg_deg2rad x : rad2deg (deg2rad x) = x.
Proof. unfold deg2rad, rad2deg. field. apply PI_neq0. Qed.

(* Make equal-modulo-ring arguments of sqrt / sin / cos / atan / inverses syntactically equal: whenever the goal
   contains f a and f b with a = b provable by [ring], b is replaced by a.  (ring_simplify is not used for this: its
   normal form depends on the order in which the variables occur in the term, so it is not canonical across terms.)
   Two spellings of the same polynomial argument (a * b vs b * a, a - b vs a + - b, x * x vs x ^ 2) then become
   the same atom for a closing [ring] / [field]; proofs that end this way do not depend on the order in which the
   source writes its operands. *)
Ltac unify_arg_of f :=
  match goal with
  | |- context [f ?a] =>
      match goal with
      | |- context [f ?b] =>
          lazymatch a with
          | b => fail
          | _ => progress (replace b with a by ring)
          end
      end
  end.
Ltac norm_args :=
  repeat first [ unify_arg_of sqrt | unify_arg_of sin | unify_arg_of cos | unify_arg_of atan | unify_arg_of Rinv ].
Ltac eq_mod_ring := first [ reflexivity | ring | (unfold Rdiv; norm_args; first [reflexivity | ring]) ].

(* two traces of the same formula: equal by conversion when the source spells the branches alike, and modulo
   ring (after normalising the arguments of sqrt / sin / cos / inverses) when it does not *)
Ltac head_of t := lazymatch t with ?f _ => head_of f | _ => t end.
Ltac variant_eq :=
  first [ reflexivity
        | match goal with |- ?l = ?r => let f := head_of l in let g := head_of r in unfold f, g end;
          cbv zeta; eq_mod_ring ].

(* normalise x * x and x * x * x to powers (the code may write either) *)
Ltac sq_norm :=
  repeat match goal with
         | |- context [?a * ?a * ?a] => progress (replace (a * a * a) with (a ^ 3) by ring)
         | |- context [?a * ?a] => progress (replace (a * a) with (a ^ 2) by ring)
         end.

(* 1 + cos x written without cancellation (orbital.py, _calculate_xlcof): 2 cos^2 (x/2) *)
Lemma half_angle_1pcos (x : R) : 2 * (cos (1 / 2 * x)) ^ 2 = 1 + cos x.
Proof.
  replace (cos x) with (cos (2 * (1 / 2 * x))) by (f_equal; field).
  rewrite cos_2a_cos. ring.
Qed.

(* ... in whichever way the source spells it: the argument of the half-angle cosine is made canonical modulo ring, then
   the squared cosine itself (as a power or as a product) is replaced, wherever the factor 2 stands *)
Lemma cos_half_sq (x : R) : (cos (1 / 2 * x)) ^ 2 = (1 + cos x) / 2.
Proof. rewrite <- half_angle_1pcos. field. Qed.
Lemma cos_half_mul (x : R) : cos (1 / 2 * x) * cos (1 / 2 * x) = (1 + cos x) / 2.
Proof. rewrite <- cos_half_sq. ring. Qed.
Ltac half_angle x :=
  repeat match goal with
         | |- context [cos ?a] =>
             lazymatch a with
             | x => fail
             | 1 / 2 * x => fail
             | _ => let E := fresh "E" in assert (E : a = 1 / 2 * x) by (unfold Rdiv; ring); rewrite E; clear E
             end
         end;
  rewrite ?cos_half_sq, ?cos_half_mul.
Ltac half_angle_in H x := revert H; half_angle x; intros H.
