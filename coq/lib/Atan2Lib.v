(* Atan2Lib.v — facts about PyReal.atan2 (C / numpy convention). *)
From Coq Require Import Reals Lra Lia.
From PyOrb.lib Require Import PyReal.
Open Scope R_scope.

Lemma atan2_pos_x y x : 0 < x -> atan2 y x = atan (y / x).
Proof. intros H. unfold atan2. destruct (Rlt_dec 0 x); [reflexivity|contradiction]. Qed.

Lemma atan2_range_nonneg_x y x : 0 <= x -> - (PI / 2) <= atan2 y x <= PI / 2.
Proof.
  intros Hx. unfold atan2. pose proof PI_RGT_0 as HP.
  destruct (Rlt_dec 0 x) as [H|H].
  - pose proof (atan_bound (y / x)). lra.
  - destruct (Rlt_dec x 0) as [H'|H']; [lra|].
    destruct (Rlt_dec 0 y); [lra|]. destruct (Rlt_dec y 0); lra.
Qed.

Lemma atan2_range_pos_x y x : 0 < x -> - (PI / 2) < atan2 y x < PI / 2.
Proof. intros H. rewrite atan2_pos_x by exact H. pose proof (atan_bound (y / x)). lra. Qed.

Lemma atan2_bounds y x : - PI < atan2 y x <= PI.
Proof.
  unfold atan2. pose proof PI_RGT_0 as HP.
  destruct (Rlt_dec 0 x) as [H|H].
  - pose proof (atan_bound (y / x)). lra.
  - destruct (Rlt_dec x 0) as [H'|H'].
    + destruct (Rle_dec 0 y) as [Hy|Hy].
      * assert (y / x <= 0).
        { unfold Rdiv. replace 0 with (y * 0) by ring. apply Rmult_le_compat_l; [exact Hy|].
          left. apply Rinv_lt_0_compat. exact H'. }
        assert (atan (y / x) <= 0).
        { destruct (Rle_lt_or_eq_dec _ _ H0) as [L|E].
          - left. rewrite <- atan_0. apply atan_increasing. exact L.
          - rewrite E, atan_0. lra. }
        pose proof (atan_bound (y / x)). lra.
      * assert (Hy' : y < 0) by lra.
        assert (0 < y / x).
        { unfold Rdiv. replace (y * / x) with ((- y) * (- / x)) by ring.
          apply Rmult_lt_0_compat; [lra|]. pose proof (Rinv_lt_0_compat x H'). lra. }
        assert (0 < atan (y / x)) by (rewrite <- atan_0; apply atan_increasing; exact H0).
        pose proof (atan_bound (y / x)). lra.
    + destruct (Rlt_dec 0 y); [lra|]. destruct (Rlt_dec y 0); lra.
Qed.

Lemma tan_atan2_pos_x y x : 0 < x -> tan (atan2 y x) = y / x.
Proof. intros H. rewrite atan2_pos_x by exact H. apply atan_right_inv. Qed.

Lemma cos_atan2_pos_x y x : 0 < x -> 0 < cos (atan2 y x).
Proof.
  intros H. pose proof (atan2_range_pos_x y x H). apply cos_gt_0; lra.
Qed.

(* sine and cosine of atan2: the direction of (x, y) *)
Lemma sin_cos_atan2 y x : (x <> 0 \/ y <> 0) ->
  sin (atan2 y x) = y / sqrt (x * x + y * y) /\ cos (atan2 y x) = x / sqrt (x * x + y * y).
Proof.
  intros Hnz.
  assert (Hh : 0 < x * x + y * y).
  { destruct Hnz as [H|H]; nra. }
  set (h := sqrt (x * x + y * y)).
  assert (Hhp : 0 < h) by (apply sqrt_lt_R0; exact Hh).
  assert (Hhh : h * h = x * x + y * y) by (apply sqrt_sqrt; lra).
  clearbody h. unfold atan2.
  destruct (Rlt_dec 0 x) as [Hx|Hx].
  - (* x > 0 *)
    rewrite sin_atan, cos_atan.
    assert (E : sqrt (1 + (y / x)²) = h / x).
    { apply sqrt_lem_1.
      - apply Rplus_le_le_0_compat; [lra|apply Rle_0_sqr].
      - apply Rlt_le. apply Rdiv_lt_0_compat; assumption.
      - unfold Rsqr. replace (h / x * (h / x)) with ((h * h) / (x * x)) by (field; lra).
        rewrite Hhh. field. lra. }
    rewrite E. split; field; lra.
  - destruct (Rlt_dec x 0) as [Hx'|Hx'].
    + assert (E : sqrt (1 + (y / x)²) = h / (- x)).
      { apply sqrt_lem_1.
        - apply Rplus_le_le_0_compat; [lra|apply Rle_0_sqr].
        - apply Rlt_le. apply Rdiv_lt_0_compat; lra.
        - unfold Rsqr. replace (h / - x * (h / - x)) with ((h * h) / (x * x)) by (field; lra).
          rewrite Hhh. field. lra. }
      destruct (Rle_dec 0 y).
      * rewrite sin_plus, cos_plus, sin_PI, cos_PI, sin_atan, cos_atan, E. split; field; lra.
      * rewrite sin_minus, cos_minus, sin_PI, cos_PI, sin_atan, cos_atan, E. split; field; lra.
    + assert (x = 0) by lra. subst x.
      assert (Hy : y <> 0) by (destruct Hnz; [lra|assumption]).
      assert (Hh2 : h * h = y * y) by (rewrite Hhh; ring).
      destruct (Rlt_dec 0 y) as [Hy1|Hy1].
      * assert (Ehy : h = y) by nra. rewrite Ehy, sin_PI2, cos_PI2. split; field; lra.
      * destruct (Rlt_dec y 0) as [Hy2|Hy2]; [|lra].
        assert (Ehy : h = - y) by nra. rewrite Ehy.
        replace (- PI / 2) with (- (PI / 2)) by field.
        rewrite sin_neg, cos_neg, sin_PI2, cos_PI2. split; field; lra.
Qed.
