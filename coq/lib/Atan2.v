(* Atan2.v — facts about the two-argument arctangent of PyReal.v (C / numpy convention,
   result in (-PI, PI]).  Hand-written library; no axioms beyond the stdlib reals. *)
From Coq Require Import Reals Lra.
From PyOrb.lib Require Import PyReal.
Open Scope R_scope.

(* ---------- the branches ---------- *)
Lemma atan2_pos y x : 0 < x -> atan2 y x = atan (y / x).
Proof. intros H. unfold atan2. destruct (Rlt_dec 0 x); [reflexivity|contradiction]. Qed.

Lemma atan2_neg_nonneg y x : x < 0 -> 0 <= y -> atan2 y x = atan (y / x) + PI.
Proof.
  intros Hx Hy. unfold atan2.
  destruct (Rlt_dec 0 x); [lra|]. destruct (Rlt_dec x 0); [|lra].
  destruct (Rle_dec 0 y); [reflexivity|lra].
Qed.

Lemma atan2_neg_neg y x : x < 0 -> y < 0 -> atan2 y x = atan (y / x) - PI.
Proof.
  intros Hx Hy. unfold atan2.
  destruct (Rlt_dec 0 x); [lra|]. destruct (Rlt_dec x 0); [|lra].
  destruct (Rle_dec 0 y); [lra|reflexivity].
Qed.

Lemma atan2_0_pos y : 0 < y -> atan2 y 0 = PI / 2.
Proof.
  intros Hy. unfold atan2.
  destruct (Rlt_dec 0 0); [lra|]. destruct (Rlt_dec 0 y); [reflexivity|lra].
Qed.

Lemma atan2_0_neg y : y < 0 -> atan2 y 0 = - PI / 2.
Proof.
  intros Hy. unfold atan2.
  destruct (Rlt_dec 0 0); [lra|]. destruct (Rlt_dec 0 y); [lra|].
  destruct (Rlt_dec y 0); [reflexivity|lra].
Qed.

Lemma atan2_0_0 : atan2 0 0 = 0.
Proof.
  unfold atan2. destruct (Rlt_dec 0 0); [lra|reflexivity].
Qed.

(* ---------- range ---------- *)
Lemma atan2_range y x : - PI < atan2 y x <= PI.
Proof.
  assert (HPI := PI_RGT_0).
  destruct (Rlt_dec 0 x) as [Hx|Hx].
  - rewrite atan2_pos by exact Hx. destruct (atan_bound (y / x)). lra.
  - destruct (Rlt_dec x 0) as [Hx'|Hx'].
    + destruct (Rle_dec 0 y) as [Hy|Hy].
      * rewrite atan2_neg_nonneg by lra.
        destruct (atan_bound (y / x)) as [B1 B2].
        assert (H0 : atan (y / x) <= 0).
        { rewrite <- atan_0.
          destruct (Req_dec y 0) as [->|Hy0].
          - unfold Rdiv. rewrite Rmult_0_l. lra.
          - left. apply atan_increasing. unfold Rdiv.
            assert (0 < y * - / x); [|lra].
            apply Rmult_lt_0_compat; [lra|].
            assert (/ x < 0) by (apply Rinv_lt_0_compat; exact Hx'). lra. }
        lra.
      * rewrite atan2_neg_neg by lra.
        destruct (atan_bound (y / x)) as [B1 B2].
        assert (H0 : 0 < atan (y / x)).
        { rewrite <- atan_0. apply atan_increasing. unfold Rdiv.
          assert (/ x < 0) by (apply Rinv_lt_0_compat; exact Hx').
          replace (y * / x) with ((- y) * (- / x)) by ring.
          apply Rmult_lt_0_compat; lra. }
        lra.
    + assert (x = 0) by lra. subst x.
      destruct (Rlt_dec 0 y) as [Hy|Hy].
      * rewrite atan2_0_pos by exact Hy. lra.
      * destruct (Rlt_dec y 0) as [Hy'|Hy'].
        -- rewrite atan2_0_neg by exact Hy'. lra.
        -- assert (y = 0) by lra. subst y. rewrite atan2_0_0. lra.
Qed.

(* ---------- polar form: atan2 recovers the angle ---------- *)
Lemma atan2_polar r a : 0 < r -> - PI < a <= PI -> atan2 (r * sin a) (r * cos a) = a.
Proof.
  intros Hr [Ha1 Ha2].
  assert (HPI := PI_RGT_0).
  destruct (Rlt_dec 0 (cos a)) as [Hc|Hc].
  - assert (Hr1 : - (PI / 2) < a < PI / 2).
    { split; apply Rnot_le_lt; intro H.
      - assert (cos a <= 0); [|lra]. rewrite <- cos_neg. apply cos_le_0; lra.
      - assert (cos a <= 0); [|lra]. apply cos_le_0; lra. }
    rewrite atan2_pos by (apply Rmult_lt_0_compat; lra).
    replace (r * sin a / (r * cos a)) with (tan a) by (unfold tan; field; lra).
    apply atan_tan; lra.
  - destruct (Rlt_dec (cos a) 0) as [Hc'|Hc'].
    + destruct (Rle_dec 0 (sin a)) as [Hs|Hs].
      * (* a in (PI/2, PI] *)
        assert (Hr1 : PI / 2 < a).
        { apply Rnot_le_lt; intro H.
          destruct (Rle_dec (- (PI / 2)) a) as [H1|H1].
          - assert (0 <= cos a); [|lra]. apply cos_ge_0; lra.
          - assert (sin a < 0); [|lra]. apply sin_lt_0_var; lra. }
        rewrite atan2_neg_nonneg.
        2:{ assert (0 < r * - cos a) by (apply Rmult_lt_0_compat; lra). lra. }
        2:{ apply Rmult_le_pos; lra. }
        replace (r * sin a / (r * cos a)) with (tan (a - PI)).
        2:{ unfold tan. rewrite sin_minus, cos_minus, sin_PI, cos_PI. field. lra. }
        rewrite atan_tan by lra. ring.
      * (* a in (-PI, -PI/2) *)
        assert (Hr1 : a < - (PI / 2)).
        { apply Rnot_le_lt; intro H.
          destruct (Rle_dec a (PI / 2)) as [H1|H1].
          - assert (0 <= cos a); [|lra]. apply cos_ge_0; lra.
          - assert (0 <= sin a); [|lra]. apply sin_ge_0; lra. }
        rewrite atan2_neg_neg.
        2:{ assert (0 < r * - cos a) by (apply Rmult_lt_0_compat; lra). lra. }
        2:{ assert (0 < r * - sin a) by (apply Rmult_lt_0_compat; lra). lra. }
        replace (r * sin a / (r * cos a)) with (tan (a + PI)).
        2:{ unfold tan. rewrite sin_plus, cos_plus, sin_PI, cos_PI. field. lra. }
        rewrite atan_tan by lra. ring.
    + assert (Hc0 : cos a = 0) by lra. rewrite Hc0, Rmult_0_r.
      destruct (Rle_dec 0 a) as [H0|H0].
      * assert (E : a = PI / 2).
        { destruct (cos_eq_0_2PI_0 a) as [E|E]; [lra|lra|exact Hc0|exact E|lra]. }
        rewrite E, sin_PI2, Rmult_1_r. apply atan2_0_pos. exact Hr.
      * assert (E : - a = PI / 2).
        { destruct (cos_eq_0_2PI_0 (- a)) as [E|E]; [lra|lra|rewrite cos_neg; exact Hc0|exact E|lra]. }
        replace a with (- (PI / 2)) by lra.
        rewrite sin_neg, sin_PI2. rewrite atan2_0_neg by lra. lra.
Qed.

(* ---------- positive scaling ---------- *)
Lemma atan2_scale k y x : 0 < k -> atan2 (k * y) (k * x) = atan2 y x.
Proof.
  intros Hk.
  destruct (Rlt_dec 0 x) as [Hx|Hx].
  - rewrite !atan2_pos; [|exact Hx|apply Rmult_lt_0_compat; lra].
    f_equal. field. lra.
  - destruct (Rlt_dec x 0) as [Hx'|Hx'].
    + assert (Hkx : k * x < 0).
      { assert (0 < k * - x) by (apply Rmult_lt_0_compat; lra). lra. }
      destruct (Rle_dec 0 y) as [Hy|Hy].
      * rewrite !atan2_neg_nonneg; [|exact Hx'|exact Hy|exact Hkx|apply Rmult_le_pos; lra].
        f_equal. f_equal. field. lra.
      * assert (Hky : k * y < 0).
        { assert (0 < k * - y) by (apply Rmult_lt_0_compat; lra). lra. }
        rewrite !atan2_neg_neg; [|exact Hx'|lra|exact Hkx|exact Hky].
        f_equal. f_equal. field. lra.
    + assert (x = 0) by lra. subst x. rewrite Rmult_0_r.
      destruct (Rlt_dec 0 y) as [Hy|Hy].
      * rewrite !atan2_0_pos; [reflexivity|exact Hy|apply Rmult_lt_0_compat; lra].
      * destruct (Rlt_dec y 0) as [Hy'|Hy'].
        -- assert (Hky : k * y < 0).
           { assert (0 < k * - y) by (apply Rmult_lt_0_compat; lra). lra. }
           rewrite !atan2_0_neg; [reflexivity|exact Hy'|exact Hky].
        -- assert (y = 0) by lra. subst y. rewrite Rmult_0_r. reflexivity.
Qed.

(* ---------- atan2 (z, sqrt (1 - z^2)) is the arcsine, on the closed interval ---------- *)
Lemma atan2_asin z : -1 <= z <= 1 -> atan2 z (sqrt (1 - z * z)) = asin z.
Proof.
  intros [H1 H2].
  destruct (Req_dec z (-1)) as [->|Hm].
  - replace (1 - -1 * -1) with 0 by ring. rewrite sqrt_0.
    rewrite atan2_0_neg by lra.
    unfold asin. destruct (Rle_dec (-1) (-1)); lra.
  - destruct (Req_dec z 1) as [->|Hp].
    + replace (1 - 1 * 1) with 0 by ring. rewrite sqrt_0.
      rewrite atan2_0_pos by lra. symmetry. apply asin_1.
    + assert (Hz : 0 < 1 - z * z) by nra.
      rewrite atan2_pos by (apply sqrt_lt_R0; exact Hz).
      rewrite asin_atan by lra. unfold Rsqr. reflexivity.
Qed.

(* ---------- half-angle form: 2 atan2 (y, x + r) with r = |(x,y)| ---------- *)
Section HalfAngle.
  Variables x y r : R.
  Hypothesis Hr : r * r = x * x + y * y.
  Hypothesis Hr0 : 0 <= r.
  Hypothesis Hs : x + r <> 0.

  Lemma half_s_pos : 0 < x + r.
  Proof.
    assert (- r <= x) by nra. lra.
  Qed.

  Lemma half_r_pos : 0 < r.
  Proof.
    destruct (Req_dec r 0) as [E|E]; [|lra].
    exfalso. rewrite E in Hr. assert (x = 0) by nra. apply Hs. lra.
  Qed.

  Let t := y / (x + r).

  Lemma half_1pt2 : 1 + t * t = 2 * r / (x + r).
  Proof.
    assert (Hs' := half_s_pos). unfold t.
    assert (E : y * y = r * r - x * x) by lra.
    replace (1 + y / (x + r) * (y / (x + r))) with (((x + r) * (x + r) + y * y) / ((x + r) * (x + r)))
      by (field; lra).
    rewrite E. field. lra.
  Qed.

  Lemma half_cos : cos (2 * atan2 y (x + r)) = x / r.
  Proof.
    assert (Hs' := half_s_pos). assert (Hr' := half_r_pos).
    rewrite atan2_pos by exact Hs'. fold t.
    rewrite cos_2a_cos, cos_atan. unfold Rsqr.
    assert (H1 : 0 < 1 + t * t) by nra.
    replace (2 * (1 / sqrt (1 + t * t)) * (1 / sqrt (1 + t * t)) - 1)
      with (2 / (sqrt (1 + t * t) * sqrt (1 + t * t)) - 1)
      by (field; apply Rgt_not_eq, sqrt_lt_R0; exact H1).
    rewrite sqrt_sqrt by lra. rewrite half_1pt2. field. lra.
  Qed.

  Lemma half_sin : sin (2 * atan2 y (x + r)) = y / r.
  Proof.
    assert (Hs' := half_s_pos). assert (Hr' := half_r_pos).
    rewrite atan2_pos by exact Hs'. fold t.
    rewrite sin_2a, sin_atan, cos_atan. unfold Rsqr.
    assert (H1 : 0 < 1 + t * t) by nra.
    replace (2 * (t / sqrt (1 + t * t)) * (1 / sqrt (1 + t * t)))
      with (2 * t / (sqrt (1 + t * t) * sqrt (1 + t * t)))
      by (field; apply Rgt_not_eq, sqrt_lt_R0; exact H1).
    rewrite sqrt_sqrt by lra. rewrite half_1pt2. unfold t. field. lra.
  Qed.

  Lemma half_range : - PI < 2 * atan2 y (x + r) < PI.
  Proof.
    rewrite atan2_pos by exact half_s_pos.
    destruct (atan_bound (y / (x + r))). lra.
  Qed.

  (* the half-angle form IS atan2 (y, x) away from the negative x axis *)
  Lemma half_angle_atan2 : 2 * atan2 y (x + r) = atan2 y x.
  Proof.
    assert (Hr' := half_r_pos). destruct half_range as [R1 R2].
    set (a := 2 * atan2 y (x + r)) in *.
    transitivity (atan2 (r * sin a) (r * cos a)).
    - symmetry. apply atan2_polar; lra.
    - f_equal; unfold a; [rewrite half_sin|rewrite half_cos]; field; lra.
  Qed.
End HalfAngle.

(* on the negative x axis (and at the origin) the half-angle form degenerates to 0,
   whereas atan2 (0, x) = PI for x < 0 *)
Lemma half_angle_singular x : x <= 0 -> 2 * atan2 0 (x + sqrt (x * x + 0 * 0)) = 0.
Proof.
  intros Hx.
  replace (x * x + 0 * 0) with (Rsqr (- x)) by (unfold Rsqr; ring).
  rewrite sqrt_Rsqr by lra.
  replace (x + - x) with 0 by ring. rewrite atan2_0_0. ring.
Qed.

Lemma atan2_negative_axis x : x < 0 -> atan2 0 x = PI.
Proof.
  intros Hx. rewrite atan2_neg_nonneg by lra.
  unfold Rdiv. rewrite Rmult_0_l, atan_0. ring.
Qed.

(* sine and cosine of atan2 *)
Lemma cos_sin_atan2 y x : 0 < x * x + y * y ->
  cos (atan2 y x) = x / sqrt (x * x + y * y) /\ sin (atan2 y x) = y / sqrt (x * x + y * y).
Proof.
  intros H.
  set (r := sqrt (x * x + y * y)).
  assert (Hr : r * r = x * x + y * y) by (unfold r; apply sqrt_sqrt; lra).
  assert (Hr0 : 0 < r) by (unfold r; apply sqrt_lt_R0; exact H).
  destruct (Req_dec (x + r) 0) as [E|E].
  - (* y = 0, x < 0 *)
    assert (Ex : x = - r) by lra.
    assert (Ey : y = 0) by (rewrite Ex in Hr; nra).
    rewrite Ey, atan2_negative_axis by lra.
    rewrite cos_PI, sin_PI. split; [rewrite Ex; field; lra|field; lra].
  - rewrite <- (half_angle_atan2 x y r Hr (Rlt_le _ _ Hr0) E).
    split; [apply half_cos|apply half_sin]; auto; lra.
Qed.
