(* Spec_Geodesy.v — WGS-84 geodetic -> cartesian, from the standard (NIMA TR8350.2), and the
   rotation to ECI by a sidereal angle.  Hand-written; never derived from the code. *)
From Coq Require Import Reals.
Open Scope R_scope.

Definition wgs84_A : R := 6378137 / 1000.                       (* 6378.137 km *)
Definition wgs84_F : R := 1 / (298257223563 / 1000000000).      (* 1 / 298.257223563 *)
Definition wgs84_e2 : R := wgs84_F * (2 - wgs84_F).             (* first eccentricity squared *)
Definition earth_rate : R := 7292115 / 100000000000.            (* 7.292115e-5 rad/s *)
Definition XKMPER : R := 1275627 / 200.                         (* 6378.135 km, WGS-72 (SGP4) *)

(* normalised prime-vertical radius N/a *)
Definition Nc (phi : R) : R := 1 / sqrt (1 - wgs84_e2 * (sin phi)^2).
(* distance from the polar axis and height above the equatorial plane of the point with
   geodetic latitude phi and height h over the ellipsoid of semi-major axis a *)
Definition geodetic_rho (a phi h : R) : R := (a * Nc phi + h) * cos phi.
Definition geodetic_z (a phi h : R) : R := (a * Nc phi * (1 - wgs84_e2) + h) * sin phi.
(* ECI coordinates: longitude lam east of Greenwich, Greenwich sidereal angle thg *)
Definition eci_x (a lam phi h thg : R) : R := geodetic_rho a phi h * cos (thg + lam).
Definition eci_y (a lam phi h thg : R) : R := geodetic_rho a phi h * sin (thg + lam).
Definition eci_z (a lam phi h thg : R) : R := geodetic_z a phi h.
