(* Spec_Time.v — hand-written reference, from the literature, never from the code:
   - IAU-1982 GMST polynomial (Aoki et al. 1982; as in Vallado / AIAA-2006-6753)
   - Fliegel & Van Flandern (1968) integer Julian Day Number
   - proleptic-Gregorian days since 1970-01-01 (the meaning of a datetime64[D] tick). *)
From Coq Require Import Reals ZArith.
Open Scope R_scope.

(* GMST in seconds of time, T = Julian centuries of UT1 since J2000.0 *)
Definition gmst82_sec (T : R) : R :=
  (* 67310.54841 + (876600*3600 + 8640184.812866) T + 0.093104 T^2 - 6.2e-6 T^3
     (rationals, because field/ring do not read decimal notation) *)
  6731054841 / 100000 + (876600 * 3600 + 8640184812866 / 1000000) * T
  + 93104 / 1000000 * T^2 - 62 / 10000000 * T^3.
(* in radians (240 s of time per degree), not reduced *)
Definition gmst82_rad (d : R) : R := gmst82_sec (d / 36525) / 240 * (PI / 180).
(* sidereal rate, revolutions per UT1 day *)
Definition sidereal_rate : R := 100273790935 / 100000000000. (* 1.00273790935 *)

Open Scope Z_scope.
(* Fliegel-Van Flandern: Julian Day Number of the civil (Gregorian) date, valid for JDN >= 0;
   divisions truncate toward zero *)
Definition jdn (y m d : Z) : Z :=
  let a := Z.quot (m - 14) 12 in
  Z.quot (1461 * (y + 4800 + a)) 4
  + Z.quot (367 * (m - 2 - 12 * a)) 12
  - Z.quot (3 * Z.quot (y + 4900 + a) 100) 4
  + d - 32075.

(* days since 1970-01-01 of a proleptic Gregorian date (floor divisions) *)
Definition days_from_civil (y m d : Z) : Z :=
  let y' := if m <=? 2 then y - 1 else y in
  let era := y' / 400 in
  let yoe := y' - era * 400 in
  let mp := if m >? 2 then m - 3 else m + 9 in
  let doy := (153 * mp + 2) / 5 + d - 1 in
  let doe := yoe * 365 + yoe / 4 - yoe / 100 + doy in
  era * 146097 + doe - 719468.

(* microseconds since 1970-01-01T00:00 of a civil instant *)
Definition civil_us (y m d hh mi ss us : Z) : Z :=
  ((days_from_civil y m d * 24 + hh) * 60 + mi) * 60 * 1000000 + ss * 1000000 + us.

(* the tick of 2000-01-01T12:00 *)
Definition j2000_us : Z := civil_us 2000 1 1 12 0 0 0.
Close Scope Z_scope.

(* Julian date of a civil instant, from the independent integer algorithm *)
Definition jd_civil (y m d hh mi ss us : Z) : R :=
  IZR (jdn y m d) - 1/2 + (IZR hh * 3600 + IZR mi * 60 + IZR ss + IZR us / 1000000) / 86400.
(* days since J2000 as pyorbital computes them from datetime64 ticks: tick difference / one day *)
Definition d_of_us (t : Z) : R := IZR (t - j2000_us) / 86400000000.
