(* Spec_Topo.v — topocentric east / north / up components of a vector (rx, ry, rz) given in
   the ECI frame, for an observer of geodetic latitude phi whose meridian is at sidereal angle
   theta (= Greenwich sidereal angle + east longitude).  Hand-written from the definition of the
   local geodetic horizon frame. *)
From Coq Require Import Reals.
Open Scope R_scope.

Definition topo_E (phi theta rx ry rz : R) : R := - sin theta * rx + cos theta * ry.
Definition topo_N (phi theta rx ry rz : R) : R :=
  - sin phi * cos theta * rx - sin phi * sin theta * ry + cos phi * rz.
Definition topo_U (phi theta rx ry rz : R) : R :=
  cos phi * cos theta * rx + cos phi * sin theta * ry + sin phi * rz.
Definition norm3 (rx ry rz : R) : R := sqrt (rx * rx + ry * ry + rz * rz).

(* a is the azimuth (clockwise from north) of a vector with horizontal components (E, N).
   The range is the property's closed [0, 360] deg: due north may be reported as 0 or as 360. *)
Definition is_azimuth (a E N : R) : Prop :=
  0 <= a <= 2 * PI /\ sin a = E / sqrt (N * N + E * E) /\ cos a = N / sqrt (N * N + E * E).
