(* Spec_TLE.v — the NORAD two-line element set format, written from the format definition
   (Space-Track "Basic Description of the Two Line Element (TLE) Format"; Hoots & Roehrich,
   Spacetrack Report #3, appendix; Vallado, "Fundamentals of Astrodynamics", TLE table),
   never from the code.  It is a PRINTER: a record of field contents (digits, signs, pad
   widths) is laid out in the standard 1-based column ranges

     line 1:  1 '1' | 3-7 satellite number | 8 classification | 10-11 launch year |
              12-14 launch number | 15-17 piece | 19-20 epoch year | 21-32 epoch day DDD.DDDDDDDD |
              34-43 first derivative of mean motion s.DDDDDDDD | 45-52 second derivative sDDDDDsD
              (implied leading decimal point, signed one-digit power of ten) | 54-61 B* (same) |
              63 ephemeris type | 65-68 element number | 69 checksum
     line 2:  1 '2' | 3-7 satellite number | 9-16 inclination DDD.DDDD | 18-25 RAAN DDD.DDDD |
              27-33 eccentricity DDDDDDD (implied leading decimal point) | 35-42 argument of
              perigee | 44-51 mean anomaly | 53-63 mean motion DD.DDDDDDDD | 64-68 revolution
              number | 69 checksum

   and `values` says what number each printed field denotes: exactly, as
   (-1)^neg * mant * 10^e10.  All other columns are blanks. *)
From Coq Require Import List ZArith Ascii Bool.
From Coq Require String QArith.
From PyOrb.spec Require Import Spec_Time.
Import ListNotations.
Open Scope Z_scope.

(* ---------- decimal digits and their printed characters ---------- *)
Inductive digit := D0 | D1 | D2 | D3 | D4 | D5 | D6 | D7 | D8 | D9.
Definition dchar (d : digit) : ascii :=
  match d with
  | D0 => "0" | D1 => "1" | D2 => "2" | D3 => "3" | D4 => "4"
  | D5 => "5" | D6 => "6" | D7 => "7" | D8 => "8" | D9 => "9"
  end%char.
Definition dval (d : digit) : Z :=
  match d with
  | D0 => 0 | D1 => 1 | D2 => 2 | D3 => 3 | D4 => 4 | D5 => 5 | D6 => 6 | D7 => 7 | D8 => 8 | D9 => 9
  end.
(* the integer written by a digit string, most significant digit first *)
Definition zdigits (ds : list digit) : Z := fold_left (fun a d => 10 * a + dval d) ds 0.
(* writing digit strings in examples and in the correspondence run *)
Definition digit_of_char (c : ascii) : digit :=
  match c with
  | "1" => D1 | "2" => D2 | "3" => D3 | "4" => D4 | "5" => D5
  | "6" => D6 | "7" => D7 | "8" => D8 | "9" => D9 | _ => D0
  end%char.
Definition ds (s : String.string) : list digit := map digit_of_char (String.list_ascii_of_string s).
Definition dtext (ds : list digit) : list ascii := map dchar ds.
Definition blanks (n : nat) : list ascii := repeat " "%char n.

Inductive sign := Sblank | Splus | Sminus.
Definition sign_char (s : sign) : ascii :=
  match s with Sblank => " " | Splus => "+" | Sminus => "-" end%char.
Definition sign_neg (s : sign) : bool := match s with Sminus => true | _ => false end.

(* an exact decimal value: (-1)^neg * mant * 10^e10 (neg is kept apart: "-00000-0" is a
   negative zero in binary64) *)
Record dec := mkdec { neg : bool; mant : Z; e10 : Z }.

(* its meaning as a rational number *)
Definition dec_Q (d : dec) : QArith_base.Q :=
  let m := if neg d then - mant d else mant d in
  if 0 <=? e10 d then QArith_base.inject_Z (m * 10 ^ e10 d)
  else QArith_base.Qmake m (Z.to_pos (10 ^ (- e10 d))).

(* ---------- the four kinds of numeric field ---------- *)
(* right-justified unsigned integer, padded on the left with blanks (digits may be zeros) *)
Record padint := mkpad { pi_pad : nat; pi_digs : list digit }.
Definition padint_text (p : padint) : list ascii := blanks (pi_pad p) ++ dtext (pi_digs p).
Definition padint_val (p : padint) : Z := zdigits (pi_digs p).
Definition padint_wf (w : nat) (p : padint) : bool :=
  ((pi_pad p + length (pi_digs p) =? w) && (1 <=? length (pi_digs p)))%nat.

(* fixed-point number with an explicit point: blanks, integer digits, '.', fraction digits *)
Record fixed := mkfix { fx_pad : nat; fx_int : list digit; fx_frac : list digit }.
Definition fixed_text (x : fixed) : list ascii :=
  blanks (fx_pad x) ++ dtext (fx_int x) ++ "."%char :: dtext (fx_frac x).
Definition fixed_digits (x : fixed) : Z := zdigits (fx_int x ++ fx_frac x).
Definition fixed_val (x : fixed) : dec :=
  mkdec false (fixed_digits x) (- Z.of_nat (length (fx_frac x))).
Definition fixed_wf (wi wf : nat) (x : fixed) : bool :=
  ((fx_pad x + length (fx_int x) =? wi) && (length (fx_frac x) =? wf))%nat.

(* signed pure fraction s.DDDDDDDD (first derivative of the mean motion) *)
Record sfrac := mksf { sf_sign : sign; sf_frac : list digit }.
Definition sfrac_text (x : sfrac) : list ascii := sign_char (sf_sign x) :: "."%char :: dtext (sf_frac x).
Definition sfrac_val (x : sfrac) : dec :=
  mkdec (sign_neg (sf_sign x)) (zdigits (sf_frac x)) (- Z.of_nat (length (sf_frac x))).
Definition sfrac_wf (w : nat) (x : sfrac) : bool := (length (sf_frac x) =? w)%nat.

(* sDDDDDsD: sign, five mantissa digits with an implied leading decimal point, signed exponent digit *)
Record expo := mkexp { ex_sign : sign; ex_mant : list digit; ex_eneg : bool; ex_edig : digit }.
Definition expo_text (x : expo) : list ascii :=
  sign_char (ex_sign x) :: dtext (ex_mant x) ++ [if ex_eneg x then "-"%char else "+"%char; dchar (ex_edig x)].
Definition expo_val (x : expo) : dec :=
  mkdec (sign_neg (ex_sign x)) (zdigits (ex_mant x))
        ((if ex_eneg x then - dval (ex_edig x) else dval (ex_edig x)) - 5).
Definition expo_wf (x : expo) : bool := (length (ex_mant x) =? 5)%nat.

(* ---------- the content of one element set ---------- *)
Record fields := mkfields {
  f_satnum : list ascii;      (* 5 characters *)
  f_class  : ascii;
  f_lyear  : list ascii;      (* 2 *)
  f_lnum   : list ascii;      (* 3 *)
  f_piece  : list ascii;      (* 3 *)
  f_eyear  : list digit;      (* 2 digits *)
  f_eday   : fixed;           (* 3 . 8 *)
  f_ndot   : sfrac;           (* s . 8 *)
  f_nddot  : expo;
  f_bstar  : expo;
  f_etype  : option digit;    (* blank or one digit *)
  f_elnum  : padint;          (* 4 *)
  f_inc    : fixed;           (* 3 . 4 *)
  f_raan   : fixed;           (* 3 . 4 *)
  f_ecc    : padint;          (* 7 *)
  f_argp   : fixed;           (* 3 . 4 *)
  f_ma     : fixed;           (* 3 . 4 *)
  f_mm     : fixed;           (* 2 . 8 *)
  f_rev    : padint           (* 5 *)
}.

(* printable 7-bit ASCII, the alphabet of the free-text columns *)
Definition printable (c : ascii) : bool :=
  let n := N_of_ascii c in ((32 <=? n) && (n <=? 126))%N.
Definition text_wf (w : nat) (s : list ascii) : bool := (length s =? w)%nat && forallb printable s.

Definition wf (f : fields) : bool :=
  text_wf 5 (f_satnum f) && printable (f_class f) && text_wf 2 (f_lyear f) && text_wf 3 (f_lnum f)
  && text_wf 3 (f_piece f) && (length (f_eyear f) =? 2)%nat && fixed_wf 3 8 (f_eday f)
  && sfrac_wf 8 (f_ndot f) && expo_wf (f_nddot f) && expo_wf (f_bstar f) && padint_wf 4 (f_elnum f)
  && fixed_wf 3 4 (f_inc f) && fixed_wf 3 4 (f_raan f) && padint_wf 7 (f_ecc f)
  && fixed_wf 3 4 (f_argp f) && fixed_wf 3 4 (f_ma f) && fixed_wf 2 8 (f_mm f) && padint_wf 5 (f_rev f).

(* ---------- the printer ---------- *)
Definition sp : list ascii := [" "%char].
Definition segs1 (f : fields) : list (list ascii) :=
  [ ["1"%char]; sp; f_satnum f; [f_class f]; sp; f_lyear f; f_lnum f; f_piece f; sp;
    dtext (f_eyear f); fixed_text (f_eday f); sp; sfrac_text (f_ndot f); sp;
    expo_text (f_nddot f); sp; expo_text (f_bstar f); sp;
    [match f_etype f with Some d => dchar d | None => " "%char end]; sp; padint_text (f_elnum f) ].
Definition segs2 (f : fields) : list (list ascii) :=
  [ ["2"%char]; sp; f_satnum f; sp; fixed_text (f_inc f); sp; fixed_text (f_raan f); sp;
    padint_text (f_ecc f); sp; fixed_text (f_argp f); sp; fixed_text (f_ma f); sp;
    fixed_text (f_mm f); padint_text (f_rev f) ].

(* column 69: sum of all digits of columns 1-68, each minus sign counting 1, modulo 10 *)
Definition ck_weight (c : ascii) : Z :=
  let n := N_of_ascii c in
  if ((48 <=? n) && (n <=? 57))%N then Z.of_N n - 48 else if (n =? 45)%N then 1 else 0.
Definition ck_sum (body : list ascii) : Z := fold_right (fun c a => ck_weight c + a) 0 body.
Definition ck_char (body : list ascii) : ascii := ascii_of_N (48 + Z.to_N (ck_sum body mod 10)).
Definition with_ck (body : list ascii) : list ascii := body ++ [ck_char body].

Definition line1 (f : fields) : list ascii := with_ck (concat (segs1 f)).
Definition line2 (f : fields) : list ascii := with_ck (concat (segs2 f)).
Definition encode (f : fields) : list ascii * list ascii := (line1 f, line2 f).

(* ---------- what the printed fields denote ---------- *)
Record elements := mkelements {
  satnumber : list ascii;
  classification : list ascii;
  id_launch_year : list ascii;
  id_launch_number : list ascii;
  id_launch_piece : list ascii;
  epoch_year : list ascii;
  epoch_day : dec;
  epoch : Z * Z;                      (* exact rational: (numerator, denominator) of microseconds since 1970-01-01T00:00 *)
  mean_motion_derivative : dec;
  mean_motion_sec_derivative : dec;
  bstar : dec;
  ephemeris_type : Z;
  element_number : Z;
  inclination : dec;
  right_ascension : dec;
  excentricity : dec;
  arg_perigee : dec;
  mean_anomaly : dec;
  mean_motion : dec;
  orbit : Z
}.

(* two-digit year: 00-68 are 20xx, 69-99 are 19xx (the POSIX %y convention the property cites
   for 00-56 and 69-99) *)
Definition pivot (yy : Z) : Z := if yy <=? 68 then 2000 + yy else 1900 + yy.
(* 1 January of the epoch year, 00:00, plus (day - 1) days, in microseconds since 1970:
   day = D / 10^8 with D the 11 printed digits, and one day is 864 * 10^8 us, so
   (day - 1) days = (D - 10^8) * 864 us exactly. *)
Definition spec_epoch_us (f : fields) : Z :=
  civil_us (pivot (zdigits (f_eyear f))) 1 1 0 0 0 0 + (fixed_digits (f_eday f) - 10 ^ 8) * 864.

Definition values (f : fields) : elements :=
  {| satnumber := f_satnum f;
     classification := [f_class f];
     id_launch_year := f_lyear f;
     id_launch_number := f_lnum f;
     id_launch_piece := f_piece f;
     epoch_year := dtext (f_eyear f);
     epoch_day := fixed_val (f_eday f);
     epoch := (10 ^ 8 * spec_epoch_us f, 10 ^ 8);
     mean_motion_derivative := sfrac_val (f_ndot f);
     mean_motion_sec_derivative := expo_val (f_nddot f);
     bstar := expo_val (f_bstar f);
     ephemeris_type := match f_etype f with Some d => dval d | None => 0 end;
     element_number := padint_val (f_elnum f);
     inclination := fixed_val (f_inc f);
     right_ascension := fixed_val (f_raan f);
     excentricity := mkdec false (padint_val (f_ecc f)) (-7);
     arg_perigee := fixed_val (f_argp f);
     mean_anomaly := fixed_val (f_ma f);
     mean_motion := fixed_val (f_mm f);
     orbit := padint_val (f_rev f) |}.
