(* Spec_Rot.v — literature statements used by C14 / C07.  Hand-written, independent of the code.

   Rodrigues' rotation formula (O. Rodrigues 1840; e.g. Goldstein, Classical Mechanics, 4-62):
   the rotation of v about the UNIT vector n by the angle t, counter-clockwise seen from the tip
   of n (right-hand rule), is
        v cos t + (n x v) sin t + n <n,v> (1 - cos t).
   pyorbital's docstring/tests use the clockwise sense, i.e. the same formula at -t:
        v cos t - (n x v) sin t + n <n,v> (1 - cos t).

   Ellipsoid of revolution with semi-axes a (equatorial) and b (polar):
        x^2/a^2 + y^2/a^2 + z^2/b^2 = 1.                                                   *)
From Coq Require Import Reals.
Open Scope R_scope.

Definition dot3 (ux uy uz wx wy wz : R) : R := ux * wx + uy * wy + uz * wz.
Definition cross_x (ux uy uz wx wy wz : R) : R := uy * wz - uz * wy.
Definition cross_y (ux uy uz wx wy wz : R) : R := uz * wx - ux * wz.
Definition cross_z (ux uy uz wx wy wz : R) : R := ux * wy - uy * wx.
Definition norm3 (ux uy uz : R) : R := sqrt (ux * ux + uy * uy + uz * uz).

(* counter-clockwise (right-handed) Rodrigues rotation about the unit vector n by t *)
Definition rodrigues_x (vx vy vz nx ny nz t : R) : R :=
  vx * cos t + cross_x nx ny nz vx vy vz * sin t + nx * dot3 nx ny nz vx vy vz * (1 - cos t).
Definition rodrigues_y (vx vy vz nx ny nz t : R) : R :=
  vy * cos t + cross_y nx ny nz vx vy vz * sin t + ny * dot3 nx ny nz vx vy vz * (1 - cos t).
Definition rodrigues_z (vx vy vz nx ny nz t : R) : R :=
  vz * cos t + cross_z nx ny nz vx vy vz * sin t + nz * dot3 nx ny nz vx vy vz * (1 - cos t).

(* the clockwise rotation by t about the (not necessarily unit, non-zero) axis a:
   Rodrigues about a/|a| by MINUS t *)
Definition cw_rot_x (vx vy vz ax ay az t : R) : R :=
  let n := norm3 ax ay az in rodrigues_x vx vy vz (ax / n) (ay / n) (az / n) (- t).
Definition cw_rot_y (vx vy vz ax ay az t : R) : R :=
  let n := norm3 ax ay az in rodrigues_y vx vy vz (ax / n) (ay / n) (az / n) (- t).
Definition cw_rot_z (vx vy vz ax ay az t : R) : R :=
  let n := norm3 ax ay az in rodrigues_z vx vy vz (ax / n) (ay / n) (az / n) (- t).

Definition nonzero3 (ax ay az : R) : Prop := ~ (ax = 0 /\ ay = 0 /\ az = 0).

(* the quadratic form of the ellipsoid of revolution with semi-axes a, a, b *)
Definition ellipsoid_form (a b x y z : R) : R := x * x / (a * a) + y * y / (a * a) + z * z / (b * b).
Definition on_ellipsoid (a b x y z : R) : Prop := ellipsoid_form a b x y z = 1.

(* semi-axes used by pyorbital.geoloc, km *)
Definition A_wgs84 : R := 6378137 / 1000.                       (* 6378.137 *)
Definition B_grs80 : R := 635675231414 / 100000000.             (* 6356.75231414   (module constant B) *)
Definition B_wgs84 : R := 6356752314245 / 1000000000.           (* 6356.752314245  (compute_pixels) *)
