(* Spec_Sun.v — hand-written reference, from the literature, never from the code:
   the Astronomical Almanac "low precision formulas for the Sun's coordinates"
   (Astronomical Almanac, section C; quoted precision 0.01 deg between 1950 and 2050):

     n       = JD - 2451545.0                    (days from J2000.0)
     L       = 280.460 + 0.9856474 n   deg       (mean longitude, corrected for aberration)
     g       = 357.528 + 0.9856003 n   deg       (mean anomaly)
     lambda  = L + 1.915 sin g + 0.020 sin 2g    (ecliptic longitude; latitude beta = 0)
     epsilon = 23.439 - 0.0000004 n    deg       (obliquity of the ecliptic)
     alpha   = atan2 (cos eps sin lambda, cos lambda)      (right ascension)
     delta   = asin (sin eps sin lambda)                   (declination)
     R       = 1.00014 - 0.01671 cos g - 0.00014 cos 2g    (AU)

   plus the textbook horizontal coordinates of a direction (hour angle H = local sidereal
   angle - alpha, geographic latitude phi):
     sin(alt) = sin phi sin delta + cos phi cos delta cos H
     azimuth (clockwise from north) = atan2 (east component, north component).
   Rationals, not decimals (field/ring do not read 1.5). *)
From Coq Require Import Reals.
From PyOrb.lib Require Import PyReal.
Open Scope R_scope.

(* degrees *)
Definition L_AA (n : R) : R := 280460 / 1000 + 9856474 / 10000000 * n.
Definition g_AA (n : R) : R := 357528 / 1000 + 9856003 / 10000000 * n.
Definition lambda_AA (n : R) : R :=
  L_AA n + 1915 / 1000 * sin (deg2rad (g_AA n)) + 20 / 1000 * sin (2 * deg2rad (g_AA n)).
Definition eps_AA (n : R) : R := 23439 / 1000 - 4 / 10000000 * n.
(* radians *)
Definition alpha_AA (n : R) : R :=
  atan2 (cos (deg2rad (eps_AA n)) * sin (deg2rad (lambda_AA n))) (cos (deg2rad (lambda_AA n))).
Definition delta_AA (n : R) : R := asin (sin (deg2rad (eps_AA n)) * sin (deg2rad (lambda_AA n))).
(* AU *)
Definition R_AA (n : R) : R :=
  100014 / 100000 - 1671 / 100000 * cos (deg2rad (g_AA n)) - 14 / 100000 * cos (2 * deg2rad (g_AA n)).

(* unit vector (equatorial frame) of the point of the ecliptic at longitude l, obliquity e *)
Definition ecl_x (l e : R) : R := cos l.
Definition ecl_y (l e : R) : R := cos e * sin l.
Definition ecl_z (l e : R) : R := sin e * sin l.
(* unit vector of right ascension a, declination dl *)
Definition sph_x (a dl : R) : R := cos dl * cos a.
Definition sph_y (a dl : R) : R := cos dl * sin a.
Definition sph_z (a dl : R) : R := sin dl.
(* local zenith direction in the same frame: latitude phi, local sidereal angle th *)
Definition zen_x (th phi : R) : R := cos phi * cos th.
Definition zen_y (th phi : R) : R := cos phi * sin th.
Definition zen_z (th phi : R) : R := sin phi.
(* local east and north unit vectors *)
Definition east_x (th phi : R) : R := - sin th.
Definition east_y (th phi : R) : R := cos th.
Definition east_z (th phi : R) : R := 0.
Definition north_x (th phi : R) : R := - sin phi * cos th.
Definition north_y (th phi : R) : R := - sin phi * sin th.
Definition north_z (th phi : R) : R := cos phi.
Definition dot3 (a1 a2 a3 b1 b2 b3 : R) : R := a1 * b1 + a2 * b2 + a3 * b3.
Definition chord3 (a1 a2 a3 b1 b2 b3 : R) : R :=
  sqrt ((a1 - b1) * (a1 - b1) + (a2 - b2) * (a2 - b2) + (a3 - b3) * (a3 - b3)).
