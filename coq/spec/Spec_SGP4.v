(* Spec_SGP4.v — the SGP4 near-earth model transcribed from Spacetrack Report No. 3
   (Hoots & Roehrich, 1980), section 6, in the report's notation and constants (WGS-72).
   Hand-written from the report; never derived from the code.  Rationals, not decimals.

   Deviations of pyorbital from the 1980 text that are made explicit here rather than hidden:
   - s is taken by its defining expression 78/XKMPER + aE (the report prints 1.01222928);
   - C3 and the delta-M / delta-omega terms are dropped for e0 <= 1e-4 (as in the reference C/FORTRAN
     code distributed with the report), see [small_e];
   - the eccentricity is clamped into [1e-6, 1 - 1e-6] before the long-period terms (AIAA-2006-6753);
   - U is reduced with fmod(., 2 pi) (the state depends on it only through sin, cos and E - U). *)
From Coq Require Import Reals.
Open Scope R_scope.

Definition k2 : R := 5413080 / 10000000000.            (* 5.413080e-4  = 1/2 J2 aE^2 *)
Definition k4 : R := 62098875 / 100000000000000.        (* 0.62098875e-6 = -3/8 J4 aE^4 *)
Definition A30 : R := 253881 / 100000000000.            (* 0.253881e-5  = -J3 aE^3 *)
Definition ke : R := 743669161 / 10000000000.           (* 0.0743669161 (er/min)^(3/2) *)
Definition aE : R := 1.
Definition XKMPER : R := 6378135 / 1000.                (* km per earth radius *)
Definition q0ms4 : R := 188027916 / 100000000000000000. (* (q0 - s)^4 = 1.88027916e-9 *)
Definition s_param : R := 78 / XKMPER + aE.
Definition min_per_day : R := 1440.
Definition twopi : R := 2 * PI.

Definition powr (x y : R) : R := Rpower x y.            (* x^y for x > 0 *)

(* mean elements at epoch: n0 [rad/min], e0, i0, w0 (arg. of perigee), M0, O0 (RAAN) [rad], B* *)
Record elements := mkEl { el_n0 : R; el_e0 : R; el_i0 : R; el_w0 : R; el_M0 : R; el_O0 : R; el_bstar : R }.
(* time since epoch in minutes, and whether the small-eccentricity convention (e0 <= 1e-4) applies *)
Record tstate := mkT { t_small_e : bool; t_tau : R }.

Section Elements.
  Variable E : elements.
  Let n0 := el_n0 E.
  Let e0 := el_e0 E.
  Let i0 := el_i0 E.
  Let w0 := el_w0 E.
  Let M0 := el_M0 E.
  Let O0 := el_O0 E.
  Let bstar := el_bstar E.

  Definition theta := cos i0.
  Definition a1 := powr (ke / n0) (2 / 3).
  Definition delta1 := (3 / 2) * (k2 / a1^2) * ((3 * theta^2 - 1) / powr (1 - e0^2) (3 / 2)).
  Definition a0 := a1 * (1 - delta1 / 3 - delta1^2 - (134 / 81) * delta1^3).
  Definition delta0 := (3 / 2) * (k2 / a0^2) * ((3 * theta^2 - 1) / powr (1 - e0^2) (3 / 2)).
  Definition n0'' := n0 / (1 + delta0).
  Definition a0'' := a0 / (1 - delta0).
  Definition perigee_km := (a0'' * (1 - e0) - aE) * XKMPER.
  Definition apogee_km := (a0'' * (1 + e0) - aE) * XKMPER.
  Definition period_min := twopi / n0''.

  (* for perigee >= 156 km: s and (q0 - s)^4 are the constants *)
  Definition xi := 1 / (a0'' - s_param).
  Definition beta0 := sqrt (1 - e0^2).
  Definition eta := a0'' * e0 * xi.
  Definition C2 :=
    q0ms4 * xi^4 * n0'' * powr (1 - eta^2) (- (7 / 2)) *
    (a0'' * (1 + (3 / 2) * eta^2 + 4 * e0 * eta + e0 * eta^3)
     + (3 / 2) * (k2 * xi / (1 - eta^2)) * (- (1 / 2) + (3 / 2) * theta^2) * (8 + 24 * eta^2 + 3 * eta^4)).
  Definition C1 := bstar * C2.
  Definition C3 := q0ms4 * xi^5 * A30 * n0'' * aE * sin i0 / (k2 * e0).
  Definition C4 :=
    2 * n0'' * q0ms4 * xi^4 * a0'' * beta0^2 * powr (1 - eta^2) (- (7 / 2)) *
    ((2 * eta * (1 + e0 * eta) + (1 / 2) * e0 + (1 / 2) * eta^3)
     - (2 * k2 * xi) / (a0'' * (1 - eta^2)) *
       (3 * (1 - 3 * theta^2) * (1 + (3 / 2) * eta^2 - 2 * e0 * eta - (1 / 2) * e0 * eta^3)
        + (3 / 4) * (1 - theta^2) * (2 * eta^2 - e0 * eta - e0 * eta^3) * cos (2 * w0))).
  Definition C5 :=
    2 * q0ms4 * xi^4 * a0'' * beta0^2 * powr (1 - eta^2) (- (7 / 2)) *
    (1 + (11 / 4) * eta * (eta + e0) + e0 * eta^3).
  Definition D2 := 4 * a0'' * xi * C1^2.
  Definition D3 := (4 / 3) * a0'' * xi^2 * (17 * a0'' + s_param) * C1^3.
  Definition D4 := (2 / 3) * a0''^2 * xi^3 * (221 * a0'' + 31 * s_param) * C1^4.

  (* secular rates (per minute) *)
  Definition Mdot :=
    (1 + 3 * k2 * (-1 + 3 * theta^2) / (2 * a0''^2 * beta0^3)
       + 3 * k2^2 * (13 - 78 * theta^2 + 137 * theta^4) / (16 * a0''^4 * beta0^7)) * n0''.
  Definition wdot :=
    (- 3 * k2 * (1 - 5 * theta^2) / (2 * a0''^2 * beta0^4)
     + 3 * k2^2 * (7 - 114 * theta^2 + 395 * theta^4) / (16 * a0''^4 * beta0^8)
     + 5 * k4 * (3 - 36 * theta^2 + 49 * theta^4) / (4 * a0''^4 * beta0^8)) * n0''.
  Definition Odot :=
    (- 3 * k2 * theta / (a0''^2 * beta0^4)
     + 3 * k2^2 * (4 * theta - 19 * theta^3) / (2 * a0''^4 * beta0^8)
     + 5 * k4 * theta * (3 - 7 * theta^2) / (2 * a0''^4 * beta0^8)) * n0''.

  (* --- update to time t (tau = t - t0 in minutes); [small_e] = e0 <= 1e-4 --- *)
  Section AtTime.
  Variable T : tstate.
  Let small_e := t_small_e T.
  Let tau := t_tau T.
  Definition MDF := M0 + Mdot * tau.
  Definition wDF := w0 + wdot * tau.
  Definition ODF := O0 + Odot * tau.
  Definition delta_w := if small_e then 0 else bstar * C3 * cos w0 * tau.
  Definition delta_M :=
    if small_e then 0
    else - (2 / 3) * q0ms4 * bstar * xi^4 * (aE / (e0 * eta)) * ((1 + eta * cos MDF)^3 - (1 + eta * cos M0)^3).
  Definition Mp := MDF + delta_w + delta_M.
  Definition w := wDF - delta_w - delta_M.
  Definition Om := ODF - (21 / 2) * (n0'' * k2 * theta / (a0''^2 * beta0^2)) * C1 * tau^2.
  Definition e_unclamped := e0 - bstar * C4 * tau - bstar * C5 * (sin Mp - sin M0).
  Definition a := a0'' * (1 - C1 * tau - D2 * tau^2 - D3 * tau^3 - D4 * tau^4)^2.
  Definition IL :=
    Mp + w + Om
    + n0'' * ((3 / 2) * C1 * tau^2 + (D2 + 2 * C1^2) * tau^3
              + (1 / 4) * (3 * D3 + 12 * C1 * D2 + 10 * C1^3) * tau^4
              + (1 / 5) * (3 * D4 + 12 * C1 * D3 + 6 * D2^2 + 30 * C1^2 * D2 + 15 * C1^4) * tau^5).

  (* long-period periodics, for the (clamped) eccentricity e *)
  Section LongPeriod.
  Variable e : R.
  Definition beta := sqrt (1 - e^2).
  Definition axN := e * cos w.
  Definition ILL := (A30 * sin i0) / (8 * k2 * a * beta^2) * (e * cos w) * ((3 + 5 * theta) / (1 + theta)).
  Definition ayNL := (A30 * sin i0) / (4 * k2 * a * beta^2).
  Definition ILT := IL + ILL.
  Definition ayN := e * sin w + ayNL.
  Definition U := ILT - Om.

  (* Kepler's equation for E + w, and the short-period finishing map for a given solution Ew *)
  Definition kepler_residual (Ucap Ew : R) : R := Ucap - Ew + axN * sin Ew - ayN * cos Ew.
  Definition eL2 := axN^2 + ayN^2.
  Definition pL := a * (1 - eL2).
  Definition n := ke / (a * sqrt a).
  Section Finish.
  Variable Ew : R.
  Definition ecosE := axN * cos Ew + ayN * sin Ew.
  Definition esinE := axN * sin Ew - ayN * cos Ew.
  Definition r := a * (1 - ecosE).
  Definition rdot := ke * sqrt a * esinE / r.
  Definition rfdot := ke * sqrt pL / r.
  Definition cosu := (a / r) * (cos Ew - axN + ayN * esinE / (1 + sqrt (1 - eL2))).
  Definition sinu := (a / r) * (sin Ew - ayN - axN * esinE / (1 + sqrt (1 - eL2))).
  Definition sin2u := 2 * sinu * cosu.
  Definition cos2u := 2 * cosu^2 - 1.
  Definition rk := r * (1 - (3 / 2) * k2 * sqrt (1 - eL2) / pL^2 * (3 * theta^2 - 1))
                   + k2 / (2 * pL) * (1 - theta^2) * cos2u.
  Definition uk (u : R) := u - k2 / (4 * pL^2) * (7 * theta^2 - 1) * sin2u.
  Definition Ok := Om + 3 * k2 * theta / (2 * pL^2) * sin2u.
  Definition ik := i0 + 3 * k2 * theta / (2 * pL^2) * sin i0 * cos2u.
  Definition rdotk := rdot - k2 * n / pL * (1 - theta^2) * sin2u.
  Definition rfdotk := rfdot + k2 * n / pL * ((1 - theta^2) * cos2u - (3 / 2) * (1 - 3 * theta^2)).
  End Finish.
  End LongPeriod.
  End AtTime.
End Elements.

(* orientation vectors and the state, units of earth radii and earth radii / minute *)
Definition Ux (uk Ok ik : R) := - sin Ok * cos ik * sin uk + cos Ok * cos uk.
Definition Uy (uk Ok ik : R) := cos Ok * cos ik * sin uk + sin Ok * cos uk.
Definition Uz (uk Ok ik : R) := sin ik * sin uk.
Definition Vx (uk Ok ik : R) := - sin Ok * cos ik * cos uk - cos Ok * sin uk.
Definition Vy (uk Ok ik : R) := cos Ok * cos ik * cos uk - sin Ok * sin uk.
Definition Vz (uk Ok ik : R) := sin ik * cos uk.
