"""C14 — qrotate is Rodrigues' rotation by minus the angle; geodetic helpers.
Tie: T-gen (Gen_geoloc regenerated from geoloc.py by symbolic tracing) + translator self-check
(binary64 DAG and Coq-Interval evaluation of the printed terms vs the interpreter) + oracle on the
implementation against an independent numpy statement of Rodrigues' formula / the ellipsoid."""
import math

import numpy as np

from harness import common, numeric

LEVEL = "proof"
A = 6378.137
B = 6356.75231414
TWO_PI = 2 * math.pi


# --------------------------------------------------------------------------
# independent statements
# --------------------------------------------------------------------------
def rodrigues_ref(v, axis, angle):
    """per column: v cos t - (n x v) sin t + n <n,v> (1 - cos t), n = axis/|axis|  (Rodrigues at -angle)"""
    v = np.asarray(v, dtype=float)
    V = v.reshape(3, -1)
    n_cols = V.shape[1]
    AX = np.broadcast_to(np.asarray(axis, dtype=float).reshape(3, -1), (3, n_cols))
    T = np.broadcast_to(np.asarray(angle, dtype=float).reshape(-1), (n_cols,))
    out = np.empty_like(V)
    for j in range(n_cols):
        ax, ay, az = (float(c) for c in AX[:, j])
        nn = math.sqrt(math.fsum([ax * ax, ay * ay, az * az]))
        nx, ny, nz = ax / nn, ay / nn, az / nn
        vx, vy, vz = (float(c) for c in V[:, j])
        c, s = math.cos(T[j]), math.sin(T[j])
        d = nx * vx + ny * vy + nz * vz
        out[0, j] = vx * c - (ny * vz - nz * vy) * s + nx * d * (1 - c)
        out[1, j] = vy * c - (nz * vx - nx * vz) * s + ny * d * (1 - c)
        out[2, j] = vz * c - (nx * vy - ny * vx) * s + nz * d * (1 - c)
    return out.reshape(v.shape)


def col_norms(v):
    V = np.asarray(v, dtype=float).reshape(3, -1)
    return np.sqrt((V ** 2).sum(0))


def rel_err(r, ref, v):
    """max over columns of |r - ref| / |v|"""
    d = (np.asarray(r, dtype=float) - ref).reshape(3, -1)
    nv = col_norms(v)
    with np.errstate(invalid="ignore", divide="ignore"):
        e = np.sqrt((d ** 2).sum(0)) / nv
    return float(np.nanmax(e)) if not np.isnan(e).all() else float("nan")


def geodetic_to_cart(lat, lon, h):
    e2 = (A * A - B * B) / (A * A)
    n = A / math.sqrt(1 - e2 * math.sin(lat) ** 2)
    return ((n + h) * math.cos(lat) * math.cos(lon), (n + h) * math.cos(lat) * math.sin(lon),
            (n * (1 - e2) + h) * math.sin(lat))


# --------------------------------------------------------------------------
# generators (every random choice from ctx.rng)
# --------------------------------------------------------------------------
SPECIAL_ANGLES = [0.0, math.pi / 2, -math.pi / 2, math.pi, -math.pi, TWO_PI, -TWO_PI, 2 * TWO_PI, -2 * TWO_PI,
                  1e-9, -1e-9, 3 * math.pi]


def rand_angle(rng):
    if rng.random() < 0.2:
        return rng.choice(SPECIAL_ANGLES)
    return rng.uniform(-2 * TWO_PI, 2 * TWO_PI)


def rand_vec(rng, lo=-3.0, hi=7.0):
    """a vector of log-uniform magnitude 1e-3..1e7 and random direction (sometimes axis-aligned)"""
    mag = 10 ** rng.uniform(lo, hi)
    if rng.random() < 0.1:
        d = [0.0, 0.0, 0.0]
        d[rng.randrange(3)] = rng.choice([1.0, -1.0])
    else:
        while True:
            d = [rng.gauss(0, 1) for _ in range(3)]
            n = math.sqrt(sum(c * c for c in d))
            if n > 1e-6:
                break
        d = [c / n for c in d]
    return [mag * c for c in d]


def rand_cols(rng, cols):
    n = int(np.prod(cols)) if cols else 1
    a = np.array([rand_vec(rng) for _ in range(n)], dtype=float).T       # (3, n)
    return a.reshape((3,) + tuple(cols))


def rotation_case(rng):
    k = rng.random()
    if k < 0.25:
        cols = ()
    elif k < 0.65:
        cols = (rng.randint(1, 5),)
    else:
        cols = (rng.randint(1, 3), rng.randint(1, 4))
    v = rand_cols(rng, cols)
    axk = rng.choice(["shared3", "shared31", "percol"])
    angk = rng.choice(["float", "npscalar", "0d", "percol"])
    if len(cols) == 2 and axk != "percol" and angk == "percol":
        angk = rng.choice(["float", "npscalar", "0d"])      # the one rejected combination: out of scope
    if axk == "shared3":
        axis = np.array(rand_vec(rng))
    elif axk == "shared31":
        axis = np.array(rand_vec(rng)).reshape(3, 1)
    else:
        axis = rand_cols(rng, cols)
    if angk == "float":
        angle = rand_angle(rng)
    elif angk == "npscalar":
        angle = np.float64(rand_angle(rng))
    elif angk == "0d":
        angle = np.array(rand_angle(rng))
    else:
        n = int(np.prod(cols)) if cols else 1
        angle = np.array([rand_angle(rng) for _ in range(n)]).reshape(cols if cols else (1,))
    return v, axis, angle, axk, angk


def describe(v, axis, angle, axk, angk):
    return {"vector": np.asarray(v).tolist(), "vector_shape": list(np.shape(v)), "axis": np.asarray(axis).tolist(),
            "axis_kind": axk, "angle": np.asarray(angle, dtype=float).tolist(), "angle_kind": angk}


# --------------------------------------------------------------------------
def run(ctx):
    from pyorbital import geoloc
    ctx.rule = ("rotation: vectors/axes of log-uniform magnitude 1e-3..1e7 (10% axis-aligned) x angles in [-4pi,4pi] "
                "(20% special: 0, +-pi/2, +-pi, +-2pi, +-4pi, +-1e-9) x shapes (3,),(3,n<=5),(3,m<=3,n<=4) x axis "
                "{shared (3,), shared (3,1), per column} x angle {float, numpy scalar, 0-d, per column}, the rejected "
                "combination excluded; the same argument objects handed to two successive calls (no copies); geodetic: points at geodetic height 0..50000 km (strata: surface, poles, "
                "equator) as scalars and (3,n) arrays, NaN columns mixed in; distinct = distinct inputs")
    ctx.assumptions += [
        "binary64 rounding of the rotation is not proved; sampled against the independent formula to 1e-9 relative to |v|",
        "shape preservation and the accepted shape/broadcast combinations are numpy semantics: validated by sampling "
        "(the generated model is traced on shapes (3,), (3,1), (3,2), (3,1,2) and proved column-wise identical)",
        "geodetic_lat: the step map is regenerated from the source (gen_geodetic_step) and proved a contraction (factor 0.0069) for points off the polar axis and >= 6355.8 km from the centre, so np.allclose succeeds by the fourth comparison; from the exit test alone the point is within 1 m of the normal through its subpoint (C14_point_on_normal_within_1m). That the loop IS the iteration of that step map with that test, the polar axis (r = 0) and the vectorised all-elements exit are tied by the correspondence run",
        "translator (symtrace/emit/gen_geoloc) trusted for 'emitted term = what the code computes over R'; self-checked each run "
        "by binary64 evaluation of the DAG and Coq-Interval evaluation of the printed terms against the interpreter",
        "subpoint is traced with geodetic_lat replaced by a free latitude symbol; the theorem holds for every latitude value",
    ]
    rng = ctx.rng

    # ---- 1. regenerate the model + translator self-check ---------------------------------------
    numeric.regen(ctx, "astronomy")   # the latitude-loop theorems (P_LatLoop) are stated on Gen_orbital
    numeric.regen(ctx, "orbital")
    tr, defs = numeric.regen(ctx, "geoloc")
    if tr is not None:
        import symtrace as st

        def col(env, names):
            return [env[n] for n in names]

        def impl(name, env):
            comp = "xyz".index(name[-1])
            if name.startswith("gen_subpoint_"):
                return float(geoloc.subpoint((env["x"], env["y"], env["z"]))[comp])
            if name.startswith("gen_qrotate2_") or name.startswith("gen_qrotate3_"):
                v = np.array([col(env, ["vx", "vy", "vz"]), col(env, ["wx", "wy", "wz"])]).T
                a2 = np.array([col(env, ["ax", "ay", "az"]), col(env, ["ex", "ey", "ez"])]).T
                a1 = np.array(col(env, ["ax", "ay", "az"]))
                t2 = np.array([env["ang"], env["bng"]])
                kind = name.split("_")[2]
                if name.startswith("gen_qrotate3_"):
                    v = v.reshape(3, 1, 2)
                    a2 = a2.reshape(3, 1, 2)
                    t2 = t2.reshape(1, 2)
                axis = {"pp": a2, "ps": a2, "sp": a1, "ss": a1, "s1s": a1.reshape(3, 1)}[kind]
                angle = {"pp": t2, "ps": env["ang"], "sp": t2, "ss": env["ang"], "s1s": env["ang"]}[kind]
                r = geoloc.qrotate(v, axis, angle)
                c = 0 if "_c0_" in name else 1
                return float(r.reshape(3, 2)[comp, c])
            v = np.array(col(env, ["vx", "vy", "vz"]))
            a = np.array(col(env, ["ax", "ay", "az"]))
            kind = name.split("_")[2] if name.count("_") == 3 else ""
            if kind == "":
                return float(geoloc.qrotate(v, a, env["ang"])[comp])
            v1 = v.reshape(3, 1)
            axis = a.reshape(3, 1) if kind in ("cs", "ca") else a
            angle = {"cs": env["ang"], "ss": env["ang"], "ca": np.array([env["ang"]]), "sa": np.array([env["ang"]]),
                     "s0": np.array(env["ang"])}[kind]
            return float(geoloc.qrotate(v1, axis, angle)[comp, 0])

        def gen_env(r):
            env = {}
            for p in ("v", "w", "a", "e"):
                vec = rand_vec(r, -1.0, 2.0)
                for c, val in zip("xyz", vec):
                    env[p + c] = val
            env["ang"], env["bng"] = rand_angle(r), rand_angle(r)
            lat, lon, h = r.uniform(-math.pi / 2, math.pi / 2), r.uniform(-math.pi, math.pi), r.uniform(0, 50000)
            env["x"], env["y"], env["z"] = geodetic_to_cart(lat, lon, h)
            env["lat"] = float(geoloc.geodetic_lat((env["x"], env["y"], env["z"])))   # the value subpoint uses
            return env
        names = [d[0] for d in defs if d[0].startswith("gen_qrotate") or d[0].startswith("gen_subpoint")]
        numeric.selfcheck(ctx, tr, defs, names, gen_env, impl, n=ctx.n(25, 250), rtol=1e-9, atol=1e-9)
        # geodetic_lat: iterate the generated step map with the code's exit test, compare with the function
        dd = {d[0]: d for d in defs}
        gstep = tr.alt_graphs["gen_geodetic_step"]
        for _ in range(ctx.n(40, 400)):
            env = gen_env(rng)
            (first,), _c = st.evalf(tr.g, env, [dd["gen_geodetic_lat_1"][2]])
            phi = math.atan2(env["z"], math.sqrt(env["x"] ** 2 + env["y"] ** 2))
            (new,), _c = st.evalf(gstep, dict(env, phi=phi), [dd["gen_geodetic_step"][2]])
            ok = new == first
            for _it in range(100):
                if abs(new - phi) <= 1e-8 + 1e-5 * abs(phi):
                    break
                phi = new
                (new,), _c = st.evalf(gstep, dict(env, phi=phi), [dd["gen_geodetic_step"][2]])
            ctx.case(("self", "geodetic_step", env["x"], env["y"], env["z"]))
            if not ok or not abs(new - env["lat"]) <= 1e-12:
                ctx.corr_fail("generated geodetic step map iterated with the allclose exit vs geoloc.geodetic_lat",
                              {"point": [env["x"], env["y"], env["z"]], "model": new, "impl": env["lat"], "first_iterate_consistent": ok})
        pt = ["gen_qrotate_x", "gen_qrotate_y", "gen_qrotate_z", "gen_subpoint_z"]
        numeric.coq_point_check(ctx, "Gen_geoloc", defs, pt, gen_env, impl, n=2, tol="1/1000000000",
                                unfold=" ".join(pt))

    # ---- 2. proofs -------------------------------------------------------------------------------
    ctx.build_props("props/C14.v")

    # ---- 3. oracle: qrotate == Rodrigues(-angle), shape preserved ----------------------------------
    tol = 1e-9
    for i in range(ctx.n(4000, 40000)):
        v, axis, angle, axk, angk = rotation_case(rng)
        key = ("rot", i, v.shape, axk, angk)
        sig = "C14:rot:%s:%s:%s:%d" % ("x".join(map(str, v.shape)), axk, angk, i)
        try:
            with common.time_limit(20):
                r = geoloc.qrotate(v.copy(), axis.copy(), angle.copy() if isinstance(angle, np.ndarray) else angle)
        except Exception as e:
            ctx.case(key)
            ctx.violation("qrotate raised %s on an in-scope input" % type(e).__name__,
                          {"signature": sig, **describe(v, axis, angle, axk, angk), "error": str(e)[:200]})
            continue
        ref = rodrigues_ref(v, axis, angle)
        ctx.case(key, {"vector_shape": list(v.shape), "axis_kind": axk, "angle_kind": angk} if i < 3 else None)
        if np.shape(r) != v.shape:
            ctx.violation("qrotate does not preserve the input's shape",
                          {"signature": sig, **describe(v, axis, angle, axk, angk), "result_shape": list(np.shape(r))})
            continue
        err = rel_err(r, ref, v)
        if not err <= tol:
            ctx.violation("qrotate differs from Rodrigues' rotation about axis/|axis| by minus the angle (> 1e-9 |v|)",
                          {"signature": sig, **describe(v, axis, angle, axk, angk), "impl": np.asarray(r).tolist(),
                           "spec": ref.tolist(), "relative_error": err})
    # the SAME argument objects handed to two successive calls (no defensive copies): a caller who rotates two sets of
    # vectors by one angle array must get the rotation by the values it passed, both times
    for i in range(ctx.n(600, 6000)):
        v, axis, angle, axk, angk = rotation_case(rng)
        v0, axis0 = v.copy(), axis.copy()
        angle0 = angle.copy() if isinstance(angle, np.ndarray) else angle
        sig = "C14:reuse:%s:%s:%s:%d" % ("x".join(map(str, v.shape)), axk, angk, i)
        ctx.case(("reuse", i, v.shape, axk, angk))
        ref = rodrigues_ref(v0, axis0, angle0)
        try:
            with common.time_limit(20):
                r1 = geoloc.qrotate(v, axis, angle)
                r2 = geoloc.qrotate(v, axis, angle)
        except Exception as e:
            ctx.violation("qrotate raised %s on an in-scope input" % type(e).__name__,
                          {"signature": sig, **describe(v0, axis0, angle0, axk, angk), "error": str(e)[:200]})
            continue
        for which, r in (("first", r1), ("second", r2)):
            if np.shape(r) != v0.shape:
                continue
            err = rel_err(r, ref, v0)
            if not err <= tol:
                ctx.violation("the %s of two successive calls with the same argument objects differs from Rodrigues' rotation by "
                              "minus the angle that was passed (> 1e-9 |v|)" % which,
                              {"signature": sig, **describe(v0, axis0, angle0, axk, angk), "call": which,
                               "angle_object_after_the_calls": np.asarray(angle).tolist(), "relative_error": err})
                break
    # corollaries stated by the property, directly on the implementation
    for i in range(ctx.n(1000, 10000)):
        n = rng.randint(2, 5)
        v = rand_cols(rng, (n,))
        axis = np.array(rand_vec(rng))
        if rng.random() < 0.5:
            axis = axis.reshape(3, 1)
        t1 = rand_angle(rng) / 2
        t2 = rand_angle(rng) / 2
        k = rng.choice([1.0, -1.0, 2.5, 1e-3, 1e3])
        base = {"vector": v.tolist(), "axis": axis.tolist(), "a": t1, "b": t2}
        sig = "C14:cor:%d" % i
        ctx.case(("cor", i))
        try:
            with common.time_limit(20):
                r1 = geoloc.qrotate(v.copy(), axis.copy(), t1)
                r12 = geoloc.qrotate(r1.copy(), axis.copy(), t2)
                rs = geoloc.qrotate(v.copy(), axis.copy(), t1 + t2)
                ra = geoloc.qrotate(k * axis.reshape(3), axis.copy(), t1)
                ids = [(t, geoloc.qrotate(v.copy(), axis.copy(), t)) for t in (0.0, TWO_PI, -TWO_PI)]
        except Exception as e:
            ctx.violation("qrotate raised %s" % type(e).__name__, {"signature": sig, **base, "error": str(e)[:200]})
            continue
        nv = col_norms(v)
        gram_v = v.T @ v
        gram_r = r1.T @ r1
        scale = np.outer(nv, nv)
        if not np.all(np.abs(gram_r - gram_v) <= 4e-9 * scale):
            ctx.violation("lengths / mutual inner products are not preserved by qrotate",
                          {"signature": sig + ":gram", **base, "gram_in": gram_v.tolist(), "gram_out": gram_r.tolist()})
        if not rel_err(r12, rs, v) <= 4e-9:
            ctx.violation("successive rotations about one axis do not add",
                          {"signature": sig + ":add", **base, "twice": r12.tolist(), "once": rs.tolist()})
        if not rel_err(ra, k * axis.reshape(3), axis.reshape(3)) <= tol * abs(k):
            ctx.violation("the rotation axis is not fixed",
                          {"signature": sig + ":axis", **base, "k": k, "impl": np.asarray(ra).tolist()})
        for t, r in ids:
            if not rel_err(r, v, v) <= tol:
                ctx.violation("rotation by 0 / 2*pi is not the identity",
                              {"signature": sig + ":id:%r" % t, **base, "angle": t, "impl": r.tolist()})

    # ---- 4. oracle: geodetic helpers, surface .. 50000 km ---------------------------------------
    def rand_geodetic():
        k = rng.random()
        lat = rng.uniform(-math.pi / 2, math.pi / 2)
        lon = rng.uniform(-math.pi, math.pi)
        h = rng.uniform(0, 50000) if rng.random() < 0.5 else 10 ** rng.uniform(-3, math.log10(50000))
        if k < 0.08:
            h = 0.0
        elif k < 0.12:
            lat = rng.choice([math.pi / 2, -math.pi / 2])
        elif k < 0.16:
            lat = 0.0
        elif k < 0.18:
            h = 50000.0
        return lat, lon, h

    def check_subpoints(p, s, sig, base):
        """p, s: (3, n) float arrays of finite columns"""
        f = s[0] ** 2 / A ** 2 + s[1] ** 2 / A ** 2 + s[2] ** 2 / B ** 2
        j = int(np.argmax(np.abs(f - 1)))
        if not abs(f[j] - 1) <= 1e-9:
            ctx.violation("subpoint is not on the ellipsoid (|x^2/a^2+y^2/a^2+z^2/b^2 - 1| > 1e-9)",
                          {"signature": sig + ":ell", **base, "point": p[:, j].tolist(), "subpoint": s[:, j].tolist(), "form": float(f[j])})
        nn = np.stack([s[0] / A ** 2, s[1] / A ** 2, s[2] / B ** 2])
        nn = nn / np.sqrt((nn ** 2).sum(0))
        d = p - s
        perp = d - (d * nn).sum(0) * nn
        dist = np.sqrt((perp ** 2).sum(0))
        j = int(np.argmax(dist))
        if not dist[j] <= 1e-3:
            ctx.violation("point is more than 1 m away from the geodetic normal through its subpoint",
                          {"signature": sig + ":normal", **base, "point": p[:, j].tolist(), "subpoint": s[:, j].tolist(), "distance_km": float(dist[j])})
        below = (d * nn).sum(0)
        j = int(np.argmin(below))
        if not below[j] >= -1e-3:
            ctx.violation("point is below its subpoint along the outward normal (subpoint on the far side)",
                          {"signature": sig + ":side", **base, "point": p[:, j].tolist(), "subpoint": s[:, j].tolist()})

    for i in range(ctx.n(3000, 30000)):          # scalar points (the loop exits on this point's own convergence)
        lat, lon, h = rand_geodetic()
        p = np.array(geodetic_to_cart(lat, lon, h))
        sig = "C14:geo:%d" % i
        base = {"geodetic": [lat, lon, h]}
        ctx.case(("geo", lat, lon, h), {"geodetic_lat_lon_h": [lat, lon, h]} if i < 2 else None)
        arg = p if rng.random() < 0.5 else tuple(float(c) for c in p)
        try:
            with common.time_limit(10):
                gl = geoloc.geodetic_lat(arg)
                s = np.asarray(geoloc.subpoint(arg), dtype=float)
        except common.Timeout:
            ctx.violation("geodetic_lat / subpoint did not terminate", {"signature": sig + ":hang", **base, "point": p.tolist()})
            continue
        except Exception as e:
            ctx.violation("geodetic_lat / subpoint raised %s" % type(e).__name__, {"signature": sig + ":raise", **base, "point": p.tolist(), "error": str(e)[:200]})
            continue
        if np.shape(s) != (3,):
            ctx.violation("subpoint of a single point does not have shape (3,)", {"signature": sig + ":shape", **base, "shape": list(np.shape(s))})
            continue
        check_subpoints(p.reshape(3, 1), s.reshape(3, 1), sig, base)
        if not abs(float(gl) - lat) * (A + h) <= 1e-3:
            ctx.violation("geodetic_lat is off by more than 1 m at the point",
                          {"signature": sig + ":lat", **base, "point": p.tolist(), "impl": float(gl), "spec": lat})
    hangs = 0
    for i in range(ctx.n(400, 4000)):            # (3, n) arrays with NaN columns mixed in
        n = rng.randint(1, 12)
        geo = [rand_geodetic() for _ in range(n)]
        p = np.array([geodetic_to_cart(*g) for g in geo]).T
        nanmask = np.array([rng.random() < 0.25 for _ in range(n)])
        pn = p.copy()
        for j in np.nonzero(nanmask)[0]:
            if rng.random() < 0.5:
                pn[:, j] = np.nan
            else:
                pn[rng.randrange(3), j] = np.nan
        sig = "C14:geoarr:%d" % i
        if hangs >= 2:
            break                       # already reported twice; do not wait for every further time-out
        base = {"points": pn.tolist()}
        ctx.case(("geoarr", i, n, int(nanmask.sum())))
        try:
            with common.time_limit(10):
                gl = np.asarray(geoloc.geodetic_lat(pn.copy()), dtype=float)
                s = np.asarray(geoloc.subpoint(pn.copy()), dtype=float)
        except common.Timeout:
            hangs += 1
            ctx.violation("geodetic_lat / subpoint did not terminate on an array%s" % (" with NaN entries" if nanmask.any() else ""),
                          {"signature": sig + ":hang", **base})
            continue
        except Exception as e:
            ctx.violation("geodetic_lat / subpoint raised %s" % type(e).__name__, {"signature": sig + ":raise", **base, "error": str(e)[:200]})
            continue
        if s.shape != (3, n) or gl.shape != (n,):
            ctx.violation("geodetic helpers do not preserve the (3,n) layout", {"signature": sig + ":shape", **base, "shape": list(s.shape)})
            continue
        fin = ~nanmask
        if np.isnan(gl[fin]).any() or np.isnan(s[:, fin]).any():
            ctx.violation("a NaN column contaminates the finite columns", {"signature": sig + ":nan", **base, "lat": gl.tolist()})
            continue
        if fin.any():
            check_subpoints(p[:, fin], s[:, fin], sig, base)
