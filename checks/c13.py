"""C13 — refusals.  Tie: T-gen (decision trees of the constructor and of propagate regenerated from
orbital.py) + translator self-check over the printable range of every field + oracle."""
import math

import numpy as np

from harness import common, numeric, tlegen
from checks import sgp4common, sgp4ref

LEVEL = "proof"


def gen_cases(ctx, n):
    out = []
    for i in range(n):
        f = tlegen.random_fields(ctx.rng, near_earth=(i % 2 == 0))
        k = i % 16
        if k == 1:
            f["mm"] = ctx.rng.choice([0.0, 0.00000001, ctx.rng.uniform(0, 0.01), ctx.rng.uniform(17.5, 18.5)])
        elif k == 2:
            f["ecc"] = ctx.rng.choice([0, 1, 9999999, 9999990, 9999989, ctx.rng.randint(9990000, 9999999)])
        elif k == 3:
            f["inc"] = ctx.rng.choice([0.0, 180.0, 0.0001, 179.9999])
        elif k == 4:
            f["mm"] = ctx.rng.uniform(6.2, 6.6)          # period around 225 min
        elif k == 5:
            f["mm"] = ctx.rng.uniform(15.6, 16.9)        # perigee around / below 220 km
            f["ecc"] = ctx.rng.randint(1, 200000)
        elif k == 6:
            f["bstar"] = (ctx.rng.randint(10000, 99999), -1, ctx.rng.choice(" -"))    # |B*| up to 0.1: decays
        elif k == 7:
            f["ecc"] = ctx.rng.randint(1000000, 9999999)  # high eccentricity incl. the accepted island of DESIGN.md N6
            f["mm"] = ctx.rng.uniform(1, 17)
            f["inc"] = ctx.rng.uniform(55, 125)
        l1, l2 = tlegen.make(**f)
        ts = ctx.rng.choice([0.0, ctx.rng.uniform(-1440, 1440), ctx.rng.uniform(-86400, 86400)])
        out.append((l1, l2, ts))
        if i % 4 == 3:
            # a sibling element set: the same satellite, epoch and every field but ONE (a corrected / re-issued set), handled
            # next in the same process - the outcome class must follow the field that changed
            g = dict(f)
            which = ctx.rng.choice(["ecc", "ecc", "ecc", "mm", "inc", "bstar"])
            if which == "ecc":
                g["ecc"] = ctx.rng.choice([ctx.rng.randint(1, 20000), ctx.rng.randint(300000, 900000), min(9999989, int(f["ecc"]) + 600000)])
            elif which == "mm":
                g["mm"] = max(0.1, float(f["mm"]) + ctx.rng.choice([-3.0, 1.0, 2.5]))
            elif which == "inc":
                g["inc"] = (float(f["inc"]) + ctx.rng.uniform(10, 80)) % 180.0
            else:
                g["bstar"] = (ctx.rng.randint(10000, 99999), ctx.rng.choice([-2, -3, -4]), ctx.rng.choice(" -"))
            try:
                m1, m2 = tlegen.make(**g)
                out.append((m1, m2, ts))
            except Exception:
                pass
    return out


def run(ctx):
    from pyorbital import tlefile
    ctx.rule = ("TLEs over the printable range of every field (mean motion 0-18.5 rev/day, e in [0, 0.9999999], i in [0, 180] deg, |B*| <= 0.1) "
                "with boundary strata (period ~225 min, perigee ~220 km, e at both ends, i = 0/180, zero mean motion, high-e island) x times within +-60 d")
    ctx.assumptions += [
        "the outcome-class theorems are about the decision trees regenerated from source by exhaustive path enumeration (69 constructor paths, 25 propagation paths per leaf); the translator is self-checked each run on every outcome class",
        "definedness (never NaN/inf) is proved over the reals only for the propagation stage of a returned state (C13_defined_partial); the constructor's denominators and all binary64 overflow are sampled by the oracle",
        "'in every other case a state is returned' is proved over the reals for healthy orbits (C13_healthy_is_answered*: decay guards at the requested time, eL^2 <= 4/25, osculating perigee a (1 - eL) >= 1.005 earth radii imply PropOk j with j <= 5, through the convergence proof of the Kepler loop and rk >= 1); and in terms of the input only (C13_answered_at_epoch_or_drag_free*): every accepted near-earth set with e0 <= 0.39 is answered at its epoch, and at every time when B* = 0; and, wider (C13_accepted_is_answered_at_epoch_or_drag_free, C13_healthy_is_answered_wide): EVERY accepted element set outside the island (mean motion 6.4..18 rev/day, e0 <= 0.9, which forces e0 <= 0.467) is answered at its epoch and drag-free at any time, at one of the exits 0..6; with drag away from epoch it is sampled",
        "decay exceptions are modelled as classes: Exception('Satellite crashed'/'e**2 >= 1') = PropCrash, ValueError = PropEccLow",
    ]
    tr, defs = numeric.regen(ctx, "sgp4")
    cases = gen_cases(ctx, ctx.n(400, 4000))
    if tr is not None:
        sgp4common.selfcheck(ctx, tr, cases)
    ctx.build_props("props/C13.v")
    # ---------------- oracle: the property text on the implementation ----------------
    for l1, l2, minutes in cases:
        try:
            tle = tlefile.Tle("X", line1=l1, line2=l2)
        except Exception:
            continue
        e = float(tle.excentricity)
        inc = float(tle.inclination)
        n = float(tle.mean_motion)
        base = {"line1": l1, "line2": l2, "minutes": minutes}
        iclass, orb = sgp4common.impl_init(l1, l2)
        ctx.case(("oracle", l1, l2, minutes))
        if iclass.startswith("raise:"):
            ctx.violation("construction raised %s (neither OrbitalError nor NotImplementedError)" % iclass[6:],
                          {"signature": "C13:init-raise:%s:%s" % (iclass[6:], l2[8:33]), **base})
            continue
        bad_elements = not (0 < e < 1 - 1e-6) or not (0 < inc < 180) or not n > 0
        if bad_elements and iclass != "InitOrbitalError":
            ctx.violation("out-of-range elements were not refused with OrbitalError (%s)" % iclass,
                          {"signature": "C13:elements:%s" % l2[8:63], **base, "e": e, "inc": inc, "n": n})
            continue
        # independent classification from the report's own recovery of n0'', a0''
        ref = None
        if not bad_elements:
            try:
                ref = sgp4ref.init(sgp4ref.elements(**sgp4common.tle_env(tle)))
            except (ValueError, ZeroDivisionError, OverflowError):
                ref = None
        if ref is not None and iclass in ("ok", "InitNotImplemented"):
            if ref["period"] >= 225.0 * (1 + 1e-9) and iclass != "InitNotImplemented":
                ctx.violation("a deep-space element set (period >= 225 min) was not refused at construction",
                              {"signature": "C13:deep:%s" % l2[8:63], **base, "period_min": ref["period"]})
            if ref["period"] < 225.0 * (1 - 1e-9) and iclass == "InitNotImplemented":
                ctx.violation("a near-earth element set (period < 225 min) was refused as deep space",
                              {"signature": "C13:notdeep:%s" % l2[8:63], **base, "period_min": ref["period"]})
        if iclass != "ok":
            continue
        ep = tle.epoch.astype("datetime64[us]")
        t = ep + np.timedelta64(int(minutes * 60e6), "us")
        pclass, state = sgp4common.impl_prop(orb, t)
        per = float(orb.orbit_elements.period)          # informational only
        if pclass in ("hang",) or pclass.startswith("raise:"):
            ctx.violation("propagation ended with %s" % pclass, {"signature": "C13:prop:%s:%s" % (pclass, l2[8:63]), **base})
            continue
        if ref is not None and ref["period"] < 225.0 and ref["perigee"] < 220.0 - 1e-6 and pclass != "NotImpl":
            ctx.violation("propagation answered (or failed otherwise) although the perigee is below 220 km",
                          {"signature": "C13:lowperigee:%s" % l2[8:63], **base, "perigee_km": ref["perigee"], "outcome": pclass})
        if pclass == "ok":
            r_km = float(np.linalg.norm(np.asarray(state[0], dtype=float)))
            if r_km < 6378.135 * (1 - 1e-3):
                ctx.violation("a state inside the earth was returned instead of a decay exception",
                              {"signature": "C13:underground:%s:%.3f" % (l2[8:63], minutes), **base, "radius_km": r_km})
            arr = np.concatenate([np.asarray(state[0], dtype=float).ravel(), np.asarray(state[1], dtype=float).ravel()])
            if not np.all(np.isfinite(arr)):
                ctx.violation("a returned state has NaN or infinite components",
                              {"signature": "C13:nonfinite:%s:%.3f" % (l2[8:63], minutes), **base, "state": arr.tolist(), "summary_period_min": per})

    # ---------------- decay stratum: follow high-drag, eccentric sets until they are refused ----------------
    def answered_badly(state):
        arr = np.concatenate([np.asarray(state[0], dtype=float).ravel(), np.asarray(state[1], dtype=float).ravel()])
        r_km = float(np.linalg.norm(arr[:3]))
        return (not np.all(np.isfinite(arr))) or r_km < 6378.135 * (1 - 1e-9), r_km

    for k in range(ctx.n(20, 80)):
        f = tlegen.random_fields(ctx.rng)
        f["mm"] = ctx.rng.uniform(12.8, 14.6)
        a_km = (8681663.653 / f["mm"]) ** (2.0 / 3.0)
        peri = ctx.rng.uniform(224, 300)                      # perigee above 220 km at epoch, apogee high: the radius guard decides
        f["ecc"] = max(1, int((1 - (6378.135 + peri) / a_km) * 1e7))
        # the short-period radius correction lowers the radius for cos^2 i > 1/3 and raises it otherwise: both sides
        f["inc"] = ctx.rng.choice([ctx.rng.uniform(3, 50), ctx.rng.uniform(3, 50), ctx.rng.uniform(130, 177), ctx.rng.uniform(55, 125)])
        f["bstar"] = (ctx.rng.randint(20000, 99999), -1, " ")
        if k % 2 == 1:
            # second family: nearly circular, low, strong drag -- the modelled eccentricity runs below -1e-3 before the
            # radius does anything (the ValueError guard of _calculate_e)
            f["mm"] = ctx.rng.uniform(15.2, 15.9)
            f["ecc"] = ctx.rng.randint(1, 3000)
            f["inc"] = ctx.rng.uniform(20, 160)
            f["bstar"] = (ctx.rng.randint(60000, 99999), -1, " ")          # about a third of these end in the ValueError
        l1, l2 = tlegen.make(**f)
        iclass, orb = sgp4common.impl_init(l1, l2)
        if iclass != "ok":
            continue
        ep = orb.tle.epoch.astype("datetime64[us]")

        def at(seconds):
            t = ep + np.timedelta64(int(seconds) * 10**6, "us")
            return sgp4common.impl_prop(orb, t)
        first_bad = None
        for step in range(0, 20000, 7):                         # minutes
            pclass, state = at(step * 60)
            ctx.case(("decay", l1, l2, step))
            if pclass != "ok":
                if pclass in ("hang",) or pclass.startswith("raise:"):
                    ctx.violation("propagation ended with %s" % pclass, {"signature": "C13:prop:%s:%s" % (pclass, l2[8:63]), "line1": l1, "line2": l2, "minutes": step})
                first_bad = step
                break
            bad, r_km = answered_badly(state)
            if bad:
                ctx.violation("a decayed orbit was answered (state inside the earth or not finite) instead of raising",
                              {"signature": "C13:decayed:%s:%d" % (l2[8:63], step * 60), "line1": l1, "line2": l2, "seconds": step * 60, "radius_km": r_km})
                first_bad = None
                break
        if first_bad and first_bad >= 7:
            # ARRAY times: the last answered instant and the first refused one in a single call must be refused too
            # (the guards are np.any over the instants; an answer would carry a decayed state for the later instant)
            times = ep + (np.array([first_bad - 7, first_bad]) * 60 * 10**6).astype("timedelta64[us]")
            ctx.case(("decay-array", l1, l2, first_bad))
            try:
                with common.time_limit(30):
                    pos_a, _vel_a = orb.get_position(times, normalize=False)
                r_a = np.sqrt((np.asarray(pos_a, dtype=float) ** 2).sum(axis=0))
                ctx.violation("an array call that includes a decayed instant was answered instead of raising",
                              {"signature": "C13:decayed-array:%s:%d" % (l2[8:63], first_bad), "line1": l1, "line2": l2,
                               "minutes": [first_bad - 7, first_bad], "radius_km": [float(x) for x in r_a]})
            except common.Timeout:
                ctx.violation("propagation of an array of instants did not return", {"signature": "C13:array-hang:%s" % l2[8:63], "line1": l1, "line2": l2})
            except Exception:
                pass
        if first_bad:
            # the last revolution before the first refusal, every 5 s: the satellite dips through the surface there
            for sec in range(max(0, (first_bad - 100) * 60), first_bad * 60, 5):
                pclass, state = at(sec)
                ctx.case(("decay-fine", l1, l2, sec))
                if pclass != "ok":
                    continue
                bad, r_km = answered_badly(state)
                if bad:
                    ctx.violation("a decayed orbit was answered (state inside the earth or not finite) instead of raising",
                                  {"signature": "C13:decayed:%s:%d" % (l2[8:63], sec), "line1": l1, "line2": l2, "seconds": sec, "radius_km": r_km})
                    break
