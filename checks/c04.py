"""C04 — sub-satellite lon/lat/alt and observer position.  Tie: T-gen (Gen_orbital.v and
Gen_astronomy.v regenerated from source) + translator self-check + implementation oracle."""
import datetime as dt
import math

import numpy as np

from harness import common, numeric, tlegen
from checks.c12 import iau82, J2000_US
from fractions import Fraction

LEVEL = "proof"
A = 6378.137
F = 1 / 298.257223563
E2 = F * (2 - F)
OMEGA = 7.292115e-5


def wgs84_eci(lon_deg, lat_deg, alt, theta_g):
    """independent WGS-84 geodetic -> ECI (km)"""
    phi, lam = math.radians(lat_deg), math.radians(lon_deg)
    n = A / math.sqrt(1 - E2 * math.sin(phi) ** 2)
    rho = (n + alt) * math.cos(phi)
    return (rho * math.cos(theta_g + lam), rho * math.sin(theta_g + lam), (n * (1 - E2) + alt) * math.sin(phi))


def d_of(t64):
    return Fraction(int(np.datetime64(t64, "us").astype("int64")) - J2000_US, 86400 * 10**6)


def run(ctx):
    from pyorbital import astronomy, geoloc
    from pyorbital.orbital import Orbital
    import symtrace as st
    ctx.rule = ("random near-earth TLEs x times within +-30 d of epoch (scalars and arrays); observers lon in [-180,180], "
                "lat in [-90,90] incl. poles and the date line, alt in [0,40000] km; distinct = distinct (tle, time) or observer")
    ctx.assumptions += [
        "the geodetic-latitude loop is modelled on the paths that leave it at exit test 1..6; the correspondence run reports any input on which the implementation needs more iterations",
        "binary64 rounding (incl. r/cos(lat) within ~350 m of the polar axis) is sampled, not proved; theorems are over the reals",
        "translator trusted for 'emitted term = what the code computes over R'; self-checked each run against the interpreter",
    ]
    tr_a, defs_a = numeric.regen(ctx, "astronomy")
    tr, defs = numeric.regen(ctx, "orbital")
    if tr is not None:
        dd = {n: (ins, node) for n, ins, node in defs}
        props = {n: conds for n, ins, conds in tr.props}

        def model_lla(env, prefix="gen_lla"):
            roots = [dd[prefix + "_lon"][1]]
            (lon,), cond = st.evalf(tr.g, env, roots)
            for k in range(1, 7):
                if all(cond(c) == taken for c, taken in props["%s_exit_p%d" % (prefix, k)]):
                    (lat, alt), _ = st.evalf(tr.g, env, [dd["%s_lat_p%d" % (prefix, k)][1], dd["%s_alt_p%d" % (prefix, k)][1]])
                    return k, lon, lat, alt
            return None, lon, None, None

        for i in range(ctx.n(150, 1500)):
            r = ctx.rng.uniform(6500, 46000) if i % 4 else ctx.rng.uniform(6400, 7500)
            lat0 = math.asin(ctx.rng.uniform(-1, 1)) if i % 5 else ctx.rng.choice([-1, 1]) * (math.pi / 2 - 10 ** ctx.rng.uniform(-7, -2))
            lam0 = ctx.rng.uniform(-math.pi, math.pi)
            env = {"x": r * math.cos(lat0) * math.cos(lam0), "y": r * math.cos(lat0) * math.sin(lam0), "z": r * math.sin(lat0),
                   "d": ctx.rng.randint(-20000 * 86400, 20000 * 86400) / 86400.0}
            t = np.datetime64(J2000_US + int(round(env["d"] * 86400e6)), "us")
            env["d"] = float(d_of(t))
            k, lon, lat, alt = model_lla(env)
            try:
                with common.time_limit(20):
                    ilon, ilat, ialt = geoloc.get_lonlatalt(np.array([env["x"], env["y"], env["z"]]), t)
            except Exception as e:
                ctx.corr_fail("Gen_orbital.gen_geoloc_lla vs geoloc.get_lonlatalt", {"env": env, "impl": "raise:" + type(e).__name__})
                continue
            ctx.case(("lla", i), {"env": env, "model_exit_path": k, "model": [lon, lat, alt], "impl": [float(ilon), float(ilat), float(ialt)]} if i < 3 else None)
            if k is None:
                ctx.corr_fail("latitude loop needs more than 6 exit tests (outside the modelled paths)", {"env": env})
                continue
            dl = (lon - float(ilon) + 180) % 360 - 180
            if abs(dl) > 1e-9 or abs(lat - float(ilat)) > 1e-9 or abs(alt - float(ialt)) > 1e-6:
                ctx.corr_fail("Gen_orbital.gen_lla (binary64 DAG) vs geoloc.get_lonlatalt",
                              {"env": env, "path": k, "model": [lon, lat, alt], "impl": [float(ilon), float(ilat), float(ialt)]})

        def gen_env(rng):
            us = rng.randint(-20000 * 86400 * 10**6, 20000 * 86400 * 10**6)
            return {"d": us / 86400e6, "lon": rng.uniform(-180, 180), "lat": rng.choice([rng.uniform(-90, 90), 90.0, -90.0, 0.0]),
                    "alt": rng.choice([0.0, rng.uniform(0, 10), rng.uniform(0, 40000)])}

        def impl(name, env):
            t = np.datetime64(J2000_US + int(round(env["d"] * 86400e6)), "us")
            (x, y, z), (vx, vy, vz) = astronomy.observer_position(t, env["lon"], env["lat"], env["alt"])
            return float({"gen_observer_x": x, "gen_observer_y": y, "gen_observer_z": z, "gen_observer_vx": vx,
                          "gen_observer_vy": vy, "gen_observer_vz": vz}[name])
        names = ["gen_observer_x", "gen_observer_y", "gen_observer_z", "gen_observer_vx", "gen_observer_vy", "gen_observer_vz"]
        adefs = [d for d in defs_a] if defs_a else []
        numeric.selfcheck(ctx, tr_a, adefs, names, gen_env, impl, n=ctx.n(60, 600), rtol=1e-9, atol=1e-6)
        numeric.coq_point_check(ctx, "Gen_astronomy", adefs, ["gen_observer_x", "gen_observer_z"], gen_env, impl, n=2,
                                tol="1/1000000", unfold="gen_observer_x gen_observer_z gen_gmst pymod deg2rad")
    ctx.build_props("props/C04.v")

    # ---------------- oracle on the implementation ----------------
    tles = list(tlegen.CORPUS) + [tlegen.random_tle(ctx.rng) for _ in range(ctx.n(10, 80))]
    for ti, (l1, l2) in enumerate(tles):
        try:
            orb = Orbital("X", line1=l1, line2=l2)
        except Exception:
            continue
        epoch = orb.tle.epoch.astype("datetime64[us]")
        offs = [ctx.rng.uniform(-30, 30) for _ in range(ctx.n(8, 30))]
        times = np.array([epoch + np.timedelta64(int(o * 86400e6), "us") for o in offs])
        try:
            with common.time_limit(60):
                pos, vel = orb.get_position(times, normalize=False)
                lon, lat, alt = orb.get_lonlatalt(times)
                lon2, lat2, alt2 = geoloc.get_lonlatalt(pos, times)
        except Exception as e:
            if type(e).__name__ in ("Exception", "NotImplementedError", "ValueError"):   # decayed / refused: C13's business
                continue
            ctx.violation("get_lonlatalt raised %s" % type(e).__name__, {"signature": "C04:raise:%s" % type(e).__name__, "line1": l1, "line2": l2, "error": str(e)})
            continue
        if not (np.array_equal(lon, lon2) and np.array_equal(lat, lat2) and np.array_equal(alt, alt2)):
            ctx.violation("object method and module function disagree", {"signature": "C04:method-module:%d" % ti, "line1": l1, "line2": l2,
                                                                          "times": [str(t) for t in times]})
        for j, t in enumerate(times):
            ctx.case(("orb", ti, j), {"line1": l1, "line2": l2, "time": str(t), "lon": float(lon[j]), "lat": float(lat[j]), "alt": float(alt[j])} if ti == 0 and j == 0 else None)
            base = {"line1": l1, "line2": l2, "time": str(t)}
            if not (-180.0 < lon[j] <= 180.0):
                ctx.violation("longitude outside (-180, 180]", {"signature": "C04:lonrange:%d:%d" % (ti, j), **base, "lon": float(lon[j])})
            if not (-90.0 <= lat[j] <= 90.0):
                ctx.violation("latitude outside [-90, 90]", {"signature": "C04:latrange:%d:%d" % (ti, j), **base, "lat": float(lat[j])})
            g = iau82(d_of(t))
            rec = wgs84_eci(float(lon[j]), float(lat[j]), float(alt[j]), g)
            p = pos[:, j]
            err = math.dist(rec, p) / float(np.linalg.norm(p))
            if not err <= 2e-6:
                ctx.violation("WGS-84 + GMST reconstruction of (lon, lat, alt) misses the position by more than 2e-6 of its length",
                              {"signature": "C04:roundtrip:%d:%d" % (ti, j), **base, "relative_error": err, "lla": [float(lon[j]), float(lat[j]), float(alt[j])], "pos": [float(v) for v in p]})
            # the same instant as a scalar: same answer (1e-6, C08) and the same round trip; a scalar call
            # leaves the latitude loop on its own exit test, an array only when every element has
            slon, slat, salt = orb.get_lonlatalt(t)
            if abs(float(slon) - float(lon[j])) > 1e-6 or abs(float(slat) - float(lat[j])) > 1e-6 or abs(float(salt) - float(alt[j])) > 1e-6:
                ctx.violation("scalar and array sub-satellite points differ", {"signature": "C04:scalar-array:%d:%d" % (ti, j), **base,
                                                                              "scalar": [float(slon), float(slat), float(salt)], "array": [float(lon[j]), float(lat[j]), float(alt[j])]})
            rec_s = wgs84_eci(float(slon), float(slat), float(salt), g)
            err_s = math.dist(rec_s, p) / float(np.linalg.norm(p))
            if not err_s <= 2e-6:
                ctx.violation("WGS-84 + GMST reconstruction of the scalar (lon, lat, alt) misses the position by more than 2e-6 of its length",
                              {"signature": "C04:roundtrip-scalar:%d:%d" % (ti, j), **base, "relative_error": err_s, "lla": [float(slon), float(slat), float(salt)], "pos": [float(v) for v in p]})
            ps, _vs = orb.get_position(t, normalize=False)
            mlon, mlat, malt = geoloc.get_lonlatalt(np.asarray(ps, dtype=float), t)
            if not (float(mlon) == float(slon) and float(mlat) == float(slat) and float(malt) == float(salt)):
                ctx.violation("object method and module function disagree on a scalar instant",
                              {"signature": "C04:method-module-scalar:%d:%d" % (ti, j), **base, "method": [float(slon), float(slat), float(salt)], "module": [float(mlon), float(mlat), float(malt)]})
            if j == 0:
                loc = orb.utc2local(t.astype(dt.datetime))
                want = t.astype(dt.datetime) + dt.timedelta(hours=float(slon) / 15.0)
                if abs((loc - want).total_seconds()) > 1e-5:
                    ctx.violation("local time is not UTC + longitude/15 h", {"signature": "C04:localtime:%d" % ti, **base, "got": str(loc), "want": str(want)})
    # observer position: inverse, velocity
    for i in range(ctx.n(200, 2000)):
        lo = ctx.rng.choice([ctx.rng.uniform(-180, 180), 180.0, -180.0, 179.999999, 0.0])
        la = ctx.rng.choice([ctx.rng.uniform(-90, 90), 90.0, -90.0, 89.9999, 0.0])
        al = ctx.rng.choice([0.0, ctx.rng.uniform(0, 9), ctx.rng.uniform(0, 40000)])
        t = np.datetime64(J2000_US + ctx.rng.randint(-18000 * 86400, 18000 * 86400) * 10**6, "us")
        ctx.case(("obs", i), {"lon": lo, "lat": la, "alt": al, "time": str(t)} if i == 0 else None)
        base = {"lon": lo, "lat": la, "alt": al, "time": str(t)}
        try:
            with common.time_limit(20):
                (x, y, z), (vx, vy, vz) = astronomy.observer_position(t, lo, la, al)
        except Exception as e:
            ctx.violation("observer_position raised %s" % type(e).__name__, {"signature": "C04:obs-raise:%s" % type(e).__name__, **base})
            continue
        g = iau82(d_of(t))
        rec = wgs84_eci(lo, la, al, g)
        n = math.sqrt(x * x + y * y + z * z)
        if not math.dist(rec, (x, y, z)) <= 2e-6 * n:
            ctx.violation("observer_position is not the WGS-84 geodetic -> ECI point", {"signature": "C04:obs-spec:%d" % i, **base, "impl": [float(x), float(y), float(z)], "spec": rec})
        if not (abs(vx + OMEGA * y) <= 1e-12 * n and abs(vy - OMEGA * x) <= 1e-12 * n and vz == 0):
            ctx.violation("observer velocity is not earth-rotation cross position", {"signature": "C04:obs-vel:%d" % i, **base})
        # inverse: converting the observer position back gives lon/lat/alt
        try:
            with common.time_limit(20):
                blon, blat, balt = geoloc.get_lonlatalt(np.array([x, y, z], dtype=float), t)
        except common.Timeout:
            ctx.violation("get_lonlatalt did not return", {"signature": "C04:inverse-hang:%d" % i, **base})
            continue
        rec2 = wgs84_eci(float(blon), float(blat), float(balt), g)
        if not math.dist(rec2, (x, y, z)) <= 2e-6 * n:
            ctx.violation("get_lonlatalt(observer_position(lon, lat, alt)) does not reproduce the point within 2e-6",
                          {"signature": "C04:inverse:%d" % i, **base, "back": [float(blon), float(blat), float(balt)]})
