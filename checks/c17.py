"""C17 — downloads degrade per URI; timeouts are loud.  Tie: T-corr (hand-written M_Download.v; every
outcome assignment over <= 5 URIs in <= 3 sources run on tlefile.Downloader under an interposed
`requests` layer and, inside Coq, on the model)."""
import itertools
import logging
import re
from unittest import mock

from harness import common, tlegen, numeric

LEVEL = "proof"
KNOWN_SIG = "C17:body-line-starting-with-1-not-tle"

TEXTS = ["ISS (ZARYA)", "NOAA 18", "No GP data found", "<html>", "<body>error</body>", "2 not a tle line", "0 OBJECT A"]
JUNK1 = ["1 error occurred", "1 25544U junk line", "1 "]
BLANKS = ["", "   ", "\t"]
ERR_STATUS = [404, 500, 418, 503, 403, 301, 204]
SRC_NAMES = ["zeta", "alpha", "mid"]          # insertion order differs from sorted order


class Pool:
    """numbered TLEs; line texts <-> model line classes"""

    def __init__(self, rng, n=9):
        self.tles = list(tlegen.CORPUS) + [tlegen.random_tle(rng) for _ in range(n - len(tlegen.CORPUS))]
        self.l1 = {t[0]: i + 1 for i, t in enumerate(self.tles)}
        self.l2 = {t[1]: i + 1 for i, t in enumerate(self.tles)}
        assert len(self.l1) == len(self.tles) == len(self.l2)

    def text(self, rng, line):
        k = line[0]
        if k == "B":
            return rng.choice(BLANKS)
        if k == "T":
            return rng.choice(TEXTS)
        if k == "J":
            return rng.choice(JUNK1[:2])
        pad = rng.choice(["", "", " ", "  "])
        return pad + self.tles[line[1] - 1][0 if k == "1" else 1] + rng.choice(["", "", " "])


def coq_line(line):
    return {"B": "LBlank", "T": "LText", "J": "LJunk1"}.get(line[0]) or ("(LOne %d)" % line[1] if line[0] == "1" else "(LTwo %d)" % line[1])


def render(pool, rng, lines):
    nl = rng.choice(["\n", "\n", "\r\n"])
    texts = [pool.text(rng, l) for l in lines]
    txt = nl.join(texts)
    if texts and (texts[-1] == "" or rng.random() < 0.8):   # a final empty line exists only if terminated
        txt += nl
    return txt


def gen_collection(pool, rng, k):
    """a well-formed TLE collection of k entries, names / blank lines as filler"""
    lines = []
    names = rng.random() < 0.5
    for _ in range(k):
        if names:
            lines.append(("T",))
        if rng.random() < 0.15:
            lines.append(("B",))
        i = rng.randint(1, len(pool.tles))
        lines += [("1", i), ("2", i)]
    if rng.random() < 0.3:
        lines.append(("B",))
    return lines


def gen_nontle(pool, rng):
    return [rng.choice([("T",), ("T",), ("B",), ("2", rng.randint(1, len(pool.tles)))]) for _ in range(rng.randint(0, 4))]


def gen_wild(pool, rng):
    """any sequence of line classes (exercises the scanner incl. the known-finding stratum)"""
    out = []
    for _ in range(rng.randint(1, 6)):
        r = rng.random()
        i = rng.randint(1, len(pool.tles))
        if r < 0.3:
            out += [("1", i), ("2", i if rng.random() < 0.8 else rng.randint(1, len(pool.tles)))]
        elif r < 0.45:
            out.append(("1", i))
        elif r < 0.55:
            out.append(("2", i))
        elif r < 0.7:
            out.append(("J",))
        elif r < 0.85:
            out.append(("B",))
        else:
            out.append(("T",))
    return out


def spec_entries(lines):
    """independent reading of a body: complete (line 1, line 2) pairs in order; None if the body is
    outside 'entries / non-TLE text' in the clean sense (junk '1 ' line or line 1 without line 2)"""
    out, i, dirty = [], 0, False
    while i < len(lines):
        l = lines[i]
        if l[0] == "1" and i + 1 < len(lines) and lines[i + 1][0] == "2":
            out.append((l[1], lines[i + 1][1]))
            i += 2
            continue
        if l[0] in "1J":
            dirty = True
        i += 1
    return out, dirty


class Resp:
    def __init__(self, status, text):
        self.status_code = status
        self.text = text


def exc_code(e):
    import requests
    from pyorbital import tlefile
    if isinstance(e, tlefile.TleDownloadTimeoutError):
        return 1
    if isinstance(e, StopIteration):
        return 2
    if isinstance(e, (tlefile.ChecksumError, ValueError, IndexError)):
        return 4
    if isinstance(e, requests.exceptions.Timeout):
        return 8                     # raw requests timeout leaking through
    return 9


def entries_of(pool, tles):
    out = []
    for t in tles:
        i = pool.l1.get(t.line1, 0)
        j = pool.l2.get(t.line2, 0)
        out.append((i, j))
    return out


def run_plain(pool, case):
    """case: list of (source name, [outcome]); outcome = ("R", status, lines, text) | ("T", exc class)
    -> (canonical result, call log)"""
    import requests
    from pyorbital import tlefile
    table, sources = {}, {}
    for s, (name, us) in enumerate(case):
        sources[name] = []
        for u, o in enumerate(us):
            uri = "https://example.invalid/%s/%s%d" % (name, "zyxwvutsrq"[u % 10], u)   # list order is NOT lexical order
            sources[name].append(uri)
            table[uri] = o
    calls = []

    def fake_get(uri, *a, **kw):
        calls.append((uri, kw.get("timeout")))
        o = table[uri]
        if o[0] == "T":
            raise o[1]("interposed")
        return Resp(o[1], o[3])

    cfg = {"downloaders": {"fetch_plain_tle": sources}, "platforms": {}}
    dl = []

    def one_fetch():
        try:
            with common.time_limit(20):
                if not dl:
                    dl.append(tlefile.Downloader(cfg))
                r = dl[0].fetch_plain_tle()
            if not isinstance(r, dict):
                return ["type", type(r).__name__]
            return [0, [(name, entries_of(pool, v)) for name, v in r.items()]]
        except common.Timeout:
            return [7]
        except BaseException as e:      # StopIteration is an Exception; keep BaseException for safety
            if isinstance(e, (KeyboardInterrupt, SystemExit)):
                raise
            return [exc_code(e), type(e).__name__]

    with mock.patch.object(tlefile.requests, "get", fake_get):
        res = one_fetch()
        first_calls = list(calls)
        # a polling service keeps ONE Downloader and fetches again: the second answer (same outcomes served) is the one
        # judged whenever it differs from the first
        del calls[:]
        res2 = one_fetch()
        if res2 != res:
            return res2, calls
    return res, first_calls


def coq_case(case, idx):
    parts = []
    for s, (name, us) in enumerate(case):
        outs = []
        for o in us:
            if o[0] == "T":
                outs.append("Timeout")
            else:
                outs.append("Resp %d [%s]" % (o[1], "; ".join(coq_line(l) for l in o[2])))
        parts.append("(%d, [%s])" % (idx[name], "; ".join(outs)))
    return "[%s]" % "; ".join(parts)


HEADER = ("From Coq Require Import List ZArith.\nImport ListNotations.\nFrom PyOrb.model Require Import M_Download.\n"
          "Open Scope Z_scope.\nSet Printing Depth 1000000.\nSet Printing Width 200.\n")


def parse_lists(out):
    body = out[out.index("="):]
    body = body[:body.rindex(": list")]
    return [[int(x) for x in re.findall(r"-?\d+", m)] for m in re.findall(r"\[([^\[\]]*)\]", body)]


def coq_fetch(cases, idx):
    text = HEADER + "Eval vm_compute in (map (fun c => enc_res (fetch_sources c)) [\n%s\n])." % ";\n".join(
        coq_case(c, idx) for c in cases)
    ok, out = common.coq_eval("c17", text, timeout=600)
    if not ok or "=" not in out:
        return None, out
    res = parse_lists(out)
    if len(res) != len(cases):
        return None, out
    return res, out


def model_decode(enc, names):
    if enc[0] != 0:
        return [enc[0]]
    n, pos, out = enc[1], 2, []
    for _ in range(n):
        s, k = enc[pos], enc[pos + 1]
        out.append((names[s], [(v // 1000, v % 1000) for v in enc[pos + 2:pos + 2 + k]]))
        pos += 2 + k
    return [0, out]


def ser_case(case):
    return [[name, [["R", o[1], o[3]] if o[0] == "R" else ["T", o[1].__name__] for o in us]] for name, us in case]


def oracle_plain(ctx, pool, case, res, calls, label):
    """the property text, checked on the implementation independently of the model"""
    import requests
    flat = [(name, o) for name, us in case for o in us]
    dirty = False
    want = []
    for name, us in case:
        acc = []
        for o in us:
            if o[0] == "R" and o[1] == 200:
                es, d = spec_entries(o[2])
                dirty = dirty or d
                acc += es
        want.append((name, acc))
    any_timeout = any(o[0] == "T" for _, o in flat)
    replay = {"sources": ser_case(case), "impl": repr(res)[:300]}
    sig = "C17:%s:%s" % (label, "|".join("%s=%s" % (name, ",".join("T" if o[0] == "T" else str(o[1]) + ("+%d" % len(o[2]) if o[0] == "R" else "")
                                                                  for o in us)) for name, us in case))
    for uri, to in calls:
        if to != 15:
            ctx.violation("requests.get called without the 15 s timeout", {"signature": sig + ":to", **replay})
            break
    if dirty:
        # known-finding stratum: a junk line starting with "1 " or a line 1 without its line 2 in a 200 body
        if res[0] not in (0, 1):
            ctx.violation("200 body with a non-TLE line starting with '1 ' raises instead of contributing no entries",
                          {"signature": KNOWN_SIG, **replay})
        return
    if any_timeout:
        if res[0] != 1:
            ctx.violation("a timeout did not surface as TleDownloadTimeoutError (got %r)" % (res[:2],), {"signature": sig, **replay})
        return
    if res[0] != 0:
        ctx.violation("exception %r although every URI answered (no timeout)" % (res[1:],), {"signature": sig, **replay})
        return
    if [n for n, _ in res[1]] != [n for n, _ in want]:
        ctx.violation("configured sources missing/reordered in the result", {"signature": sig, "want": repr(want), **replay})
    elif res[1] != want:
        ctx.violation("per-source result is not the in-order concatenation of its successful URIs", {"signature": sig, "want": repr(want)[:300], **replay})


def make_outcome(pool, rng, cls):
    import requests
    if cls == "ok":
        lines = gen_collection(pool, rng, rng.choice([0, 1, 1, 2, 3]))
        return ("R", 200, lines, render(pool, rng, lines))
    if cls == "txt":
        lines = gen_nontle(pool, rng)
        return ("R", 200, lines, render(pool, rng, lines))
    if cls == "err":
        lines = rng.choice([gen_collection(pool, rng, 1), gen_nontle(pool, rng), gen_wild(pool, rng)])
        return ("R", rng.choice(ERR_STATUS), lines, render(pool, rng, lines))
    if cls == "wild":
        lines = gen_wild(pool, rng)
        return ("R", 200, lines, render(pool, rng, lines))
    return ("T", rng.choice([requests.exceptions.Timeout, requests.exceptions.ConnectTimeout, requests.exceptions.ReadTimeout]))


def shapes(n, maxs=3):
    """ordered splits of n URIs over 1..maxs sources (sources may have no URI)"""
    out = []
    for s in range(1, maxs + 1):
        for cuts in itertools.combinations_with_replacement(range(n + 1), s - 1):
            b = (0,) + cuts + (n,)
            out.append([b[i + 1] - b[i] for i in range(s)])
    return out


CLASSES = ["ok", "txt", "err", "to"]


def build_case(pool, rng, shape, assign, names):
    case, k = [], 0
    for si, cnt in enumerate(shape):
        case.append((names[si], [make_outcome(pool, rng, assign[k + j]) for j in range(cnt)]))
        k += cnt
    return case


def spacetrack(ctx, pool):
    from pyorbital import tlefile
    rng = ctx.rng
    runs = []
    for login in (200, 401, 500):
        for qs in (200, 404, 500):
            for rep in range(ctx.n(3, 8)):
                lines = rng.choice([gen_collection(pool, rng, rng.choice([0, 1, 2, 3])), gen_nontle(pool, rng), gen_wild(pool, rng)])
                runs.append((login, qs, lines, render(pool, rng, lines)))
    text = HEADER + "Eval vm_compute in (map (fun c => enc_st (fetch_spacetrack (fst c) (snd c))) [\n%s\n])." % ";\n".join(
        "(%d, (%d, [%s]))" % (lg, qs, "; ".join(coq_line(l) for l in lines)) for lg, qs, lines, _ in runs)
    ok, out = common.coq_eval("c17st", text, timeout=300)
    model = parse_lists(out) if ok and "=" in out else None
    if model is None or len(model) != len(runs):
        ctx.corr_fail("M_Download.fetch_spacetrack evaluation in Coq", {"error": out[-400:]})
        return
    for (login, qs, lines, body), m in zip(runs, model):
        log = []

        class Sess:
            def __enter__(self):
                return self

            def __exit__(self, *a):
                return False

            def post(self, url, data=None, **kw):
                log.append(("post", url, dict(data or {})))
                return Resp(login, "")

            def get(self, url, **kw):
                log.append(("get", url))
                return Resp(qs, body)

        cfg = {"platforms": {25544: "ISS", 28654: "NOAA-18"},
               "downloaders": {"fetch_spacetrack": {"user": "u", "password": "p"}}}
        with mock.patch.object(tlefile.requests, "Session", Sess):
            try:
                with common.time_limit(20):
                    r = tlefile.Downloader(cfg).fetch_spacetrack()
                res = [0] + [a * 1000 + b for a, b in entries_of(pool, r)]
            except common.Timeout:
                res = [7]
            except Exception as e:
                res = [exc_code(e)]
        queried = any(c[0] == "get" for c in log)
        impl = [1 if queried else 0] + res
        ctx.case(("st", login, qs, body), {"spacetrack": [login, qs], "body_lines": len(lines), "impl": impl} if len(ctx.samples) < 6 and login == 200 and qs == 200 else None)
        if impl != m:
            ctx.corr_fail("M_Download.fetch_spacetrack vs Downloader.fetch_spacetrack",
                          {"login": login, "query": qs, "body": body, "model": m, "impl": impl})
        es, dirty = spec_entries(lines)
        rp = {"login": login, "query": qs, "body": body, "impl": impl}
        sig = "C17:st:%d:%d:%d" % (login, qs, len(lines))
        if login != 200:
            if queried or res != [0]:
                ctx.violation("failed Space-Track login must give [] without a query", {"signature": sig, **rp})
        elif qs != 200:
            if res != [0]:
                ctx.violation("failed Space-Track query must give []", {"signature": sig, **rp})
        elif dirty:
            if res[0] != 0:
                ctx.violation("200 body with a non-TLE line starting with '1 ' raises instead of contributing no entries",
                              {"signature": KNOWN_SIG, **rp})
        elif res != [0] + [a * 1000 + b for a, b in es]:
            ctx.violation("Space-Track success does not yield all served entries", {"signature": sig, "want": es, **rp})
        if login == 200 and log and log[0][0] == "post" and log[0][2] != {"identity": "u", "password": "p"}:
            ctx.violation("Space-Track login does not send the configured credentials", {"signature": sig + ":cred", **rp})


def parser_direct(ctx, pool):
    """the scanner alone: random line-class sequences, model parse_body vs _parse_tles_for_downloader"""
    import io
    from pyorbital import tlefile
    rng = ctx.rng
    bodies = [gen_wild(pool, rng) for _ in range(ctx.n(150, 450))] + [gen_nontle(pool, rng) for _ in range(20)] + \
             [gen_collection(pool, rng, k) for k in (0, 1, 2, 3) for _ in range(8)]
    texts = [render(pool, rng, b) for b in bodies]
    text = HEADER + "Eval vm_compute in (map (fun b => enc_parse (parse_body b)) [\n%s\n])." % ";\n".join(
        "[%s]" % "; ".join(coq_line(l) for l in b) for b in bodies)
    ok, out = common.coq_eval("c17p", text, timeout=300)
    model = parse_lists(out) if ok and "=" in out else None
    if model is None or len(model) != len(bodies):
        ctx.corr_fail("M_Download.parse_body evaluation in Coq", {"error": out[-400:]})
        return
    for b, t, m in zip(bodies, texts, model):
        try:
            with common.time_limit(20):
                r = tlefile._parse_tles_for_downloader((t,), io.StringIO)
            impl = [0] + [x * 1000 + y for x, y in entries_of(pool, r)]
        except common.Timeout:
            impl = [7]
        except Exception as e:
            impl = [exc_code(e)]
        ctx.case(("body", t), None)
        if impl != m:
            ctx.corr_fail("M_Download.parse_body vs tlefile._parse_tles_for_downloader", {"body": t, "model": m, "impl": impl})


def run(ctx):
    ctx.rule = ("fetch_plain_tle: every assignment of {200+entries, 200+non-TLE text, HTTP error status, timeout} to the URIs of every "
                "ordered split of n URIs over 1-3 sources (quick: n<=4 exhaustive + 500 random n=5; thorough: n<=5 exhaustive), body details "
                "(0-3 entries, name lines, blank lines, CRLF, error statuses) drawn per URI; plus wild bodies, the scanner alone, and "
                "Space-Track {login 200/401/500} x {query 200/404/500}; distinct = distinct (shape, assignment) / body text")
    ctx.assumptions += [
        "hand-written model M_Download.v tied to tlefile.Downloader by this run (model evaluated by vm_compute inside Coq)",
        "requests is interposed (requests.get / requests.Session replaced by unittest.mock): a response is (status_code, text); "
        "a timeout is requests.exceptions.Timeout or a subclass; other transport exceptions (ConnectionError...) are outside the property",
        "TLE lines are abstracted to classes (valid line 1 / valid line 2 / blank / other text / junk starting with '1 '); that a valid pair "
        "constructs a Tle and a non-matching pair raises is Tle.__init__ behaviour (C09/C13), exercised here on generated TLEs only",
        "known finding %s: 200 bodies with a junk line starting '1 ' or a lone line 1 raise (modelled faithfully, C17_line1_refuted)" % KNOWN_SIG,
    ]
    src, _names = numeric.regen_ast(ctx, "download", "the per-URI action of Downloader.fetch_plain_tle (timeout handler, status test, the two arms) "
                                    "and the loop structure around it; requests, the body parser and logging stay the hand model's",
                                    optional=True)
    ctx.build_props("props/C17.v")
    if src is not None:
        ctx.build_props("props/C17_source.v")
    logging.disable(logging.CRITICAL)
    try:
        rng = ctx.rng
        pool = Pool(rng)
        names = SRC_NAMES
        idx = {n: i + 1 for i, n in enumerate(names)}
        rev = {i + 1: n for i, n in enumerate(names)}
        cases = []
        nmax_exh = 4 if ctx.quick else 5
        for n in range(0, nmax_exh + 1):
            for shape in shapes(n):
                for assign in itertools.product(CLASSES, repeat=n):
                    cases.append(("exh", shape, assign, build_case(pool, rng, shape, assign, names)))
        if ctx.quick:
            for _ in range(500):
                n = 5
                shape = rng.choice(shapes(n))
                assign = tuple(rng.choice(CLASSES) for _ in range(n))
                cases.append(("rnd", shape, assign, build_case(pool, rng, shape, assign, names)))
        # wild bodies (scanner details, known-finding stratum) inside fetch_plain_tle
        for _ in range(ctx.n(150, 600)):
            n = rng.randint(1, 5)
            shape = rng.choice(shapes(n))
            assign = tuple(rng.choice(["ok", "wild", "wild", "err", "txt", "to"] if rng.random() < 0.2 else ["ok", "wild", "err", "txt"]) for _ in range(n))
            cases.append(("wild", shape, assign, build_case(pool, rng, shape, assign, names)))
        CH = 1500
        for c0 in range(0, len(cases), CH):
            chunk = cases[c0:c0 + CH]
            model, out = coq_fetch([c[3] for c in chunk], idx)
            if model is None:
                ctx.corr_fail("M_Download.fetch_sources evaluation in Coq", {"error": out[-400:]})
                continue
            for (label, shape, assign, case), enc in zip(chunk, model):
                res, calls = run_plain(pool, case)
                m = model_decode(enc, rev)
                key = (label, tuple(shape), assign) if label != "wild" else (label, repr(case))
                ctx.case(key, {"shape": shape, "assign": list(assign), "impl": repr(res)[:120]} if label == "exh" and len(shape) == 2 and assign[:2] == ("ok", "err") else None)
                if res[:1] + ([res[1]] if res[0] == 0 else []) != m:
                    ctx.corr_fail("M_Download.fetch_sources vs Downloader.fetch_plain_tle",
                                  {"sources": ser_case(case),
                                   "model": repr(m)[:300], "impl": repr(res)[:300]})
                oracle_plain(ctx, pool, case, res, calls, label)
        # the `"fetch_plain_tle" in config["downloaders"]` guard
        from pyorbital import tlefile
        r = tlefile.Downloader({"downloaders": {}}).fetch_plain_tle()
        ctx.case(("no-section",), None)
        if r != {}:
            ctx.violation("fetch_plain_tle without a configured section must return {}", {"signature": "C17:no-section", "impl": repr(r)})
        parser_direct(ctx, pool)
        spacetrack(ctx, pool)
    finally:
        logging.disable(logging.NOTSET)


def replay(ctx, rp):
    """re-run the recorded failing inputs of a replay file on the implementation"""
    import requests
    from pyorbital import tlefile
    logging.disable(logging.CRITICAL)
    bad = 0
    for item in rp.get("failing_inputs", []) + rp.get("broken_correspondence", []):
        if "sources" not in item:
            print("replay: (not a fetch_plain_tle input) %s" % str(item)[:200])
            continue
        table, sources = {}, {}
        for name, us in item["sources"]:
            sources[name] = []
            for u, o in enumerate(us):
                uri = "https://example.invalid/%s/%s%d" % (name, "zyxwvutsrq"[u % 10], u)   # list order is NOT lexical order
                sources[name].append(uri)
                table[uri] = o

        def fake_get(uri, *a, **kw):
            o = table[uri]
            if o[0] == "T":
                raise requests.exceptions.Timeout("interposed")
            return Resp(o[1], o[2])
        with mock.patch.object(tlefile.requests, "get", fake_get):
            try:
                r = tlefile.Downloader({"downloaders": {"fetch_plain_tle": sources}}).fetch_plain_tle()
                got = {k: [(t.line1, t.line2) for t in v] for k, v in r.items()}
            except BaseException as e:
                got = "raised %s: %s" % (type(e).__name__, e)
        print("replay: %s\n  sources=%s\n  now -> %s" % (item.get("what", item.get("correspondence")), item["sources"], str(got)[:400]))
        bad += 1
    return 1 if bad else 0
