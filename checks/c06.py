"""C06 — sun angles vs. the Astronomical-Almanac low-precision solar position.
Tie: T-gen (Gen_astronomy regenerated from source) + translator self-check + Coq theorems
(props/C06.v) + oracle on the implementation against an independent Almanac/IAU-82
implementation written from the literature formulas."""
import datetime as dt
import math

import numpy as np

from harness import common, numeric

LEVEL = "proof"
J2000_US = 946728000000000                # 2000-01-01T12:00:00 in microseconds since 1970
US_1950 = -631152000 * 10**6              # 1950-01-01T00:00:00
US_2051 = 2556144000 * 10**6              # 2051-01-01T00:00:00 (exclusive)
TOL_DEG = 0.03
TOL_AU = 0.0015
TOL_CONS = 1e-9
SUN_KERNELS = ("gen_sun_ecliptic_longitude", "gen_sun_ra", "gen_sun_dec", "gen_cos_zen",
               "gen_sun_zenith_angle", "gen_sun_alt", "gen_sun_az", "gen_sun_earth_distance_correction")


# --------------------------------------------------------------------------
# independent reference: Astronomical Almanac low-precision sun + IAU-1982 GMST
# --------------------------------------------------------------------------
def ref_sun(us):
    """us: int64 array of microseconds since 1970 (UTC).  Returns dict of float64 arrays."""
    us = np.asarray(us, dtype=np.int64)
    n = (us - J2000_US) / 86400e6                      # days from J2000.0
    L = 280.460 + 0.9856474 * n                        # deg
    g = np.radians(357.528 + 0.9856003 * n)
    lam_deg = L + 1.915 * np.sin(g) + 0.020 * np.sin(2 * g)
    lam = np.radians(lam_deg)
    eps = np.radians(23.439 - 0.0000004 * n)
    alpha = np.arctan2(np.cos(eps) * np.sin(lam), np.cos(lam))
    delta = np.arcsin(np.sin(eps) * np.sin(lam))
    R = 1.00014 - 0.01671 * np.cos(g) - 0.00014 * np.cos(2 * g)
    T = n / 36525.0
    sec = 67310.54841 + (876600.0 * 3600.0 + 8640184.812866) * T + 0.093104 * T**2 - 6.2e-6 * T**3
    gmst = np.radians(np.mod(sec, 86400.0) / 240.0)     # radians in [0, 2 pi)
    return {"n": n, "lam_deg": lam_deg, "eps": eps, "alpha": alpha, "delta": delta, "R": R, "gmst": gmst}


def ref_horizontal(ref, lon_deg, lat_deg):
    """zenith angle (deg), altitude (rad), azimuth clockwise from north (rad), local unit vector (E,N,U)"""
    th = ref["gmst"] + np.radians(lon_deg)
    ph = np.radians(lat_deg)
    a, dl = ref["alpha"], ref["delta"]
    s = np.array([np.cos(dl) * np.cos(a), np.cos(dl) * np.sin(a), np.sin(dl)])
    up = np.array([np.cos(ph) * np.cos(th), np.cos(ph) * np.sin(th), np.sin(ph)])
    east = np.array([-np.sin(th), np.cos(th), np.zeros_like(th)])
    north = np.array([-np.sin(ph) * np.cos(th), -np.sin(ph) * np.sin(th), np.cos(ph)])
    U = np.clip((s * up).sum(0), -1.0, 1.0)
    E = (s * east).sum(0)
    N = (s * north).sum(0)
    # zenith angle from the vector difference (accurate near 0 and 180, unlike arccos)
    chord = np.sqrt(((s - up) ** 2).sum(0))
    zen = np.degrees(2.0 * np.arcsin(np.clip(chord / 2.0, 0.0, 1.0)))
    return {"zen": zen, "alt": np.arcsin(U), "az": np.arctan2(E, N), "enu": np.array([E, N, U])}


def sep_deg(u, v):
    """angle in degrees between unit vectors (3,N)"""
    chord = np.sqrt(((u - v) ** 2).sum(0))
    return np.degrees(2.0 * np.arcsin(np.clip(chord / 2.0, 0.0, 1.0)))


def wrap180(x):
    return (x + 180.0) % 360.0 - 180.0


# --------------------------------------------------------------------------
# input generation
# --------------------------------------------------------------------------
def us_of(y, mo, d, hh=0, mi=0, ss=0, us=0):
    return int(np.datetime64(dt.datetime(y, mo, d, hh, mi, ss, us), "us").astype("int64"))


def rand_time(rng):
    k = rng.random()
    if k < 0.50:
        return rng.randrange(US_1950, US_2051), "uniform"
    if k < 0.65:     # equinoxes / solstices +- 36 h
        y = rng.randint(1950, 2050)
        mo, d = rng.choice([(3, 20), (6, 21), (9, 22), (9, 23), (12, 21)])
        t = us_of(y, mo, d, 12) + rng.randrange(-36 * 3600 * 10**6, 36 * 3600 * 10**6)
        return t, "season"
    if k < 0.80:     # year boundaries and the ends of the century
        y = rng.randint(1950, 2050)
        t = rng.choice([us_of(y, 12, 31, 23, 59, 59, 999999), us_of(y, 1, 1), us_of(y, 1, 1, 0, 0, 0, 1),
                        us_of(y, 12, 31, 23, 59, 59), US_1950, US_2051 - 1])
        return t, "year-boundary"
    if k < 0.95:     # every hour, on the hour
        day = rng.randrange(US_1950 // (86400 * 10**6), US_2051 // (86400 * 10**6))
        return day * 86400 * 10**6 + rng.randrange(24) * 3600 * 10**6, "on-the-hour"
    # leap day / J2000 epoch neighbourhood
    t = rng.choice([us_of(2000, 1, 1, 12), us_of(2000, 2, 29, 12), us_of(2024, 2, 29, 23, 59, 59, 999999),
                    us_of(1999, 12, 31, 23, 59, 59, 999999), us_of(2000, 1, 1, 11, 59, 59, 999999)])
    return t, "epoch"


def rand_lonlat(rng):
    k = rng.random()
    if k < 0.75:
        return rng.uniform(-360.0, 360.0), rng.uniform(-90.0, 90.0)
    lon = rng.choice([-360.0, -180.0, -90.0, 0.0, 90.0, 180.0, 360.0, rng.uniform(-360.0, 360.0)])
    lat = rng.choice([-90.0, 90.0, 0.0, -89.999999, 89.999999, 23.44, -23.44, rng.uniform(-90.0, 90.0)])
    return lon, lat


def iso(us):
    return str(np.datetime64(int(us), "us"))


def code_equinox_times(astronomy, rng, count):
    """instants (microsecond grid) where the implementation's own ecliptic longitude crosses an odd
    multiple of pi: the half-angle right-ascension formula cancels there (x + r -> 0)"""
    out = []
    for _ in range(count):
        y = rng.randint(1950, 2050)
        lo, hi = us_of(y, 9, 20), us_of(y, 9, 26)

        def s(u):
            return math.sin(float(astronomy.sun_ecliptic_longitude(np.datetime64(int(u), "us"))))
        try:
            with common.time_limit(20):
                slo, shi = s(lo), s(hi)
                if not (slo > 0 > shi):
                    continue
                while hi - lo > 1:
                    mid = (lo + hi) // 2
                    if s(mid) > 0:
                        lo = mid
                    else:
                        hi = mid
        except Exception:
            continue
        for off in (0, 1, -1, rng.randrange(-50, 50), rng.randrange(-10**6, 10**6)):
            out.append(lo + off)
    return out


# --------------------------------------------------------------------------
# implementation under test
# --------------------------------------------------------------------------
def call_impl(astronomy, t, lon, lat):
    """all six observed functions on one (scalar or array) input; outputs as float64 1-d arrays"""
    def arr(x):
        return np.atleast_1d(np.asarray(x, dtype=np.float64)).ravel()
    with np.errstate(all="ignore"):
        sza = arr(astronomy.sun_zenith_angle(t, lon, lat))
        cz = arr(astronomy.cos_zen(t, lon, lat))
        alt, az = astronomy.get_alt_az(t, lon, lat)
        ra, dec = astronomy.sun_ra_dec(t)
        ecl = arr(astronomy.sun_ecliptic_longitude(t))
        dist = arr(astronomy.sun_earth_distance_correction(t))
    return {"sza": sza, "cz": cz, "alt": arr(alt), "az": arr(az), "ra": arr(ra), "dec": arr(dec),
            "ecl": ecl, "dist": dist}


def bad(x, tol):
    """true where |x| <= tol fails (NaN counts as failure)"""
    return ~(np.abs(x) <= tol)


def compare(ctx, us, lon, lat, out, rep, tags):
    """the property on a batch; reports at most one violation (the worst input) per quantity"""
    us = np.atleast_1d(np.asarray(us, dtype=np.int64))
    lon = np.atleast_1d(np.asarray(lon, dtype=np.float64))
    lat = np.atleast_1d(np.asarray(lat, dtype=np.float64))
    n = len(us)
    for k, v in out.items():
        if v.shape != (n,):
            ctx.violation("%s returned shape %s for %d inputs" % (k, v.shape, n),
                          {"signature": "C06:shape:%s:%s" % (k, rep), "utc": iso(us[0]), "lon": float(lon[0]),
                           "lat": float(lat[0]), "rep": rep})
            return
    ref = ref_sun(us)
    hor = ref_horizontal(ref, lon, lat)
    with np.errstate(all="ignore"):
        czc = np.where(np.isnan(out["cz"]), np.nan, np.clip(out["cz"], -1.0, 1.0))
        impl_enu = np.array([np.cos(out["alt"]) * np.sin(out["az"]), np.cos(out["alt"]) * np.cos(out["az"]),
                             np.sin(out["alt"])])
        impl_eq = np.array([np.cos(out["dec"]) * np.cos(out["ra"]), np.cos(out["dec"]) * np.sin(out["ra"]),
                            np.sin(out["dec"])])
        ref_eq = np.array([np.cos(ref["delta"]) * np.cos(ref["alpha"]), np.cos(ref["delta"]) * np.sin(ref["alpha"]),
                           np.sin(ref["delta"])])
        # zenith from cos_zen: compare through the chord so that it stays accurate near 0 / 180
        zen_from_cz = np.degrees(np.arccos(czc))
        checks = [
            ("zenith", "sun_zenith_angle differs from the Almanac zenith angle by more than 0.03 deg",
             out["sza"] - hor["zen"], TOL_DEG, out["sza"], hor["zen"]),
            ("coszen", "arccos(cos_zen) differs from the Almanac zenith angle by more than 0.03 deg",
             zen_from_cz - hor["zen"], TOL_DEG, out["cz"], np.cos(np.radians(hor["zen"]))),
            ("altitude", "get_alt_az altitude differs from the Almanac altitude by more than 0.03 deg",
             np.degrees(out["alt"]) - (90.0 - hor["zen"]), TOL_DEG, np.degrees(out["alt"]), 90.0 - hor["zen"]),
            ("azimuth", "get_alt_az (altitude, azimuth clockwise from north) direction is more than 0.03 deg "
                        "from the Almanac sun direction in the local east-north-up frame",
             sep_deg(impl_enu, hor["enu"]), TOL_DEG, np.degrees(out["az"]), np.degrees(hor["az"])),
            ("azimuth-angle", "azimuth differs from the Almanac azimuth (clockwise from north) by more than "
                              "0.03 deg of arc on the sphere (difference weighted by cos(altitude))",
             wrap180(np.degrees(out["az"] - hor["az"])) * np.cos(hor["alt"]), TOL_DEG,
             np.degrees(out["az"]), np.degrees(hor["az"])),
            ("radec", "sun_ra_dec direction is more than 0.03 deg from the Almanac (alpha, delta)",
             sep_deg(impl_eq, ref_eq), TOL_DEG, np.degrees(out["ra"]), np.degrees(ref["alpha"])),
            ("declination", "declination differs from the Almanac delta by more than 0.03 deg",
             np.degrees(out["dec"] - ref["delta"]), TOL_DEG, np.degrees(out["dec"]), np.degrees(ref["delta"])),
            ("right-ascension", "right ascension differs (mod 360) from the Almanac alpha by more than 0.03 deg of arc",
             wrap180(np.degrees(out["ra"] - ref["alpha"])) * np.cos(ref["delta"]), TOL_DEG,
             np.degrees(out["ra"]), np.degrees(ref["alpha"])),
            ("ecliptic-longitude", "ecliptic longitude differs (mod 360) from the Almanac lambda by more than 0.03 deg",
             wrap180(np.degrees(out["ecl"]) - ref["lam_deg"]), TOL_DEG, np.degrees(out["ecl"]), ref["lam_deg"]),
            ("distance", "sun-earth distance factor differs from the Almanac R by more than 0.0015 AU",
             out["dist"] - ref["R"], TOL_AU, out["dist"], ref["R"]),
            ("consistency-alt", "zenith angle != 90 deg - altitude to 1e-9",
             out["sza"] - (90.0 - np.degrees(out["alt"])), TOL_CONS, out["sza"], 90.0 - np.degrees(out["alt"])),
            # cos_zen itself may round to 1.0000000000000002 at the sub-solar point: arccos of the clipped value
            ("consistency-cos", "zenith angle != degrees(arccos(cos_zen)) to 1e-9",
             out["sza"] - zen_from_cz, TOL_CONS, out["sza"], zen_from_cz),
        ]
    # NaN produced because cos_zen rounds just outside [-1, 1] (sun at the zenith / nadir): one finding class
    with np.errstate(all="ignore"):
        nanclass = (np.isnan(out["sza"]) | np.isnan(out["alt"])) & (np.abs(out["cz"]) > 1.0) & (np.abs(out["cz"]) < 1.0 + 1e-12)
    for i in np.where(nanclass)[0][:1]:
        ctx.violation("sun_zenith_angle / get_alt_az altitude is NaN with the sun at the zenith or nadir: "
                      "cos_zen rounds outside [-1, 1] and arccos/arcsin are applied without a clip",
                      {"signature": "C06:nan:%s:%r:%r" % (iso(us[i]), float(lon[i]), float(lat[i])),
                       "utc": iso(us[i]), "lon": float(lon[i]), "lat": float(lat[i]), "rep": rep, "cos_zen": repr(float(out["cz"][i])), "sun_zenith_angle": float(out["sza"][i]),
                       "altitude": float(out["alt"][i]), "expected_zenith_deg": float(hor["zen"][i])})
    for key, what, diff, tol, iv, rv in checks:
        b = bad(diff, tol) & ~nanclass
        if not b.any():
            continue
        idx = np.where(b)[0]
        a = np.abs(diff[idx])
        i = idx[int(np.argmax(np.where(np.isnan(a), np.inf, a)))]
        ctx.violation(what, {"signature": "C06:%s:%s:%r:%r" % (key, iso(us[i]), float(lon[i]), float(lat[i])),
                             "utc": iso(us[i]), "lon": float(lon[i]), "lat": float(lat[i]), "rep": rep,
                             "stratum": tags[i] if i < len(tags) else "", "impl": float(iv[i]), "spec": float(rv[i]),
                             "diff": float(diff[i]), "tolerance": tol, "failing_in_batch": int(b.sum())})


def run_batch(ctx, astronomy, us, lon, lat, rep, tags):
    """rep: 'array' (datetime64[us] array + float64 arrays), 'datetime' or 'datetime64' (scalars)"""
    us = [int(u) for u in us]
    if rep == "array":
        t = np.array(us, dtype=np.int64).astype("datetime64[us]")
        args = [(t, np.array(lon, dtype=np.float64), np.array(lat, dtype=np.float64), us, lon, lat, tags)]
    else:
        args = []
        for u, lo, la, tg in zip(us, lon, lat, tags):
            t64 = np.datetime64(u, "us")
            t = t64.item() if rep == "datetime" else t64
            args.append((t, float(lo), float(la), [u], [lo], [la], [tg]))
    for t, lo, la, u_, lo_, la_, tg_ in args:
        try:
            with common.time_limit(60):
                out = call_impl(astronomy, t, lo, la)
        except Exception as e:
            ctx.violation("sun functions raised %s" % type(e).__name__,
                          {"signature": "C06:raise:%s:%s" % (rep, type(e).__name__), "utc": iso(u_[0]),
                           "lon": float(lo_[0]), "lat": float(la_[0]), "rep": rep, "error": str(e)[:300]})
            continue
        compare(ctx, u_, lo_, la_, out, rep, tg_)
    for u, lo, la, tg in zip(us, lon, lat, tags):
        ctx.case((rep, u, lo, la), {"utc": iso(u), "lon": lo, "lat": la, "rep": rep, "stratum": tg})


def subsolar(ctx, astronomy, us, rng):
    """zenith 0 at the sub-solar point, 180 at its antipode: at the Almanac's sub-solar point (independent)
    and at the implementation's own (lat = dec, hour angle 0)"""
    us = np.array([int(u) for u in us], dtype=np.int64)
    t = us.astype("datetime64[us]")
    ref = ref_sun(us)
    pts = [("almanac", np.degrees(ref["delta"]), wrap180(np.degrees(ref["alpha"] - ref["gmst"])))]
    try:
        with common.time_limit(60), np.errstate(all="ignore"):
            ra, dec = astronomy.sun_ra_dec(t)
            g = astronomy.gmst(t)
        pts.append(("implementation", np.degrees(np.asarray(dec, float)), wrap180(np.degrees(np.asarray(ra, float) - np.asarray(g, float)))))
    except Exception as e:
        ctx.violation("sun_ra_dec/gmst raised %s" % type(e).__name__,
                      {"signature": "C06:raise:subsolar:%s" % type(e).__name__, "utc": iso(us[0]), "error": str(e)[:300]})
    for which, lat, lon in pts:
        # other representatives of the same meridian inside [-360, 360]
        shift = np.array([rng.choice([0.0, 360.0 if l < 0 else -360.0]) for l in lon])
        lon_s = lon + shift
        lon_a = np.where(lon_s + 180.0 <= 360.0, lon_s + 180.0, lon_s - 180.0)
        try:
            with common.time_limit(60), np.errstate(all="ignore"):
                z0 = np.asarray(astronomy.sun_zenith_angle(t, lon_s, lat), float)
                c0 = np.asarray(astronomy.cos_zen(t, lon_s, lat), float)
                z1 = np.asarray(astronomy.sun_zenith_angle(t, lon_a, -lat), float)
                c1 = np.asarray(astronomy.cos_zen(t, lon_a, -lat), float)
        except Exception as e:
            ctx.violation("sun_zenith_angle raised %s" % type(e).__name__,
                          {"signature": "C06:raise:subsolar2:%s" % type(e).__name__, "utc": iso(us[0]), "error": str(e)[:300]})
            continue
        for i in range(len(us)):
            ctx.case(("subsolar", which, int(us[i])), {"utc": iso(us[i]), "subsolar_point_of": which,
                                                       "lon": float(lon_s[i]), "lat": float(lat[i])})
        for name, z, c, lo, la, want in (("sub-solar point", z0, c0, lon_s, lat, 0.0), ("antipode", z1, c1, lon_a, -lat, 180.0)):
            with np.errstate(all="ignore"):
                nanclass = np.isnan(z) & (np.abs(c) > 1.0) & (np.abs(c) < 1.0 + 1e-12)
            for i in np.where(nanclass)[0][:1]:
                ctx.violation("sun_zenith_angle is NaN at the %s (%s): cos_zen rounds outside [-1, 1] and arccos is "
                              "applied without a clip" % (name, which),
                              {"signature": "C06:nan:%s:%r:%r" % (iso(us[i]), float(lo[i]), float(la[i])),
                               "utc": iso(us[i]), "lon": float(lo[i]), "lat": float(la[i]),
                               "cos_zen": repr(float(c[i])), "sun_zenith_angle": float(z[i]), "expected": want})
            # altitude from get_alt_az at the same places: finite, and zenith = 90 deg - altitude
            try:
                with common.time_limit(60), np.errstate(all="ignore"):
                    alt = np.degrees(np.asarray(astronomy.get_alt_az(t, lo, la)[0], float))
                ba = ~(np.abs((90.0 - alt) - z) <= 1e-6) & ~nanclass
                for i in np.where(ba)[0][:1]:
                    ctx.violation("get_alt_az altitude at the %s (%s) is not 90 deg - zenith (NaN or inconsistent)" % (name, which),
                                  {"signature": "C06:alt:%s:%r:%r" % (iso(us[i]), float(lo[i]), float(la[i])), "utc": iso(us[i]),
                                   "lon": float(lo[i]), "lat": float(la[i]), "altitude_deg": float(alt[i]), "zenith_deg": float(z[i]),
                                   "failing_in_batch": int(ba.sum())})
            except Exception as e:
                ctx.violation("get_alt_az raised %s" % type(e).__name__,
                              {"signature": "C06:raise:subsolar3:%s" % type(e).__name__, "utc": iso(us[0]), "error": str(e)[:300]})
            b = bad(z - want, TOL_DEG) & ~nanclass
            if b.any():
                idx = np.where(b)[0]
                a = np.abs(z[idx] - want)
                i = idx[int(np.argmax(np.where(np.isnan(a), np.inf, a)))]
                ctx.violation("zenith angle at the %s (of the %s sun) is not %g deg within 0.03 deg" % (name, which, want),
                              {"signature": "C06:subsolar:%s:%s:%s" % (which, name, iso(us[i])), "utc": iso(us[i]),
                               "lon": float(lo[i]), "lat": float(la[i]), "impl": float(z[i]), "spec": want,
                               "failing_in_batch": int(b.sum())})


# --------------------------------------------------------------------------
def run(ctx):
    from pyorbital import astronomy
    ctx.rule = ("UTC instants 1950-01-01 .. 2050-12-31 on the microsecond grid (50% uniform, 15% within 36 h of "
                "equinoxes/solstices, 15% year boundaries and the ends of the range, 15% on the hour for every hour, "
                "5% epoch/leap-day, plus the instants where the implementation's own ecliptic longitude crosses an odd "
                "multiple of pi) x lon in [-360,360] x lat in [-90,90] (25% boundary values), as float64 arrays and as "
                "scalars with datetime / datetime64; one time-array object advanced in place between queries (4 steps of 1-200 days); sub-solar and antipodal points of the Almanac sun and of the "
                "implementation's own sun; distinct = distinct (representation, instant, lon, lat)")
    ctx.assumptions += [
        "oracle = the Astronomical Almanac low-precision solar formulas (L, g, lambda, epsilon, alpha, delta, R) with hour angle from the IAU-1982 GMST, "
        "written independently in checks/c06.py (numpy float64) from the same literature formulas as coq/spec/Spec_Sun.v; UT1 = UTC",
        "theorems are over the reals; binary64 rounding of the evaluation (incl. the 1e-9 mutual consistency and the cancellation in the half-angle "
        "right-ascension formula near the September equinox) is sampled, not proved",
        "the real-number model has one singular instant per year (cos(ecliptic longitude) = -1 exactly, proved to exist: C06_ra_singular_instant) where the "
        "half-angle formula gives RA 0 instead of pi; it is not representable in binary64 (sin(eclon) is never 0.0 for eclon != 0) - the neighbourhood is sampled on the microsecond grid",
        "float32 / integer lon-lat inputs and dtype preservation are C08's subject; here lon/lat are float64 arrays or Python floats",
        "translator (symtrace/emit) trusted for 'emitted term = what the code computes over R'; self-checked each run by binary64 evaluation of the DAG and by "
        "Coq interval evaluation of the printed term against the interpreter",
        "C06_zenith_close (angles, not cosines: spherical triangle inequality) is not proved; zenith/altitude/azimuth closeness to 0.03 deg is established by "
        "C06_sun_direction + C06_coszen_is_dot + C06_coszen_close (cosine form) and sampled in angle form",
    ]
    # 1. regenerate the model from source + translator self-check
    tr, defs = numeric.regen(ctx, "astronomy")
    if tr is not None:
        fn = {"gen_sun_ecliptic_longitude": lambda t, lo, la: astronomy.sun_ecliptic_longitude(t),
              "gen_sun_ra": lambda t, lo, la: astronomy.sun_ra_dec(t)[0],
              "gen_sun_dec": lambda t, lo, la: astronomy.sun_ra_dec(t)[1],
              "gen_cos_zen": astronomy.cos_zen,
              "gen_sun_zenith_angle": astronomy.sun_zenith_angle,
              "gen_sun_alt": lambda t, lo, la: astronomy.get_alt_az(t, lo, la)[0],
              "gen_sun_az": lambda t, lo, la: astronomy.get_alt_az(t, lo, la)[1],
              "gen_sun_earth_distance_correction": lambda t, lo, la: astronomy.sun_earth_distance_correction(t)}

        def impl(name, env):
            t = np.datetime64(J2000_US + int(round(env["d"] * 86400e6)), "us")
            with np.errstate(all="ignore"):
                return float(fn[name](t, env["lon"], env["lat"]))

        def gen_env(rng):
            us = rng.randrange(US_1950, US_2051) - J2000_US
            return {"d": us / 86400e6, "lon": rng.uniform(-360.0, 360.0), "lat": rng.uniform(-89.0, 89.0)}
        numeric.selfcheck(ctx, tr, defs, SUN_KERNELS, gen_env, impl, n=ctx.n(40, 400), rtol=1e-9, atol=1e-9)

        def gen_env_pt(rng):
            us = rng.randrange(US_1950 // 10**6, US_2051 // 10**6) * 10**6 - J2000_US
            return {"d": us / 86400e6, "lon": 0.0, "lat": 0.0}
        numeric.coq_point_check(ctx, "Gen_astronomy", defs,
                                ["gen_sun_ecliptic_longitude", "gen_sun_earth_distance_correction"], gen_env_pt, impl,
                                n=3, tol="1/1000000000",
                                unfold="gen_sun_ecliptic_longitude gen_sun_earth_distance_correction deg2rad")
    # 2. proofs
    ctx.build_props("props/C06.v")
    # 3. oracle on the implementation
    rng = ctx.rng
    n_arr, n_sc, n_sub, n_eq = ctx.n(4000, 120000), ctx.n(150, 1500), ctx.n(1500, 30000), ctx.n(4, 40)
    # arrays, in chunks
    chunk = 2000
    for start in range(0, n_arr, chunk):
        m = min(chunk, n_arr - start)
        ts = [rand_time(rng) for _ in range(m)]
        ll = [rand_lonlat(rng) for _ in range(m)]
        run_batch(ctx, astronomy, [t for t, _ in ts], [a for a, _ in ll], [b for _, b in ll], "array", [g for _, g in ts])
    # scalars
    for rep in ("datetime", "datetime64"):
        ts = [rand_time(rng) for _ in range(n_sc)]
        ll = [rand_lonlat(rng) for _ in range(n_sc)]
        run_batch(ctx, astronomy, [t for t, _ in ts], [a for a, _ in ll], [b for _, b in ll], rep, [g for _, g in ts])
    # the numerically delicate neighbourhood of the model's singular instant
    eq = code_equinox_times(astronomy, rng, n_eq)
    if eq:
        ll = [rand_lonlat(rng) for _ in eq]
        run_batch(ctx, astronomy, eq, [a for a, _ in ll], [b for _, b in ll], "array", ["code-equinox"] * len(eq))
        run_batch(ctx, astronomy, eq[:20], [a for a, _ in ll[:20]], [b for _, b in ll[:20]], "datetime64", ["code-equinox"] * 20)
    # ONE time-array object (and one lon / lat array object) reused over a time-stepping loop, advanced in place between
    # queries: the answer must follow the arrays' contents, whatever the module was asked before; arguments stay untouched
    for gi in range(ctx.n(6, 40)):
        m = 4
        us0 = rand_time(rng)[0]
        ll = [rand_lonlat(rng) for _ in range(m)]
        t = (np.array([us0 + k * 3600 * 10**6 for k in range(m)], dtype=np.int64)).astype("datetime64[us]")
        lon = np.array([a for a, _ in ll], dtype=np.float64)
        lat = np.array([b for _, b in ll], dtype=np.float64)
        hist = []
        for step_i in range(4):
            us_now = [int(x) for x in t.astype("int64")]
            if not (US_1950 <= us_now[0] and us_now[-1] < US_2051):
                break
            lon0, lat0 = lon.copy(), lat.copy()
            try:
                with common.time_limit(60):
                    out = call_impl(astronomy, t, lon, lat)
            except Exception as e:
                ctx.violation("sun functions raised %s" % type(e).__name__,
                              {"signature": "C06:raise:stepped:%s" % type(e).__name__, "utc": iso(us_now[0]), "error": str(e)[:300]})
                break
            if [int(x) for x in t.astype("int64")] != us_now or not np.array_equal(lon, lon0) or not np.array_equal(lat, lat0):
                ctx.violation("a sun function modified its array arguments",
                              {"signature": "C06:stepped:mutated:%s" % iso(us_now[0]), "utc": iso(us_now[0]), "steps_before": hist})
                break
            compare(ctx, us_now, list(lon0), list(lat0), out,
                    "array (same object, advanced in place by %s)" % (" then ".join(hist) or "nothing yet"), ["stepped-%d" % step_i] * m)
            for u, lo, la in zip(us_now, lon0, lat0):
                ctx.case(("stepped", gi, step_i, u), {"utc": iso(u), "lon": float(lo), "lat": float(la), "rep": "array-stepped", "stratum": "stepped"})
            days = rng.choice([1, 10, 30, 91, 200])
            t += np.timedelta64(days, "D")
            hist.append("%d d" % days)
    # sub-solar point and antipode
    subsolar(ctx, astronomy, [rand_time(rng)[0] for _ in range(n_sub)] + eq[:50], rng)


def replay(ctx, rp):
    """re-run the recorded failing inputs on the implementation against the Almanac oracle"""
    from pyorbital import astronomy
    bad_n = 0
    for item in rp.get("failing_inputs", []):
        if "utc" not in item or "lon" not in item:
            print("replay: (no input) %s" % str(item)[:200])
            continue
        us = int(np.datetime64(item["utc"], "us").astype("int64"))
        lon, lat = float(item["lon"]), float(item.get("lat", 0.0))
        c2 = common.Ctx(ctx.pid, ctx.tier, ctx.seed)
        for rep in ("datetime64", "array"):
            run_batch(c2, astronomy, [us], [lon], [lat], rep, ["replay"])
        for v in c2.violations:
            print("replay: STILL FAILS %s: %s" % (item["utc"], {k: v[k] for k in v if k not in ("signature",)}))
        for k in c2.known_hits:
            print("replay: known finding reproduced at %s lon=%r lat=%r: %s" % (item["utc"], lon, lat, k["what"]))
        if not c2.violations and not c2.known_hits:
            print("replay: passes now: %s lon=%r lat=%r" % (item["utc"], lon, lat))
        bad_n += 1 if c2.violations else 0
    return 1 if bad_n else 0
