"""C16 — TLE source precedence.  Tie: T-corr, exhaustive (hand-written M_Source.v; ALL 216 configurations,
each with the requested platform present in / absent from the consulted source, run on the implementation
in a fresh interpreter each and compared with the model table evaluated inside Coq)."""
import glob
import itertools
import json
import os
import re
import shutil
import subprocess
import tempfile
import time
from concurrent.futures import ThreadPoolExecutor

from harness import common, tlegen, numeric

LEVEL = "proof"
PLATFORM = "NOAA-19"          # registered in the packaged platforms.txt (33591) and in the custom one
SATNUM = 33591
OTHER = 25544                 # the only satellite in the "absent" flavour of every source
# model codes (M_Source.code_source): the revolution-number field of each planted TLE is code+1
SRC = {"lines": 0, "stream": 1, "xml": 2, "path": 3, "net": 4, "none": 5, "tles0": 10, "tles1": 11, "tles2": 12}
SRC_NAME = {v: k for k, v in SRC.items()}
EXN = {None: 0, "ValueError": 1, "KeyError": 2, "OSError": 3}

WORKER = r'''
import builtins, io, json, os, socket, sys
cfg = json.loads(sys.argv[1])
root = cfg["root"]
log = {"opened": [], "urlopen": 0, "urls": [], "requests": 0, "socket": 0}
with open(cfg["net_file"], "rb") as f:
    net_bytes = f.read()
import urllib.request
def fake_urlopen(url, *a, **k):
    log["urlopen"] += 1
    log["urls"].append(str(url))
    return io.BytesIO(net_bytes)
urllib.request.urlopen = fake_urlopen
def no_connect(self, *a, **k):
    log["socket"] += 1
    raise OSError("network blocked by the C16 check")
socket.socket.connect = no_connect
socket.socket.connect_ex = no_connect
socket.create_connection = lambda *a, **k: no_connect(None)
import requests
def counting(*a, **k):
    log["requests"] += 1
    raise OSError("requests blocked by the C16 check")
requests.get = counting
requests.post = counting
requests.Session.request = counting
from pyorbital import tlefile
tlefile.urlopen = fake_urlopen
out = {"platforms_path": None, "marker": None, "ppp_marker": None}
try:
    out["platforms_path"] = os.path.realpath(tlefile.get_platforms_filepath())
    out["marker"] = "VERIFSAT" in tlefile.SATELLITES
    out["ppp_marker"] = "PPPSAT" in tlefile.SATELLITES
    out["n_sat"] = len(tlefile.SATELLITES)
except BaseException as e:
    out["platforms_exn"] = type(e).__name__
real_open = io.open
def wrap(file, *a, **k):
    try:
        s = os.fspath(file)
        if isinstance(s, bytes):
            s = s.decode()
        if isinstance(s, str) and os.path.realpath(s).startswith(root):
            log["opened"].append(os.path.realpath(s))
    except TypeError:
        pass
    return real_open(file, *a, **k)
io.open = wrap
builtins.open = wrap
kw = {}
if cfg["lines"] == "both":
    kw["line1"], kw["line2"] = cfg["given"]
elif cfg["lines"] == "one1":
    kw["line1"] = cfg["given"][0]
elif cfg["lines"] == "one2":
    kw["line2"] = cfg["given"][1]
stream = None
if cfg["file"] == "path":
    kw["tle_file"] = cfg["path_file"]
elif cfg["file"] == "xml":
    kw["tle_file"] = cfg["xml_file"]
elif cfg["file"] == "stream":
    with real_open(cfg["stream_file"]) as f:
        stream = io.StringIO(f.read())
    kw["tle_file"] = stream
import signal
signal.alarm(40)
try:
    t = tlefile.read(cfg["platform"], **kw)
    out["ok"] = True
    out["rev"] = int(t.orbit)
    out["satnumber"] = t.satnumber
    out["line1"] = t.line1
except BaseException as e:
    out["ok"] = False
    out["exn"] = type(e).__name__
    out["msg"] = str(e)[:200]
signal.alarm(0)
out["stream_consumed"] = bool(stream is not None and (stream.closed or stream.tell() > 0))
out.update(log)
builtins.open = real_open
sys.stdout.write("\n@@RESULT@@" + json.dumps(out) + "\n")
'''


def entry(name, satnum, rev):
    l1, l2 = tlegen.make(satnum=satnum, rev=rev, ly=9, ln=5, piece="A  ", yy=21, day=355.91138073, inc=99.1688, mm=14.12516400)
    return name, l1, l2


def collection(entries, names=True):
    return "".join((n + "\n" if names and n else "") + l1 + "\n" + l2 + "\n" for n, l1, l2 in entries)


def xml_message(entries):
    body = ['<?xml version="1.0" encoding="UTF-8"?>', "<multi-mission-administrative-message>"]
    for _, l1, l2 in entries:
        body += ["<message>", "<two-line-elements>", "<navigation>", "<line-1>" + l1 + "</line-1>",
                 "<line-2>" + l2 + "</line-2>", "</navigation>", "</two-line-elements>", "</message>"]
    body.append("</multi-mission-administrative-message>")
    return "\n".join(body)


HISTORY_WORKER = r"""
import io, json, os, sys, time
cfg = json.loads(sys.argv[1])
net = {"n": 0}
import urllib.request, socket
def fake_urlopen(url, *a, **k):
    net["n"] += 1
    raise OSError("network blocked by the C16 check")
urllib.request.urlopen = fake_urlopen
def no_connect(self, *a, **k):
    net["n"] += 1
    raise OSError("network blocked by the C16 check")
socket.socket.connect = no_connect
socket.socket.connect_ex = no_connect
import requests
requests.get = requests.post = requests.Session.request = lambda *a, **k: fake_urlopen(None)
from pyorbital import tlefile
tlefile.urlopen = fake_urlopen
os.environ["TLES"] = cfg["pattern"]
steps = []
def newest():
    best = None
    for p in cfg["files"]:
        if os.path.exists(p):
            c = os.stat(p).st_ctime_ns
            if best is None or c > best[0]:
                best = (c, p)
    return best[1]
def do_read(kind):
    exp_file = newest()
    kw = {}
    if kind == "lines":
        kw = {"line1": cfg["given"][0], "line2": cfg["given"][1]}
    elif kind == "path":
        kw = {"tle_file": cfg["path_file"]}
    n0 = net["n"]
    try:
        t = tlefile.read(cfg["platform"], **kw)
        got = int(t.orbit)
        exn = None
    except BaseException as e:
        got, exn = None, type(e).__name__ + ": " + str(e)[:120]
    want = {"lines": cfg["given_rev"], "path": cfg["path_rev"]}.get(kind, cfg["revs"].get(exp_file))
    steps.append({"op": "read:" + kind, "expected_rev": want, "observed_rev": got, "exception": exn,
                  "newest_by_ctime": os.path.basename(exp_file), "network_calls": net["n"] - n0})
for op in cfg["ops"]:
    if op[0] == "read":
        do_read(op[1])
    elif op[0] == "touch":
        time.sleep(0.06)
        p = cfg["files"][op[1]]
        st = os.stat(p)
        os.utime(p, (st.st_atime, st.st_mtime))       # change time moves, modification time stays
        steps.append({"op": "touch:" + os.path.basename(p)})
    elif op[0] == "rewrite":
        time.sleep(0.06)
        p = cfg["files"][op[1]]
        with open(p) as f:
            text = f.read()
        with open(p, "w") as f:
            f.write(text)
        steps.append({"op": "rewrite:" + os.path.basename(p)})
sys.stdout.write("\n@@RESULT@@" + json.dumps({"steps": steps}) + "\n")
"""


def history_stratum(ctx, root, given):
    """One interpreter, a SEQUENCE of reads with the TLES pattern set while the matching files' change times move in
    between (and explicit lines / a given file in between): every read must come from the file that is newest by change time
    at that moment, and none may touch the network."""
    rng = ctx.rng
    wpath = os.path.join(root, "history_worker.py")
    with open(wpath, "w") as fh:
        fh.write(HISTORY_WORKER)
    for hi in range(ctx.n(3, 12)):
        d = os.path.join(root, "hist%d" % hi)
        os.makedirs(d)
        files, revs = [], {}
        for k, nm in enumerate(["tle-a.txt", "tle-b.txt", "tle-c.txt"]):
            p = os.path.join(d, nm)
            rev = 100 * (hi + 1) + k
            with open(p, "w") as fh:
                fh.write(collection([entry("ISS (ZARYA)", OTHER, rev), entry("NOAA 19", SATNUM, rev)]))
            files.append(p)
            revs[p] = rev
            time.sleep(0.03)
        path_file = os.path.join(d, "given.tle")
        with open(path_file, "w") as fh:
            fh.write(collection([entry("NOAA 19", SATNUM, 77)]))
        ops = [("read", "tles")]
        for _ in range(rng.randint(3, 6)):
            ops.append((rng.choice(["touch", "touch", "rewrite"]), rng.randrange(3)))
            if rng.random() < 0.3:
                ops.append(("read", rng.choice(["lines", "path"])))
            ops.append(("read", "tles"))
        g1, g2 = given
        cfg = {"pattern": os.path.join(d, "tle-*.txt"), "files": files, "revs": revs, "ops": ops, "platform": PLATFORM,
               "given": [g1, g2], "given_rev": int(g2[63:68]), "path_file": path_file, "path_rev": 77}
        env = dict(os.environ, PYTHONPATH=common.REPO)
        for k in ("TLES", "PYORBITAL_CONFIG_PATH", "PPP_CONFIG_DIR"):
            env.pop(k, None)
        res = run_worker(wpath, cfg, env)
        ctx.case(("history", hi), {"ops": [":".join(map(str, o)) for o in ops]} if hi == 0 else None)
        if res.get("worker_failed"):
            ctx.corr_fail("history worker interpreter for tlefile.read", res)
            continue
        seen = []
        for st in res["steps"]:
            seen.append(st["op"] if not st["op"].startswith("read") else "%s -> rev %s" % (st["op"], st.get("observed_rev")))
            if not st["op"].startswith("read"):
                continue
            if st["observed_rev"] != st["expected_rev"] or st["network_calls"]:
                what = ("a network request was made although a local source is configured" if st["network_calls"] else
                        "elements are not taken from the newest (by change time) file matching TLES" if st["op"] == "read:tles" else
                        "explicit lines / a given file did not take precedence over TLES")
                ctx.violation(what + " (later read in the same process)",
                              {"signature": "C16:history:%d:%d" % (hi, len(seen)), "history_in_one_process": list(seen), **st})
                break


def build_fixtures(root):
    """one tree per flavour: has/ (every source holds NOAA-19, revolution number = source code + 1) and
    absent/ (every source holds only satellite 25544)"""
    fx = {}
    for flavour in ("has", "absent"):
        d = os.path.join(root, flavour)
        for sub in ("plain", "xml", "tles", "stream", "net"):
            os.makedirs(os.path.join(d, sub))

        def ents(code):
            filler = entry("ISS (ZARYA)", OTHER, code + 1)
            if flavour == "has":
                return [filler, entry("NOAA 19", SATNUM, code + 1)]
            return [filler]
        f = {}
        f["path_file"] = os.path.join(d, "plain", "weather.tle")
        f["xml_file"] = os.path.join(d, "xml", "20210420_Metop-B_ADMIN_MESSAGE_NO_127.xml")
        f["stream_file"] = os.path.join(d, "stream", "stream.txt")
        f["net_file"] = os.path.join(d, "net", "celestrak.txt")
        with open(f["path_file"], "w") as fh:
            fh.write(collection(ents(SRC["path"])))
        with open(f["xml_file"], "w") as fh:
            fh.write(xml_message(ents(SRC["xml"])))
        with open(f["stream_file"], "w") as fh:
            fh.write(collection(ents(SRC["stream"])))
        with open(f["net_file"], "w") as fh:
            fh.write(collection(ents(SRC["net"])))
        # TLES: three matching files.  Model list: [(0, 20); (1, 30); (2, 10)] = (file id, change time).
        names = {0: "tle-a.txt", 1: "tle-b.txt", 2: "tle-c.txt"}
        for i, nm in names.items():
            with open(os.path.join(d, "tles", nm), "w") as fh:
                fh.write(collection(ents(SRC["tles%d" % i])))
        f["tles_files"] = [os.path.join(d, "tles", names[i]) for i in range(3)]
        f["tles_pattern"] = os.path.join(d, "tles", "tle-*.txt")
        f["tles_nothing"] = os.path.join(d, "tles", "nothing-*.txt")
        fx[flavour] = f
    # change-time order c < a < b (ctime cannot be set: it is the time of the last os.utime call here),
    # modification-time order the reverse (b oldest), so "newest by mtime" and "by name" would pick another file
    now = time.time()
    for attempt in range(5):
        gap = 0.05 * (attempt + 1)
        for flavour in ("has", "absent"):
            a, b, c = fx[flavour]["tles_files"]
            for path, mt in ((c, now), (a, now - 5000), (b, now - 10000)):
                time.sleep(gap)
                os.utime(path, (mt, mt))
        ok = True
        for flavour in ("has", "absent"):
            a, b, c = fx[flavour]["tles_files"]
            st = {p: os.stat(p) for p in (a, b, c)}
            ok &= st[c].st_ctime_ns < st[a].st_ctime_ns < st[b].st_ctime_ns
            ok &= st[b].st_mtime_ns < st[a].st_mtime_ns < st[c].st_mtime_ns
        if ok:
            break
    else:
        raise RuntimeError("could not establish strictly ordered change times for the TLES fixtures")
    cfgdir = {"with": os.path.join(root, "cfg_with"), "without": os.path.join(root, "cfg_without"), "ppp": os.path.join(root, "ppp_dir")}
    for p in cfgdir.values():
        os.makedirs(p)
    with open(os.path.join(cfgdir["with"], "platforms.txt"), "w") as fh:
        fh.write("# custom registry of the C16 check\nNOAA-19 %d\nVERIFSAT 99999\n" % SATNUM)
    with open(os.path.join(cfgdir["ppp"], "platforms.txt"), "w") as fh:
        fh.write("NOAA-19 11111\nPPPSAT 88888\n")
    return fx, cfgdir


def job_for(root, fxs, cfgdir, lv, file, tles, cfgp, ppp, has, nm, given):
    """worker configuration and environment of one run"""
    flavour = "has" if has else "absent"
    fx = fxs[flavour]
    cfg = dict(fx)
    cfg.update({"root": root, "lines": lv, "file": file, "tles": tles, "platform": nm, "given": given[flavour],
                "tles_value": {"unset": None, "several": fx["tles_pattern"], "nothing": fx["tles_nothing"]}[tles]})
    env = {k: v for k, v in os.environ.items() if k not in ("TLES", "PYORBITAL_CONFIG_PATH", "PPP_CONFIG_DIR")}
    env["PYTHONPATH"] = common.REPO + ":" + common.VERIF
    if cfg["tles_value"]:
        env["TLES"] = cfg["tles_value"]
    if cfgp != "unset":
        env["PYORBITAL_CONFIG_PATH"] = cfgdir[cfgp]
    if ppp == "set":
        env["PPP_CONFIG_DIR"] = cfgdir["ppp"]
    return cfg, env, flavour


def given_lines():
    g = entry("NOAA 19", SATNUM, SRC["lines"] + 1)[1:]
    return {"has": g, "absent": g}


def replay(ctx, rp):
    """re-run the configurations of a replay file on the implementation and print what is observed"""
    root = os.path.realpath(tempfile.mkdtemp(prefix="verif-c16-", dir="/var/tmp"))
    try:
        fxs, cfgdir = build_fixtures(root)
        worker_path = os.path.join(root, "worker.py")
        with open(worker_path, "w") as fh:
            fh.write(WORKER)
        items = rp.get("failing_inputs", []) + rp.get("broken_correspondence", [])
        for fi in items:
            if "tle_file" not in fi:
                continue
            cfg, env, flavour = job_for(root, fxs, cfgdir, fi["lines"], fi["tle_file"], fi["TLES"], fi["PYORBITAL_CONFIG_PATH"],
                                        fi["PPP_CONFIG_DIR"], fi["platform_present"], fi.get("requested", PLATFORM), given_lines())
            res = run_worker(worker_path, cfg, env)
            keep = {k: res.get(k) for k in ("ok", "rev", "exn", "urlopen", "requests", "socket", "opened", "stream_consumed", "platforms_path", "marker", "ppp_marker")}
            print(json.dumps({k: fi[k] for k in ("lines", "tle_file", "TLES", "PYORBITAL_CONFIG_PATH", "PPP_CONFIG_DIR", "platform_present")}), "->", json.dumps(keep))
    finally:
        shutil.rmtree(root, ignore_errors=True)
    return 0


LINES = ["both", "one", "none"]
FILES = ["none", "path", "stream", "xml"]
TLES = ["unset", "several", "nothing"]
CFGP = ["unset", "with", "without"]
PPP = ["unset", "set"]


def coq_table():
    text = ("From Coq Require Import List.\nImport ListNotations.\nFrom PyOrb.model Require Import M_Source.\n"
            "Set Printing Depth 1000000.\nSet Printing Width 200.\nEval vm_compute in table.\n")
    ok, out = common.coq_eval("c16", text, timeout=300)
    if not ok or "=" not in out:
        return None, out
    body = out[out.index("="):].rsplit(": list", 1)[0]
    nums = [int(x) for x in re.findall(r"\b\d+\b", body)]
    if len(nums) % 10:
        return None, out
    rows = {}
    for i in range(0, len(nums), 10):
        r = nums[i:i + 10]
        rows[tuple(r[:6])] = {"source": r[6], "net": r[7], "exn": r[8], "plat": r[9]}
    return rows, out


def run_worker(worker_path, cfg, env):  # noqa
    p = subprocess.run([common.PY, "-W", "ignore", worker_path, json.dumps(cfg)], env=env, stdout=subprocess.PIPE,
                       stderr=subprocess.PIPE, text=True, timeout=120)
    m = re.search(r"@@RESULT@@(.*)", p.stdout)
    if not m:
        return {"worker_failed": True, "stdout": p.stdout[-300:], "stderr": p.stderr[-600:]}
    return json.loads(m.group(1))


def observed_source(cfg, fx, out):
    """which sources the implementation touched, as model codes"""
    touched = set()
    opened = set(out.get("opened", []))
    rp = os.path.realpath
    if rp(fx["path_file"]) in opened:
        touched.add(SRC["path"])
    if rp(fx["xml_file"]) in opened:
        touched.add(SRC["xml"])
    for i, p in enumerate(fx["tles_files"]):
        if rp(p) in opened:
            touched.add(SRC["tles%d" % i])
    if out.get("stream_consumed"):
        touched.add(SRC["stream"])
    if out.get("urlopen", 0) or out.get("requests", 0) or out.get("socket", 0):
        touched.add(SRC["net"])
    known = {rp(fx["path_file"]), rp(fx["xml_file"])} | {rp(p) for p in fx["tles_files"]}
    stray = sorted(opened - known)
    return touched, stray


def expected_by_text(cfg, fx):
    """the property text, stated independently: (source name or None when nothing can be read, network allowed)"""
    if cfg["lines"] == "both":
        return "lines", False
    if cfg["file"] != "none":
        return cfg["file"], False
    if cfg["tles"] != "unset":
        files = glob.glob(cfg["tles_value"])
        if not files:
            return None, False
        newest = sorted(files, key=lambda p: os.stat(p).st_ctime_ns)[-1]
        return "tles%d" % fx["tles_files"].index(newest), False
    return "net", True


def run(ctx):
    ctx.rule = ("the full product {lines: both, one, none} x {tle_file: none, path, StringIO, admin XML} x {TLES: unset, "
                "three files of different age, no match} x {PYORBITAL_CONFIG_PATH: unset, dir with platforms.txt, dir without} "
                "x {PPP_CONFIG_DIR: unset, set} = 216 configurations, each x {requested platform present, absent in every source}; "
                "one fresh interpreter per run; distinct = distinct configuration tuple (+ which single line is given)")
    ctx.assumptions += [
        "hand-written model M_Source.v tied to tlefile.py by this exhaustive run (model table evaluated by vm_compute inside Coq)",
        "the operating system reports change times (st_ctime) in the order of the last os.utime calls (checked on the fixtures before use); "
        "ctime cannot be set directly: the three TLES files are touched with os.utime in the order c, a, b with >= 50 ms gaps, with "
        "modification times in the opposite order",
        "network is interposed, never used: urllib.request.urlopen / tlefile.urlopen replaced by a counting fake serving a planted "
        "collection, requests.get/post/Session.request and socket.connect replaced by counting blockers",
        "the packaged pyorbital/etc/platforms.txt exists (the OSError branch of get_platforms_filepath is modelled, proved, not exercised)",
        "values outside the stated space (TLES='' , PYORBITAL_CONFIG_PATH='', a path containing ADMIN_MESSAGE that is not XML) are not covered",
    ]
    ctx.extra["exhaustive"] = True
    src, _names = numeric.regen_ast(ctx, "source", "the if / elif / else tree of _get_uris_and_open_func over its four tests and the "
                                    "(uris, open_func) pair of every arm; glob / getctime / the environment stay the hand model's inputs",
                                    optional=True)
    ctx.build_props("props/C16.v")
    if src is not None:
        ctx.build_props("props/C16_source.v")
    rows, out = coq_table()
    if rows is None or len(rows) != 432:
        ctx.corr_fail("M_Source.table evaluation in Coq", {"error": (out or "")[-400:], "rows": 0 if rows is None else len(rows)})
        return
    root = os.path.realpath(tempfile.mkdtemp(prefix="verif-c16-", dir="/var/tmp"))
    try:
        fxs, cfgdir = build_fixtures(root)
        worker_path = os.path.join(root, "worker.py")
        with open(worker_path, "w") as fh:
            fh.write(WORKER)
        pkg_platforms = os.path.realpath(os.path.join(common.REPO, "pyorbital", "etc", "platforms.txt"))
        if not os.path.isfile(pkg_platforms):
            ctx.corr_fail("packaged platforms.txt", {"missing": pkg_platforms})
        given = given_lines()
        jobs = []
        idx = 0
        for l, f, t, p, q, has in itertools.product(range(3), range(4), range(3), range(3), range(2), (1, 0)):
            idx += 1
            variants = ["both"] if l == 0 else ["none"] if l == 2 else (["one1", "one2"] if not ctx.quick else [("one1", "one2")[idx % 2]])
            names = [PLATFORM] if ctx.quick else [PLATFORM, " noaa-19 "]
            for lv in variants:
                for nm in names:
                    cfg, env, flavour = job_for(root, fxs, cfgdir, lv, FILES[f], TLES[t], CFGP[p], PPP[q], has, nm, given)
                    jobs.append(((l, f, t, p, q, has), lv, nm, cfg, env, flavour))
        with ThreadPoolExecutor(max_workers=min(16, os.cpu_count() or 4)) as ex:
            results = list(ex.map(lambda j: run_worker(worker_path, j[3], j[4]), jobs))
        for (key, lv, nm, cfg, env, flavour), res in zip(jobs, results):
            fx = fxs[flavour]
            desc = {"lines": lv, "tle_file": cfg["file"], "TLES": cfg["tles"], "PYORBITAL_CONFIG_PATH": CFGP[key[3]],
                    "PPP_CONFIG_DIR": PPP[key[4]], "platform_present": bool(key[5]), "requested": nm}
            sig = "C16:%s:%s:%s:%s:%s:%s" % (lv, cfg["file"], cfg["tles"], CFGP[key[3]], PPP[key[4]], "has" if key[5] else "absent")
            if res.get("worker_failed"):
                ctx.corr_fail("worker interpreter for tlefile.read", {**desc, **res})
                continue
            model = rows[key]
            touched, stray = observed_source(cfg, fx, res)
            if res["ok"]:
                isrc = res["rev"] - 1
                iexn = 0
            else:
                iexn = EXN.get(res["exn"], 9)
                isrc = next(iter(touched)) if len(touched) == 1 else (SRC["none"] if not touched else -1)
            if res.get("platforms_exn"):
                iplat = 2
            elif res["platforms_path"] == pkg_platforms:
                iplat = 0
            elif res["platforms_path"] == os.path.realpath(os.path.join(cfgdir["with"], "platforms.txt")):
                iplat = 1
            else:
                iplat = 7
            impl = {"source": isrc, "net": res["urlopen"], "exn": iexn, "plat": iplat}
            ctx.case((key, lv, nm), {**desc, "impl": impl, "model": model} if key in ((1, 0, 1, 2, 1, 1), (2, 0, 0, 0, 0, 1), (2, 3, 2, 1, 1, 0), (0, 2, 1, 0, 0, 0)) else None)
            # ---- oracle: the property text on the implementation
            want, net_allowed = expected_by_text(cfg, fx)
            rep = {"signature": sig, **desc, "observed": {**impl, "source_name": SRC_NAME.get(isrc, "mixed"), "touched": sorted(SRC_NAME[x] for x in touched),
                                                         "exception": res.get("exn"), "requests": res["requests"], "socket": res["socket"]}}
            nnet = res["urlopen"] + res["requests"] + res["socket"]
            if not net_allowed and nnet:
                ctx.violation("a network request was made although a local source is configured", rep)
            if res["ok"]:
                if want is None:
                    ctx.violation("elements returned although the configured TLES pattern matches nothing", rep)
                elif isrc != SRC[want] or res["satnumber"] != "%05d" % SATNUM:
                    ctx.violation("elements taken from %s, the precedence rule requires %s" % (SRC_NAME.get(isrc, isrc), want), rep)
                elif want != "lines" and not key[5]:
                    ctx.violation("elements returned although the consulted source holds no entry for the platform", rep)
            elif want == "lines" or (key[5] and want is not None):
                ctx.violation("read failed (%s) although the source required by the precedence rule (%s) holds the entry" % (res.get("exn"), want), rep)
            extra = touched - ({SRC[want]} if want not in (None, "lines") else set())
            if extra:
                ctx.violation("sources mixed: %s consulted besides the one required (%s)" % (sorted(SRC_NAME[x] for x in extra), want), rep)
            want_plat = 1 if CFGP[key[3]] == "with" else 0
            if iplat != want_plat or bool(res.get("marker")) != bool(want_plat) or res.get("ppp_marker"):
                ctx.violation("platforms registry read from the wrong file", {**rep, "platforms_path": res.get("platforms_path"),
                                                                             "custom_marker": res.get("marker"), "ppp_marker": res.get("ppp_marker")})
            # ---- correspondence: model table vs implementation
            if impl != model or stray:
                ctx.corr_fail("M_Source.read_tle/platforms_of vs tlefile.read in a fresh interpreter",
                              {**desc, "model": model, "impl": impl, "touched": sorted(touched), "stray_files": stray,
                               "exception": res.get("exn"), "msg": res.get("msg")})
        history_stratum(ctx, root, given["has"])
    finally:
        shutil.rmtree(root, ignore_errors=True)
