"""C08 — array, scalar, time-type and dtype semantics are uniform across the API.

Tie: T-corr, exhaustive on the finite kind tables.  The hand-written model coq/model/M_Kinds.v is evaluated inside
Coq (vm_compute) and compared cell by cell
  (a) with the real numpy/dask for its table of ORACLE FACTS (uf1, bin, np_clip, np_where, isinstance_float, dtype_of,
      astype, clip_method, sibling),
  (b) with the implementation for every entry point x 14 input kinds x 10 time kinds (+ all 14x14 (lon, lat) pairs),
  (c) bit-exactly with numpy for the tick -> day / minute conversions on sampled instants in all four units.
Oracle = the property text on the implementation: array results == scalar calls after broadcasting within 1e-6 of the
unit (0-d..2-d shapes, float64/float32/int/dask); bit-identical results across datetime / datetime64[s|ms|us|ns] /
object array / datetime64 arrays of one instant; ints at their real values; scalars give scalars; float32 stays
float32 and dask stays a lazy dask array in the astronomy functions.
"""
import datetime as dt
import re
from fractions import Fraction

import numpy as np

from harness import common, tlegen

LEVEL = "proof"

KINDS = ["PyInt", "PyFloat", "NpF32", "NpF64", "NpI64", "Arr0dI", "Arr0dF32", "Arr0dF64",
         "ArrI", "ArrF32", "ArrF64", "DaskI", "DaskF32", "DaskF64"]
UNITS = ["s", "ms", "us", "ns"]
TIMEKINDS = ["datetime"] + ["dt64[%s]" % u for u in UNITS] + ["objarr"] + ["dt64arr[%s]" % u for u in UNITS]
DT = {"I": "int64", "F32": "float32", "F64": "float64"}


def kind_dtype(k):
    return "int64" if k.endswith("I") or k.endswith("Int") or k == "NpI64" else ("float32" if "F32" in k else "float64")


def make(kind, vals):
    """a value of the given input kind from one or several numbers (ints for integer kinds)"""
    import dask.array as da
    d = kind_dtype(kind)
    vs = [int(round(v)) for v in vals] if d == "int64" else list(vals)
    if kind == "PyInt":
        return int(vs[0])
    if kind == "PyFloat":
        return float(vs[0])
    if kind.startswith("Np"):
        return np.dtype(d).type(vs[0])
    if kind.startswith("Arr0d"):
        return np.array(vs[0], dtype=d)
    if kind.startswith("Arr"):
        return np.array(vs, dtype=d)
    return da.from_array(np.array(vs, dtype=d), chunks=1)


def classify(x):
    """(container, dtype) code of a result: cont*3 + dty, as printed by the Coq model"""
    import dask.array as da
    if isinstance(x, da.Array):
        c = 4
    elif isinstance(x, np.ndarray):
        c = 2 if x.ndim == 0 else 3
    elif isinstance(x, np.generic):
        c = 1
    elif isinstance(x, (int, float)) and not isinstance(x, bool):
        return 0 * 3 + (0 if isinstance(x, int) else 2)
    else:
        return "other:" + type(x).__name__
    d = {"int64": 0, "float32": 1, "float64": 2}.get(str(x.dtype))
    return c * 3 + d if d is not None else "other:%s" % x.dtype


def classify_call(f):
    try:
        with common.time_limit(20):
            r = f()
    except AttributeError:
        return -1
    except TypeError:
        return -2
    except Exception as e:
        return "raise:" + type(e).__name__
    return r


def flat(r, n):
    """flatten a (nested) tuple result into n kind codes"""
    if isinstance(r, (int, str)) and not isinstance(r, tuple):
        return [r] * n
    out = []

    def walk(v):
        if isinstance(v, tuple):
            for w in v:
                walk(w)
        else:
            out.append(classify(v))
    walk(r)
    return out if len(out) == n else ["shape:%d" % len(out)] * n


def make_time(tk, instants):
    t0 = instants[0]
    if tk == "datetime":
        return t0
    if tk.startswith("dt64["):
        return np.datetime64(t0, tk[5:-1])
    if tk == "objarr":
        return np.array(list(instants), dtype=object)
    return np.array([np.datetime64(t, "us") for t in instants]).astype("datetime64[%s]" % tk[8:-1])


# ------------------------------------------------------------------------------------------------ Coq side
COQ_HEAD = """From Coq Require Import List ZArith QArith Qreduction Bool.
From PyOrb.model Require Import M_Kinds.
Import ListNotations.
Open Scope Z_scope.
Set Printing Depth 1000000.
Set Printing Width 200.
Definition ec (c : cont) : Z := match c with CPy => 0 | CNp => 1 | C0d => 2 | CNd => 3 | CDask => 4 end.
Definition ed (d : dty) : Z := match d with I64 => 0 | F32 => 1 | F64 => 2 end.
Definition ev (k : vk) : Z := ec (fst k) * 3 + ed (snd k).
Definition er (r : res vk) : Z := match r with Ok k => ev k | AttributeError => -1 | TypeError => -2 end.
Definition erd (r : res dty) : Z := match r with Ok d => ed d | AttributeError => -1 | TypeError => -2 end.
Definition e2 (r : res (vk * vk)) : list Z :=
  match r with Ok (a, b) => [ev a; ev b] | AttributeError => [-1; -1] | TypeError => [-2; -2] end.
Definition e6 (r : res ((vk * vk * vk) * (vk * vk * vk))) : list Z :=
  match r with Ok ((a, b, c), (d, e, f)) => [ev a; ev b; ev c; ev d; ev e; ev f]
  | AttributeError => [-1; -1; -1; -1; -1; -1] | TypeError => [-2; -2; -2; -2; -2; -2] end.
Definition ks := map kind_of all_numkinds.
Definition b2z (b : bool) : Z := if b then 1 else 0.
"""


def parse_lists(out):
    """every '= [ ... ] : list Z' block -> list of ints"""
    blocks = []
    for m in re.finditer(r"=\s*\[(.*?)\]\s*:\s*list", out, re.S):
        blocks.append([int(x) for x in re.findall(r"-?\d+", m.group(1).replace("%Z", ""))])
    return blocks


def coq_tables(ctx):
    text = COQ_HEAD + """
Eval vm_compute in (map (fun k => ev (uf1 k)) ks).
Eval vm_compute in (flat_map (fun a => map (fun b => ev (bin a b)) ks) ks).
Eval vm_compute in (map (fun k => ev (np_clip k)) ks).
Eval vm_compute in (flat_map (fun a => map (fun b => ev (np_where a b)) ks) ks).
Eval vm_compute in (map (fun k => b2z (isinstance_float k)) ks).
Eval vm_compute in (map (fun k => erd (dtype_of k)) ks).
Eval vm_compute in (flat_map (fun k => map (fun d => er (astype k d)) [I64; F32; F64]) ks).
Eval vm_compute in (map (fun k => er (clip_method k)) ks).
Eval vm_compute in (map (fun k => er (sibling k)) ks).
Eval vm_compute in (flat_map (fun t => flat_map (fun k =>
   e2 (get_alt_az_k t k k) ++ [er (cos_zen_k t k k); er (sun_zenith_angle_k t k k)]
   ++ e6 (observer_position_k t k k k) ++ e6 (observer_position_k t k k pyf)
   ++ e2 (look_function_k t k k k k k k) ++ e2 (look_method_k t k k k)) ks) all_timekinds).
Eval vm_compute in (flat_map (fun t => [ev (jdays2000_k t); ev (jdays_k t); ev (gmst_k t); ev (fst (sun_ra_dec_k t));
   ev (snd (sun_ra_dec_k t)); ev (position_k t); ev (fst (fst (lonlatalt_k t))); ev (snd (fst (lonlatalt_k t)));
   ev (snd (lonlatalt_k t))]) all_timekinds).
Eval vm_compute in (flat_map (fun a => flat_map (fun b =>
   e2 (get_alt_az_k TDatetime a b) ++ [er (cos_zen_k TDatetime a b); er (sun_zenith_angle_k TDatetime a b)]
   ++ e6 (observer_position_k TDatetime a b b)) ks) ks).
"""
    ok, out = common.coq_eval("c08", text, timeout=600)
    ctx.checker_cmds.append("coqc cases_c08.v (oracle-fact tables and the kind table of every entry point, by vm_compute)")
    if not ok:
        return None, out
    blocks = parse_lists(out)
    want = [14, 196, 14, 196, 14, 14, 42, 14, 14, 10 * 14 * 20, 10 * 9, 196 * 10]
    if [len(b) for b in blocks] != want:
        return None, "unexpected table sizes %r\n%s" % ([len(b) for b in blocks], out[-600:])
    return blocks, out


# ------------------------------------------------------------------------------------------------ (a) numpy facts
def sample(kind, which=0):
    vals = [(10.5, 20.25), (33.0, 47.5)][which]
    return make(kind, vals)


def numpy_facts(ctx, blocks):
    from pyorbital import astronomy
    uf1, binm, clipm, wherem, isf, dtof, ast, clipmeth, sib = blocks[:9]
    names = {0: "np.deg2rad", 1: "np.sin", 2: "np.arccos(x/100)", 3: "np.sqrt", 4: "np.rad2deg"}
    for i, k in enumerate(KINDS):
        for j, f in enumerate([np.deg2rad, np.sin, lambda v: np.arccos(v / 100.0) if not isinstance(v, int) else np.arccos(v / 100), np.sqrt, np.rad2deg]):
            got = classify(f(sample(k)))
            ctx.case(("fact", "uf1", k, j))
            if got != uf1[i]:
                ctx.corr_fail("oracle fact M_Kinds.uf1 vs numpy %s" % names[j], {"kind": k, "model": uf1[i], "numpy": got})
        got = classify(np.clip(sample(k), -1.0, 1.0))
        ctx.case(("fact", "clip", k))
        if got != clipm[i]:
            ctx.corr_fail("oracle fact M_Kinds.np_clip vs np.clip(x, -1.0, 1.0)", {"kind": k, "model": clipm[i], "numpy": got})
        got = 1 if isinstance(sample(k), float) else 0
        ctx.case(("fact", "isinstance", k))
        if got != isf[i]:
            ctx.corr_fail("oracle fact M_Kinds.isinstance_float vs isinstance(x, float)", {"kind": k, "model": isf[i], "python": got})
        try:
            got = {"int64": 0, "float32": 1, "float64": 2}[str(sample(k).dtype)]
        except AttributeError:
            got = -1
        ctx.case(("fact", "dtype", k))
        if got != dtof[i]:
            ctx.corr_fail("oracle fact M_Kinds.dtype_of vs x.dtype", {"kind": k, "model": dtof[i], "numpy": got})
        for j, d in enumerate(["int64", "float32", "float64"]):
            got = classify_call(lambda: sample(k).astype(d))
            got = got if isinstance(got, (int, str)) and not hasattr(got, "dtype") else classify(got)
            ctx.case(("fact", "astype", k, d))
            if got != ast[3 * i + j]:
                ctx.corr_fail("oracle fact M_Kinds.astype vs x.astype(%s)" % d, {"kind": k, "model": ast[3 * i + j], "numpy": got})
        got = classify_call(lambda: sample(k).clip(max=1))
        got = got if isinstance(got, (int, str)) and not hasattr(got, "dtype") else classify(got)
        ctx.case(("fact", "clipmethod", k))
        if got != clipmeth[i]:
            ctx.corr_fail("oracle fact M_Kinds.clip_method vs x.clip(max=1)", {"kind": k, "model": clipmeth[i], "numpy": got})
        got = classify_call(lambda: astronomy._float_to_sibling_result(0.0, sample(k)))
        got = got if isinstance(got, (int, str)) and not hasattr(got, "dtype") else classify(got)
        ctx.case(("fact", "sibling", k))
        if got != sib[i]:
            ctx.corr_fail("M_Kinds.sibling vs astronomy._float_to_sibling_result(0.0, x)", {"kind": k, "model": sib[i], "impl": got})
        for j, k2 in enumerate(KINDS):
            a, b = sample(k), sample(k2, 1)
            ops = [("+", lambda x, y: x + y), ("*", lambda x, y: x * y), ("-", lambda x, y: x - y)]
            both_int = kind_dtype(k) == "int64" and kind_dtype(k2) == "int64"
            both_py = k.startswith("Py") and k2.startswith("Py")
            if not both_int:
                ops.append(("/", lambda x, y: x / y))
                ops.append(("%", lambda x, y: x % y))
            if not both_int and not both_py:
                ops.append(("arctan2", np.arctan2))
            for name, f in ops:
                got = classify(f(a, b))
                ctx.case(("fact", "bin", k, k2, name))
                if got != binm[14 * i + j]:
                    ctx.corr_fail("oracle fact M_Kinds.bin (NEP 50 promotion, containers) vs numpy %s" % name,
                                  {"left": k, "right": k2, "model": binm[14 * i + j], "numpy": got})
            if not both_py:
                cond = (a > 0) if not k.startswith("Py") else (b > 0)
                got = classify(np.where(cond, a, b))
                ctx.case(("fact", "where", k, k2))
                if got != wherem[14 * i + j]:
                    ctx.corr_fail("oracle fact M_Kinds.np_where vs np.where", {"a": k, "b": k2, "model": wherem[14 * i + j], "numpy": got})


# ------------------------------------------------------------------------------------------------ (b) entry points
def orbital_obj():
    from pyorbital.orbital import Orbital
    l1, l2 = tlegen.NOAA18
    return Orbital("X", line1=l1, line2=l2)


def entry_tables(ctx, blocks):
    from pyorbital import astronomy, orbital
    table, timeonly, mixed = blocks[9], blocks[10], blocks[11]
    o = orbital_obj()
    ep = o.tle.epoch.astype("datetime64[s]").astype(dt.datetime)
    instants = (ep + dt.timedelta(hours=30), ep + dt.timedelta(hours=31, seconds=7))
    labels = (["alt", "az", "cos_zen", "sun_zenith_angle"] + ["observer_position[%d]" % i for i in range(6)]
              + ["observer_position(alt=float)[%d]" % i for i in range(6)] + ["look_function.az", "look_function.el",
                                                                           "look_method.az", "look_method.el"])
    pos = 0
    for tk in TIMEKINDS:
        for k in KINDS:
            t = lambda: make_time(tk, instants)
            lon, lat, alt = (lambda: make(k, (10.5, 33.0))), (lambda: make(k, (20.25, 47.5))), (lambda: make(k, (1.0, 2.0)))
            got = []
            got += flat(classify_call(lambda: astronomy.get_alt_az(t(), lon(), lat())), 2)
            got += flat(classify_call(lambda: astronomy.cos_zen(t(), lon(), lat())), 1)
            got += flat(classify_call(lambda: astronomy.sun_zenith_angle(t(), lon(), lat())), 1)
            got += flat(classify_call(lambda: astronomy.observer_position(t(), lon(), lat(), alt())), 6)
            got += flat(classify_call(lambda: astronomy.observer_position(t(), lon(), lat(), 0.5)), 6)
            got += flat(classify_call(lambda: orbital.get_observer_look(lon(), lat(), alt(), t(), lon(), lat(), alt())), 2)
            got += flat(classify_call(lambda: o.get_observer_look(t(), lon(), lat(), alt())), 2)
            model = table[pos:pos + 20]
            pos += 20
            for i in range(20):
                ctx.case(("entry", tk, k, labels[i]), {"entry": labels[i], "time_kind": tk, "input_kind": k, "model": model[i], "impl": got[i]}
                         if (tk, k, i) in (("datetime", "PyInt", 3), ("objarr", "ArrF32", 0)) else None)
                if got[i] != model[i]:
                    ctx.corr_fail("M_Kinds kind table vs implementation (%s)" % labels[i],
                                  {"time_kind": tk, "input_kind": k, "model": model[i], "impl": got[i],
                                   "codes": "cont*3+dtype, cont: py=0 np-scalar=1 0-d=2 ndarray=3 dask=4; dtype: int64=0 f32=1 f64=2; -1 AttributeError"})
    tl = ["jdays2000", "jdays", "gmst", "sun_ra", "sun_dec", "get_position", "lonlatalt.lon", "lonlatalt.lat", "lonlatalt.alt"]
    pos = 0
    for tk in TIMEKINDS:
        t = lambda: make_time(tk, instants)
        got = []
        got += flat(classify_call(lambda: astronomy.jdays2000(t())), 1)
        got += flat(classify_call(lambda: astronomy.jdays(t())), 1)
        got += flat(classify_call(lambda: astronomy.gmst(t())), 1)
        got += flat(classify_call(lambda: astronomy.sun_ra_dec(t())), 2)
        r = classify_call(lambda: o.get_position(t()))
        got += [classify(r[0]) if isinstance(r, tuple) else r]
        got += flat(classify_call(lambda: o.get_lonlatalt(t())), 3)
        model = timeonly[pos:pos + 9]
        pos += 9
        for i in range(9):
            ctx.case(("entry", tk, tl[i]))
            if got[i] != model[i]:
                ctx.corr_fail("M_Kinds kind table vs implementation (%s)" % tl[i], {"time_kind": tk, "model": model[i], "impl": got[i]})
    pos = 0
    ml = ["alt", "az", "cos_zen", "sun_zenith_angle"] + ["observer_position[%d]" % i for i in range(6)]
    for k1 in KINDS:
        for k2 in KINDS:
            t = instants[0]
            lon, lat, alt = (lambda: make(k1, (10.5, 33.0))), (lambda: make(k2, (20.25, 47.5))), (lambda: make(k2, (1.0, 2.0)))
            got = []
            got += flat(classify_call(lambda: astronomy.get_alt_az(t, lon(), lat())), 2)
            got += flat(classify_call(lambda: astronomy.cos_zen(t, lon(), lat())), 1)
            got += flat(classify_call(lambda: astronomy.sun_zenith_angle(t, lon(), lat())), 1)
            got += flat(classify_call(lambda: astronomy.observer_position(t, lon(), lat(), alt())), 6)
            model = mixed[pos:pos + 10]
            pos += 10
            for i in range(10):
                ctx.case(("mixed", k1, k2, ml[i]))
                if got[i] != model[i]:
                    ctx.corr_fail("M_Kinds kind table (mixed lon/lat kinds) vs implementation (%s)" % ml[i],
                                  {"lon_kind": k1, "lat_kind": k2, "model": model[i], "impl": got[i]})


# ------------------------------------------------------------------------------------------------ (c) time model
def ticks_of(t, unit):
    us = (t - dt.datetime(1970, 1, 1)) // dt.timedelta(microseconds=1)
    return {"s": us // 10**6, "ms": us // 10**3, "us": us, "ns": us * 1000}[unit]


def gen_instant(rng, whole=None):
    base = dt.datetime(2000, 1, 1, 12)
    days = rng.choice([rng.uniform(-3600, 13000), rng.uniform(-3600, 13000), rng.uniform(-110, 110), rng.uniform(-1, 1)])
    whole = whole if whole is not None else rng.choice(["us", "us", "ms", "s"])
    t = base + dt.timedelta(days=days)
    if whole == "s":
        return t.replace(microsecond=0)
    if whole == "ms":
        return t.replace(microsecond=(t.microsecond // 1000) * 1000)
    return t


def time_model(ctx, n):
    from pyorbital import astronomy, orbital
    o = orbital_obj()
    ep_us = int(o.tle.epoch.astype("datetime64[us]").astype("int64"))
    cases = []
    for _ in range(n):
        t = gen_instant(ctx.rng)
        for u in UNITS:
            if u == "s" and t.microsecond or u == "ms" and t.microsecond % 1000:
                continue
            k = ticks_of(t, u)
            fin = "ns" if u == "ns" else "us"            # unit of dt2np(t) - t_0 (the epoch is datetime64[us])
            since = ticks_of(t, fin) - ep_us * (1000 if fin == "ns" else 1)
            cases.append((t, u, k, fin, since))
    cu = {"s": "US_s", "ms": "US_ms", "us": "US_us", "ns": "US_ns"}
    text = COQ_HEAD + ("Definition qz (x : Q) : list Z := [Qnum (Qred x); Zpos (Qden (Qred x))].\n"
                       "Eval vm_compute in (flat_map (fun c => qz (days_float (fst (fst c)) (snd (fst c))) ++ qz (minutes_float (fst (snd c)) (snd (snd c)))\n"
                       "   ++ qz (fdiv_ticks (snd (snd c)) (60 * ticks_per_second (fst (snd c))))) [%s]).\n"
                       % "; ".join("((%s, %d), (%s, %d))" % (cu[u], k, cu[fin], since) for _t, u, k, fin, since in cases))
    ok, out = common.coq_eval("c08_time", text, timeout=600)
    ctx.checker_cmds.append("coqc cases_c08_time.v (binary64 model of _days, of the minutes since epoch and of numpy's tick division, %d instants x units)" % len(cases))
    blocks = parse_lists(out) if ok else []
    if not ok or not blocks or len(blocks[0]) != 6 * len(cases):
        ctx.corr_fail("M_Kinds.days_float evaluation in Coq", {"error": out[-500:]})
        return
    vals = blocks[0]
    for i, (t, u, k, fin, since) in enumerate(cases):
        md = Fraction(vals[6 * i], vals[6 * i + 1])
        mm = Fraction(vals[6 * i + 2], vals[6 * i + 3])
        mq = Fraction(vals[6 * i + 4], vals[6 * i + 5])
        gd = Fraction(float(astronomy.jdays2000(np.datetime64(k, u))))
        kep = orbital._Keplerians(o._sgdp4._params)
        kep._utc_time = np.datetime64(k, u)
        kep._get_timedelta_in_minutes()
        gm = Fraction(float(kep._ts))
        gq = Fraction(float(np.timedelta64(since, fin) / np.timedelta64(1, "m")))
        ctx.case(("time-model", t.isoformat(), u), {"instant": t.isoformat(), "unit": u, "model_days": str(md), "impl_days": str(gd)} if i == 0 else None)
        if md != gd:
            ctx.corr_fail("M_Kinds.days_float (binary64, bit-exact) vs astronomy.jdays2000", {"instant": t.isoformat(), "unit": u, "ticks": k, "model": str(md), "impl": str(gd)})
        if mm != gm:
            ctx.corr_fail("M_Kinds.minutes_float (binary64, bit-exact) vs _Keplerians._get_timedelta_in_minutes",
                          {"instant": t.isoformat(), "unit": u, "ticks_since_epoch": since, "model": str(mm), "impl": str(gm)})
        if mq != gq:
            ctx.corr_fail("oracle fact M_Kinds.fdiv_ticks (binary64, bit-exact) vs numpy timedelta64 / timedelta64(1,'m')",
                          {"unit": fin, "ticks": since, "model": str(mq), "numpy": str(gq)})


# ------------------------------------------------------------------------------------------------ oracle
def bits(x):
    if isinstance(x, tuple):
        return tuple(bits(v) for v in x)
    a = np.asarray(x)
    return (str(a.dtype), a.shape, a.tobytes())


def first_elem(x):
    """the element belonging to the first instant of an array-of-times result"""
    if isinstance(x, tuple):
        return tuple(first_elem(v) for v in x)
    a = np.asarray(x)
    if a.ndim == 0:
        return a
    return a[..., 0] if a.ndim >= 1 else a


def time_reprs(t):
    reps = [("datetime", t)]
    for u in UNITS:
        if u == "s" and t.microsecond or u == "ms" and t.microsecond % 1000:
            continue
        reps.append(("datetime64[%s]" % u, np.datetime64(ticks_of(t, u), u)))
    reps.append(("object array", np.array([t], dtype=object)))
    for u in UNITS:
        if u == "s" and t.microsecond or u == "ms" and t.microsecond % 1000:
            continue
        reps.append(("datetime64[%s] array" % u, np.array([ticks_of(t, u)], dtype="int64").astype("datetime64[%s]" % u)))
    return reps


def timekind_oracle(ctx, n):
    """bit-identical results for one instant in every representation"""
    from pyorbital import astronomy, orbital
    o = orbital_obj()
    ep = o.tle.epoch.astype("datetime64[us]").astype(dt.datetime)
    fns = [
        ("jdays2000", lambda t: astronomy.jdays2000(t), "any"), ("jdays", lambda t: astronomy.jdays(t), "any"),
        ("gmst", lambda t: astronomy.gmst(t), "any"),
        ("sun_zenith_angle", lambda t: astronomy.sun_zenith_angle(t, 10.5, 20.25), "any"),
        ("cos_zen", lambda t: astronomy.cos_zen(t, 10.5, 20.25), "any"),
        ("get_alt_az", lambda t: astronomy.get_alt_az(t, 10.5, 20.25), "any"),
        ("observer_position", lambda t: astronomy.observer_position(t, 10.5, 20.25, 0.5)[0], "any"),
        ("get_observer_look(function)", lambda t: orbital.get_observer_look(100.0, 30.0, 800.0, t, 10.5, 20.25, 0.5), "any"),
        ("Orbital.get_position", lambda t: tuple(o.get_position(t)[0]), "near"),
        ("Orbital.get_lonlatalt", lambda t: o.get_lonlatalt(t), "near"),
        ("Orbital.get_observer_look", lambda t: o.get_observer_look(t, 10.5, 20.25, 0.5), "near"),
        ("Orbital.get_position(far from epoch)", lambda t: tuple(o.get_position(t)[0]), "far"),
    ]
    # regression instants: ns ticks since J2000 / since epoch above 2^53 (double rounding of a plain tick quotient),
    # scalar pow() vs array square in the propagator and in the sub-point iteration
    regression = [dt.datetime(2007, 10, 18, 15, 10, 14, 536334), dt.datetime(2011, 10, 6, 6, 52, 24, 921998),
                  dt.datetime(2014, 4, 22, 7, 3, 19, 776970), dt.datetime(2014, 9, 1, 20, 30, 34, 406281)]
    for i in range(n + len(regression)):
        for name, f, where in fns:
            if i < len(regression):
                t = regression[i]
            elif where == "any":
                t = gen_instant(ctx.rng)
            else:
                days = ctx.rng.uniform(-60, 60) if where == "near" else ctx.rng.uniform(840, 2500)
                t = ep + dt.timedelta(days=days, microseconds=ctx.rng.randrange(10**6))
                whole = ctx.rng.choice(["us", "us", "ms", "s"])
                t = t.replace(microsecond=0 if whole == "s" else (t.microsecond // 1000 * 1000 if whole == "ms" else t.microsecond))
            ref = None
            for rname, rep in time_reprs(t):
                try:
                    with common.time_limit(20):
                        r = f(rep)
                except Exception as e:
                    r = "raise:%s" % type(e).__name__
                if not isinstance(r, str):
                    r = first_elem(r) if "array" in rname else r
                    b = tuple(x[2] for x in (bits(r) if isinstance(r, tuple) else (bits(r),)))
                else:
                    b = r
                ctx.case(("timekind", name, t.isoformat(), rname), {"entry": name, "instant": t.isoformat(), "representation": rname} if i == 0 and name == "gmst" else None)
                if where == "far" and isinstance(r, str):
                    break     # the propagator refuses this TLE so far from its epoch
                if ref is None:
                    ref = (rname, b, r)
                elif b != ref[1]:
                    ctx.violation("results for one instant differ between time representations (not bit-identical)",
                                  {"signature": "C08:timekind:%s" % name, "entry": name, "instant": t.isoformat(),
                                   "representation_a": ref[0], "result_a": repr(ref[2]), "representation_b": rname, "result_b": repr(r),
                                   "call": "%s with utc_time = %r vs %r" % (name, time_reprs(t)[0][1], rep)})
                    break


UNIT_TOL = 1e-6


def close(a, b, tol=UNIT_TOL, periodic=None):
    a, b = np.asarray(a, dtype="float64"), np.asarray(b, dtype="float64")
    d = np.abs(a - b)
    if periodic:
        d = np.minimum(d, np.abs(periodic - d))
    return bool(np.all((d <= tol) | (np.isnan(a) & np.isnan(b))))


def broadcast_oracle(ctx, n):
    """array calls == scalar calls after numpy broadcasting, within 1e-6 of the unit; documented kinds of the results"""
    import dask.array as da
    from pyorbital import astronomy, orbital
    o = orbital_obj()
    ep = o.tle.epoch.astype("datetime64[us]").astype(dt.datetime)
    rng = ctx.rng
    shapes = [((), ()), ((), (3,)), ((3,), (3,)), ((2,), ()), ((2, 1), (3,)), ((2, 1), (1, 3)), ((2, 3), (2, 3)), ((1,), (2, 3)), ((), (2, 3))]
    entries = [
        ("sun_zenith_angle", lambda t, lon, lat, alt: astronomy.sun_zenith_angle(t, lon, lat), 1, [None], True),
        ("cos_zen", lambda t, lon, lat, alt: astronomy.cos_zen(t, lon, lat), 1, [None], True),
        ("get_alt_az", lambda t, lon, lat, alt: astronomy.get_alt_az(t, lon, lat), 2, [None, 2 * np.pi], True),
        ("observer_position", lambda t, lon, lat, alt: sum(astronomy.observer_position(t, lon, lat, alt), ()), 6, [None] * 6, True),
        ("get_observer_look(function)", lambda t, lon, lat, alt: orbital.get_observer_look(lon, lat, 800.0 + alt, t, lat, lon / 2, alt), 2, [360.0, None], False),
        ("Orbital.get_observer_look", lambda t, lon, lat, alt: o.get_observer_look(t, lon, lat, alt), 2, [360.0, None], False),
    ]
    for it in range(n):
        for tshape, nshape in shapes:
            for dkind in ("float64", "float32", "int64", "dask"):
                full = np.broadcast_shapes(tshape, nshape)
                nt = int(np.prod(tshape)) if tshape else 1
                base = ep + dt.timedelta(days=rng.uniform(-20, 20))
                tlist = [base + dt.timedelta(minutes=rng.uniform(0, 3000)) for _ in range(nt)]
                tkind = rng.choice(["dt64us", "dt64ns", "obj", "dt64s"]) if tshape else rng.choice(["datetime", "dt64us", "dt64ns"])
                if tkind == "dt64s":
                    tlist = [x.replace(microsecond=0) for x in tlist]
                if not tshape:
                    t = {"datetime": tlist[0], "dt64us": np.datetime64(tlist[0], "us"), "dt64ns": np.datetime64(tlist[0], "ns")}[tkind]
                elif tkind == "obj":
                    t = np.array(tlist, dtype=object).reshape(tshape)
                else:
                    t = np.array([np.datetime64(x, "us") for x in tlist]).astype("datetime64[%s]" % tkind[4:]).reshape(tshape)
                nn = int(np.prod(nshape)) if nshape else 1
                npd = "float64" if dkind == "dask" else dkind

                def arr(lo, hi):
                    v = np.array([rng.uniform(lo, hi) for _ in range(nn)])
                    v = np.round(v) if npd == "int64" else v
                    v = v.astype(npd).reshape(nshape)
                    if not nshape:
                        return v[()] if dkind != "dask" else v[()]
                    return da.from_array(v, chunks=1) if dkind == "dask" else v
                lon, lat, alt = arr(-179, 179), arr(-89, 89), arr(0, 3)
                if dkind == "dask" and not nshape:
                    continue
                for name, f, ncomp, periods, is_astro in entries:
                    key = ("bcast", name, it, tshape, nshape, dkind, tkind)
                    try:
                        with common.time_limit(30):
                            res = f(t, lon, lat, alt)
                    except Exception as e:
                        ctx.violation("array call raises", {"signature": "C08:broadcast-raise:%s:%s" % (name, dkind), "entry": name, "error": "%s: %s" % (type(e).__name__, str(e)[:200]),
                                                             "time": repr(t), "lon": repr(lon), "lat": repr(lat), "alt": repr(alt)})
                        continue
                    res = res if isinstance(res, tuple) else (res,)
                    ctx.case(key, {"entry": name, "time_shape": tshape, "lonlat_shape": nshape, "dtype": dkind, "time_kind": tkind} if it == 0 and name == "sun_zenith_angle" and nshape == (3,) else None)
                    inp = {"entry": name, "time": repr(t), "lon": repr(lon), "lat": repr(lat), "alt": repr(alt)}
                    # documented kinds
                    for ci, r in enumerate(res):
                        if dkind == "dask":
                            if not isinstance(r, da.Array):
                                ctx.violation("dask input does not stay a lazy dask array", dict(inp, signature="C08:dask-lazy:%s" % name, component=ci, result_type=type(r).__name__))
                                continue
                        elif full == () and not isinstance(r, (float, np.floating)):
                            ctx.violation("scalar inputs do not give a scalar", dict(inp, signature="C08:scalar:%s" % name, component=ci, result_type=type(r).__name__))
                        if is_astro and (dkind != "float32" or nshape != ()):
                            # (np.float32 SCALARS: the property text only fixes "float32 arrays give float32";
                            #  their kind is covered by the model's table, not by this oracle)
                            want = "float32" if dkind == "float32" else "float64"
                            if str(getattr(r, "dtype", type(r).__name__)) != want:
                                ctx.violation("result dtype is not the documented one (float32 stays float32, everything else float64)",
                                              dict(inp, signature="C08:dtype:%s:%s" % (name, dkind), component=ci, dtype=str(getattr(r, "dtype", type(r).__name__)), documented=want))
                    vals = [np.asarray(r.compute() if isinstance(r, da.Array) else r) for r in res]
                    # element by element against the corresponding scalar calls
                    lonb = np.broadcast_to(np.asarray(lon.compute() if dkind == "dask" else lon), full)
                    latb = np.broadcast_to(np.asarray(lat.compute() if dkind == "dask" else lat), full)
                    altb = np.broadcast_to(np.asarray(alt.compute() if dkind == "dask" else alt), full)
                    tb = np.broadcast_to(np.asarray(t, dtype=object) if tkind in ("obj", "datetime") else np.asarray(t), full)
                    idxs = list(np.ndindex(*full)) if full else [()]
                    for idx in idxs[:6]:
                        def sc(v):
                            x = v[idx]
                            if npd == "int64":
                                return int(x)
                            return np.float32(x) if npd == "float32" else float(x)
                        ts = tb[idx]
                        ts = ts if isinstance(ts, dt.datetime) else np.datetime64(ts)
                        try:
                            with common.time_limit(30):
                                rs = f(ts, sc(lonb), sc(latb), sc(altb))
                        except Exception as e:
                            ctx.violation("scalar call raises", dict(inp, signature="C08:scalar-raise:%s:%s" % (name, dkind), index=idx, error="%s: %s" % (type(e).__name__, str(e)[:200])))
                            continue
                        rs = rs if isinstance(rs, tuple) else (rs,)
                        for ci in range(ncomp):
                            av = np.broadcast_to(vals[ci], full)[idx] if vals[ci].shape != full else vals[ci][idx]
                            tol = UNIT_TOL if npd != "float32" or not is_astro else UNIT_TOL
                            if not close(av, rs[ci], tol, periods[ci]):
                                ctx.violation("array result differs from the corresponding scalar call by more than 1e-6 of the unit",
                                              dict(inp, signature="C08:array-vs-scalar:%s:%s" % (name, dkind), component=ci, index=idx,
                                                   array_value=repr(av), scalar_call="%s(%r, %r, %r, %r)" % (name, ts, sc(lonb), sc(latb), sc(altb)),
                                                   scalar_value=repr(rs[ci])))
    # time-only entry points and the Orbital methods of time alone
    tfns = [("jdays", astronomy.jdays, 1), ("jdays2000", astronomy.jdays2000, 1), ("gmst", astronomy.gmst, 1),
            ("Orbital.get_position", lambda t: tuple(o.get_position(t)[0]) + tuple(o.get_position(t)[1]), 6),
            ("Orbital.get_lonlatalt", o.get_lonlatalt, 3)]
    for it in range(n):
        for tshape in [(1,), (4,), (2, 3)]:
            nt = int(np.prod(tshape))
            base = ep + dt.timedelta(days=rng.uniform(-20, 20))
            tlist = [base + dt.timedelta(minutes=rng.uniform(0, 3000)) for _ in range(nt)]
            for tkind in ("obj", "us", "ns"):
                t = (np.array(tlist, dtype=object) if tkind == "obj" else np.array([np.datetime64(x, "us") for x in tlist]).astype("datetime64[%s]" % tkind)).reshape(tshape)
                for name, f, ncomp in tfns:
                    try:
                        with common.time_limit(30):
                            res = f(t)
                    except Exception as e:
                        ctx.violation("array-of-times call raises", {"signature": "C08:broadcast-raise:%s:%s" % (name, tkind), "entry": name, "time": repr(t), "error": "%s: %s" % (type(e).__name__, str(e)[:200])})
                        continue
                    res = res if isinstance(res, tuple) else (res,)
                    ctx.case(("bcast-t", name, it, tshape, tkind))
                    for idx in list(np.ndindex(*tshape))[:6]:
                        rs = f(tlist[int(np.ravel_multi_index(idx, tshape))])
                        rs = rs if isinstance(rs, tuple) else (rs,)
                        for ci in range(ncomp):
                            per = 360.0 if (name == "Orbital.get_lonlatalt" and ci == 0) else (2 * np.pi if name == "gmst" else None)
                            if np.asarray(res[ci]).shape != tshape or not close(np.asarray(res[ci])[idx], rs[ci], UNIT_TOL, per):
                                ctx.violation("array-of-times result differs from the scalar call by more than 1e-6 of the unit (or has the wrong shape)",
                                              {"signature": "C08:array-vs-scalar:%s" % name, "entry": name, "time": repr(t), "index": idx, "component": ci,
                                               "array_value": repr(np.asarray(res[ci])[idx] if np.asarray(res[ci]).shape == tshape else np.asarray(res[ci]).shape),
                                               "scalar_value": repr(rs[ci])})


def real_value_oracle(ctx):
    """python ints and integer arrays are taken at their real values (the documentation's own example)"""
    from pyorbital import astronomy
    t = dt.datetime(2020, 6, 21, 12, 0, 0)
    for lon, lat in [(0, 0), (10, 20), (-120, 65), (179, -89)]:
        for name, f in [("sun_zenith_angle", astronomy.sun_zenith_angle), ("cos_zen", astronomy.cos_zen),
                        ("get_alt_az", astronomy.get_alt_az), ("observer_position", lambda a, b, c: sum(astronomy.observer_position(a, b, c, 1), ()))]:
            ref = f(t, float(lon), float(lat)) if name != "observer_position" else sum(astronomy.observer_position(t, float(lon), float(lat), 1.0), ())
            for kind, mk in [("python int", lambda v: int(v)), ("np.int64", lambda v: np.int64(v)), ("int array", lambda v: np.array([v, v])),
                             ("0-d int array", lambda v: np.array(v))]:
                ctx.case(("real", name, lon, lat, kind))
                try:
                    with common.time_limit(20):
                        r = f(t, mk(lon), mk(lat))
                except Exception as e:
                    ctx.violation("integer input raises", {"signature": "C08:int:%s:%s" % (name, kind), "call": "%s(%r, %r, %r)" % (name, t, mk(lon), mk(lat)), "error": "%s: %s" % (type(e).__name__, e)})
                    continue
                r = r if isinstance(r, tuple) else (r,)
                rf = ref if isinstance(ref, tuple) else (ref,)
                for ci in range(len(rf)):
                    if not close(np.asarray(r[ci]).ravel()[0], rf[ci], 1e-9):
                        ctx.violation("integer input is not taken at its real value", {"signature": "C08:int:%s:%s" % (name, kind), "call": "%s(%r, %r, %r)" % (name, t, mk(lon), mk(lat)),
                                                                                       "component": ci, "result": repr(r[ci]), "float_call_result": repr(rf[ci])})


def run(ctx):
    ctx.rule = ("kind tables: exhaustive — 9 numpy/dask oracle-fact tables (14 kinds, 14x14 pairs, several operators each), every entry "
                "point (get_alt_az, cos_zen, sun_zenith_angle, observer_position x2, get_observer_look function and method, jdays, "
                "jdays2000, gmst, sun_ra_dec, get_position, get_lonlatalt) x 14 input kinds x 10 time kinds, all 14x14 (lon, lat) kind pairs; "
                "time model: sampled instants x 4 units compared as exact rationals; oracle: random instants x every representation "
                "(bit-identical), 9 shape pairs x {float64, float32, int64, dask} x time kinds (array vs scalar calls, 1e-6 of the unit), "
                "integer inputs vs float inputs; distinct = (entry, kinds/shapes, instant)")
    ctx.assumptions += [
        "numpy 2 (NEP 50) / dask container and dtype rules are taken from the oracle-fact table of M_Kinds.v, compared cell by cell "
        "with the installed numpy/dask on this run (not proved)",
        "numpy timedelta64 // and - are exact int64 operations; timedelta64 / timedelta64 and int64 + float64 convert int64 to "
        "binary64 (exact below 2^53) and round to nearest even — validated bit-exactly against the Coq binary64 model on sampled instants",
        "values inside arrays (the 1e-6 agreement of array and scalar calls, bit-identity across time kinds) are validated by "
        "sampling on the implementation, not proved; the theorems are about result KINDS and about the tick->day conversion",
        "xarray is not installed: the DataArray branch of _float_to_sibling_result is not exercised",
    ]
    ctx.build_props("props/C08.v")
    blocks, out = coq_tables(ctx)
    if blocks is None:
        ctx.corr_fail("M_Kinds tables evaluation in Coq", {"error": out[-600:]})
    else:
        numpy_facts(ctx, blocks)
        entry_tables(ctx, blocks)
    time_model(ctx, ctx.n(60, 250))
    real_value_oracle(ctx)
    timekind_oracle(ctx, ctx.n(150, 1500))
    broadcast_oracle(ctx, ctx.n(2, 12))
