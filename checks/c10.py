"""C10 — reading a platform from a TLE collection.  Tie: T-corr (hand-written M_Collection.v: line scanner with an
explicit cursor, SATELLITES as a finite map; the model is run inside Coq by vm_compute on the very line lists the
implementation reads, and the outcome (which source lines / which exception) is compared)."""
import hashlib
import io
import json
import os
import re
import shutil
import subprocess
import sys
import tempfile
from unittest import mock

from harness import common, tlegen, numeric

LEVEL = "proof"
NOLOC = 9999


# ----------------------------------------------------------------------------------------------
# independent statement of the property (the oracle)
# ----------------------------------------------------------------------------------------------
def spec_platforms(text):
    """'maps the leading words of each non-comment line to its last token' (names upper-cased)"""
    out = {}
    for row in io.StringIO(text, newline=None):
        if row.startswith("#"):
            continue
        m = re.match(r"^\s*(\S(?:.*\S)?)\s+(\S+)\s*$", row, re.S)
        if not m:
            continue
        out[re.sub(r"\s+", " ", m.group(1)).upper()] = m.group(2)
    return out


def spec_entry_index(entries, requested, sat, stream):
    """index of the entry the property names, or None (-> KeyError)"""
    p = requested.strip().upper()
    if stream and p == "":
        return 0 if entries else None
    for i, e in enumerate(entries):
        if p and e["name"] is not None and e["name"].strip() == p:
            return i
        if p in sat and e["l1"].strip()[2:7] == sat[p]:
            return i
    return None


# ----------------------------------------------------------------------------------------------
# running the implementation
# ----------------------------------------------------------------------------------------------
def xml_message(pairs):
    body = ['<?xml version="1.0" encoding="UTF-8"?>', "<multi-mission-administrative-message>"]
    for l1, l2 in pairs:
        body += ["<message>", "<two-line-elements>", "<navigation>", "<line-1>" + l1 + "</line-1>",
                 "<line-2>" + l2 + "</line-2>", "</navigation>", "</two-line-elements>", "</message>"]
    body.append("</multi-mission-administrative-message>")
    return "\n".join(body)


def _blocked(*a, **k):
    raise OSError("network blocked by the C10 check")


def execute(case, tmpdir):
    """run one case on the implementation; returns a JSON-able outcome"""
    from pyorbital import tlefile
    kind = case["kind"]
    patches = [mock.patch.object(tlefile, "urlopen", _blocked), mock.patch("requests.get", _blocked)]
    if case.get("raw"):      # malformed stratum: observe the scanner outcome, not checksum/field parsing
        patches += [mock.patch.object(tlefile.Tle, "_checksum", lambda self: None),
                    mock.patch.object(tlefile.Tle, "_parse_tle", lambda self: None)]
    n = [0]

    def newfile(data, suffix, binary=True):
        n[0] += 1
        path = os.path.join(tmpdir, "c%d%s" % (n[0], suffix))
        with open(path, "wb") as f:
            f.write(data.encode("ascii"))
        return path
    for p in patches:
        p.start()
    try:
        with common.time_limit(20):
            if kind in ("path", "stream", "xml", "net"):
                if kind == "path":
                    t = tlefile.read(case["requested"], newfile(case["data"], ".tle"))
                elif kind == "stream":
                    t = tlefile.read(case["requested"], io.StringIO(case["data"]))
                elif kind == "xml":
                    t = tlefile.read(case["requested"], newfile(xml_message(case["data"]), "_ADMIN_MESSAGE_NO_1.xml"))
                else:
                    served = [d.encode("ascii") for d in case["data"]]
                    calls = []

                    def fake(url, *a, **k):
                        calls.append(url)
                        return io.BytesIO(served[(len(calls) - 1) % len(served)])
                    saved = os.environ.pop("TLES", None)
                    try:
                        with mock.patch.object(tlefile, "urlopen", fake):
                            t = tlefile.read(case["requested"])
                    finally:
                        if saved is not None:
                            os.environ["TLES"] = saved
                return ["Found", t.line1, t.line2]
            if kind == "bulk":
                paths = [newfile(d, ".txt") for d in case["data"]]
                res = tlefile.Downloader({"downloaders": {"read_tle_files": {"paths": paths}}}).read_tle_files()
            elif kind == "bulkxml":
                paths = [newfile(xml_message(d), "_ADMIN_MESSAGE_NO_%d.xml" % i) for i, d in enumerate(case["data"])]
                res = tlefile.Downloader({"downloaders": {"read_xml_admin_messages": {"paths": paths}}}).read_xml_admin_messages()
            else:
                raise ValueError(kind)
            return ["BulkOk", [[t.line1, t.line2] for t in res]]
    except BaseException as e:      # StopIteration included
        if isinstance(e, (KeyboardInterrupt, SystemExit)):
            raise
        return [type(e).__name__, str(e)[:120]]
    finally:
        for p in patches:
            p.stop()


WORKER = r'''
import json, os, sys, tempfile, shutil
from checks import c10
from pyorbital import tlefile
job = json.load(open(sys.argv[1]))
tmp = tempfile.mkdtemp(prefix="verif-c10w-", dir="/var/tmp")
try:
    out = {"platforms_path": tlefile.get_platforms_filepath(), "satellites": list(tlefile.SATELLITES.items()),
           "outcomes": [c10.execute(c, tmp) for c in job["cases"]]}
finally:
    shutil.rmtree(tmp, ignore_errors=True)
sys.stdout.write("\n@@RESULT@@" + json.dumps(out) + "\n")
'''


# ----------------------------------------------------------------------------------------------
# lines as the implementation's iterators yield them, and their Coq literals
# ----------------------------------------------------------------------------------------------
def lines_binary(text):
    return [b.decode("ascii") for b in io.BytesIO(text.encode("ascii")).readlines()]


def lines_stream(text):
    return io.StringIO(text).readlines()


def lines_universal(text):
    return list(io.StringIO(text, newline=None))


def lines_xml(pairs):
    flat = [x for p in pairs for x in p]
    return io.StringIO("\n".join(flat)).readlines()


def split_term(line):
    for term, code in (("\r\n", 2), ("\n", 1), ("\r", 3)):
        if line.endswith(term):
            return line[:-len(term)], code
    return line, 0


def representable(s):
    return all(c == "\t" or 32 <= ord(c) <= 126 for c in s)


def coq_str(s):
    assert representable(s), repr(s)
    return '"%s"' % s.replace('"', '""')


def coq_lines(lines):
    out = []
    for ln in lines:
        t, c = split_term(ln)
        out.append("(%s, %d)" % (coq_str(t), c))
    return "(map mk [%s])" % "; ".join(out) if out else "(@nil line)"


def loc(lines, x):
    for i, ln in enumerate(lines):
        if ln.strip() == x:
            return i
    return NOLOC


def canon_impl(out, lines):
    """implementation outcome -> the model's code list"""
    if out[0] == "Found":
        return [1, loc(lines, out[1]), loc(lines, out[2])]
    if out[0] == "KeyError":
        return [2, 0, 0]
    if out[0] == "StopIteration":
        return [3, 0, 0]
    if out[0] == "BulkOk":
        return [1] + [v for a, b in out[1] for v in (loc(lines, a), loc(lines, b))]
    return [-1, out[0], out[1] if len(out) > 1 else ""]


def canon_bulk_err(out):
    return [0, {"KeyError": 2, "StopIteration": 3}.get(out[0], -1)]


HEADER = ("From Coq Require Import List Ascii String.\nImport ListNotations.\n"
          "From PyOrb.model Require Import M_Collection.\nFrom PyOrb.proofs Require Import P_Collection.\n"
          "Local Open Scope string_scope.\nSet Printing Depth 1000000.\nSet Printing Width 1000.\n"
          "Definition LS := list_ascii_of_string.\n"
          "Definition mk (p : string * nat) : line := mkline (list_ascii_of_string (fst p), snd p).\n")


def coq_run(defs, exprs, tag):
    """evaluate a list of `list nat` expressions; returns list of int lists or (None, log)"""
    text = HEADER + "\n".join(defs) + "\nEval vm_compute in [\n" + ";\n".join(exprs) + "\n].\n"
    ok, out = common.coq_eval("c10_" + tag, text, timeout=900)
    if not ok or "=" not in out:
        return None, out
    body = out[out.index("="):].rsplit(": list", 1)[0]
    inner = re.findall(r"\[([^\[\]]*)\]", body[body.index("[") + 1:])
    res = [[int(x) for x in re.findall(r"\d+", grp)] for grp in inner]
    if len(res) != len(exprs):
        return None, out
    return res, out


def coq_platforms(texts):
    """registry of each platforms text as the model computes it + sats_ok; [(items, ok)] or (None, log)"""
    defs, cmds = [], []
    for i, t in enumerate(texts):
        defs.append("Definition rows%d : list line := %s." % (i, coq_lines(lines_universal(t))))
        cmds.append("Eval vm_compute in (map (fun kv => (string_of_list_ascii (fst kv), string_of_list_ascii (snd kv))) "
                    "(read_platform_numbers true rows%d), sats_ok (read_platform_numbers true rows%d))." % (i, i))
    ok, out = common.coq_eval("c10_plat", HEADER + "\n".join(defs) + "\n" + "\n".join(cmds) + "\n", timeout=600)
    if not ok:
        return None, out
    chunks = out.split("= (")[1:]
    if len(chunks) != len(texts):
        return None, out
    res = []
    for ch in chunks:
        body = ch.rsplit(": list", 1)[0]
        strs = [s.replace('""', '"') for s in re.findall(r'"((?:[^"]|"")*)"', body)]
        okflag = bool(re.search(r",\s*true\s*\)\s*$", body.strip()))
        res.append((list(zip(strs[0::2], strs[1::2])), okflag))
    return res, out


# ----------------------------------------------------------------------------------------------
# generators
# ----------------------------------------------------------------------------------------------
FANCY = ["ISS (ZARYA)", "FENGYUN 3D", "COSMOS 2251 DEB", "STARLINK-1007", "SL-8 R/B", "NOAA 19", "METOP-B", "AQUA",
         "SUOMI NPP", "HIMAWARI-8", "GOES 16", "METEOR-M 2", "CZ-4B DEB (A)", "O3B FM07", "X", "SAT-1 (TEST) [+]",
         "TERRA", "NOAA 19 DEB", "Metop-B", "noaa 19", "2 FAST", "10 DOWNING"]


def make_tle(rng, satnum):
    f = tlegen.random_fields(rng)
    f["satnum"] = satnum
    return tlegen.make(**f)


def gen_collection(rng, reg, size=None, style=None):
    """list of entries {name, l1, l2} (raw texts without terminators) + assembled text; all well-formed"""
    n = size if size is not None else rng.choice([0, 1, 2, 3, 5, 8, 13, 21, 30, rng.randint(0, 30), rng.randint(0, 30)])
    style = style or rng.choice(["named", "unnamed", "mixed", "alias-named"])
    entries = []
    for _ in range(n):
        r = rng.random()
        regname = None
        if r < 0.35 and reg:
            regname, rid = rng.choice(reg)
            satnum = int(rid)
        elif r < 0.5 and reg:
            _, rid = rng.choice(reg)
            satnum = int(rid[:4] + rng.choice([d for d in "0123456789" if d != rid[4]]))   # shares a 4-digit prefix
        else:
            satnum = rng.choice([rng.randint(1, 99999), rng.randint(1, 999)])
        l1, l2 = make_tle(rng, satnum)
        named = style in ("named", "alias-named") or (style == "mixed" and rng.random() < 0.5)
        name = None
        if named:
            if style == "alias-named" and regname and rng.random() < 0.7:
                name = rng.choice([regname.upper(), regname, regname.upper().replace("-", " ")])
            else:
                name = rng.choice(FANCY + ["OBJ %s-%d" % (rng.choice("ABCDEFG"), rng.randint(1, 99))] * 6)
            name = rng.choice(["", "", "", " ", "  "]) + name + rng.choice(["", "", "", " ", "   ", "\t"])
        elif style == "mixed" and rng.random() < 0.1:
            name = rng.choice(["", "  "])               # a blank line between entries
        if rng.random() < 0.15:
            l1 += rng.choice([" ", "  "])
        if rng.random() < 0.1:
            l2 = l2 + " "
        entries.append({"name": name, "l1": l1, "l2": l2})
    if entries and rng.random() < 0.5:                   # duplicates: identical entry or same satellite/name, other elements
        for _ in range(rng.randint(1, 3)):
            e = dict(rng.choice(entries))
            if rng.random() < 0.5:
                e["l1"], e["l2"] = make_tle(rng, int(e["l1"][2:7]))
            entries.insert(rng.randint(0, len(entries)), e)
        entries = entries[:30]
    rng.shuffle(entries)
    eol = rng.choice(["\n", "\n", "\r\n", "mixed"])
    parts = []
    for e in entries:
        for key in ("name", "l1", "l2"):
            if e[key] is not None:
                parts.append(e[key] + (rng.choice(["\n", "\r\n"]) if eol == "mixed" else eol))
    if parts and rng.random() < 0.15:
        parts[-1] = split_term(parts[-1])[0]             # no terminator on the last line
    return entries, "".join(parts)


def gen_requests(rng, entries, reg, stream_bias=False):
    """(class, requested text) pairs covering the property's requested-name classes"""
    regd = dict(reg)
    ids = {e["l1"].strip()[2:7] for e in entries}
    present = [n for n, i in reg if i in ids]
    absent = [n for n, i in reg if i not in ids]
    names = [e["name"].strip() for e in entries if e["name"] is not None and e["name"].strip()]
    reqs = []

    def var(s):
        return rng.choice([s, s.lower(), " " + s.lower() + "  ", s.upper(), s.title()])
    if present:
        reqs.append(("alias", var(rng.choice(present))))
    if absent:
        reqs.append(("alias-absent", var(rng.choice(absent))))
    if names:
        later = [n for n in names[1:] if n.upper() not in regd] or names
        reqs.append(("name", var(rng.choice(later))))
        reqs.append(("name", var(rng.choice(names))))
        nm = rng.choice(names)
        pre = nm[:max(1, rng.randint(1, len(nm)) - 1)] if rng.random() < 0.5 else nm.split(" ")[0]
        reqs.append(("prefix", var(pre)))
        reqs.append(("unknown", var(nm + rng.choice(["X", " 2", "-"]))))
    reqs.append(("unknown", rng.choice(["NOSUCHSAT 7", "zzz", "1", "2", "#"])))
    reqs.append(("empty", rng.choice(["", "", "   ", "\t"])))
    return reqs


def gen_platforms_text(rng, reg):
    """a custom platforms file: comments, short rows, names with blanks, tabs, duplicate names (last wins), 5-char ids"""
    rows = ["# custom platforms file of the C10 check", "#NOAA-19 11111"]
    pool = rng.sample(reg, min(len(reg), rng.randint(3, 12)))
    for name, rid in pool:
        if rng.random() < 0.3:
            rid = "%05d" % rng.randint(1, 99999)
        rows.append(rng.choice([name, name.lower(), name.replace("-", " ")]) + rng.choice([" ", "  ", "\t", " \t "]) + rid)
    for _ in range(rng.randint(1, 6)):
        nm = rng.choice(["VERIF SAT %d" % rng.randint(1, 9), "My-Sat (X)", "obj a", "ISS (ZARYA)", "Fancy  Name   Three", "NOAA 19"])
        rows.append(rng.choice(["", " ", "\t"]) + nm + " " + "%05d" % rng.randint(1, 99999) + rng.choice(["", " ", "  "]))
    rows += rng.sample(["", "lonelyword", "   ", "# trailing comment 12345", "  # indented hash 54321"], rng.randint(1, 4))
    if rng.random() < 0.7:                               # a duplicate name further down overrides
        nm = rows[rng.randint(2, len(rows) - 1)]
        m = re.match(r"^\s*(\S(?:.*\S)?)\s+(\S+)\s*$", nm)
        if m and not nm.startswith("#"):
            rows.append(m.group(1) + " " + "%05d" % rng.randint(1, 99999))
    rng.shuffle(rows)
    eol = rng.choice(["\n", "\r\n"])
    return eol.join(rows) + rng.choice([eol, ""])


def gen_malformed(rng, reg):
    """cases outside the well-formedness hypotheses: model/implementation correspondence only"""
    entries, text = gen_collection(rng, reg, size=rng.randint(1, 6), style=rng.choice(["named", "unnamed", "mixed"]))
    lines = lines_stream(text)
    kind = rng.choice(["truncate", "onename", "dataname", "garbage", "blank"])
    req = None
    if kind == "truncate":
        lines = lines[:max(1, len(lines) - rng.randint(1, 2))]
        named = [e["name"].strip() for e in entries if e["name"] and e["name"].strip()]
        req = named[-1] if named and rng.random() < 0.7 else rng.choice(["", "NOAA-19"])
    elif kind == "onename":
        lines.insert(rng.randint(0, len(lines)), "1 WEB SAT\n")
        req = rng.choice(["1 web sat", "", "unknown", "NOAA-19"])
    elif kind == "dataname":
        req = rng.choice([e["l1"] for e in entries] + [e["l2"] for e in entries]).strip()
    elif kind == "garbage":
        for _ in range(rng.randint(1, 3)):
            lines.insert(rng.randint(0, len(lines)), rng.choice(["garbage\n", "1\n", "1 \n", "2 x\n", "  1 33591  \n", "NOAA-19\n"]))
        req = rng.choice(["noaa-19", "", "garbage", "1"])
    else:
        for _ in range(rng.randint(1, 3)):
            lines.insert(rng.randint(0, len(lines)), rng.choice(["\n", "  \n", "\r\n"]))
        req = rng.choice(["", " ", "noaa-19"] + [e["name"].strip() for e in entries if e["name"] and e["name"].strip()])
    return "".join(lines), req


# ----------------------------------------------------------------------------------------------
def sig_of(kind, cls, *parts):
    h = hashlib.sha1(json.dumps(parts, sort_keys=True).encode()).hexdigest()[:12]
    return "C10:%s:%s:%s" % (kind, cls, h)


class Batch:
    """cases sharing one Coq evaluation"""

    def __init__(self):
        self.defs, self.exprs, self.meta = [], [], []
        self.ncoll = 0

    def add_lines(self, lines):
        name = "c%d" % self.ncoll
        self.ncoll += 1
        self.defs.append("Definition %s : list line := %s." % (name, coq_lines(lines)))
        return name

    def add_xml(self, pairs):
        name = "c%d" % self.ncoll
        self.ncoll += 1
        lit = "; ".join("(LS %s, LS %s)" % (coq_str(a), coq_str(b)) for a, b in pairs)
        self.defs.append("Definition %s : list line := xml_lines [%s]." % (name, lit) if pairs else
                         "Definition %s : list line := xml_lines []." % name)
        return name


def run(ctx):
    from pyorbital import tlefile
    ctx.rule = ("generated collections of 0-30 well-formed entries (named / unnamed / mixed / named by registered alias; names with blanks, "
                "parentheses, hyphens, surrounding white space; LF / CRLF / mixed endings; duplicates; shuffled; catalogue numbers registered, "
                "sharing a 4-digit prefix with a registered one, or random) x requested names {registered alias present/absent, name line of "
                "a first/later entry, prefix of a name, unknown, empty} in case/white-space variants x sources {path, io.StringIO, MMAM XML, "
                "nine interposed URLs} x platforms files {packaged, generated custom file via PYORBITAL_CONFIG_PATH in a fresh interpreter}; bulk reads "
                "through Downloader.read_tle_files / read_xml_admin_messages; plus a malformed stratum (truncated, blank lines, '1 ...' names, "
                "data-line names) for model/implementation agreement only; distinct = distinct (collection text, request, source, platforms file)")
    ctx.assumptions += [
        "model domain is 7-bit ASCII; generated texts use printable characters, tab, CR, LF only",
        "hand-written model M_Collection.v tied to tlefile.py by this run (model evaluated by vm_compute inside Coq on the same line lists)",
        "line splitting is Python's: binary readlines for paths, io.StringIO for streams, universal newlines for text-mode open; the model starts from those lines",
        "XML extraction is modelled as the identity on the (line-1, line-2) texts (defusedxml/ElementTree trusted; texts without markup characters or line breaks)",
        "theorem hypotheses: registered names non-empty and ids of 5 characters (sats_ok, evaluated in Coq for the packaged and every generated platforms "
        "file), name lines not starting with '1 ', requested name not of the form '1 ...'/'2 ...' (necessity of each proved by a _refuted witness)",
        "network never used: tlefile.urlopen and requests.get are replaced (blocking, or serving planted collections for the URL source)",
    ]
    src, _names = numeric.regen_ast(ctx, "collection", "the per-line decision of _decode_lines, _merge_tle_from_two_lines and the loop shape of "
                                    "_get_tles_from_url; the iterator, strip/startswith and the registry dict stay the hand model's primitives",
                                    optional=True)
    ctx.build_props("props/C10.v")
    if src is not None:
        ctx.build_props("props/C10_source.v")
    tmpdir = tempfile.mkdtemp(prefix="verif-c10-", dir="/var/tmp")
    try:
        _run(ctx, tlefile, tmpdir)
    finally:
        shutil.rmtree(tmpdir, ignore_errors=True)


def _run(ctx, tlefile, tmpdir):
    rng = ctx.rng
    pkg_path = os.path.join(common.REPO, "pyorbital", "etc", "platforms.txt")
    with open(pkg_path, newline="") as f:
        pkg_text = f.read()
    n_custom = ctx.n(4, 16)
    pkg_spec = spec_platforms(pkg_text)
    reg_pkg = sorted(pkg_spec.items())
    custom_texts = [gen_platforms_text(rng, [(k.title() if rng.random() < 0.5 else k, v) for k, v in reg_pkg]) for _ in range(n_custom)]
    # a registry with a 4-character id: the model's prefix behaviour is compared, the oracle is not applied
    short_text = "# short id\nSHORTY 3359\nNOAA-19 33591\n"
    plat_texts = [pkg_text] + custom_texts + [short_text]

    # ---- platforms files: model registry (in Coq) vs read_platform_numbers vs the property's statement
    res, log = coq_platforms(plat_texts)
    if res is None:
        ctx.corr_fail("M_Collection.read_platform_numbers evaluation in Coq", {"error": log[-500:]})
        return
    impl_regs = []
    for i, text in enumerate(plat_texts):
        path = os.path.join(tmpdir, "platforms_%d.txt" % i)
        with open(path, "w", newline="") as f:
            f.write(text)
        with common.time_limit(20):
            impl = tlefile.read_platform_numbers(path, in_upper=True, num_as_int=False)
            impl_plain = tlefile.read_platform_numbers(path)
        impl_regs.append(impl)
        model_items, ok5 = res[i]
        ctx.case(("platforms", text), {"platforms_file": i, "entries": len(impl), "sats_ok": ok5} if i < 2 else None)
        want = spec_platforms(text)
        if dict(impl) != want or {k.upper(): v for k, v in impl_plain.items()} != want:
            ctx.violation("read_platform_numbers does not map leading words to the last token",
                          {"signature": sig_of("platforms", "mapping", text), "platforms_text": text,
                           "impl": sorted(impl.items())[:40], "spec": sorted(want.items())[:40]})
        if list(impl.items()) != model_items:
            ctx.corr_fail("M_Collection.read_platform_numbers vs tlefile.read_platform_numbers",
                          {"platforms_text": text, "model": model_items[:40], "impl": list(impl.items())[:40]})
        if ok5 != (i != len(plat_texts) - 1):
            ctx.corr_fail("sats_ok (ids of 5 characters, non-empty names) evaluated in Coq", {"platforms_text": text, "sats_ok": ok5})
    if dict(tlefile.SATELLITES) != pkg_spec:
        ctx.violation("SATELLITES differs from the packaged platforms file", {"signature": "C10:platforms:active-default",
                                                                               "impl": sorted(tlefile.SATELLITES.items())[:10]})

    # ---- collections
    jobs = []        # (platform file index, case dict, lines, oracle info)

    def add_single(pf, kind, entries, text, cls, req, raw=False, oracle=True):
        if kind == "xml":
            pairs = [[e["l1"].strip(), e["l2"].strip()] for e in entries]
            case = {"kind": "xml", "data": pairs, "requested": req}
            lines = lines_xml(pairs)
            ents = [{"name": None, "l1": a, "l2": b} for a, b in pairs]
        else:
            case = {"kind": kind, "data": text, "requested": req}
            lines = lines_binary(text) if kind == "path" else lines_stream(text)
            ents = entries
        if raw:
            case["raw"] = True
        jobs.append((pf, case, lines, {"entries": ents, "cls": cls, "oracle": oracle}))

    n_coll = ctx.n(100, 700)
    for ci in range(n_coll):
        pf = 0 if ci % 3 else rng.randint(1, n_custom)            # a third of the collections under a custom platforms file
        reg = sorted(spec_platforms(plat_texts[pf]).items())
        size = ci if ci < 4 else (30 if ci == 4 else None)
        entries, text = gen_collection(rng, reg, size=size)
        for cls, req in gen_requests(rng, entries, reg):
            if not representable(req):
                continue
            kinds = ["path", "stream"]
            if rng.random() < 0.5:
                kinds.append("xml")
            for kind in kinds:
                add_single(pf, kind, entries, text, cls, req)
    # regression strata of the two defects fixed in /repo (b90fb81, cb80eea): unregistered name of a LATER entry on a stream
    for _ in range(ctx.n(10, 50)):
        entries, text = gen_collection(rng, reg_pkg, size=rng.randint(2, 8), style="named")
        later = [e["name"].strip() for e in entries[1:] if e["name"].strip().upper() not in pkg_spec and e["name"].strip() != entries[0]["name"].strip()]
        if later:
            add_single(0, "stream", entries, text, "name-later-on-stream", rng.choice(later).lower())
    # short-id registry and malformed inputs: correspondence only
    sh = len(plat_texts) - 1
    for _ in range(ctx.n(3, 10)):
        entries, text = gen_collection(rng, [("SHORTY", "33591"), ("NOAA-19", "33591")], size=rng.randint(1, 6))
        for req in ("shorty", "noaa-19"):
            add_single(sh, rng.choice(["path", "stream"]), entries, text, "short-id", req, oracle=False)
    for _ in range(ctx.n(80, 500)):
        text, req = gen_malformed(rng, reg_pkg)
        if representable(req):
            add_single(0, rng.choice(["path", "stream"]), [], text, "malformed", req, raw=True, oracle=False)
    # URL source: nine interposed URLs, every one is opened, the first hit in URL order wins
    for _ in range(ctx.n(3, 12)):
        colls = [gen_collection(rng, reg_pkg, size=rng.randint(0, 4)) for _ in range(9)]
        allents = [e for es, _ in colls for e in es]
        for cls, req in gen_requests(rng, allents, reg_pkg)[:4]:
            if representable(req):
                case = {"kind": "net", "data": [t for _, t in colls], "requested": req}
                jobs.append((0, case, [lines_binary(t) for _, t in colls], {"entries": allents, "cls": cls, "oracle": True}))
    # bulk reads
    for bi in range(ctx.n(16, 80)):
        pf = 0 if bi % 2 else rng.randint(1, n_custom)
        reg = sorted(spec_platforms(plat_texts[pf]).items())
        nfiles = rng.randint(1, 3)
        colls = [gen_collection(rng, reg, size=(0 if bi == 0 and k == 0 else None)) for k in range(nfiles)]
        if bi % 4 == 3:
            data = [[[e["l1"].strip(), e["l2"].strip()] for e in es] for es, _ in colls]
            if bi == 3:
                data[0] = []                                  # an admin message without navigation entries
            case = {"kind": "bulkxml", "data": data}
            lines = [ln for d in data for ln in lines_xml(d)]
            ents = [{"name": None, "l1": a, "l2": b} for d in data for a, b in d]
            jobs.append((pf, case, lines, {"entries": ents, "cls": "bulkxml", "oracle": True, "xmlfiles": data}))
        else:
            case = {"kind": "bulk", "data": [t for _, t in colls]}
            per_file = [lines_universal(t) for _, t in colls]
            jobs.append((pf, case, per_file, {"entries": [e for es, _ in colls for e in es], "cls": "bulk", "oracle": True}))
    for _ in range(ctx.n(4, 20)):
        text, _ = gen_malformed(rng, reg_pkg)
        jobs.append((0, {"kind": "bulk", "data": [text], "raw": True}, [lines_universal(text)], {"entries": [], "cls": "bulk-malformed", "oracle": False}))

    # ---- run the implementation: packaged platforms in this interpreter, every other platforms file in a fresh one
    outcomes = [None] * len(jobs)
    for j, (pf, case, _, _) in enumerate(jobs):
        if pf == 0:
            outcomes[j] = execute(case, tmpdir)
    for pf in sorted({j[0] for j in jobs if j[0] != 0}):
        idxs = [j for j, job in enumerate(jobs) if job[0] == pf]
        cdir = os.path.join(tmpdir, "cfg%d" % pf)
        os.makedirs(cdir)
        with open(os.path.join(cdir, "platforms.txt"), "w", newline="") as f:
            f.write(plat_texts[pf])
        jf = os.path.join(cdir, "job.json")
        with open(jf, "w") as f:
            json.dump({"cases": [jobs[j][1] for j in idxs]}, f)
        wpath = os.path.join(cdir, "worker.py")
        with open(wpath, "w") as f:
            f.write(WORKER)
        env = {k: v for k, v in os.environ.items() if k not in ("TLES", "PPP_CONFIG_DIR")}
        env.update({"PYORBITAL_CONFIG_PATH": cdir, "PYTHONPATH": common.REPO + ":" + common.VERIF})
        p = subprocess.run([common.PY, "-W", "ignore", wpath, jf], env=env, stdout=subprocess.PIPE, stderr=subprocess.PIPE, text=True, timeout=900)
        m = re.search(r"@@RESULT@@(.*)", p.stdout)
        if not m:
            ctx.corr_fail("worker interpreter with PYORBITAL_CONFIG_PATH", {"platforms_text": plat_texts[pf], "stderr": p.stderr[-600:]})
            continue
        wres = json.loads(m.group(1))
        want = spec_platforms(plat_texts[pf])
        ctx.case(("active-platforms", plat_texts[pf]))
        if os.path.realpath(wres["platforms_path"]) != os.path.realpath(os.path.join(cdir, "platforms.txt")) or dict(wres["satellites"]) != want:
            ctx.violation("active registry under PYORBITAL_CONFIG_PATH is not the custom platforms file's mapping",
                          {"signature": sig_of("platforms", "active", plat_texts[pf]), "platforms_text": plat_texts[pf],
                           "platforms_path": wres["platforms_path"], "impl": wres["satellites"][:30]})
        if [list(x) for x in wres["satellites"]] != [list(x) for x in res[pf][0]]:
            ctx.corr_fail("M_Collection.read_platform_numbers vs SATELLITES in a fresh interpreter", {"platforms_text": plat_texts[pf]})
        for j, o in zip(idxs, wres["outcomes"]):
            outcomes[j] = o

    # ---- run the model inside Coq, in batches
    model = [None] * len(jobs)
    order = list(range(len(jobs)))
    bsize = 300
    for b0 in range(0, len(order), bsize):
        chunk = order[b0:b0 + bsize]
        batch = Batch()
        used = sorted({jobs[j][0] for j in chunk})
        for pf in used:
            batch.defs.append("Definition sats%d : dict := read_platform_numbers true %s." % (pf, coq_lines(lines_universal(plat_texts[pf]))))
        cache = {}
        for j in chunk:
            pf, case, lines, info = jobs[j]
            kind = case["kind"]
            if kind == "xml":
                key = ("xml", json.dumps(case["data"]))
                if key not in cache:
                    cache[key] = batch.add_xml(case["data"])
                c = cache[key]
                batch.exprs.append("code_outcome %s (tle_read sats%d true (LS %s) [%s])" % (c, pf, coq_str(case["requested"]), c))
            elif kind in ("path", "stream"):
                key = (kind, case["data"])
                if key not in cache:
                    cache[key] = batch.add_lines(lines)
                c = cache[key]
                batch.exprs.append("code_outcome %s (tle_read sats%d %s (LS %s) [%s])" % (
                    c, pf, "true" if kind == "stream" else "false", coq_str(case["requested"]), c))
            elif kind == "net":
                cs = [batch.add_lines(ls) for ls in lines]
                batch.exprs.append("code_outcome (List.concat [%s]) (tle_read sats%d false (LS %s) [%s])" % (
                    "; ".join(cs), pf, coq_str(case["requested"]), "; ".join(cs)))
            elif kind == "bulk":
                cs = [batch.add_lines(ls) for ls in lines]
                batch.exprs.append("code_bulk (List.concat [%s]) (read_tle_files sats%d [%s])" % ("; ".join(cs), pf, "; ".join(cs)))
            elif kind == "bulkxml":
                lits = ["[%s]" % "; ".join("(LS %s, LS %s)" % (coq_str(a), coq_str(b)) for a, b in d) for d in info["xmlfiles"]]
                allx = "; ".join("xml_lines %s" % l for l in lits)
                batch.exprs.append("code_bulk (List.concat [%s]) (read_xml_files sats%d [%s])" % (allx, pf, "; ".join(lits)))
        vals, log = coq_run(batch.defs, batch.exprs, "b%d" % (b0 // bsize))
        if vals is None:
            ctx.corr_fail("M_Collection evaluation in Coq (batch %d)" % (b0 // bsize), {"error": log[-600:]})
            continue
        for j, v in zip(chunk, vals):
            model[j] = v

    # ---- compare, and apply the oracle
    nsample = 0
    for j, (pf, case, lines, info) in enumerate(jobs):
        out, mv = outcomes[j], model[j]
        if out is None or mv is None:
            continue
        kind = case["kind"]
        flat = [ln for ls in lines for ln in ls] if kind in ("net", "bulk") else lines
        if kind in ("bulk", "bulkxml") and out[0] != "BulkOk":
            iv = canon_bulk_err(out)
        else:
            iv = canon_impl(out, flat)
        key = (pf, kind, json.dumps(case["data"]), case.get("requested"))
        sample = None
        if nsample < 5 and info["cls"] in ("alias", "name", "empty", "bulk", "name-later-on-stream") and len(info["entries"]) in range(2, 6):
            nsample += 1
            sample = {"class": info["cls"], "source": kind, "requested": case.get("requested"), "entries": len(info["entries"]),
                      "platforms_file": "packaged" if pf == 0 else "custom %d" % pf, "impl": out if out[0] != "BulkOk" else ["BulkOk", len(out[1])], "model": mv}
        ctx.case(key, sample)
        rep = {"signature": sig_of(kind, info["cls"], case["data"], case.get("requested"), plat_texts[pf] if pf else ""),
               "source": kind, "class": info["cls"], "requested": case.get("requested"), "collection": case["data"],
               "platforms_file": "packaged" if pf == 0 else plat_texts[pf], "observed": out if out[0] != "BulkOk" else ["BulkOk", out[1][:4]]}
        if iv != mv:
            ctx.corr_fail("M_Collection.%s vs tlefile (%s source)" % ("read_tle_files/read_xml_files" if kind.startswith("bulk") else "tle_read", kind),
                          {**{k: rep[k] for k in ("source", "class", "requested", "collection", "platforms_file")}, "model": mv, "impl": iv, "impl_raw": out[:2]})
        if not info["oracle"]:
            continue
        ents = info["entries"]
        sat = spec_platforms(plat_texts[pf])
        if kind in ("bulk", "bulkxml"):
            want = [[e["l1"].strip(), e["l2"].strip()] for e in ents]
            if out[0] != "BulkOk":
                ctx.violation("bulk read failed with %s on a well-formed collection" % out[0], rep)
            elif out[1] != want:
                ctx.violation("bulk read does not return every entry in order (%d returned, %d in the files)" % (len(out[1]), len(want)), rep)
            continue
        req = case["requested"]
        p = req.strip().upper()
        if p.startswith("1 ") or p.startswith("2 "):
            continue
        idx = spec_entry_index(ents, req, sat, stream=kind in ("stream", "xml"))
        if out[0] == "Found":
            pair = [out[1], out[2]]
            if not any([e["l1"].strip(), e["l2"].strip()] == pair for e in ents):
                ctx.violation("the two result lines do not come from one entry of the collection", rep)
            elif idx is None:
                ctx.violation("an entry was returned although no entry qualifies (another satellite's elements)", {**rep, "returned": pair})
            elif pair != [ents[idx]["l1"].strip(), ents[idx]["l2"].strip()]:
                ctx.violation("the entry returned is not the first qualifying entry (index %d)" % idx, {**rep, "returned": pair})
        elif out[0] == "KeyError":
            if idx is not None:
                ctx.violation("KeyError although entry %d qualifies" % idx, rep)
        else:
            ctx.violation("read failed with %s instead of returning the entry or KeyError" % out[0], rep)


def replay(ctx, rp):
    """re-run the failing inputs of a replay file on the implementation (packaged platforms file only)"""
    tmpdir = tempfile.mkdtemp(prefix="verif-c10r-", dir="/var/tmp")
    try:
        for fi in rp.get("failing_inputs", []):
            if "collection" not in fi or fi.get("platforms_file") != "packaged":
                continue
            case = {"kind": fi["source"], "data": fi["collection"], "requested": fi.get("requested")}
            print(fi["what"], "->", execute(case, tmpdir))
    finally:
        shutil.rmtree(tmpdir, ignore_errors=True)
    return 0
