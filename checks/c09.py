"""C09 — modulo-10 checksum.  Tie: T-corr (hand-written M_Checksum.v; exhaustive per-TLE sweep of
every position x every printable replacement on the implementation and, inside Coq, on the model)."""
import io
import os
import re
import tempfile
from unittest import mock

from harness import common, tlegen, numeric

LEVEL = "proof"
PRINTABLE = [chr(32 + i) for i in range(95)]
CODE = {"Accept": 0, "ChecksumError": 1, "ValueError": 2, "IndexError": 3}


def spec_outcome(line):
    """independent statement of the property on one (stripped) line"""
    line = line.strip()
    if not line:
        return "IndexError"
    last = line[-1]
    if last not in "0123456789":
        return "ValueError"
    s = sum(int(c) for c in line[:-1] if c in "0123456789") + line[:-1].count("-")
    return "Accept" if s % 10 == int(last) else "ChecksumError"


def spec_tle(l1, l2):
    o = spec_outcome(l1)
    return o if o != "Accept" else spec_outcome(l2)


def impl_outcome(l1, l2, source, tmpdir):
    """outcome class of Tle construction, with _parse_tle replaced by a recorder"""
    from pyorbital import tlefile
    called = []
    with mock.patch.object(tlefile.Tle, "_parse_tle", lambda self: called.append(1)):
        try:
            with common.time_limit(10):
                if source == "lines":
                    tlefile.Tle("X", line1=l1, line2=l2)
                elif source == "stream":
                    tlefile.Tle("", tle_file=io.StringIO(l1 + "\n" + l2 + "\n"))
                else:
                    path = os.path.join(tmpdir, "t.tle")
                    with open(path, "w", newline="") as f:
                        f.write("NAME\n" + l1 + "\n" + l2 + "\n")
                    tlefile.Tle("NAME", tle_file=path)
            out = "Accept"
        except tlefile.ChecksumError:
            out = "ChecksumError"
        except Exception as e:
            out = type(e).__name__
    return out, bool(called)


def coq_codes(l1, l2):
    def lit(s):
        return '(list_ascii_of_string "%s")' % s.replace('"', '""')
    text = ("From Coq Require Import List ZArith Ascii String.\nImport ListNotations.\nFrom PyOrb.model Require Import M_Checksum.\n"
            "Set Printing Depth 1000000.\nSet Printing Width 200.\n"
            "Eval vm_compute in (sweep_codes true %s %s ++ sweep_codes false %s %s).\n" % (lit(l1), lit(l2), lit(l2), lit(l1)))
    ok, out = common.coq_eval("c09", text, timeout=600)
    if not ok or "=" not in out:
        return None, out
    body = out[out.index("="):].split(": list")[0]
    nums = [int(x) for x in re.findall(r"(\d+)%N", body)]
    if len(nums) != len(l1) + len(l2):
        nums = [int(x) for x in re.findall(r"\b(\d+)\b", body)]
    if len(nums) != len(l1) + len(l2):
        return None, out
    return (nums[:len(l1)], nums[len(l1):]), out


def unpack(n):
    codes = []
    for _ in range(95):
        codes.append(n % 4)
        n //= 4
    return codes[::-1]


def run(ctx):
    ctx.rule = ("per TLE: every one of 2x69 positions x 95 printable replacement characters, given as lines "
                "(exhaustive), and via file and stream on a subset; distinct = distinct (tle, line, pos, char, source)")
    ctx.assumptions += [
        "model domain is 7-bit ASCII lines; Python's str.isdigit()/int() on non-ASCII digits are outside the model",
        "hand-written model M_Checksum.v tied to tlefile.py by this run's sweep (model evaluated by vm_compute inside Coq)",
    ]
    src, _names = numeric.regen_ast(ctx, "tle", "Tle._checksum, _read_tle (lines given), _parse_tle, __init__ call order; float()/int()/strptime/"
                                    "timedelta stay the hand models of M_TleText (validated against CPython by the C02 correspondence run)",
                                    optional=True)
    ctx.build_props("props/C09.v")
    if src is not None:
        ctx.build_props("props/C09_source.v")
    tles = list(tlegen.CORPUS[:1]) + [tlegen.random_tle(ctx.rng) for _ in range(ctx.n(2, 14))]
    tmpdir = tempfile.mkdtemp(prefix="verif-c09-", dir="/var/tmp")
    try:
        for ti, (l1, l2) in enumerate(tles):
            res, out = coq_codes(l1, l2)
            if res is None or len(res[0]) != len(l1) or len(res[1]) != len(l2):
                ctx.corr_fail("M_Checksum.sweep_codes evaluation in Coq", {"tle": [l1, l2], "error": out[-400:]})
                continue
            for li, (line, other, packed) in enumerate(((l1, l2, res[0]), (l2, l1, res[1]))):
                for pos in range(len(line)):
                    mcodes = unpack(packed[pos])
                    for ci, ch in enumerate(PRINTABLE):
                        new = line[:pos] + ch + line[pos + 1:]
                        a, b = (new, other) if li == 0 else (other, new)
                        sources = ["lines"]
                        # files/streams need an intact '1 ' designator to find the entry at all
                        if (li == 1 or pos >= 2) and (not ctx.quick or (pos * 95 + ci) % 7 == ti % 7):
                            sources.append("stream" if (pos + ci) % 2 else "file")
                        for src in sources:
                            if src != "lines" and li == 1 and pos < 1 and False:
                                continue
                            got, parsed = impl_outcome(a, b, src, tmpdir)
                            key = (ti, li, pos, ch, src)
                            ctx.case(key, {"tle": ti, "line": li + 1, "pos": pos, "char": ch, "source": src, "impl": got} if (pos, ci) in ((20, 23), (68, 16)) else None)
                            want = spec_tle(a, b)
                            sig = {"signature": "C09:%s:L%d:p%d:c%d" % (src, li + 1, pos, ord(ch)), "line1": a, "line2": b, "source": src,
                                   "impl": got, "spec": want, "parsed": parsed}
                            if got == "Accept" and want != "Accept":
                                ctx.violation("corrupted line accepted although its checksum relation fails", sig)
                            elif want == "ChecksumError" and got != "ChecksumError":
                                ctx.violation("checksum mismatch not reported as ChecksumError (%s)" % got, sig)
                            elif parsed and want != "Accept":
                                ctx.violation("elements parsed from a line that fails the checksum", sig)
                            # (a valid line being rejected is not a violation of "accepted only if";
                            #  it still shows up as a model/implementation disagreement below)
                            m = mcodes[ci]
                            if CODE.get(got, 9) != m or (parsed != (m == 0)):
                                ctx.corr_fail("M_Checksum.tle_outcome vs tlefile.Tle (source %s)" % src,
                                              {"line1": a, "line2": b, "model": m, "impl": got, "parse_reached": parsed})
    finally:
        import shutil
        shutil.rmtree(tmpdir, ignore_errors=True)
