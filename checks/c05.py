"""C05 — observer look angles.  Tie: T-gen (Gen_orbital.v / Gen_astronomy.v regenerated from
source) + translator self-check + implementation oracle against an independent ENU computation."""
import math

import numpy as np

from harness import common, numeric, tlegen
from checks.c04 import wgs84_eci, d_of, A, E2
from checks.c12 import iau82, J2000_US

LEVEL = "proof"


def enu_look(sat, lon, lat, alt, g):
    """independent azimuth/elevation (deg) of ECI point `sat` from the WGS-84 observer"""
    ox, oy, oz = wgs84_eci(lon, lat, alt, g)
    rx, ry, rz = sat[0] - ox, sat[1] - oy, sat[2] - oz
    phi, th = math.radians(lat), g + math.radians(lon)
    e = -math.sin(th) * rx + math.cos(th) * ry
    n = -math.sin(phi) * math.cos(th) * rx - math.sin(phi) * math.sin(th) * ry + math.cos(phi) * rz
    u = math.cos(phi) * math.cos(th) * rx + math.cos(phi) * math.sin(th) * ry + math.sin(phi) * rz
    rg = math.sqrt(rx * rx + ry * ry + rz * rz)
    return math.degrees(math.atan2(e, n)) % 360.0, math.degrees(math.asin(max(-1.0, min(1.0, u / rg)))), (e, n, u)


def angdiff(a, b):
    return (a - b + 180.0) % 360.0 - 180.0


def run(ctx):
    from pyorbital import orbital as orbmod
    from pyorbital.orbital import Orbital
    ctx.rule = ("random near-earth TLEs x times x observers over the globe incl. poles, date line, the exact sub-satellite "
                "point and its antipode, several altitudes; module function also for geostationary altitudes and arrays; "
                "distinct = distinct (tle, time, observer)")
    ctx.assumptions += [
        "theorems are over the reals; binary64 accuracy (1e-4 deg) and finiteness are sampled against an independent ENU computation",
        "method azimuth theorem needs a non-zero north component; an exactly zero top_s (division by zero in the method) is a measure-zero input not constructed by the generator",
        "translator trusted for 'emitted term = what the code computes over R'; self-checked each run against the interpreter",
    ]
    tr_a, defs_a = numeric.regen(ctx, "astronomy")
    tr, defs = numeric.regen(ctx, "orbital")
    if tr is not None:
        def gen_env(rng):
            r = rng.uniform(6600, 8000)
            la, lo = math.asin(rng.uniform(-1, 1)), rng.uniform(-math.pi, math.pi)
            us = rng.randint(-15000 * 86400 * 10**6, 15000 * 86400 * 10**6)
            return {"x": r * math.cos(la) * math.cos(lo), "y": r * math.cos(la) * math.sin(lo), "z": r * math.sin(la),
                    "d": us / 86400e6, "lon": rng.uniform(-180, 180), "lat": rng.uniform(-90, 90), "alt": rng.uniform(0, 5),
                    "sat_lon": rng.uniform(-180, 180), "sat_lat": rng.uniform(-90, 90), "sat_alt": rng.choice([rng.uniform(300, 1500), 35786.0])}

        def impl(name, env):
            t = np.datetime64(J2000_US + int(round(env["d"] * 86400e6)), "us")
            if name.startswith("gen_look"):
                o = Orbital.__new__(Orbital)
                o.get_position = lambda utc_time, normalize=True: (np.array([env["x"], env["y"], env["z"]]), np.zeros(3))
                az, el = o.get_observer_look(t, env["lon"], env["lat"], env["alt"])
            else:
                az, el = orbmod.get_observer_look(env["sat_lon"], env["sat_lat"], env["sat_alt"], t, env["lon"], env["lat"], env["alt"])
            return float(az if name.endswith("_az") else el)
        numeric.selfcheck(ctx, tr, defs, ["gen_look_az", "gen_look_el", "gen_mlook_az", "gen_mlook_el"], gen_env, impl,
                          n=ctx.n(60, 600), rtol=1e-9, atol=1e-7)
    ctx.build_props("props/C05.v")

    # ---------------- oracle on the implementation ----------------
    tles = list(tlegen.CORPUS) + [tlegen.random_tle(ctx.rng) for _ in range(ctx.n(8, 60))]
    for ti, (l1, l2) in enumerate(tles):
        try:
            orb = Orbital("X", line1=l1, line2=l2)
        except Exception:
            continue
        ep = orb.tle.epoch.astype("datetime64[us]")
        prev_obs = None
        for j in range(ctx.n(10, 40)):
            t = ep + np.timedelta64(int(ctx.rng.uniform(-10, 10) * 86400e6), "us")
            try:
                with common.time_limit(30):
                    pos, _ = orb.get_position(t, normalize=False)
                    slon, slat, salt = (float(v) for v in orb.get_lonlatalt(t))
            except Exception:
                continue
            g = iau82(d_of(t))
            kind = ctx.rng.choice(["random", "random", "subpoint", "antipode", "pole", "dateline", "near", "revisit", "revisit"])
            if kind == "revisit" and prev_obs is None:
                kind = "random"
            if kind == "revisit":
                # the same object is asked about the previous observer again with ONE coordinate changed (a station and a
                # mast on it, two stations on one meridian): the answer must follow all three coordinates
                lon, lat, alt = prev_obs
                which = ctx.rng.choice(["alt", "alt", "lon", "lat"])
                if which == "alt":
                    alt = alt + ctx.rng.choice([1.65, 3.0, 11.0]) if alt < 2 else 0.0
                elif which == "lon":
                    lon = (lon + ctx.rng.uniform(1, 40) + 180.0) % 360.0 - 180.0
                else:
                    lat = max(-90.0, min(90.0, lat + ctx.rng.uniform(-20, 20)))
                kind = "revisit-" + which
            elif kind == "subpoint":
                lon, lat, alt = slon, slat, ctx.rng.choice([0.0, 0.5])
            elif kind == "antipode":
                lon, lat, alt = (slon + 360.0) % 360.0 - 180.0, -slat, 0.0
            elif kind == "pole":
                lon, lat, alt = ctx.rng.uniform(-180, 180), ctx.rng.choice([90.0, -90.0]), 0.0
            elif kind == "dateline":
                lon, lat, alt = ctx.rng.choice([180.0, -180.0]), ctx.rng.uniform(-80, 80), 0.1
            elif kind == "near":
                lon, lat, alt = slon + ctx.rng.uniform(-3, 3), max(-90, min(90, slat + ctx.rng.uniform(-3, 3))), ctx.rng.uniform(0, 3)
            else:
                lon, lat, alt = ctx.rng.uniform(-180, 180), ctx.rng.uniform(-90, 90), ctx.rng.uniform(0, 4)
            base = {"line1": l1, "line2": l2, "time": str(t), "observer": [lon, lat, alt], "kind": kind}
            if kind.startswith("revisit"):
                base["previous_query_on_the_same_object"] = {"observer": list(prev_obs)}
            prev_obs = (lon, lat, alt)
            ctx.case(("look", ti, j), base if (ti == 0 and j < 2) else None)
            try:
                with common.time_limit(30):
                    az, el = (float(v) for v in orb.get_observer_look(t, lon, lat, alt))
                    az2, el2 = (float(v) for v in orbmod.get_observer_look(slon, slat, salt, t, lon, lat, alt))
            except Exception as e:
                ctx.violation("get_observer_look raised %s" % type(e).__name__, {"signature": "C05:raise:%s:%s" % (kind, type(e).__name__), **base, "error": str(e)})
                continue
            if not (math.isfinite(az) and math.isfinite(el) and math.isfinite(az2) and math.isfinite(el2)):
                ctx.violation("look angles are not finite", {"signature": "C05:nan:%d:%d" % (ti, j), **base, "method": [az, el], "module": [az2, el2]})
                continue
            if not (0.0 <= az <= 360.0 and -90.0 <= el <= 90.0 and 0.0 <= az2 <= 360.0 and -90.0 <= el2 <= 90.0):
                ctx.violation("look angles out of range", {"signature": "C05:range:%d:%d" % (ti, j), **base, "method": [az, el], "module": [az2, el2]})
            raz, rel, (e_, n_, u_) = enu_look([float(v) for v in pos], lon, lat, alt, g)
            w = math.cos(math.radians(rel))
            if abs(el - rel) > 1e-4 or abs(angdiff(az, raz)) * w > 1e-4:
                ctx.violation("method look angles differ from the WGS-84 east-north-up direction by more than 1e-4 deg",
                              {"signature": "C05:method:%d:%d" % (ti, j), **base, "impl": [az, el], "spec": [raz, rel]})
            if abs(el2 - el) > 5e-3 or abs(angdiff(az2, az)) * w > 5e-3:
                ctx.violation("method and module function differ by more than 5e-3 deg",
                              {"signature": "C05:agree:%d:%d" % (ti, j), **base, "method": [az, el], "module": [az2, el2]})
            if kind == "subpoint" and alt == 0.0 and not el >= 90.0 - 1e-3:
                ctx.violation("elevation at the sub-satellite point is not 90 deg", {"signature": "C05:zenith:%d:%d" % (ti, j), **base, "el": el})
    # module function: geostationary altitudes, arrays
    for i in range(ctx.n(60, 600)):
        slon, slat = ctx.rng.uniform(-180, 180), ctx.rng.uniform(-10, 10)
        salt = ctx.rng.choice([35786.0, ctx.rng.uniform(20000, 40000)])
        lon = np.array([slon + ctx.rng.uniform(-60, 60) for _ in range(4)])
        lat = np.array([ctx.rng.uniform(-70, 70) for _ in range(4)])
        alt = np.array([ctx.rng.uniform(0, 3) for _ in range(4)])
        t = np.datetime64(J2000_US + ctx.rng.randint(-9000 * 86400, 9000 * 86400) * 10**6, "us")
        g = iau82(d_of(t))
        ctx.case(("geo", i))
        base = {"sat": [slon, slat, salt], "time": str(t), "lon": lon.tolist(), "lat": lat.tolist(), "alt": alt.tolist()}
        try:
            with common.time_limit(30):
                az, el = orbmod.get_observer_look(slon, slat, salt, t, lon, lat, alt)
        except Exception as e:
            ctx.violation("module get_observer_look raised %s" % type(e).__name__, {"signature": "C05:mod-raise:%s" % type(e).__name__, **base})
            continue
        sat = wgs84_eci(slon, slat, salt, g)
        for k in range(4):
            raz, rel, _ = enu_look(sat, float(lon[k]), float(lat[k]), float(alt[k]), g)
            w = math.cos(math.radians(rel))
            if not (math.isfinite(float(az[k])) and abs(float(el[k]) - rel) <= 1e-4 and abs(angdiff(float(az[k]), raz)) * w <= 1e-4):
                ctx.violation("module look angles differ from the WGS-84 east-north-up direction by more than 1e-4 deg",
                              {"signature": "C05:module:%d:%d" % (i, k), **base, "impl": [float(az[k]), float(el[k])], "spec": [raz, rel]})
