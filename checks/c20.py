"""C20 — physical self-consistency.  Tie: T-gen for the kep2xyz algebra (Gen_orbital.v) +
implementation oracle for the clauses that are facts about the SGP4 theory (sampled)."""
import math

import numpy as np

from harness import common, numeric, tlegen

LEVEL = "proof"
MU = 398600.8            # km^3/s^2, WGS-72
XKMPER = 6378.135


def run(ctx):
    from pyorbital import orbital
    from pyorbital.orbital import Orbital
    ctx.rule = ("random near-earth TLEs (e up to 0.4, any inclination, |B*| <= 0.003) x times within +-7 d; "
                "distinct = distinct (tle, time); kep2xyz self-check on random element dicts")
    ctx.assumptions += [
        "proved: orientation-vector algebra of kep2xyz (radius, radial speed, speed, angular momentum / plane); over the regenerated SGP4 model: unit direction, plane inclination within (3/4) k2/pL^2 (0.05 deg for pL >= 0.69) and node within (3/2) k2/pL^2 on every answered propagation, vis-viva of the pre-correction state, bounds of the rate corrections, and the distance band a (1 - eL) <= r <= a (1 + eL), |returned radius - r| <= (3 k2/pL^2 r + k2/(2 pL)) XKMPER (below 23 km for pL >= 1, r <= 2), and the energy of the returned state within 1 % of -mu/2a(t) for eL^2 <= 4/25 and osculating perigee >= 1.03 earth radii (vis-viva + perturbation budget closed by interval arithmetic)",
        "proved in the drag-free case (at epoch, or B* = 0 at any time; e0 <= 0.39): the returned distance lies between the model's perigee and apogee radii a0''(1 -+ e0) XKMPER widened by 40 km, and the energy is within 1 % of -mu/(2 a0'' XKMPER) (C20_distance_between_perigee_and_apogee*, C20_energy_at_epoch_or_drag_free*)",
        "validated by sampling only: velocity = d(position)/dt within 0.15 %, both clauses with drag away from epoch, the difference between a0'' and the exposed summary's semi-major axis, orbit summary",
        "translator trusted for 'emitted term = what the code computes over R'; self-checked each run against the interpreter",
    ]
    tr_a, defs_a = numeric.regen(ctx, "astronomy")
    tr, defs = numeric.regen(ctx, "orbital")
    if tr is not None:
        names = ["gen_kep2xyz_%s" % c for c in ("x", "y", "z", "vx", "vy", "vz")] + \
                ["gen_position_norm_%s" % c for c in ("x", "vx")]

        def gen_env(rng):
            return {"radius": rng.uniform(6500, 45000), "theta": rng.uniform(-7, 7), "eqinc": rng.uniform(0, math.pi),
                    "ascn": rng.uniform(-7, 7), "rdotk": rng.uniform(-3, 3), "rfdotk": rng.uniform(1, 9)}

        def impl(name, env):
            pos, vel = orbital.kep2xyz(dict(env))
            if name.startswith("gen_position_norm"):
                pos = pos / XKMPER
                vel = vel / (XKMPER * 1440.0 / 86400.0)
            c = name.rsplit("_", 1)[1]
            return float({"x": pos[0], "y": pos[1], "z": pos[2], "vx": vel[0], "vy": vel[1], "vz": vel[2]}[c])
        numeric.selfcheck(ctx, tr, defs, names, gen_env, impl, n=ctx.n(60, 600), rtol=1e-11, atol=1e-9)
        numeric.coq_point_check(ctx, "Gen_orbital", defs, ["gen_kep2xyz_x", "gen_kep2xyz_vz"], gen_env, impl, n=2,
                                tol="1/1000000", unfold="gen_kep2xyz_x gen_kep2xyz_vz")
    numeric.regen(ctx, "sgp4")
    ctx.build_props("props/C20.v")

    # ---------------- oracle on the implementation ----------------
    n_tle = ctx.n(25, 250)
    for ti in range(n_tle):
        f = tlegen.random_fields(ctx.rng)
        f["bstar"] = ctx.rng.choice([(0, 0, " "), (ctx.rng.randint(10000, 30000), -3, ctx.rng.choice(" -")),
                                     (ctx.rng.randint(10000, 99999), -ctx.rng.randint(4, 6), ctx.rng.choice(" -"))])
        l1, l2 = tlegen.make(**f)
        try:
            orb = Orbital("X", line1=l1, line2=l2)
        except Exception:
            continue
        ep = orb.tle.epoch.astype("datetime64[us]")
        inc = float(orb.tle.inclination)
        ecc = float(orb.tle.excentricity)
        a_km = float(orb.orbit_elements.semi_major_axis) * XKMPER
        rp, ra = a_km * (1 - ecc), a_km * (1 + ecc)
        offs = [ctx.rng.uniform(-7, 7) for _ in range(ctx.n(6, 20))]
        for j, o in enumerate(offs):
            t = ep + np.timedelta64(int(o * 86400e6), "us")
            h = np.timedelta64(500000, "us")
            base = {"line1": l1, "line2": l2, "time": str(t)}
            try:
                with common.time_limit(30):
                    if j % 2:
                        # the usual call pattern: sub-point (normalised internally) first, then the state for
                        # the very same time object
                        orb.get_lonlatalt(t)
                        orb.get_position(t, normalize=True)
                    p, v = orb.get_position(t, normalize=False)
                    p1, _ = orb.get_position(t + h, normalize=False)
                    p0, _ = orb.get_position(t - h, normalize=False)
            except Exception as e:
                if type(e).__name__ in ("Exception", "NotImplementedError", "ValueError"):
                    continue
                ctx.violation("get_position raised %s" % type(e).__name__, {"signature": "C20:raise:%s" % type(e).__name__, **base})
                continue
            ctx.case(("state", ti, j), {**base, "pos": [float(x) for x in p], "vel": [float(x) for x in v]} if ti == 0 and j == 0 else None)
            speed = float(np.linalg.norm(v))
            dv = float(np.linalg.norm((p1 - p0) / 1.0 - v))
            if not dv <= 0.0015 * speed:
                ctx.violation("velocity is not the time derivative of position within 0.15 % of the speed",
                              {"signature": "C20:deriv:%d:%d" % (ti, j), **base, "rel": dv / speed})
            r = float(np.linalg.norm(p))
            if not (rp - 40 <= r <= ra + 40):
                ctx.violation("geocentric distance outside [perigee - 40 km, apogee + 40 km]",
                              {"signature": "C20:radius:%d:%d" % (ti, j), **base, "r": r, "perigee_radius": rp, "apogee_radius": ra})
            hvec = np.cross(p, v)
            inc_plane = math.degrees(math.acos(max(-1.0, min(1.0, float(hvec[2] / np.linalg.norm(hvec))))))
            if not abs(inc_plane - inc) <= 0.05:
                ctx.violation("inclination of the orbital plane differs from the TLE inclination by more than 0.05 deg",
                              {"signature": "C20:incl:%d:%d" % (ti, j), **base, "plane": inc_plane, "tle": inc})
            energy = speed ** 2 / 2 - MU / r
            ref = -MU / (2 * a_km)
            if not abs(energy - ref) <= 0.01 * abs(ref):
                ctx.violation("specific orbital energy differs from -mu/2a by more than 1 %",
                              {"signature": "C20:energy:%d:%d" % (ti, j), **base, "energy": energy, "ref": ref})
        # orbit summary (drag-free, inclination 3-177)
        if f["bstar"][0] == 0 and 3 <= inc <= 177 and ti % 2 == 0:
            base = {"line1": l1, "line2": l2}
            per_min = float(orb.orbit_elements.period)
            n = int(2.2 * per_min * 60 / 5)
            ts = ep + (np.arange(n) * 5_000_000).astype("timedelta64[us]")
            try:
                with common.time_limit(60):
                    pp, vv = orb.get_position(ts, normalize=False)
            except Exception:
                continue
            z = pp[2]
            up = [i for i in range(n - 1) if z[i] < 0 <= z[i + 1]]
            rr = np.linalg.norm(pp, axis=0)
            ctx.case(("summary", ti))
            if len(up) >= 2:
                def cross(i):
                    return i + (-z[i]) / (z[i + 1] - z[i])
                nodal = (cross(up[1]) - cross(up[0])) * 5 / 60.0
                if not abs(per_min - nodal) <= 0.01 * nodal:
                    ctx.violation("orbit summary period differs from the node-to-node time by more than 1 %",
                                  {"signature": "C20:period:%d" % ti, **base, "summary_min": per_min, "nodal_min": nodal})
            k = int(1.05 * per_min * 60 / 5)
            rmin, rmax = float(rr[:k].min()), float(rr[:k].max())
            if not abs(float(orb.orbit_elements.perigee) - (rmin - 6378.0)) <= 30:
                ctx.violation("orbit summary perigee differs from min distance - 6378 km by more than 30 km",
                              {"signature": "C20:perigee:%d" % ti, **base, "summary": float(orb.orbit_elements.perigee), "scan": rmin - 6378.0})
            if not abs(a_km - (rmin + rmax) / 2) <= 30:
                ctx.violation("orbit summary semi-major axis differs from mean of min/max distance by more than 30 km",
                              {"signature": "C20:sma:%d" % ti, **base, "summary": a_km, "scan": (rmin + rmax) / 2})
