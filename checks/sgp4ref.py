"""Independent binary64 evaluation of the Spacetrack Report #3 SGP4 equations (near-earth), written
from the report / Spec_SGP4.v — NOT from pyorbital.  Kepler's equation is solved to 1e-15 by plain
Newton iteration with bisection fallback.  Returns position [km] and velocity [km/s]."""
import math

K2 = 5.413080e-4
K4 = 0.62098875e-6
A30 = 0.253881e-5
KE = 0.0743669161
XKMPER = 6378.135
Q0MS4 = 1.88027916e-9
S = 78.0 / XKMPER + 1.0
TWOPI = 2 * math.pi


class Refused(Exception):
    pass


def elements(e0, incl_deg, raan_deg, argp_deg, ma_deg, n_revday, bstar):
    return dict(n0=n_revday * TWOPI / 1440.0, e0=e0, i0=math.radians(incl_deg), w0=math.radians(argp_deg),
                M0=math.radians(ma_deg), O0=math.radians(raan_deg), bstar=bstar)


def init(el):
    n0, e0, i0 = el["n0"], el["e0"], el["i0"]
    th = math.cos(i0)
    a1 = (KE / n0) ** (2.0 / 3.0)
    d1 = 1.5 * K2 / a1 ** 2 * (3 * th * th - 1) / (1 - e0 * e0) ** 1.5
    a0 = a1 * (1 - d1 / 3 - d1 * d1 - 134.0 / 81.0 * d1 ** 3)
    d0 = 1.5 * K2 / a0 ** 2 * (3 * th * th - 1) / (1 - e0 * e0) ** 1.5
    n0pp = n0 / (1 + d0)
    a0pp = a0 / (1 - d0)
    c = dict(th=th, n0pp=n0pp, a0pp=a0pp, perigee=(a0pp * (1 - e0) - 1) * XKMPER, period=TWOPI / n0pp)
    xi = 1 / (a0pp - S)
    b0 = math.sqrt(1 - e0 * e0)
    eta = a0pp * e0 * xi
    p = (1 - eta * eta) ** -3.5
    C2 = Q0MS4 * xi ** 4 * n0pp * p * (a0pp * (1 + 1.5 * eta ** 2 + 4 * e0 * eta + e0 * eta ** 3)
                                        + 1.5 * K2 * xi / (1 - eta ** 2) * (-0.5 + 1.5 * th * th) * (8 + 24 * eta ** 2 + 3 * eta ** 4))
    C1 = el["bstar"] * C2
    C3 = Q0MS4 * xi ** 5 * A30 * n0pp * math.sin(i0) / (K2 * e0)
    C4 = 2 * n0pp * Q0MS4 * xi ** 4 * a0pp * b0 ** 2 * p * (
        (2 * eta * (1 + e0 * eta) + 0.5 * e0 + 0.5 * eta ** 3)
        - 2 * K2 * xi / (a0pp * (1 - eta ** 2)) * (3 * (1 - 3 * th * th) * (1 + 1.5 * eta ** 2 - 2 * e0 * eta - 0.5 * e0 * eta ** 3)
                                                  + 0.75 * (1 - th * th) * (2 * eta ** 2 - e0 * eta - e0 * eta ** 3) * math.cos(2 * el["w0"])))
    C5 = 2 * Q0MS4 * xi ** 4 * a0pp * b0 ** 2 * p * (1 + 2.75 * eta * (eta + e0) + e0 * eta ** 3)
    D2 = 4 * a0pp * xi * C1 ** 2
    D3 = 4.0 / 3.0 * a0pp * xi ** 2 * (17 * a0pp + S) * C1 ** 3
    D4 = 2.0 / 3.0 * a0pp ** 2 * xi ** 3 * (221 * a0pp + 31 * S) * C1 ** 4
    Mdot = (1 + 3 * K2 * (-1 + 3 * th * th) / (2 * a0pp ** 2 * b0 ** 3)
            + 3 * K2 ** 2 * (13 - 78 * th ** 2 + 137 * th ** 4) / (16 * a0pp ** 4 * b0 ** 7)) * n0pp
    wdot = (-3 * K2 * (1 - 5 * th * th) / (2 * a0pp ** 2 * b0 ** 4)
            + 3 * K2 ** 2 * (7 - 114 * th ** 2 + 395 * th ** 4) / (16 * a0pp ** 4 * b0 ** 8)
            + 5 * K4 * (3 - 36 * th ** 2 + 49 * th ** 4) / (4 * a0pp ** 4 * b0 ** 8)) * n0pp
    Odot = (-3 * K2 * th / (a0pp ** 2 * b0 ** 4) + 3 * K2 ** 2 * (4 * th - 19 * th ** 3) / (2 * a0pp ** 4 * b0 ** 8)
            + 5 * K4 * th * (3 - 7 * th * th) / (2 * a0pp ** 4 * b0 ** 8)) * n0pp
    c.update(xi=xi, b0=b0, eta=eta, C1=C1, C3=C3, C4=C4, C5=C5, D2=D2, D3=D3, D4=D4, Mdot=Mdot, wdot=wdot, Odot=Odot)
    return c


def propagate(el, c, tau):
    e0, i0, w0, M0, O0, bstar = el["e0"], el["i0"], el["w0"], el["M0"], el["O0"], el["bstar"]
    th, n0pp, a0pp, xi, b0, eta = c["th"], c["n0pp"], c["a0pp"], c["xi"], c["b0"], c["eta"]
    C1, D2, D3, D4 = c["C1"], c["D2"], c["D3"], c["D4"]
    small = e0 <= 1e-4
    simp = c["perigee"] < 220.0      # the report: truncate a and IL after C1, drop C5, delta-omega, delta-M
    MDF = M0 + c["Mdot"] * tau
    wDF = w0 + c["wdot"] * tau
    ODF = O0 + c["Odot"] * tau
    dw = 0.0 if (small or simp) else bstar * c["C3"] * math.cos(w0) * tau
    dM = 0.0 if (small or simp) else -2.0 / 3.0 * Q0MS4 * bstar * xi ** 4 / (e0 * eta) * ((1 + eta * math.cos(MDF)) ** 3 - (1 + eta * math.cos(M0)) ** 3)
    Mp = MDF + dw + dM
    w = wDF - dw - dM
    Om = ODF - 10.5 * n0pp * K2 * th / (a0pp ** 2 * b0 ** 2) * C1 * tau ** 2
    if simp:
        D2 = D3 = D4 = 0.0
    e = e0 - bstar * c["C4"] * tau - (0.0 if simp else bstar * c["C5"] * (math.sin(Mp) - math.sin(M0)))
    a = a0pp * (1 - C1 * tau - D2 * tau ** 2 - D3 * tau ** 3 - D4 * tau ** 4) ** 2
    if simp:
        IL = Mp + w + Om + n0pp * 1.5 * C1 * tau ** 2
    else:
      IL = Mp + w + Om + n0pp * (1.5 * C1 * tau ** 2 + (D2 + 2 * C1 ** 2) * tau ** 3
                               + 0.25 * (3 * D3 + 12 * C1 * D2 + 10 * C1 ** 3) * tau ** 4
                               + 0.2 * (3 * D4 + 12 * C1 * D3 + 6 * D2 ** 2 + 30 * C1 ** 2 * D2 + 15 * C1 ** 4) * tau ** 5)
    e = min(max(e, 1e-6), 1 - 1e-6)          # AIAA-2006-6753 clamp (inactive on the report's range)
    beta2 = 1 - e * e
    axN = e * math.cos(w)
    # 1 + cos i0 is evaluated as 2 cos^2 (i0/2): in binary64 the literal form loses every digit near 180 deg (the exact,
    # 60-digit run of this same text showed the reference itself 1 cm off at 179.99 deg)
    ILL = A30 * math.sin(i0) / (8 * K2 * a * beta2) * axN * (3 + 5 * th) / (2 * math.cos(i0 / 2) ** 2)
    ayNL = A30 * math.sin(i0) / (4 * K2 * a * beta2)
    ILT = IL + ILL
    ayN = e * math.sin(w) + ayNL
    U = math.fmod(ILT - Om, TWOPI)
    # Kepler: U = Ew - axN sin Ew + ayN cos Ew  (monotone in Ew since eL < 1)
    # bracket first (the root is within eL < 1 of U), bisect, then polish with Newton steps that are only accepted inside the
    # bracket: plain Newton from U can wander for eL close to 1 (the accepted high-eccentricity island)
    def kf(x):
        return U - x + axN * math.sin(x) - ayN * math.cos(x)
    lo, hi = U - 1.0, U + 1.0          # kf(lo) > 0 > kf(hi)
    Ew = U
    for _ in range(200):
        f = kf(Ew)
        if f > 0:
            lo = Ew
        else:
            hi = Ew
        df = 1 - axN * math.cos(Ew) - ayN * math.sin(Ew)
        nxt = Ew + f / df
        if not (lo < nxt < hi):
            nxt = 0.5 * (lo + hi)
        if abs(nxt - Ew) < 1e-15 or hi - lo < 1e-15:
            Ew = nxt
            break
        Ew = nxt
    ecosE = axN * math.cos(Ew) + ayN * math.sin(Ew)
    esinE = axN * math.sin(Ew) - ayN * math.cos(Ew)
    eL2 = axN ** 2 + ayN ** 2
    pL = a * (1 - eL2)
    r = a * (1 - ecosE)
    rdot = KE * math.sqrt(a) * esinE / r
    rfdot = KE * math.sqrt(pL) / r
    bl = math.sqrt(1 - eL2)
    cosu = a / r * (math.cos(Ew) - axN + ayN * esinE / (1 + bl))
    sinu = a / r * (math.sin(Ew) - ayN - axN * esinE / (1 + bl))
    u = math.atan2(sinu, cosu)
    sin2u, cos2u = 2 * sinu * cosu, 2 * cosu * cosu - 1
    n = KE / a ** 1.5
    rk = r * (1 - 1.5 * K2 * bl / pL ** 2 * (3 * th * th - 1)) + K2 / (2 * pL) * (1 - th * th) * cos2u
    uk = u - K2 / (4 * pL ** 2) * (7 * th * th - 1) * sin2u
    Ok = Om + 3 * K2 * th / (2 * pL ** 2) * sin2u
    ik = i0 + 3 * K2 * th / (2 * pL ** 2) * math.sin(i0) * cos2u
    rdotk = rdot - K2 * n / pL * (1 - th * th) * sin2u
    rfdotk = rfdot + K2 * n / pL * ((1 - th * th) * cos2u - 1.5 * (1 - 3 * th * th))
    Mx, My, Mz = -math.sin(Ok) * math.cos(ik), math.cos(Ok) * math.cos(ik), math.sin(ik)
    Nx, Ny = math.cos(Ok), math.sin(Ok)
    Ux, Uy, Uz = Mx * math.sin(uk) + Nx * math.cos(uk), My * math.sin(uk) + Ny * math.cos(uk), Mz * math.sin(uk)
    Vx, Vy, Vz = Mx * math.cos(uk) - Nx * math.sin(uk), My * math.cos(uk) - Ny * math.sin(uk), Mz * math.cos(uk)
    f = XKMPER * 1440.0 / 86400.0
    pos = (rk * Ux * XKMPER, rk * Uy * XKMPER, rk * Uz * XKMPER)
    vel = ((rdotk * Ux + rfdotk * Vx) * f, (rdotk * Uy + rfdotk * Vy) * f, (rdotk * Uz + rfdotk * Vz) * f)
    return pos, vel, dict(a=a, a0pp=a0pp, e=e, eL2=eL2, rk=rk)
