"""Exact (60-digit) evaluation of the Spacetrack Report #3 equations of checks/sgp4ref.py, for C01's oracle.
Runs under python3-vt (mpmath comes with the pre-installed sympy; /venv has no multiprecision library).
usage: python3-vt mpref_tool.py <in.json> <out.json>
in:  [{"env": {e0, incl_deg, raan_deg, argp_deg, ma_deg, n_revday, bstar: repr(float)}, "tau": repr(float)}, ...]
out: [{"pos": [str x3], "vel": [str x3], "eL2": str, "a_ratio": str} | {"error": "..."}]
The SAME source text as the binary64 reference is executed, with `math` replaced by mpmath and every decimal literal
read exactly; the Kepler tolerance is tightened from 1e-15 to 1e-45.  Inputs are the binary64 numbers the
implementation was given, taken exactly."""
import json
import os
import re
import sys
import types

import mpmath as mp

mp.mp.dps = 60
HERE = os.path.dirname(os.path.abspath(__file__))
src = open(os.path.join(HERE, "sgp4ref.py")).read()
fake = types.SimpleNamespace(pi=mp.pi, cos=mp.cos, sin=mp.sin, sqrt=mp.sqrt, atan2=mp.atan2,
                             radians=lambda d: mp.mpf(d) * mp.pi / 180,
                             fmod=lambda a, b: mp.fmod(a, b) if a >= 0 else -mp.fmod(-a, b))
code = src.replace("1e-15", "1e-45")
code = re.sub(r"(?<![\w.'])(\d+\.\d*(?:e-?\d+)?|\d+e-?\d+)(?![\w'])", lambda m: "mp.mpf('%s')" % m.group(0), code)
code = code.replace("import math", "")
g = {"math": fake, "mp": mp}
exec(compile(code, "sgp4ref_mp", "exec"), g)

out = []
for c in json.load(open(sys.argv[1])):
    try:
        env = {k: mp.mpf(float(v)) for k, v in c["env"].items()}
        el = g["elements"](**env)
        cc = g["init"](el)
        pos, vel, info = g["propagate"](el, cc, mp.mpf(float(c["tau"])))
        out.append({"pos": [mp.nstr(x, 40) for x in pos], "vel": [mp.nstr(x, 40) for x in vel],
                    "eL2": mp.nstr(info["eL2"], 30), "a_ratio": mp.nstr(info["a"] / info["a0pp"], 30)})
    except Exception as e:     # refused / degenerate element sets: nothing to compare
        out.append({"error": "%s: %s" % (type(e).__name__, str(e)[:100])})
json.dump(out, open(sys.argv[2], "w"))
