"""C01 — SGP4 conformance.  Tie: T-gen (Gen_sgp4.v: decision trees + every named quantity regenerated
from orbital.py) + translator self-check + oracle against an independent binary64 evaluation of the
report's equations + the AIAA-2006-6753 verification vectors."""
import math
import os

import numpy as np

from harness import common, numeric, tlegen
from checks import sgp4common, sgp4ref

LEVEL = "proof"


def gen_cases(ctx, n):
    out = []
    for i in range(n):
        f = tlegen.random_fields(ctx.rng)
        k = i % 12
        if k == 0:
            f["ecc"] = ctx.rng.randint(1, 1000)                       # e <= 1e-4 stratum
        elif k == 1:
            f["inc"] = 63.4349 + ctx.rng.uniform(-0.01, 0.01)
        elif k == 2:
            f["inc"] = ctx.rng.choice([0.01, 179.99, 90.0])
        elif k == 3:
            f["bstar"] = (ctx.rng.randint(10000, 99999), -ctx.rng.randint(2, 3), ctx.rng.choice(" -"))   # strong drag
        elif k == 4:
            f["mm"] = ctx.rng.uniform(15.9, 16.35)       # perigee around 220 km (simplified-drag boundary)
            f["ecc"] = ctx.rng.randint(1000, 30000)
        l1, l2 = tlegen.make(**f)
        ts = ctx.rng.choice([0.0, ctx.rng.uniform(-1440, 1440), ctx.rng.uniform(-86400, 86400)])
        out.append((l1, l2, ts))
        if i % 5 == 2:
            # a re-issued / corrected element set: same catalogue number and epoch, ONE element changed, propagated next in
            # the same process (the answer must follow the element that changed, not an earlier object for that satellite)
            g = dict(f)
            which = ctx.rng.choice(["bstar", "argp", "ma", "raan", "inc", "ecc", "mm"])
            if which == "bstar":
                g["bstar"] = (ctx.rng.randint(10000, 99999), -ctx.rng.randint(3, 4), ctx.rng.choice(" -"))
            elif which in ("argp", "ma", "raan"):
                g[which] = (float(f[which]) + ctx.rng.uniform(5, 300)) % 360.0
            elif which == "inc":
                g["inc"] = min(179.0, max(1.0, float(f["inc"]) + ctx.rng.choice([-0.5, 0.5, 7.0])))
            elif which == "ecc":
                g["ecc"] = max(1, int(f["ecc"]) // 2 + ctx.rng.randint(0, 200))
            else:
                g["mm"] = float(f["mm"]) - ctx.rng.uniform(0.001, 0.4)
            try:
                out.append(tlegen.make(**g) + (ts if ts else 360.0,))
            except Exception:
                pass
    return out


def aiaa_cases(repo):
    """(name, l1, l2, minutes, expected pos, vel) from the repository's copy of the AIAA vectors"""
    base = os.path.join(repo, "pyorbital", "tests")
    res = {}
    cur = None
    with open(os.path.join(base, "aiaa_results")) as f:
        for line in f:
            if line.endswith(" xx\n"):
                cur = int(line[:-3])
                res[cur] = []
            elif cur is not None and line.strip():
                s = line.split()
                try:
                    res[cur].append((float(s[0]), [float(x) for x in s[1:4]], [float(x) for x in s[4:7]]))
                except ValueError:
                    pass
    out = []
    l1 = None
    with open(os.path.join(base, "SGP4-VER.TLE")) as f:
        for line in f:
            if line.startswith("1 "):
                l1 = line[:69]
            elif line.startswith("2 ") and l1:
                l2 = line[:69]
                try:
                    sat = int(l2[2:7])
                except ValueError:
                    continue
                for minutes, p, v in res.get(sat, []):
                    out.append((sat, l1, l2, minutes, p, v))
    return out


def exact_values(records):
    """the report's equations at 60 digits for [{env, tau}] (checks/mpref_tool.py under python3-vt, which has mpmath);
    None when the tool is not available"""
    import json
    import shutil
    import subprocess
    import tempfile
    if not shutil.which("python3-vt"):
        return None
    d = tempfile.mkdtemp(prefix="verif-c01-mp-", dir="/var/tmp")
    try:
        with open(os.path.join(d, "in.json"), "w") as f:
            json.dump([{"env": {k: repr(float(v)) for k, v in r["env"].items()}, "tau": repr(float(r["tau"]))} for r in records], f)
        tool = os.path.join(os.path.dirname(os.path.abspath(__file__)), "mpref_tool.py")
        try:
            p = subprocess.run(["python3-vt", tool, os.path.join(d, "in.json"), os.path.join(d, "out.json")],
                               capture_output=True, text=True, timeout=1500)
        except subprocess.TimeoutExpired:
            return None
        if p.returncode != 0 or not os.path.exists(os.path.join(d, "out.json")):
            return None
        with open(os.path.join(d, "out.json")) as f:
            return json.load(f)
    finally:
        shutil.rmtree(d, ignore_errors=True)


def dist_exact(exact_strs, floats):
    """|exact - float| without cancellation (decimal arithmetic at 60 digits)"""
    from decimal import Decimal, getcontext
    getcontext().prec = 60
    return math.sqrt(sum(float((Decimal(a) - Decimal(repr(float(b)))) ** 2) for a, b in zip(exact_strs, floats)))


def near180_cases(ctx, n):
    """inclinations within 0.015 deg of 180 deg: 1 + cos i has lost up to all its digits in binary64 when written literally
    (fixed: c31ed46); what remains after the fix is the rounding of the inclination itself, amplified by tan(i/2)"""
    out = []
    for j in range(n):
        f = tlegen.random_fields(ctx.rng)
        f["inc"] = [179.9999, 179.9995, 179.999, 179.995, 179.99, 179.985][j % 6]
        l1, l2 = tlegen.make(**f)
        out.append((l1, l2, ctx.rng.choice([0.0, ctx.rng.uniform(-1440, 1440)])))
    return out


def high_e_cases(ctx, n):
    """0.2 <= e0 <= 0.47 with a period below 225 min: the largest eccentricities an accepted ordinary orbit can have
    (perigee >= 220 km), partly beyond eL^2 <= 4/25 where the convergence / accuracy theorems stop"""
    out = []
    for _ in range(n):
        f = tlegen.random_fields(ctx.rng)
        f["ecc"] = ctx.rng.randint(2000000, 4600000) if ctx.rng.random() < 0.5 else ctx.rng.randint(4000000, 4550000)
        a_min = 1.045 / (1 - f["ecc"] * 1e-7)                       # perigee above 220 km with some room
        mm_max = 0.0743669161 / a_min ** 1.5 * 1440.0 / (2 * math.pi)
        f["mm"] = ctx.rng.uniform(6.42, max(6.45, mm_max - 0.02))
        l1, l2 = tlegen.make(**f)
        out.append((l1, l2, ctx.rng.choice([0.0, ctx.rng.uniform(-1440, 1440), ctx.rng.uniform(-86400, 86400)])))
    return out


def island_cases(ctx, n):
    """the accepted high-eccentricity island (DESIGN section 9, N6): e0 >= 0.9993 with 3 cos^2 i < 1"""
    out = []
    for _ in range(n):
        f = tlegen.random_fields(ctx.rng)
        f["inc"] = ctx.rng.uniform(55.5, 124.5)
        f["ecc"] = ctx.rng.randint(9993000, 9999989)
        f["mm"] = ctx.rng.uniform(6.5, 17.9)
        f["bstar"] = ctx.rng.choice([(0, 0, " "), (ctx.rng.randint(10000, 99999), -ctx.rng.randint(4, 6), ctx.rng.choice(" -"))])
        l1, l2 = tlegen.make(**f)
        out.append((l1, l2, ctx.rng.choice([0.0, ctx.rng.uniform(-1440, 1440), ctx.rng.uniform(-86400, 86400)])))
    return out


def run(ctx):
    from pyorbital import tlefile
    from pyorbital.orbital import Orbital
    ctx.rule = ("random near-earth TLEs stratified over e (incl. <= 1e-4), inclination (incl. 63.43, ~0, ~180, 90 deg), drag, "
                "all argument quadrants, epochs 1969-2056, times within +-60 d; AIAA-2006-6753 vectors; distinct = distinct (tle, minute)")
    ctx.assumptions += [
        "Spec_SGP4.v / checks/sgp4ref.py are hand transcriptions of Spacetrack Report #3 (s taken as 78/XKMPER + 1; eccentricity clamp and e0 <= 1e-4 convention made explicit)",
        "proved for BOTH reachable near-earth-normal leaves (leaf 1: e0 > 1e-4; leaf 3: e0 <= 1e-4 with delta-omega = delta-M = 0): coefficients, secular/drag/long-period update, finishing map, every Newton exit (Kepler residual < 1e-12), uniqueness of the Kepler solution and |Ew - E*| <= 1e-12 / (1 - sqrt eL2), state and units. Leaves 0 and 2 (|1 + cos i| < 1.5e-12) are proved unreachable for inclinations with four decimals (the TLE column)",
        "proved over the reals (props/C01_accuracy.v): for a <= 4 earth radii (a near-earth orbit has a0 < 1.93, so this is the whole range in which the model keeps a within a factor of two of its epoch value) and eL^2 <= 4/25, on every converged exit each coordinate of the returned position is within 1e-6 km, and of the returned velocity within 1e-9 km/s, of the report's at the exact solution of Kepler's equation (Lipschitz constants 570000 km/rad and 460 (km/s)/rad in E + omega)",
        "proved over the reals (props/C01_newton.v): for eL^2 <= 4/25 the regenerated iterates are the second-order step f / (f' + f'' f / 2f'), the first-step clamp is inactive, each step squares the error (factor 43/50), the sixth stopping test cannot fail, so exit 10 (no convergence, last iterate returned unchecked) is unreachable and the 1 mm / 1 um/s claim holds for EVERY answered propagation with a <= 4 (C01_answered_position_accuracy, both leaves)",
        "proved (C01_answered_when_healthy*, C01_iss_answered): decay guards, eL^2 <= 4/25 and osculating perigee >= 1.005 earth radii imply that the propagation IS answered; the ISS set at epoch meets every hypothesis of the accuracy theorem (interval arithmetic), so none of the theorems is vacuous; input-only form (C01_accuracy_at_epoch_or_drag_free): an accepted set with e0 <= 0.39 and TLE mean motion 6.4..18 rev/day, at epoch or drag-free at any time, is answered within 1 mm / 1 um/s of the report",
        "proved as well (P_Newton47 / P_Sgp4Newton47): for eL^2 <= 2209/10000 (eL <= 0.47, every eccentricity an accepted ordinary orbit can have) the loop leaves by its seventh test; not proved there: the Lipschitz step to 1 mm (constants too coarse beyond eL = 0.4) and, everywhere, binary64 rounding -- both covered by the 60-digit oracle",
        "exact oracle: a sample of the cases, probes at 179.985 .. 179.9999 deg, a stratum at 0.2 <= e0 <= 0.47 (reaching beyond eL^2 <= 4/25, where the convergence and accuracy theorems stop) and a stratum on the accepted high-eccentricity island (e0 >= 0.9993) are compared with the report's equations evaluated at 60 digits (checks/mpref_tool.py under python3-vt/mpmath, the same source text as the binary64 reference); skipped, and said so, if python3-vt is missing",
        "translator trusted for 'emitted term = what the code computes over R'; self-checked each run against the interpreter (outcome class and state to 1e-6 km)",
    ]
    numeric.regen(ctx, "astronomy")
    numeric.regen(ctx, "orbital")
    tr, defs = numeric.regen(ctx, "sgp4")
    cases = gen_cases(ctx, ctx.n(150, 1500))
    if tr is not None:
        sgp4common.selfcheck(ctx, tr, cases)
    ctx.build_props("props/C01.v")
    ctx.build_props("props/C01_accuracy.v")
    ctx.build_props("props/C01_newton.v")
    # ---------------- oracle: implementation vs the report's equations ----------------
    worst = 0.0
    for l1, l2, minutes in cases:
        try:
            tle = tlefile.Tle("X", line1=l1, line2=l2)
            orb = Orbital("X", line1=l1, line2=l2)
        except Exception:
            continue
        env = sgp4common.tle_env(tle)
        el = sgp4ref.elements(**env)
        ep = tle.epoch.astype("datetime64[us]")
        for rep in ("us", "datetime", "ns"):
            t = ep + np.timedelta64(int(minutes * 60e6), "us")
            tau = float((t - ep) / np.timedelta64(1, "m"))
            targ = t if rep == "us" else (t.astype("datetime64[ns]") if rep == "ns" else t.item())
            pclass, state = sgp4common.impl_prop(orb, targ)
            if pclass != "ok":
                break
            try:
                c = sgp4ref.init(el)
                pos, vel, info = sgp4ref.propagate(el, c, tau)
            except (ValueError, ZeroDivisionError, OverflowError):
                break
            if not (0.5 <= info["a"] / info["a0pp"] <= 2.0):
                break
            dp = math.dist(pos, [float(x) for x in state[0]])
            dv = math.dist(vel, [float(x) for x in state[1]])
            worst = max(worst, dp)
            ctx.case(("oracle", l1, l2, round(tau, 6), rep))
            if not (dp <= 1e-6 and dv <= 1e-9):
                ctx.violation("position/velocity differ from the Spacetrack Report #3 model by more than 1 mm / 1 um/s",
                              {"signature": "C01:str3:%s:%s:%.6f" % (l1[2:7], rep, tau), "line1": l1, "line2": l2, "minutes": tau, "time_rep": rep,
                               "pos_diff_km": dp, "vel_diff_kms": dv, "impl_pos": [float(x) for x in state[0]], "spec_pos": list(pos)})
            if rep == "us":
                pn, vn = orb.get_position(t, normalize=True)
                if not (np.allclose(pn * 6378.135, state[0], rtol=1e-14, atol=0) and np.allclose(vn * 106.30225, state[1], rtol=1e-13, atol=0)):
                    ctx.violation("normalised output is not the state divided by 6378.135 km / 106.30225 km/s",
                                  {"signature": "C01:norm:%s:%.6f" % (l1[2:7], tau), "line1": l1, "line2": l2, "minutes": tau})
    ctx.extra["oracle_worst_pos_diff_km"] = worst
    # ---------------- array time inputs: every element must conform, not just some ----------------
    for k in range(ctx.n(6, 40)):
        f = tlegen.random_fields(ctx.rng)
        f["ecc"] = ctx.rng.choice([ctx.rng.randint(500000, 4000000), ctx.rng.randint(1, 100000)])
        f["mm"] = min(f["mm"], 12.0) if f["ecc"] > 1000000 else f["mm"]
        f["bstar"] = (ctx.rng.randint(10000, 99999), -ctx.rng.randint(4, 6), " ")
        l1, l2 = tlegen.make(**f)
        try:
            tle = tlefile.Tle("X", line1=l1, line2=l2)
            orb = Orbital("X", line1=l1, line2=l2)
            el = sgp4ref.elements(**sgp4common.tle_env(tle))
            c = sgp4ref.init(el)
        except Exception:
            continue
        ep = tle.epoch.astype("datetime64[us]")
        mins = np.arange(-720, 2160, ctx.n(7, 3), dtype="int64")
        times = ep + mins.astype("timedelta64[m]")
        pclass, state = sgp4common.impl_prop(orb, times.astype(ctx.rng.choice(["datetime64[us]", "datetime64[ns]"])))
        if pclass != "ok":
            continue
        worst_k = None
        for j, m in enumerate(mins):
            try:
                pos, vel, info = sgp4ref.propagate(el, c, float(m))
            except (ValueError, ZeroDivisionError, OverflowError):
                continue
            if not (0.5 <= info["a"] / info["a0pp"] <= 2.0):
                continue
            dp = math.dist(pos, [float(x) for x in state[0][:, j]])
            dv = math.dist(vel, [float(x) for x in state[1][:, j]])
            ctx.case(("array", l1, l2, int(m)))
            if not (dp <= 1e-6 and dv <= 1e-9) and (worst_k is None or dp > worst_k["pos_diff_km"]):
                worst_k = {"signature": "C01:str3-array:%s:%d" % (l1[2:7], int(m)), "line1": l1, "line2": l2, "minutes": int(m),
                           "times": "array of %d instants, 1 per %d min" % (len(mins), int(mins[1] - mins[0])), "pos_diff_km": dp, "vel_diff_kms": dv}
        if worst_k:
            ctx.violation("an element of an array-time answer differs from the Spacetrack Report #3 model by more than 1 mm / 1 um/s", worst_k)
    # ---------------- exact oracle (60 digits), incl. the accepted high-eccentricity island ----------------
    recs = []
    for (l1, l2, minutes), island in [(c, False) for c in cases[:ctx.n(60, 300)] + near180_cases(ctx, ctx.n(36, 240)) + high_e_cases(ctx, ctx.n(80, 800))] + [(c, True) for c in island_cases(ctx, ctx.n(60, 600))]:
        try:
            tle = tlefile.Tle("X", line1=l1, line2=l2)
            orb = Orbital("X", line1=l1, line2=l2)
        except Exception:
            continue
        ep = tle.epoch.astype("datetime64[us]")
        t = ep + np.timedelta64(int(minutes * 60e6), "us")
        pclass, state = sgp4common.impl_prop(orb, t)
        if pclass != "ok":
            continue
        recs.append({"env": sgp4common.tle_env(tle), "tau": float((t - ep) / np.timedelta64(1, "m")), "l1": l1, "l2": l2, "island": island,
                     "pos": [float(x) for x in state[0]], "vel": [float(x) for x in state[1]]})
    exact = exact_values(recs) if recs else []
    if exact is None:
        ctx.assumptions.append("EXACT ORACLE UNAVAILABLE on this run (python3-vt / mpmath): the 60-digit comparison was skipped")
    else:
        n_exact = n_island = 0
        worst_ord = 0.0
        for r, o in zip(recs, exact):
            if "error" in o or not (0.5 <= float(o["a_ratio"]) <= 2.0):
                continue
            dp, dv = dist_exact(o["pos"], r["pos"]), dist_exact(o["vel"], r["vel"])
            n_exact += 1
            n_island += r["island"]
            ctx.case(("exact", r["l1"], r["l2"], round(r["tau"], 6)))
            if dp <= 1e-6 and dv <= 1e-9:
                if not r["island"]:
                    worst_ord = max(worst_ord, dp)
                continue
            # beyond 1 mm / 1 um/s.  One mechanism is known and delimited: eL -> 1 makes Kepler's equation ill-conditioned,
            # binary64 rounding is amplified by 1 / (1 - eL) and the state vector itself is 1e6 .. 1e10 km long
            eL = math.sqrt(float(o["eL2"]))
            rr = math.sqrt(sum(float(x) ** 2 for x in o["pos"]))
            vv = math.sqrt(sum(float(x) ** 2 for x in o["vel"]))
            bound_p = 1000 * 2.0 ** -53 * rr / (1 - eL)
            bound_v = 1000 * 2.0 ** -53 * vv / (1 - eL)
            known = float(o["eL2"]) >= 0.9 and dp <= max(bound_p, 1e-6) and dv <= max(bound_v, 1e-9)
            # second delimited mechanism: within 0.002 deg of 180 deg the long-period coefficient xlcof ~ tan(i/2) exceeds 15 and
            # amplifies the half-ulp rounding of the inclination in radians (what is left after fix c31ed46: below 1 m)
            incl = float(r["env"]["incl_deg"])
            near180 = incl >= 179.998 and dp <= 1e-3 and dv <= 1e-6
            sig = ("C01:binary64-conditioning:eL2>=0.9" if known else
                   "C01:binary64-inclination-rounding:i>=179.998" if near180 else "C01:exact:%s:%.6f" % (r["l1"][2:7], r["tau"]))
            ctx.violation("position/velocity differ from the exact (60-digit) Spacetrack Report #3 model by more than 1 mm / 1 um/s",
                          {"signature": sig,
                           "line1": r["l1"], "line2": r["l2"], "minutes": r["tau"], "pos_diff_km": dp, "vel_diff_kms": dv,
                           "eL2": float(o["eL2"]), "distance_km": rr, "amplified_rounding_bound_km": bound_p})
        ctx.extra["exact_oracle_compared"] = n_exact
        ctx.extra["exact_oracle_island"] = n_island
        ctx.extra["exact_oracle_beyond_proved_eL2"] = sum(1 for r, o in zip(recs, exact) if "error" not in o and not r["island"] and float(o["eL2"]) > 0.16)
        ctx.extra["exact_oracle_worst_ordinary_pos_diff_km"] = worst_ord
    # ---------------- AIAA-2006-6753 verification vectors (5 mm) ----------------
    n_aiaa = 0
    worst_by_sat = {}
    for sat, l1, l2, minutes, p, v in aiaa_cases(common.REPO):
        try:
            orb = Orbital("X", line1=l1, line2=l2)
        except Exception:
            continue                      # deep space / refused / bad checksum entries of the file
        t = orb.tle.epoch + np.timedelta64(int(round(minutes * 60e6)), "us")
        pclass, state = sgp4common.impl_prop(orb, t)
        if pclass != "ok":
            continue
        n_aiaa += 1
        ctx.case(("aiaa", sat, minutes))
        dp = math.dist(p, [float(x) for x in state[0]])
        dv = math.dist(v, [float(x) for x in state[1]])
        if not (dp <= 5e-6 + 1e-8):     # the file prints 8 decimals of km
            w = worst_by_sat.get(sat)
            if w is None or dp > w["pos_diff_km"]:
                worst_by_sat[sat] = {"signature": "C01:aiaa:%d" % sat, "satnumber": sat, "line1": l1, "line2": l2,
                                     "minutes": minutes, "pos_diff_km": dp, "vel_diff_kms": dv}
    for sat, w in sorted(worst_by_sat.items()):
        ctx.violation("AIAA-2006-6753 verification vector not reproduced to 5 mm", w)
    ctx.extra["aiaa_vectors_checked"] = n_aiaa
