"""C03 — pass prediction.  Tie: T-corr (hand-written M_Passes.v; the implementation's own minute
samples and recorded _get_root results are replayed through the model inside Coq and the index /
bracket structure is compared) + oracle (the property text on the implementation against a dense,
independent elevation scan)."""
import datetime as dt
import math
import re
import struct
from fractions import Fraction

import numpy as np

from harness import common, tlegen, numeric

LEVEL = "proof"
TOL_HORIZON = 1e-4      # deg, elevation at rise/fall
TOL_CULM = 0.01         # deg, culmination vs true maximum


# --------------------------------------------------------------------------
# helpers
# --------------------------------------------------------------------------
def fkey(x):
    """order-, sign- and zero-preserving integer reading of a binary64 (sign-magnitude of the bits)"""
    b = struct.unpack("<q", struct.pack("<d", float(x)))[0]
    return b if b >= 0 else -(b & 0x7FFFFFFFFFFFFFFF)


def qlit(x):
    f = Fraction(float(x))
    return "(%d # %d)" % (f.numerator, f.denominator)


def case_sig(c):
    return "C03:%s:%s" % (c["tag"], c["key"])


def case_public(c):
    return {"tle": list(c["tle"]), "lon": c["lon"], "lat": c["lat"], "alt": c["alt"],
            "start": c["start"].isoformat(), "length_h": c["length"], "horizon": repr(c["horizon"]), "stratum": c["tag"],
            **({"earlier_queries_on_the_same_object": c["history"]} if c.get("history") else {})}


def make_orb(tle):
    from pyorbital.orbital import Orbital
    return Orbital("X", line1=tle[0], line2=tle[1])


def minute_times(start, length):
    return start + np.array([dt.timedelta(minutes=m) for m in range(length * 60)])


def dense_scan(orb, c, step):
    """independent scan: elevation every `step` seconds over [start, start + length h]"""
    n = int(c["length"] * 3600 // step) + 1
    t = np.datetime64(c["start"], "us") + (np.arange(n) * int(step * 1e6)).astype("timedelta64[us]")
    el = orb.get_observer_look(t, c["lon"], c["lat"], c["alt"])[1]
    return t, np.asarray(el, dtype=float)


def el_at(orb, c, when):
    return float(orb.get_observer_look(when, c["lon"], c["lat"], c["alt"])[1])


def secs(c, when):
    return (when - c["start"]).total_seconds()


# --------------------------------------------------------------------------
# the implementation, instrumented
# --------------------------------------------------------------------------
def run_impl(orb, c):
    from pyorbital import orbital as O
    rec = {"roots": [], "parab": [], "elev": None}
    orig_root, orig_parab, orig_look = O._get_root, O._get_max_parab, orb.get_observer_look

    def root(fun, start, end, tol=0.01):
        r = orig_root(fun, start, end, tol=tol)
        rec["roots"].append((int(start), float(end), r))
        return r

    def parab(fun, start, end, tol=0.01):
        r = orig_parab(fun, start, end, tol=tol)
        rec["parab"].append((start, end, r))
        return r

    def look(utc_time, lon, lat, alt):
        out = orig_look(utc_time, lon, lat, alt)
        if rec["elev"] is None and isinstance(utc_time, np.ndarray):
            rec["elev"] = np.array(out[1], dtype=float)
        return out

    O._get_root, O._get_max_parab, orb.get_observer_look = root, parab, look
    try:
        with common.time_limit(120):
            if c["horizon"] == 0:        # the documented default: horizon at 0 deg when the argument is omitted
                res = orb.get_next_passes(c["start"], c["length"], c["lon"], c["lat"], c["alt"])
            else:
                res = orb.get_next_passes(c["start"], c["length"], c["lon"], c["lat"], c["alt"], horizon=c["horizon"])
        rec["result"], rec["error"] = res, None
    except common.Timeout as e:
        rec["result"], rec["error"] = None, "Timeout: %s" % e
    except Exception as e:
        rec["result"], rec["error"] = None, "%s: %s" % (type(e).__name__, e)
    finally:
        O._get_root, O._get_max_parab = orig_root, orig_parab
        del orb.get_observer_look
    return rec


# --------------------------------------------------------------------------
# the model, inside Coq
# --------------------------------------------------------------------------
def model_batch(items):
    """items: list of (xs ints, roots floats) -> list of flat int lists (None on failure)"""
    head = ("From Coq Require Import List ZArith QArith.\nImport ListNotations.\nFrom PyOrb.model Require Import M_Passes.\n"
            "Set Printing Depth 1000000.\nSet Printing Width 200.\n")
    body = []
    for xs, roots in items:
        body.append("Eval vm_compute in (run_flat [%s]%%Z [%s]).\n" % ("; ".join(str(v) for v in xs), "; ".join(qlit(r) for r in roots)))
    ok, out = common.coq_eval("c03", head + "".join(body), timeout=900)
    if not ok:
        return None, out
    parts = re.findall(r"=\s*(\[[^\]]*\]|nil)\s*:\s*list Z", out)
    if len(parts) != len(items):
        return None, out
    return [[int(v) for v in re.findall(r"-?\d+", p)] for p in parts], out


def decode_flat(flat):
    nz = flat[0]
    z = flat[1:1 + nz]
    npass = flat[1 + nz]
    rest = flat[2 + nz:]
    ps = []
    for i in range(npass):
        r = rest[10 * i:10 * i + 10]
        ps.append({"rg": r[0], "fg": r[1], "int_start": r[2], "int_end": r[3], "ok": r[4], "middle": r[5],
                   "lo": Fraction(r[6], r[7]), "hi": Fraction(r[8], r[9])})
    return z, ps


# --------------------------------------------------------------------------
# case generation
# --------------------------------------------------------------------------
def epoch_of(tle):
    yy = int(tle[0][18:20])
    year = 2000 + yy if yy < 57 else 1900 + yy
    return dt.datetime(year, 1, 1) + dt.timedelta(days=float(tle[0][20:32]) - 1)


def rand_site(rng):
    return (rng.uniform(-180, 180), math.degrees(math.asin(rng.uniform(-1, 1))), rng.choice([0.0, rng.uniform(0, 3)]))


def rand_horizon(rng):
    return rng.choice([0, 0.0, rng.uniform(0, 10), rng.uniform(0, 60), rng.uniform(0, 60), 5.0, 60.0])


def base_case(rng, ctx, tag, tle=None):
    tle = tle or (tlegen.random_tle(rng) if rng.random() < 0.8 else rng.choice(tlegen.CORPUS))
    ep = epoch_of(tle)
    start = ep + dt.timedelta(seconds=rng.uniform(-3, 3) * 86400)
    start = start.replace(microsecond=rng.choice([0, rng.randrange(1000000)]))
    length = rng.choice([3, 4, 6, 8, 12, 24]) if ctx.quick else rng.choice([1, 2, 3, 5, 6, 12, 24, 36, 48, 72])
    lon, lat, alt = rand_site(rng)
    return {"tle": tle, "start": start, "length": length, "lon": lon, "lat": lat, "alt": alt,
            "horizon": rand_horizon(rng), "tag": tag}


def find_runs(mask):
    """maximal runs of True: list of (i0, i1) inclusive"""
    d = np.diff(np.concatenate(([0], mask.astype(np.int8), [0])))
    return list(zip(np.where(d == 1)[0], np.where(d == -1)[0] - 1))


def derive_cases(rng, ctx, n_random, n_over, n_graze, n_edge, n_zero):
    """yield cases; geometry strata are built from a first look at the trajectory (independent scan)"""
    out = []
    for i in range(n_random):
        c = base_case(rng, ctx, "random")
        if rng.random() < 0.7:          # look from somewhere the satellite is actually seen
            try:
                orb = make_orb(c["tle"])
                tc = c["start"] + dt.timedelta(hours=rng.uniform(0.1, 0.9) * c["length"])
                slon, slat, _ = orb.get_lonlatalt(tc)
                c["lon"] = ((float(slon) + rng.uniform(-15, 15) + 180) % 360) - 180
                c["lat"] = max(-89.9, min(89.9, float(slat) + rng.uniform(-12, 12)))
            except Exception:
                pass
        out.append(c)
    for i in range(n_over):             # overhead: observer on the ground track
        c = base_case(rng, ctx, "overhead")
        try:
            orb = make_orb(c["tle"])
            tc = c["start"] + dt.timedelta(hours=rng.uniform(0.15, 0.85) * c["length"])
            slon, slat, _ = orb.get_lonlatalt(tc)
            c["lon"], c["lat"], c["alt"] = float(slon), float(slat), 0.0
            c["lon"] += rng.choice([0.0, rng.uniform(-0.05, 0.05)])
        except Exception:
            pass
        out.append(c)
    for i in range(n_graze + n_edge + n_zero):
        kind = "grazing" if i < n_graze else ("edge" if i < n_graze + n_edge else "sample-on-horizon")
        c = base_case(rng, ctx, kind, tle=(tlegen.NOAA18 if (kind == "sample-on-horizon" and i % 3 == 0) else None))
        try:
            orb = make_orb(c["tle"])
            tc = c["start"] + dt.timedelta(hours=rng.uniform(0.2, 0.8) * c["length"])
            slon, slat, _ = orb.get_lonlatalt(tc)
            c["lon"] = ((float(slon) + rng.uniform(-10, 10) + 180) % 360) - 180
            c["lat"] = max(-89.9, min(89.9, float(slat) + rng.uniform(-8, 8)))
            c["horizon"] = rng.choice([0.0, rng.uniform(0, 20)])
            t, el = dense_scan(orb, c, 5.0)
            runs = [r for r in find_runs(el > c["horizon"]) if r[0] > 0 and r[1] < len(el) - 1]
            if not runs:
                out.append(c)
                continue
            i0, i1 = rng.choice(runs)
            peak = float(el[i0:i1 + 1].max())
            if kind == "grazing":
                d = rng.choice([1e-3, 0.01, 0.05, 0.2, 0.5, 1.0, -1e-3, -0.05])
                c["horizon"] = min(60.0, max(0.0, peak - d))
            elif kind == "edge":
                tr = c["start"] + dt.timedelta(seconds=5.0 * i0)
                tf = c["start"] + dt.timedelta(seconds=5.0 * i1)
                mode = rng.choice(["start-inside", "end-inside", "end-near-fall", "start-near-rise"])
                if mode == "start-inside":
                    c["start"] = tr + (tf - tr) * rng.uniform(0.1, 0.9)
                elif mode == "start-near-rise":
                    c["start"] = tr - dt.timedelta(seconds=rng.uniform(-20, 90))
                elif mode == "end-inside":
                    c["start"] = tr + (tf - tr) * rng.uniform(0.1, 0.9) - dt.timedelta(hours=c["length"])
                else:
                    c["start"] = tf + dt.timedelta(seconds=rng.uniform(-30, 150)) - dt.timedelta(hours=c["length"])
                c["tag"] = "edge:" + mode
            else:
                # a minute sample exactly on / within rounding of the horizon (regression cases of the
                # fixes b1a947a, 4faaafe, f25c902): horizon := elevation of a minute sample
                times = minute_times(c["start"], c["length"])
                els = np.asarray(orb.get_observer_look(times, c["lon"], c["lat"], c["alt"])[1], dtype=float)
                cand = [k for k in range(1, len(els) - 1) if 0.0 <= els[k] <= 60.0]
                if not cand:
                    out.append(c)
                    continue
                peaks = [k for k in cand if els[k] > els[k - 1] and els[k] > els[k + 1]]
                mode = rng.choice(["exact", "exact", "peak", "near"])
                k = rng.choice(peaks) if (mode == "peak" and peaks) else rng.choice(cand)
                h = float(els[k])
                if mode == "near":
                    sc = float(orb._elevation(c["start"], c["lon"], c["lat"], c["alt"], 0.0, np.int64(k)))
                    h = h + (sc - h) / 2 if sc != h else h + rng.choice([-3e-11, 3e-11])
                c["horizon"] = min(60.0, max(0.0, h))
                c["tag"] = "sample-on-horizon:" + mode
        except Exception:
            pass
        out.append(c)
    return out


FIXED_ZERO_CASES = [
    # (horizon, why) — NOAA-18, 2011-10-11 12:00 UTC, site 16E 58N 50 m
    (13.055711623628612, "asc"), (19.095172174642656, "desc"), (7.823798002203398, "near"), (7.823798002173398, "near"),
    (12.613109545180793, "near"), (75.73524380881199, "peak"), (26.3164817591499, "peak"), (3.751125355671327, "peak"),
]


def fixed_cases():
    out = []
    for h, why in FIXED_ZERO_CASES:
        out.append({"tle": tlegen.NOAA18, "start": dt.datetime(2011, 10, 11, 12, 0, 0), "length": 6, "lon": 16.0, "lat": 58.0,
                    "alt": 0.05, "horizon": h, "tag": "sample-on-horizon:fixed-" + why})
    for h in (16.563047795199026, 56.66862334640948, 30.366080301070596):
        out.append({"tle": tlegen.NOAA18, "start": dt.datetime(2011, 10, 11, 12, 0, 0), "length": 24, "lon": 16.0, "lat": 58.0,
                    "alt": 0.05, "horizon": h, "tag": "sample-on-horizon:fixed-near24"})
    return out


# --------------------------------------------------------------------------
# the oracle: the property text on the implementation vs a dense independent scan
# --------------------------------------------------------------------------
def oracle(ctx, orb, c, rec):
    pub = case_public(c)
    sig = case_sig(c)
    step = 1.0 if c["length"] <= 12 else 2.0
    t, el = dense_scan(orb, c, step)
    h = float(c["horizon"])
    if rec["error"] is not None:
        ctx.violation("get_next_passes did not return (%s)" % rec["error"], {"signature": sig + ":raises", **pub})
        return
    res = rec["result"]
    start = c["start"]
    n_min = c["length"] * 60
    tsec = np.arange(len(t)) * step
    prev_fall = None
    for pi, (rise, fall, culm) in enumerate(res):
        info = {"pass_index": pi, "rise": rise.isoformat(), "fall": fall.isoformat(), "culmination": culm.isoformat()}
        if not (start <= rise < culm < fall):
            ctx.violation("reported pass violates start <= rise < culmination < fall", {"signature": sig + ":order", **pub, **info})
            continue
        if prev_fall is not None and rise < prev_fall:
            ctx.violation("reported passes overlap or are out of time order", {"signature": sig + ":disjoint", **pub, **info})
        prev_fall = fall
        er, ef = el_at(orb, c, rise) - h, el_at(orb, c, fall) - h
        if abs(er) > TOL_HORIZON or abs(ef) > TOL_HORIZON:
            ctx.violation("elevation at reported rise/fall differs from the horizon by more than 1e-4 deg",
                          {"signature": sig + ":horizon", **pub, **info, "el_minus_horizon_at_rise": er, "el_minus_horizon_at_fall": ef})
        rs, fs = secs(c, rise), secs(c, fall)
        inside = (tsec > rs) & (tsec < fs)
        if inside.any():
            worst = float(el[inside].min()) - h
            if worst < -TOL_HORIZON:
                ctx.violation("satellite below the horizon between reported rise and fall",
                              {"signature": sig + ":between", **pub, **info, "min_el_minus_horizon": worst})
                continue
            # true maximum of the pass: dense maximum refined on a 1/1000-step grid around it
            idx = np.where(inside)[0]
            im = idx[int(np.argmax(el[idx]))]
            lo_s, hi_s = max(rs, tsec[im] - step), min(fs, tsec[im] + step)
            fine = np.datetime64(start, "us") + (np.linspace(lo_s, hi_s, 2001) * 1e6).astype("int64").astype("timedelta64[us]")
            fmax = max(float(np.max(orb.get_observer_look(fine, c["lon"], c["lat"], c["alt"])[1])), float(el[im]))
            ec = el_at(orb, c, culm)
            if ec < fmax - TOL_CULM:
                ctx.violation("elevation at the reported culmination is more than 0.01 deg below the pass maximum",
                              {"signature": sig + ":culmination", **pub, **info, "el_at_culmination": ec, "pass_maximum": fmax})
    # completeness
    above = el > h
    for i0, i1 in find_runs(above):
        if i0 == 0:
            continue                                   # does not begin after the start
        if (i1 - i0) * step <= 60.0:
            continue                                   # not certainly longer than 60 s
        if tsec[i1] + step > (n_min - 1) * 60.0:
            continue                                   # does not certainly end >= 1 min before the end
        ok = False
        for rise, fall, culm in res:
            if tsec[i0 - 1] - 0.5 <= secs(c, rise) <= tsec[i0] + 0.5 and tsec[i1] - 0.5 <= secs(c, fall) <= tsec[i1] + step + 0.5:
                ok = True
        if not ok:
            ctx.violation("an above-horizon interval longer than 60 s inside the window is not reported",
                          {"signature": sig + ":complete", **pub,
                           "interval_s_from_start": [float(tsec[i0]), float(tsec[i1])],
                           "reported": [[r.isoformat(), f.isoformat()] for r, f, _ in res]})


# --------------------------------------------------------------------------
def correspondence(ctx, c, rec, flat):
    pub = case_public(c)
    elev = rec["elev"]
    zcs_m, ps_m = decode_flat(flat)
    guesses = [g for g, _, _ in rec["roots"]]
    if zcs_m != guesses:
        ctx.corr_fail("M_Passes.zcs vs the guesses handed to orbital._get_root", {**pub, "model": zcs_m[:40], "impl": guesses[:40]})
        return
    roots = {g: r for g, _, r in rec["roots"]}
    res = rec["result"]
    impl = []
    for (rise, fall, culm), (lo, hi, _) in zip(res, rec["parab"]):
        impl.append((rise, fall, Fraction(float(lo)), Fraction(float(hi))))
    model = []
    for p in ps_m:
        model.append((c["start"] + dt.timedelta(minutes=roots[p["rg"]]), c["start"] + dt.timedelta(minutes=roots[p["fg"]]), p["lo"], p["hi"]))
    if len(res) != len(rec["parab"]) or impl != model or any(p["ok"] != 1 for p in ps_m):
        ctx.corr_fail("M_Passes.passes vs Orbital.get_next_passes (rise, fall, culmination bracket)",
                      {**pub, "model": [(str(a), str(b), float(l), float(hh)) for a, b, l, hh in model][:6],
                       "impl": [(str(a), str(b), float(l), float(hh)) for a, b, l, hh in impl][:6],
                       "n_model": len(model), "n_impl": len(res), "n_parab_calls": len(rec["parab"])})
    # the oracle contract assumed by the theorems, on this input
    for g, e, r in rec["roots"]:
        if not (g <= float(r) <= g + 1):
            ctx.corr_fail("contract root_ok of orbital._get_root (result inside the bracketing minute)", {**pub, "guess": g, "root": repr(r)})
    return len(ps_m)


def history_stratum(ctx, rng, cases):
    """The property quantifies over every query, whatever the object has served before: ONE Orbital object answers a
    sequence of get_next_passes calls that differ from their predecessor in a single argument (horizon, altitude,
    longitude, latitude, window length, start), and every answer is judged by the same dense-scan oracle, evaluated
    on a FRESH object.  The replay of a violation carries the earlier queries."""
    usable = [c for c in cases if c["tag"] in ("random", "overhead", "fixed") and c["length"] <= 24] or cases
    n_groups = ctx.n(5, 24)
    done = 0
    for g in range(n_groups):
        base = dict(usable[rng.randrange(len(usable))])
        try:
            orb = make_orb(base["tle"])
            fresh = make_orb(base["tle"])
            dense_scan(fresh, base, 60.0)
        except Exception:
            continue
        seq = [base]
        for which in rng.sample(["horizon", "horizon", "alt", "lon", "lat", "length", "start"], 4):
            v = dict(seq[-1])
            if which == "horizon":
                v["horizon"] = round(rng.choice([0.0, 5.0, 10.0, 20.0, rng.uniform(0.5, 30.0)]), 3)
                if v["horizon"] == seq[-1]["horizon"]:
                    v["horizon"] = seq[-1]["horizon"] + 7.5
            elif which == "alt":
                v["alt"] = round(seq[-1]["alt"] + rng.choice([0.5, 2.0, -0.2]), 3)
            elif which == "lon":
                v["lon"] = round(((seq[-1]["lon"] + rng.uniform(5, 60) + 180) % 360) - 180, 4)
            elif which == "lat":
                v["lat"] = round(max(-89.0, min(89.0, seq[-1]["lat"] + rng.uniform(-25, 25))), 4)
            elif which == "length":
                v["length"] = max(2, min(24, seq[-1]["length"] + rng.choice([-3, 2, 5])))
            else:
                v["start"] = seq[-1]["start"] + dt.timedelta(minutes=rng.choice([1, 17, 90]))
            seq.append(v)
        hist = []
        for j, c in enumerate(seq):
            c = dict(c, key="h%d.%d" % (g, j), tag="history", history=list(hist))
            rec = run_impl(orb, c)
            ctx.case(("impl", c["key"], "history"),
                     {**case_public(c), "passes": None if rec["result"] is None else len(rec["result"]), "error": rec["error"]})
            oracle(ctx, fresh, c, rec)
            hist.append({k: v for k, v in case_public(c).items() if k in ("lon", "lat", "alt", "start", "length_h", "horizon")})
            done += 1
    ctx.notes["history_queries"] = done
    ctx.extra["history_queries"] = done


def run(ctx):
    ctx.rule = ("per case (TLE, site, start, length h, horizon): strata random / overhead (observer on the ground track) / grazing "
                "(horizon within 1e-3..1 deg of a pass maximum) / window-edge (start or end inside or next to a pass) / "
                "sample-on-horizon (horizon := elevation of a minute sample, exactly, at a peak sample, or within the scalar/array "
                "rounding gap) / history (one Orbital object answers a sequence of queries differing in one argument each; judged by "
                "the oracle on a fresh object); distinct = distinct case; each case is one correspondence replay + one dense-scan oracle run")
    ctx.assumptions += [
        "ORACLE HYPOTHESES of the theorems (Section variables / premises, sampled here, not proved): orbital._get_root "
        "(scipy.optimize.brentq + end-point fall-back) returns a point of the bracketing minute [guess, guess+1] (checked on every "
        "recorded call) at which the elevation is within 1e-4 deg of the horizon; _get_max_parab ends within 0.01 deg of the pass "
        "maximum and strictly between rise and fall; the elevation does not dip below the horizon between two minute samples of a pass",
        "model domain: minute samples without NaN and without -0.0 (signbit(x) == (x < 0)); samples enter the model through the "
        "order/sign/zero-preserving sign-magnitude integer reading of their IEEE-754 bits, roots as exact dyadic rationals",
        "rise/fall/culmination datetimes are `utc_time + timedelta(minutes=x)` (rounded to 1 us by datetime); not modelled",
        "the dense scan uses Orbital.get_observer_look itself at 1 s (<= 12 h) or 2 s steps: the oracle is independent of the "
        "pass-finding logic, not of the SGP4/look-angle code (that is C01/C05's subject)",
        "completeness is claimed by the property only for above-horizon intervals > 60 s that begin after the start and end >= 1 min "
        "before the end of the window; the oracle applies exactly these exemptions, with one scan step of safety margin",
    ]
    src, _names = numeric.regen_ast(ctx, "passes", "the control skeleton of Orbital.get_next_passes (compared, constants masked, with "
                                    "translator/passes_skeleton.txt) and its numeric constants; the root finder, the culmination optimiser "
                                    "and get_observer_look stay oracles of the hand model",
                                    optional=True)
    ctx.build_props("props/C03.v")
    if src is not None:
        ctx.build_props("props/C03_source.v")
    rng = ctx.rng
    cases = fixed_cases() + derive_cases(rng, ctx, n_random=ctx.n(16, 90), n_over=ctx.n(10, 50), n_graze=ctx.n(10, 50),
                                         n_edge=ctx.n(10, 50), n_zero=ctx.n(8, 50))
    for i, c in enumerate(cases):
        c["key"] = "%d" % i
    items, recs = [], []
    for c in cases:
        try:
            orb = make_orb(c["tle"])
            with common.time_limit(120):
                dense_scan(orb, c, 60.0)          # the trajectory itself must be computable over the window
        except Exception:
            continue                               # SGP4 refuses this TLE/time: not a C03 input
        rec = run_impl(orb, c)
        ctx.case(("impl", c["key"], c["tag"]),
                 {**case_public(c), "passes": None if rec["result"] is None else len(rec["result"]), "error": rec["error"]})
        oracle(ctx, orb, c, rec)
        if rec["error"] is None and rec["elev"] is not None:
            elev = rec["elev"] - c["horizon"]
            if np.isnan(elev).any() or any(v == 0 and math.copysign(1.0, v) < 0 for v in elev):
                continue                           # outside the model's domain (documented)
            items.append(([fkey(v) for v in elev], [r for _, _, r in rec["roots"]]))
            recs.append((c, rec))
    history_stratum(ctx, rng, cases)
    npasses = 0
    for lo in range(0, len(items), 60):
        flats, out = model_batch(items[lo:lo + 60])
        if flats is None:
            ctx.corr_fail("M_Passes.run_flat evaluation in Coq", {"error": out[-600:]})
            continue
        for (c, rec), flat in zip(recs[lo:lo + 60], flats):
            ctx.case(("corr", c["key"], c["tag"]))
            npasses += correspondence(ctx, c, rec, flat) or 0
    ctx.notes["passes_compared"] = npasses
    ctx.extra["passes_compared"] = npasses
