"""C12 — Julian dates and GMST.  Tie: T-gen (Gen_astronomy regenerated from source) +
translator self-check + Coq-evaluated calendar correspondence + implementation oracle."""
import datetime as dt
import math
from fractions import Fraction

import numpy as np

from harness import common, numeric

LEVEL = "proof"
J2000_US = 946728000000000


def rand_instant(rng):
    k = rng.random()
    if k < 0.15:   # boundaries: leap days, century years, year ends
        y = rng.choice([1900, 1904, 1999, 2000, 2001, 2024, 2096, 2100, 1970, 1969])
        m, d = rng.choice([(2, 28), (2, 29), (3, 1), (12, 31), (1, 1)])
        if d == 29 and not (y % 4 == 0 and (y % 100 != 0 or y % 400 == 0)):
            d = 28
        hh, mi, ss, us = rng.choice([(0, 0, 0, 0), (23, 59, 59, 999999), (12, 0, 0, 0), (11, 59, 59, 999999)])
    else:
        y = rng.randint(1900, 2100)
        m = rng.randint(1, 12)
        d = rng.randint(1, 28)
        hh, mi, ss = rng.randint(0, 23), rng.randint(0, 59), rng.randint(0, 59)
        us = rng.choice([0, rng.randint(0, 999999)])
    return (y, m, d, hh, mi, ss, us)


def iau82(dq):
    """IAU-1982 GMST in radians (unreduced) at exact rational days since J2000, in float"""
    T = dq / 36525
    sec = (Fraction("67310.54841") + (876600 * 3600 + Fraction("8640184.812866")) * T
           + Fraction("0.093104") * T ** 2 - Fraction("6.2e-6") * T ** 3)
    # reduce exactly mod 86400 s before going to float
    sec = sec - (sec // 86400) * 86400
    return float(sec) / 240.0 * math.pi / 180.0


def run(ctx):
    from pyorbital import astronomy
    ctx.rule = ("civil instants 1900-2100 (15% boundary dates: leap days, century years, year/day ends, "
                "sub-second), in 5 time representations; ns instants next to day boundaries; pairs; one array object advanced in place "
                "between queries (4 steps, units s/ms/us/ns); distinct = distinct instants")
    ctx.assumptions += [
        "numpy maps civil dates to datetime64 ticks by the proleptic Gregorian day count (validated: Coq-evaluated civil_us vs np.datetime64 on every generated instant)",
        "binary64 rounding of the evaluation is not proved; sampled against the exact rational value (1e-9 day, 1e-7 rad)",
        "translator (symtrace/emit) trusted for 'emitted term = what the code computes over R'; self-checked each run by binary64 evaluation of the DAG and by Coq interval evaluation of the printed term against the interpreter",
    ]
    # 1. regenerate model from source + translator self-check
    tr, defs = numeric.regen(ctx, "astronomy")
    if tr is not None:
        names = ("gen_jdays2000", "gen_jdays", "gen_gmst")

        def impl(name, env):
            t = np.datetime64(J2000_US + int(round(env["d"] * 86400e6)), "us")
            return float({"gen_jdays2000": astronomy.jdays2000, "gen_jdays": astronomy.jdays,
                          "gen_gmst": astronomy.gmst}[name](t))

        def gen_env(rng):
            us = rng.randint(-36525 * 86400 * 10**6, 36525 * 86400 * 10**6)
            return {"d": us / 86400e6}
        numeric.selfcheck(ctx, tr, defs, names, gen_env, impl, n=ctx.n(60, 600), rtol=1e-9, atol=1e-7)
        numeric.coq_point_check(ctx, "Gen_astronomy", defs, ["gen_gmst", "gen_jdays"], gen_env, impl,
                                n=3, tol="1/10000000", unfold="gen_gmst gen_jdays pymod deg2rad")
    # 2. proofs
    ctx.build_props("props/C12.v")
    # 3. calendar correspondence, evaluated in Coq
    n = ctx.n(300, 3000)
    insts = [rand_instant(ctx.rng) for _ in range(n)]
    text = ("From Coq Require Import ZArith List. Import ListNotations.\n"
            "From PyOrb.spec Require Import Spec_Time.\nOpen Scope Z_scope.\n"
            "Definition cases := [%s].\n"
            "Definition out := map (fun c => match c with (y,m,d,hh,mi,ss,us) => (civil_us y m d hh mi ss us, jdn y m d) end) cases.\n"
            "Eval vm_compute in out.\n" % ";".join("(%d,%d,%d,%d,%d,%d,%d)" % i for i in insts))
    ok, out = common.coq_eval("c12", text)
    pairs = numeric.parse_z_pairs(out) if ok else []
    if not ok or len(pairs) != n:
        ctx.corr_fail("calendar(civil_us, jdn) evaluation in Coq", {"error": out[-400:]})
    reps = ["datetime", "M8[s]", "M8[ms]", "M8[us]", "M8[ns]", "objarray"]
    for inst, (cus, jd_n) in zip(insts, pairs):
        y, m, d, hh, mi, ss, us = inst
        pydt = dt.datetime(y, m, d, hh, mi, ss, us)
        tick = int(np.datetime64(pydt, "us").astype("int64"))
        ctx.case(("cal", inst), {"instant": pydt.isoformat(), "coq_civil_us": cus, "coq_jdn": jd_n})
        if tick != cus:
            ctx.corr_fail("M_Calendar.civil_us vs numpy datetime64[us] tick", {"instant": pydt.isoformat(), "model": cus, "impl": tick})
        # oracle: Julian date vs independent integer algorithm (jdn from Coq)
        jd_exact = Fraction(jd_n) - Fraction(1, 2) + Fraction(hh * 3600 + mi * 60 + ss) / 86400 + Fraction(us, 86400 * 10**6)
        dq = Fraction(cus - J2000_US, 86400 * 10**6)
        rep = ctx.rng.choice(reps)
        if rep == "datetime":
            t = pydt
        elif rep == "objarray":
            t = np.array([pydt], dtype=object)
        else:
            if rep == "M8[s]" and us:
                rep = "M8[us]"
            if rep == "M8[ms]" and us % 1000:
                rep = "M8[us]"
            t = np.datetime64(pydt).astype(rep)
        try:
            with common.time_limit(20):
                jd = np.asarray(astronomy.jdays(t), dtype=float).ravel()[0]
                j2 = np.asarray(astronomy.jdays2000(t), dtype=float).ravel()[0]
                g = np.asarray(astronomy.gmst(t), dtype=float).ravel()[0]
        except Exception as e:
            ctx.violation("jdays/gmst raised %s" % type(e).__name__,
                          {"signature": "C12:raise:%s:%s" % (rep, type(e).__name__), "instant": pydt.isoformat(), "rep": rep, "error": str(e)})
            continue
        base = {"instant": pydt.isoformat(), "rep": rep}
        if not abs(Fraction(jd) - jd_exact) <= Fraction(1, 10**9):
            ctx.violation("jdays differs from the civil-calendar Julian date by more than 1e-9 day",
                          {"signature": "C12:jd:%s" % pydt.isoformat(), **base, "impl": jd, "spec": float(jd_exact)})
        if not abs(Fraction(j2) - (jd_exact - 2451545)) <= Fraction(1, 10**9):
            ctx.violation("jdays2000 differs from JD - 2451545.0 by more than 1e-9 day",
                          {"signature": "C12:j2000:%s" % pydt.isoformat(), **base, "impl": j2, "spec": float(jd_exact - 2451545)})
        if not (0.0 <= g < 2 * math.pi):
            ctx.violation("gmst outside [0, 2*pi)", {"signature": "C12:range:%s" % pydt.isoformat(), **base, "impl": g})
        ref = iau82(dq)
        dd = (g - ref + math.pi) % (2 * math.pi) - math.pi
        if not abs(dd) <= 1e-7:
            ctx.violation("gmst differs from IAU-1982 by more than 1e-7 rad",
                          {"signature": "C12:iau:%s" % pydt.isoformat(), **base, "impl": g, "spec": ref, "diff": dd})
    # nanosecond-resolution instants hugging day boundaries (noon = J2000 day boundary, midnight = calendar)
    for _ in range(ctx.n(60, 600)):
        y, m, d = ctx.rng.randint(1900, 2100), ctx.rng.randint(1, 12), ctx.rng.randint(1, 28)
        hh = ctx.rng.choice([0, 12])
        k = ctx.rng.choice([1, 2, 50, 100, 300, 999, 1000, 123456])
        base_t = np.datetime64(dt.datetime(y, m, d, hh, 0, 0), "ns")
        tns = base_t + np.timedelta64(ctx.rng.choice([-k, k]), "ns")
        arg = tns if ctx.rng.random() < 0.5 else np.array([tns])
        ns = int(tns.astype("int64"))
        jd_exact = Fraction(ns, 86400 * 10**9) + Fraction(4881175, 2)        # 2440587.5
        ctx.case(("ns-boundary", str(tns)))
        try:
            with common.time_limit(20):
                jd = float(np.asarray(astronomy.jdays(arg), dtype=float).ravel()[0])
                g = float(np.asarray(astronomy.gmst(arg), dtype=float).ravel()[0])
        except Exception as e:
            ctx.violation("jdays/gmst raised %s" % type(e).__name__, {"signature": "C12:raise-ns:%s" % type(e).__name__, "instant": str(tns)})
            continue
        if not abs(Fraction(jd) - jd_exact) <= Fraction(1, 10**9):
            ctx.violation("jdays differs from the civil-calendar Julian date by more than 1e-9 day",
                          {"signature": "C12:jd-ns:%s" % tns, "instant": str(tns), "kind": "scalar" if arg is tns else "array", "impl": jd, "spec": float(jd_exact)})
        ref = iau82(jd_exact - 2451545)
        dd = (g - ref + math.pi) % (2 * math.pi) - math.pi
        if not (0.0 <= g < 2 * math.pi) or not abs(dd) <= 1e-7:
            ctx.violation("gmst differs from IAU-1982 by more than 1e-7 rad (or is outside [0, 2*pi))",
                          {"signature": "C12:iau-ns:%s" % tns, "instant": str(tns), "impl": g, "spec": ref, "diff": dd})
    # ONE time-array object, advanced in place between queries (a time-stepping loop): the answer must follow the array's
    # contents, not its identity or an earlier answer; and the functions must leave the array as they found it
    for gi in range(ctx.n(6, 40)):
        y, m, d = ctx.rng.randint(1900, 2099), ctx.rng.randint(1, 12), ctx.rng.randint(1, 28)
        unit = ctx.rng.choice(["us", "us", "ns", "ms", "s"])
        if unit == "ns":
            y = ctx.rng.randint(1980, 2099)
        t0 = np.datetime64(dt.datetime(y, m, d, ctx.rng.randrange(24), ctx.rng.randrange(60), ctx.rng.randrange(60)), unit)
        times = t0 + (np.arange(3) * 3600).astype("timedelta64[s]").astype("timedelta64[%s]" % unit)
        hist = []
        for step_i in range(4):
            ticks_before = times.astype("int64").copy()
            ctx.case(("stepped", str(times[0]), unit, step_i))
            try:
                with common.time_limit(20):
                    jd = np.asarray(astronomy.jdays(times), dtype=float).ravel()
                    j2 = np.asarray(astronomy.jdays2000(times), dtype=float).ravel()
                    g = np.asarray(astronomy.gmst(times), dtype=float).ravel()
            except Exception as e:
                ctx.violation("jdays/gmst raised %s" % type(e).__name__,
                              {"signature": "C12:raise-stepped:%s" % type(e).__name__, "instant": str(times[0]), "in_place_steps_before": hist})
                break
            info = {"same_array_object_advanced_in_place_by": list(hist), "unit": unit}
            if not np.array_equal(times.astype("int64"), ticks_before):
                ctx.violation("jdays/jdays2000/gmst modified the caller's time array", {"signature": "C12:stepped:mutated:%s" % times[0], **info})
                break
            per = {"s": 1, "ms": 10**3, "us": 10**6, "ns": 10**9}[unit]
            for k in range(len(times)):
                jd_exact = Fraction(int(ticks_before[k]), 86400 * per) + Fraction(4881175, 2)
                inst = str(times[k])
                if not abs(Fraction(float(jd[k])) - jd_exact) <= Fraction(1, 10**9):
                    ctx.violation("jdays differs from the civil-calendar Julian date by more than 1e-9 day",
                                  {"signature": "C12:jd-stepped:%d:%s" % (step_i, inst), "instant": inst, **info, "impl": float(jd[k]), "spec": float(jd_exact)})
                if not abs(Fraction(float(j2[k])) - (jd_exact - 2451545)) <= Fraction(1, 10**9):
                    ctx.violation("jdays2000 differs from JD - 2451545.0 by more than 1e-9 day",
                                  {"signature": "C12:j2000-stepped:%d:%s" % (step_i, inst), "instant": inst, **info, "impl": float(j2[k])})
                ref = iau82(jd_exact - 2451545)
                dd = (float(g[k]) - ref + math.pi) % (2 * math.pi) - math.pi
                if not (0.0 <= g[k] < 2 * math.pi) or not abs(dd) <= 1e-7:
                    ctx.violation("gmst differs from IAU-1982 by more than 1e-7 rad (or is outside [0, 2*pi))",
                                  {"signature": "C12:iau-stepped:%d:%s" % (step_i, inst), "instant": inst, **info, "impl": float(g[k]), "spec": ref, "diff": dd})
            step_s = ctx.rng.choice([86400, 10 * 86400, 3600, 61, 365 * 86400])
            times += np.timedelta64(step_s, "s").astype("timedelta64[%s]" % unit)
            hist.append("%d s" % step_s)
    # differences / rate on pairs
    for _ in range(ctx.n(100, 1000)):
        a, b = rand_instant(ctx.rng), rand_instant(ctx.rng)
        ta, tb = np.datetime64(dt.datetime(*a), "us"), np.datetime64(dt.datetime(*b), "us")
        el = Fraction(int((tb - ta).astype("int64")), 86400 * 10**6)
        ctx.case(("pair", a, b))
        try:
            with common.time_limit(20):
                dj = Fraction(float(astronomy.jdays(tb))) - Fraction(float(astronomy.jdays(ta)))
                # rate: one day apart from a
                g0 = float(astronomy.gmst(ta))
                g1 = float(astronomy.gmst(ta + np.timedelta64(86400 * 10**6, "us")))
        except Exception as e:
            ctx.violation("jdays/gmst raised %s" % type(e).__name__, {"signature": "C12:raise2:%s" % type(e).__name__, "a": str(ta), "b": str(tb)})
            continue
        if not abs(dj - el) <= Fraction(2, 10**9):
            ctx.violation("difference of Julian dates is not the elapsed time",
                          {"signature": "C12:diff:%s:%s" % (ta, tb), "a": str(ta), "b": str(tb), "impl": float(dj), "spec": float(el)})
        adv = (g1 - g0 - 2 * math.pi * 0.00273790935 + math.pi) % (2 * math.pi) - math.pi
        if not abs(adv) <= 2e-8:
            ctx.violation("gmst does not advance by 2*pi*1.00273790935 rad per day",
                          {"signature": "C12:rate:%s" % ta, "a": str(ta), "excess_rad": adv})
