"""C11 — orbit numbers and node times.  Tie: T-corr (hand-written M_NodeTime.v: the implementation's own
recorded z samples are replayed through the model inside Coq for every time representation; int()
against Qtrunc) + oracle (the property text on the implementation against an independent 1 s scan of
z(t) from get_position)."""
import datetime as dt
import re
from fractions import Fraction

import math

import numpy as np

from harness import common, tlegen, numeric

LEVEL = "proof"
UNITS = {"m": "U_m", "s": "U_s", "ms": "U_ms", "us": "U_us", "ns": "U_ns"}


def qlit(x):
    f = Fraction(float(x))
    return "(%d # %d)" % (f.numerator, f.denominator)


def make_orb(tle):
    from pyorbital.orbital import Orbital
    return Orbital("X", line1=tle[0], line2=tle[1])


def gen_tle(rng, drag_free=True, **over):
    f = tlegen.random_fields(rng)
    inc = rng.choice([rng.uniform(3, 177), rng.uniform(3, 177), rng.uniform(3, 12), rng.uniform(168, 177), rng.uniform(95, 102), 3.0, 177.0])
    f.update(inc=inc, rev=rng.randint(2, 99000))
    if drag_free:
        # "mean-motion-derivative fields consistent with drag": negligible drag AND zero derivative fields
        f.update(ndot=0.0, nddot=(0, 0, " "), bstar=rng.choice([(0, 0, " "), (rng.randint(10000, 50000), -4, " "), (rng.randint(10000, 99999), -5, " ")]))
    f.update(over)
    return tlegen.make(**f)


def node_epoch_tle(rng, descending):
    """an element set whose epoch lies within a few metres of a node (|z| < 1 km at epoch): the branch of
    get_orbit_number that takes the epoch itself as the node time must tell ascending from descending"""
    f = tlegen.random_fields(rng)
    f.update(inc=rng.uniform(60, 120), ecc=rng.randint(1000, 30000), mm=rng.uniform(13.5, 14.8), rev=rng.randint(2, 99000),
             ndot=0.0, nddot=(0, 0, " "), bstar=(0, 0, " "), day=float(rng.randint(2, 360)) + rng.choice([0.0, 0.5, 0.25]))
    argp = rng.uniform(0, 359.9)
    f["argp"] = round(argp, 4)

    def z_at(ma):
        g = dict(f)
        g["ma"] = ma % 360.0
        tle = tlegen.make(**g)
        orb = make_orb(tle)
        pos, vel = orb.get_position(orb.tle.epoch, normalize=False)
        return float(pos[2]), float(vel[2]), tle
    target = (180.0 if descending else 0.0) - f["argp"]
    lo, hi = target - 2.0, target + 2.0
    zlo, zhi = z_at(lo)[0], z_at(hi)[0]
    if zlo * zhi > 0:
        return None
    for _ in range(40):
        mid = (lo + hi) / 2
        zm = z_at(mid)[0]
        if zlo * zm <= 0:
            hi, zhi = mid, zm
        else:
            lo, zlo = mid, zm
    best = None
    for cand in (round(lo, 4), round(hi, 4), round((lo + hi) / 2, 4)):
        zc, vz, tle = z_at(cand)
        if best is None or abs(zc) < abs(best[0]):
            best = (zc, vz, tle)
    if abs(best[0]) >= 0.9 or (best[1] < 0) != descending:
        return None
    return best[2]


def pub(tle, **kw):
    d = {"tle": list(tle)}
    d.update(kw)
    return d


# --------------------------------------------------------------------------
# get_last_an_time: instrumented runs in every representation
# --------------------------------------------------------------------------
def representations(t):
    """t: naive datetime with microseconds"""
    return [("datetime", t, "us"), ("datetime-utc", t.replace(tzinfo=dt.timezone.utc), "us"),
            ("dt64[m]", np.datetime64(t, "m"), "m"), ("dt64[s]", np.datetime64(t, "s"), "s"),
            ("dt64[ms]", np.datetime64(t, "ms"), "ms"), ("dt64[us]", np.datetime64(t, "us"), "us"),
            ("dt64[ns]", np.datetime64(t, "ns"), "ns")]


def run_last_an(orb, q):
    calls = []
    orig = orb.get_position

    def gp(utc_time, normalize=True):
        r = orig(utc_time, normalize=normalize)
        if isinstance(utc_time, np.datetime64):
            calls.append((utc_time, r[0][2], r[1][2]))
        return r

    orb.get_position = gp
    try:
        with common.time_limit(5):          # a normal call takes milliseconds
            res = orb.get_last_an_time(q)
        err = None
    except common.Timeout:
        res, err = None, "Timeout"
    except Exception as e:
        res, err = None, "%s: %s" % (type(e).__name__, e)
    finally:
        del orb.get_position
    return res, err, calls


def node_oracle(ctx, orb, tle, name, t_query, res, period_s):
    """result <= query, |z| <= 1 km, vz > 0, no other ascending node in (result, query]"""
    sig = "C11:node:%s:%s" % (name, t_query.isoformat())
    info = pub(tle, representation=name, query=t_query.isoformat(), result=str(res))
    tq = np.datetime64(t_query, "ns") if name == "dt64[ns]" else np.datetime64(t_query, "us")
    # what the argument actually denotes in its own unit (m, s, ms truncate the datetime)
    unit = {"dt64[m]": "m", "dt64[s]": "s", "dt64[ms]": "ms"}.get(name)
    if unit:
        tq = np.datetime64(t_query, unit).astype("datetime64[us]")
    r = res.astype("datetime64[ns]")
    if r > tq.astype("datetime64[ns]"):
        ctx.violation("last ascending node later than the query time", {"signature": sig + ":late", **info})
        return
    pos, vel = orb.get_position(res, normalize=False)
    if not abs(float(pos[2])) <= 1.0:
        ctx.violation("|z| > 1 km at the returned node time", {"signature": sig + ":z", **info, "z_km": float(pos[2])})
    if not float(vel[2]) > 0:
        ctx.violation("v_z <= 0 at the returned node time (not an ascending node)", {"signature": sig + ":vz", **info, "vz": float(vel[2])})
    # independent scan: 1 s grid from one period + 25 min before the query up to the query
    n = int(period_s + 1500)
    grid = tq.astype("datetime64[us]") - (np.arange(n, -1, -1)).astype("timedelta64[s]")
    z = np.asarray(orb.get_position(grid, normalize=False)[0][2], dtype=float)
    idx = np.where((z[:-1] < 0) & (z[1:] >= 0))[0]
    if len(idx) == 0:
        return
    tc = grid[idx[-1]] + np.timedelta64(int(1e6 * (-z[idx[-1]] / (z[idx[-1] + 1] - z[idx[-1]]))), "us")   # last crossing before query
    vz = max(0.05, abs(float(vel[2])))
    slack = np.timedelta64(int(1e6 * (1.0 / vz + 0.05)), "us")
    rr = res.astype("datetime64[us]")
    if tc - rr > slack:
        ctx.violation("another ascending node lies between the returned node and the query time",
                      {"signature": sig + ":not-last", **info, "later_crossing": str(tc)})
    elif rr - tc > slack:
        ctx.violation("returned node time is not at an ascending equator crossing of the trajectory",
                      {"signature": sig + ":off-node", **info, "nearest_crossing": str(tc)})


def coq_replay(items):
    head = ("From Coq Require Import List ZArith QArith.\nImport ListNotations.\nFrom PyOrb.model Require Import M_NodeTime.\n"
            "Set Printing Depth 1000000.\nSet Printing Width 200.\n")
    body = []
    for unit, tbl, tick in items:
        body.append("Eval vm_compute in (replay %s [%s] [%s] (%d)%%Z).\n" % (
            UNITS[unit], "; ".join("((%d)%%Z, %s)" % (k, qlit(v)) for k, v, _ in tbl),
            "; ".join("((%d)%%Z, (%d)%%Z)" % (k, sh) for k, _, sh in tbl), tick))
    ok, out = common.coq_eval("c11", head + "".join(body), timeout=900)
    if not ok:
        return None, out
    parts = re.findall(r"=\s*(\[[^\]]*\])\s*:\s*list Z", out)
    if len(parts) != len(items):
        return None, out
    return [[int(v) for v in re.findall(r"-?\d+", p)] for p in parts], out


def coq_trunc(xs):
    head = ("From Coq Require Import List ZArith QArith.\nImport ListNotations.\nFrom PyOrb.model Require Import M_NodeTime.\n"
            "Set Printing Depth 1000000.\nSet Printing Width 200.\n")
    ok, out = common.coq_eval("c11t", head + "Eval vm_compute in (trunc_flat [%s]).\n" % "; ".join(qlit(x) for x in xs), timeout=600)
    m = re.search(r"=\s*(\[[^\]]*\])\s*:\s*list Z", out)
    if not ok or not m:
        return None, out
    return [int(v) for v in re.findall(r"-?\d+", m.group(1))], out


# --------------------------------------------------------------------------
# orbit numbers against the trajectory's own equator crossings
# --------------------------------------------------------------------------
def crossings(orb, ep):
    """ascending crossing times, seconds from epoch, over [epoch - 1 d - 2 h, epoch + 5 d + 2 h] (1 s scan, linear interpolation)"""
    lo, hi = -86400 - 7200, 5 * 86400 + 7200
    grid = ep + np.arange(lo, hi + 1).astype("timedelta64[s]")
    z = np.asarray(orb.get_position(grid, normalize=False)[0][2], dtype=float)
    idx = np.where((z[:-1] < 0) & (z[1:] >= 0))[0]
    return lo + idx + (-z[idx] / (z[idx + 1] - z[idx]))


def ecc_of(tle):
    return float("0." + tle[1][26:33])


def apsidal_bound(tle, s):
    """5 s + 1.25 (e/n) dw^2: see the comment at its use"""
    ecc, inc, mm = ecc_of(tle), math.radians(float(tle[1][8:16])), float(tle[1][52:63])
    n = mm * 2 * math.pi / 86400.0
    a = (398600.8 / n ** 2) ** (1.0 / 3.0)
    p = a * (1 - ecc ** 2)
    wdot = 0.75 * 1.08263e-3 * (6378.135 / p) ** 2 * n * abs(5 * math.cos(inc) ** 2 - 1)
    dw = wdot * abs(s)
    return 5.0 + 1.25 * (ecc / n) * dw ** 2


def expected_count(tc, s, pivot=0.0):
    if s >= 0:
        return int(np.sum((tc > pivot) & (tc <= s)))
    return -int(np.sum((tc <= pivot) & (tc > s)))


def expected_counts(tc, s):
    """the signed count(s) the property admits.  A crossing within the 2 s exemption of the epoch itself may lie on
    either side of it (the element set's revolution number then belongs to the orbit that starts AT that crossing, which
    is how the code reads it: |z| < 1 km at epoch with northward velocity makes the epoch the node time) -- the
    property's tolerance on where a crossing is applies to that crossing as it does to every other."""
    out = {expected_count(tc, s)}
    for c in tc[np.abs(tc) <= 2.0]:
        if c > 0 and s < 0:      # read the crossing as "at or before epoch": one more crossing between s and epoch
            out.add(expected_count(tc, s, pivot=float(c)))
        elif c > 0:              # s >= 0: the crossing just after epoch is the epoch's own
            out.add(expected_count(tc, s, pivot=float(c)))
        else:                    # crossing just before epoch read as "after": pivot just below it
            out.add(expected_count(tc, s, pivot=float(c) - 1e-9))
    return out


def orbit_number_checks(ctx, rng, tle, ti, floats_out):
    orb = make_orb(tle)
    ep = orb.tle.epoch
    rev = int(orb.tle.orbit)
    tc = crossings(orb, ep)
    if len(tc) < 10:
        return
    times = sorted([rng.uniform(-86400, 5 * 86400) for _ in range(ctx.n(25, 60))]
                   + [float(c) + off * (2 + 5 * abs(c) / 86400 + 3) for c in rng.sample(list(tc), min(len(tc), ctx.n(10, 30))) for off in (-1.0, 1.0)]
                   + [-86400.0, 0.0, 5 * 86400.0])
    times = [s for s in times if -86400 <= s <= 5 * 86400]
    prev_f, prev_i = None, None
    for s in times:
        t = ep + np.timedelta64(int(round(s * 1e6)), "us")
        with common.time_limit(30):
            n_int = orb.get_orbit_number(t)
            n_tbus = orb.get_orbit_number(t, tbus_style=True)
            n_f = orb.get_orbit_number(t, as_float=True)
            n_ftb = orb.get_orbit_number(t, tbus_style=True, as_float=True)
        ctx.case(("orbit", ti, round(s, 3)), {"tle": list(tle), "seconds_from_epoch": s, "orbit": n_int, "float": n_f} if len(ctx.samples) < 4 else None)
        info = pub(tle, seconds_from_epoch=s, time=str(t), orbit=n_int, tbus=n_tbus, as_float=repr(n_f))
        sig = "C11:%%s:%d:%.3f" % (ti, s)
        floats_out.append((n_f, n_int, info))
        if n_tbus != n_int + 1 or n_ftb != n_f + 1:
            ctx.violation("TBUS orbit number is not the orbit number + 1", {"signature": sig % "tbus", **info})
        if n_int != int(n_f) or not isinstance(n_int, int):
            ctx.violation("integer orbit number is not the truncated continuous value", {"signature": sig % "trunc", **info})
        if prev_f is not None and (n_f < prev_f or n_int < prev_i):
            ctx.violation("orbit number decreases with time", {"signature": sig % "monotone", **info, "previous": [prev_f, prev_i]})
        prev_f, prev_i = n_f, n_int
        near = float(np.min(np.abs(tc - s)))
        if near <= 2.0 + 5.0 * abs(s) / 86400.0:
            continue                                   # the property's exemption window around a crossing
        if n_f < 0:
            continue                                   # int() truncates toward zero: below zero the two clauses of the property disagree
        want = rev + expected_count(tc, s)
        if n_int not in {rev + k for k in expected_counts(tc, s)}:
            # KNOWN class (known_findings.json): eccentric orbits.  The code extrapolates ONE node-to-node interval measured at
            # epoch; the real interval is modulated by the rotation of perigee relative to the node.  With crossing-time offset
            # delta(w) of amplitude 2e/n, the error of the linear extrapolation after the perigee has turned by dw is
            # delta(w0+dw) - delta(w0) - delta'(w0) dw, at most (e/n) dw^2.  Errors inside 5 s + 1.25 (e/n) dw^2 (J2 secular
            # rate of w from the element set) fall under the known finding; anything larger keeps a per-input signature.
            known = ecc_of(tle) >= 0.02 and near <= apsidal_bound(tle, s)
            ctx.violation("orbit number differs from TLE rev + signed count of ascending equator crossings since epoch",
                          {"signature": "C11:count:eccentric-apsidal-rotation" if known else sig % "count", **info, "expected": want,
                           "seconds_to_nearest_crossing": near, "exemption_s": 2.0 + 5.0 * abs(s) / 86400.0})
    # equator crossing time: the continuous number is an integer there
    for _ in range(ctx.n(2, 5)):
        s0 = rng.uniform(-86400, 5 * 86400 - 8000)
        per = 86400.0 / float(tle[1][52:63])
        t0 = (ep + np.timedelta64(int(s0 * 1e6), "us")).astype(dt.datetime)
        t1 = t0 + dt.timedelta(seconds=per * rng.uniform(1.0, 1.05))
        with common.time_limit(60):
            r = orb.get_equatorial_crossing_time(t0, t1)
        ctx.case(("crossing", ti, round(s0, 3)))
        info = pub(tle, tstart=t0.isoformat(), tend=t1.isoformat(), result=str(r))
        if r is None:
            if int(orb.get_orbit_number(t1, as_float=True)) != int(orb.get_orbit_number(t0, as_float=True)):
                ctx.violation("get_equatorial_crossing_time found no crossing although the orbit number increases over the interval",
                              {"signature": "C11:crossing-none:%d:%.0f" % (ti, s0), **info})
            continue
        nr = orb.get_orbit_number(r, as_float=True)
        if not (t0 <= r <= t1) or abs(nr - round(nr)) > 1e-6:
            ctx.violation("equator-crossing time is not where the continuous orbit number reaches an integer (1e-6)",
                          {"signature": "C11:crossing:%d:%.0f" % (ti, s0), **info, "orbit_number_there": repr(nr)})


def cache_checks(ctx, rng, tle, ti):
    """any order of first use of the lazily cached node time gives the same answers"""
    ep = make_orb(tle).tle.epoch
    qs = [ep + np.timedelta64(int(rng.uniform(-86400, 5 * 86400) * 1e6), "us") for _ in range(4)]
    ref = None
    far = [ep + np.timedelta64(int(h * 3600e6), "us") for h in (72.0, -20.0, rng.uniform(24, 120))]
    for oi, order in enumerate(([0, 1, 2, 3], [3, 2, 1, 0], [2, 0, 3, 1], [0, 1, 2, 3], [1, 3, 0, 2], [3, 0, 2, 1])):
        orb = make_orb(tle)
        if oi == 2:
            orb.get_equatorial_crossing_time(qs[0].astype(dt.datetime), qs[0].astype(dt.datetime) + dt.timedelta(hours=2))
        if oi >= 3:
            # the object's FIRST query is a last-node query far from the epoch (the node it finds must not become the
            # anchor of the orbit count), the orbit numbers are asked afterwards
            with common.time_limit(30):
                orb.get_last_an_time(far[oi - 3])
        ans = {}
        for i in order:
            with common.time_limit(30):
                ans[i] = orb.get_orbit_number(qs[i], as_float=True)
        got = ([ans[i] for i in range(4)], str(orb.orbit_elements.an_time), str(orb.orbit_elements.an_period))
        ctx.case(("cache", ti, tuple(order)))
        if ref is None:
            ref = got
        elif got != ref:
            ctx.violation("orbit numbers / cached node time depend on the order of first use",
                          {"signature": "C11:cache:%d" % ti, **pub(tle, order=order, got=got, reference=ref)})


def run(ctx):
    ctx.rule = ("last node: per (TLE, query time in [epoch-1d, epoch+5d]) x 7 representations (naive/UTC datetime, datetime64[m|s|ms|us|ns]): "
                "one instrumented run, one Coq replay of the recorded z samples, one 1 s-scan oracle; orbit numbers: per TLE (inclination "
                "3-177 deg, n-dot = n-ddot = 0, B* <= 1e-4) x times (random, just outside each exemption window, window ends); "
                "crossing times and cache orders per TLE; distinct = distinct (TLE, time, representation / kind)")
    ctx.assumptions += [
        "ORACLE HYPOTHESES of the theorems (premises, sampled here, not proved): z changes by at most 8 km/s (K <= 1 km per tick for "
        "ticks <= 1/8 s); some 10-minute grid point before the query has z > 0 with z < 0 ten minutes earlier; v_z > 0 and 'no other "
        "ascending node before the query' are facts about the SGP4 trajectory checked against the 1 s scan; scipy.optimize.bisect's "
        "contract (result in a sub-bracket of length <= tol with a sign change) is a Section hypothesis of C11_crossing_is_integer",
        "numpy semantics used by the model and asserted at run time: timedelta64/2 truncates toward zero; datetime64[u] - timedelta64(10,'m') "
        "stays in unit u for ms/us/ns; datetime64(datetime) has unit us",
        "'mean-motion-derivative fields consistent with drag' is realised as n-dot/2 = n-ddot/6 = 0 with B* <= 1e-4 (|dt| <= 5 d): the count "
        "oracle is not applied to TLEs with non-zero derivative fields; below zero (continuous number < 0) the count clause is not applied "
        "because int() truncation toward zero and 'rev + signed count' disagree there by the property's own wording",
        "binary64 evaluation of the cubic and of dt/period is sampled, not proved (C11_monotone is over the reals)",
    ]
    # the continuous orbit-number formula is regenerated from the source (symbolic execution of get_orbit_number)
    tr_on, defs_on = numeric.regen(ctx, "orbnum")
    if tr_on is not None:
        def _impl(name, env):
            from pyorbital.orbital import Orbital
            import types as _types
            o = Orbital.__new__(Orbital)
            o.tle = _types.SimpleNamespace(orbit=env["rev"], mean_motion_derivative=env["nd"], mean_motion_sec_derivative=env["ndd"])
            j2000 = np.datetime64("2000-01-01T12:00:00", "ns")
            an = j2000 + np.timedelta64(int(round(env["d_an"] * 86400e9)), "ns")
            o.orbit_elements = _types.SimpleNamespace(an_time=an, an_period=np.timedelta64(int(round(env["period"] * 86400e9)), "ns"))
            t = j2000 + np.timedelta64(int(round(env["d"] * 86400e9)), "ns")
            return float(o.get_orbit_number(t, tbus_style=(name == "gen_orbit_float_tbus"), as_float=True))

        def _env(rng):
            d_an = rng.randint(-3000, 9000) + rng.randint(0, 86399) / 86400.0
            return {"d_an": d_an, "d": d_an + rng.randint(-86400, 5 * 86400) / 86400.0, "period": rng.randint(5200, 13000) / 86400.0,
                    "rev": float(rng.randint(0, 99999)), "nd": rng.uniform(-1e-3, 1e-3), "ndd": rng.uniform(-1e-5, 1e-5)}
        numeric.selfcheck(ctx, tr_on, defs_on, ("gen_orbit_float", "gen_orbit_float_tbus"), _env, _impl, n=ctx.n(40, 400), rtol=1e-12, atol=1e-6)
    ctx.build_props("props/C11.v")
    rng = ctx.rng
    # numpy facts the model relies on
    facts = (np.timedelta64(3, "s") / 2 == np.timedelta64(1, "s") and np.timedelta64(-3, "s") / 2 == np.timedelta64(-1, "s")
             and (np.datetime64("2020-01-01T00:00:00.000", "ms") - np.timedelta64(10, "m")).dtype == np.dtype("datetime64[ms]")
             and (np.datetime64("2020-01-01T00:00:00", "ns") - np.timedelta64(10, "m")).dtype == np.dtype("datetime64[ns]")
             and np.datetime64(dt.datetime(2020, 1, 1)).dtype == np.dtype("datetime64[us]"))
    ctx.case(("numpy-facts",))
    if not facts:
        ctx.corr_fail("numpy timedelta64 division / unit facts assumed by M_NodeTime.v", {"numpy": np.__version__})

    # ---- last ascending node, all representations
    items, metas = [], []
    n_node = ctx.n(14, 150)
    hangs = 0
    for ti in range(n_node):
        tle = tlegen.NOAA18 if ti == 0 else gen_tle(rng, drag_free=(ti % 2 == 0))
        try:
            orb = make_orb(tle)
            ep = orb.tle.epoch.astype(dt.datetime)
        except Exception:
            continue
        period_s = 86400.0 / float(tle[1][52:63])
        t_query = ep + dt.timedelta(seconds=rng.uniform(-86400, 5 * 86400))
        t_query = t_query.replace(microsecond=rng.choice([0, rng.randrange(1000000)]))
        for name, q, unit in representations(t_query):
            if hangs >= 6:
                break                       # six inputs that never return are reported; do not wait for more
            res, err, calls = run_last_an(orb, q)
            hangs += err == "Timeout"
            ctx.case(("node", ti, name), pub(tle, representation=name, query=t_query.isoformat(), result=str(res), calls=len(calls)) if ti < 1 else None)
            if err is not None:
                ctx.violation("get_last_an_time did not return (%s)" % err,
                              {"signature": "C11:node:%s:%s" % (name, "hang" if err == "Timeout" else "raises"), **pub(tle, representation=name, query=t_query.isoformat())})
                continue
            node_oracle(ctx, orb, tle, name, t_query, res, period_s)
            wunit = np.datetime_data(calls[0][0].dtype)[0]
            if any(np.datetime_data(t.dtype)[0] != wunit for t, _, _ in calls):
                ctx.corr_fail("get_last_an_time evaluates get_position in one working unit", pub(tle, representation=name, units=[str(t.dtype) for t, _, _ in calls]))
                continue
            # shift = int(round(pos[2] / vel[2] * 1e6)) exactly as _refine_an_time computes it, from the recorded binary64 values
            tbl = [(int(t.astype("int64")), float(zv), (int(round(zv / vz * 1e6)) if vz != 0 else 0)) for t, zv, vz in calls]
            tick = int(q.astype("int64")) if isinstance(q, np.datetime64) else int(np.datetime64(t_query, "us").astype("int64"))
            items.append((unit, tbl, tick))
            metas.append((tle, name, t_query, int(res.astype("int64")), len(calls), "%s->%s" % (wunit, np.datetime_data(res.dtype)[0])))
    for lo in range(0, len(items), 150):
        flats, out = coq_replay(items[lo:lo + 150])
        if flats is None:
            ctx.corr_fail("M_NodeTime.replay evaluation in Coq", {"error": out[-600:]})
            continue
        for (tle, name, tq, rtick, ncalls, wunit), flat in zip(metas[lo:lo + 150], flats):
            ctx.case(("node-corr", tuple(tle), name))
            if flat != [0, rtick, ncalls]:
                ctx.corr_fail("M_NodeTime.get_last_an_time vs Orbital.get_last_an_time (returned tick, number of get_position calls)",
                              pub(tle, representation=name, query=tq.isoformat(), model=flat, impl=[0, rtick, ncalls], unit=wunit))

    # ---- orbit numbers, crossing times, cache
    floats = []
    for ti in range(ctx.n(5, 50)):
        tle = gen_tle(rng, drag_free=True)
        if ctx.quick:
            # quick tier: exactly one element set from the known eccentric / near-equatorial class, the others outside it
            if ti == 1:
                tle = gen_tle(rng, drag_free=True, inc=rng.choice([rng.uniform(3, 30), rng.uniform(150, 177)]), ecc=rng.randint(200000, 600000),
                              mm=rng.uniform(12.5, 14.5))
            elif float("0." + tle[1][26:33]) >= 0.02 and not 30.0 < float(tle[1][8:16]) < 150.0:
                tle = gen_tle(rng, drag_free=True, inc=rng.uniform(31, 149))
        if ti in (2, 3):
            special = node_epoch_tle(rng, descending=(ti == 2))
            if special is not None:
                tle = special
                ctx.extra.setdefault("epoch_on_node_sets", []).append({"line1": tle[0], "line2": tle[1], "descending": ti == 2})
        try:
            make_orb(tle)
        except Exception:
            continue
        if hangs >= 6:
            break
        try:
            orbit_number_checks(ctx, rng, tle, ti, floats)
            cache_checks(ctx, rng, tle, ti)
        except common.Timeout as e:
            hangs += 1
            ctx.violation("get_orbit_number / get_equatorial_crossing_time did not return (%s)" % e,
                          {"signature": "C11:orbit:%d:hang" % ti, **pub(tle)})
    # a rev-0 element set: negative continuous numbers, truncation toward zero
    tle0 = gen_tle(rng, drag_free=True, rev=0)
    orb0 = make_orb(tle0)
    try:
        for s in (() if hangs >= 6 else (-80000.0, -40000.0, -3000.0, -1.0, 4000.0)):
            t = orb0.tle.epoch + np.timedelta64(int(s * 1e6), "us")
            with common.time_limit(30):
                nf, ni = orb0.get_orbit_number(t, as_float=True), orb0.get_orbit_number(t)
            floats.append((nf, ni, pub(tle0, seconds_from_epoch=s, orbit=ni, as_float=repr(nf))))
            if ni != int(nf):
                ctx.violation("integer orbit number is not the truncated continuous value", {"signature": "C11:trunc:rev0:%.0f" % s, **floats[-1][2]})
    except common.Timeout as e:
        ctx.violation("get_orbit_number did not return (%s)" % e, {"signature": "C11:orbit:rev0:hang", **pub(tle0)})
    model, out = coq_trunc([f for f, _, _ in floats])
    if model is None or len(model) != len(floats):
        ctx.corr_fail("M_NodeTime.trunc_flat evaluation in Coq", {"error": out[-600:]})
    else:
        for (f, i, info), m in zip(floats, model):
            ctx.case(("trunc", repr(f)))
            if m != i:
                ctx.corr_fail("M_NodeTime.Qtrunc vs int(orbit) in Orbital.get_orbit_number", {**info, "model": m, "impl": i})
