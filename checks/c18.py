"""C18 — queries are pure: independent of call history, aliasing and concurrent use.

Tie: T-gen FACTS (translator/purity_facts.py -> gen/Gen_Purity.v, regenerated on every run; the premises of
the theorems in props/C18.v are boolean checks on that data) + T-corr:
  * static facts vs a dynamic __setattr__/__delattr__ log on Orbital, OrbitElements, _SGDP4, _SGDP4Base,
    _Keplerians, Tle during real queries; cell-access traces of get_orbit_number vs the traces of the Coq
    model (evaluated inside Coq) from the three reachable cache states;
  * oracle = the property text on the implementation: histories of <= 10 mixed queries vs fresh objects,
    BIT-identical; argument arrays, vars(tle), tlefile.SATELLITES and module constants hashed around every
    call; results handed out earlier must not change later (aliasing); a deterministic scheduler
    (threads + sys.settrace line events) forcing a preemption at source-line granularity.
"""
import datetime as dt
import os
import re
import struct
import sys
import threading
import traceback
from unittest import mock

import numpy as np

from harness import common, tlegen

sys.path.insert(0, os.path.join(common.VERIF, "translator"))

LEVEL = "proof"
PKG = os.path.join(common.REPO, "pyorbital")


# --------------------------------------------------------------------------------------------- canonical forms
def canon(x):
    """bit-exact canonical form of a result / argument"""
    if isinstance(x, np.ndarray):
        if x.dtype == object:
            return ("ndo", x.shape, tuple(canon(v) for v in x.ravel().tolist()))
        return ("nd", x.dtype.str, x.shape, np.ascontiguousarray(x).tobytes())
    if isinstance(x, np.generic):
        return ("ns", x.dtype.str, x.tobytes())
    if isinstance(x, bool) or x is None or isinstance(x, (int, str)):
        return ("py", type(x).__name__, repr(x))
    if isinstance(x, float):
        return ("float", struct.pack("<d", x))
    if isinstance(x, (dt.datetime, dt.timedelta, dt.date)):
        return ("dt", repr(x))
    if isinstance(x, (tuple, list)):
        return (type(x).__name__,) + tuple(canon(v) for v in x)
    if isinstance(x, dict):
        return ("dict",) + tuple((k, canon(v)) for k, v in sorted(x.items(), key=lambda kv: str(kv[0])))
    return ("obj", type(x).__name__, repr(x))


def show(c, limit=160):
    s = repr(c)
    return s if len(s) <= limit else s[:limit] + "..."


def tle_hash(o):
    return canon({k: v for k, v in vars(o.tle).items()})


def tables_hash():
    from pyorbital import astronomy, orbital, tlefile
    consts = {}
    for m in (orbital, astronomy):
        for k, v in vars(m).items():
            if k.isupper() and isinstance(v, (int, float)):
                consts[m.__name__ + "." + k] = v
    return canon({"SATELLITES": dict(tlefile.SATELLITES), "consts": consts})


# --------------------------------------------------------------------------------------------- calls
def build_time(d):
    if d[0] == "dt":
        return dt.datetime.fromisoformat(d[1])
    if d[0] == "dt64":
        return np.datetime64(d[2], d[1])
    return np.array(d[2], dtype="int64").astype("datetime64[%s]" % d[1])


def build_num(d):
    if d[0] == "f":
        return float(d[1])
    return np.array(d[1], dtype="float64")


def build_args(desc):
    q = desc["q"]
    if q == "position":
        return [build_time(desc["t"])], {"normalize": desc["normalize"]}
    if q in ("subpoint", "node", "local"):
        return [build_time(desc["t"])], {}
    if q == "look":
        return [build_time(desc["t"]), build_num(desc["lon"]), build_num(desc["lat"]), build_num(desc["alt"])], {}
    if q == "orbit":
        return [build_time(desc["t"])], {"tbus_style": desc["tbus"], "as_float": desc["as_float"]}
    if q == "passes":
        return [build_time(desc["t"]), desc["length"], desc["lon"], desc["lat"], desc["alt"]], {"horizon": desc["horizon"]}
    if q == "crossing":
        return [build_time(desc["t"]), build_time(desc["t2"])], {"node": desc["node"], "local_time": desc["local"]}
    raise ValueError(q)


METHOD = {"position": "get_position", "subpoint": "get_lonlatalt", "look": "get_observer_look",
          "orbit": "get_orbit_number", "node": "get_last_an_time", "passes": "get_next_passes",
          "local": "utc2local", "crossing": "get_equatorial_crossing_time"}


class TooManyTimeouts(Exception):
    pass


TIMEOUTS = []


HANGING = set()


def note_timeout(desc):
    """a query kind that did not return is not run again (each costs a full time limit)"""
    TIMEOUTS.append(desc)
    HANGING.add(desc["q"])
    if len(TIMEOUTS) >= 12:
        raise TooManyTimeouts("queries do not return: %r" % (TIMEOUTS[:3],))


def invoke(o, desc, args=None, kwargs=None, limit=20):
    """run one query; returns (canonical result, live result or None)"""
    if args is None:
        args, kwargs = build_args(desc)
    if desc["q"] in HANGING:
        return ("raise", "Timeout", ""), None      # skipped: this kind of query did not return before
    try:
        if threading.current_thread() is threading.main_thread():
            with common.time_limit(limit):
                r = getattr(o, METHOD[desc["q"]])(*args, **kwargs)
        else:
            r = getattr(o, METHOD[desc["q"]])(*args, **kwargs)
        return canon(r), r
    except common.Timeout:
        note_timeout(desc)
        return ("raise", "Timeout", ""), None
    except Exception as e:  # canonicalised: class and message
        return ("raise", type(e).__name__, str(e)[:200]), None


def epoch_us(tle_lines):
    from pyorbital.orbital import Orbital
    o = Orbital("X", line1=tle_lines[0], line2=tle_lines[1])
    return int(o.tle.epoch.astype("datetime64[us]").astype("int64"))


def gen_time(rng, ep_us, scalar_only=False, datetime_only=False):
    us = ep_us + int(rng.uniform(-1.5, 4.0) * 86400e6)
    kind = rng.choice(["dt", "dt", "dt64us", "dt64ns", "dt64ms", "dt64s", "arr", "arr"])
    if datetime_only or (scalar_only and kind == "arr"):
        kind = "dt"
    if kind == "dt":
        return ["dt", (dt.datetime(1970, 1, 1) + dt.timedelta(microseconds=us)).isoformat()]
    if kind == "arr":
        n = rng.choice([1, 2, 3, 7])
        return ["arr", rng.choice(["us", "ns", "ms"]) if False else "us", [us + int(rng.uniform(0, 6000) * 1e6) for _ in range(n)]]
    unit = kind[4:]
    mult = {"us": 1, "ns": 1000, "ms": 1e-3, "s": 1e-6}[unit]
    return ["dt64", unit, int(us * mult)]


def gen_call(rng, ep_us, kinds=None):
    q = rng.choice(kinds or ["position", "subpoint", "look", "orbit", "orbit", "node", "passes", "local", "crossing"])
    d = {"q": q}
    if q == "position":
        d.update(t=gen_time(rng, ep_us), normalize=rng.random() < 0.7)
    elif q == "subpoint":
        d.update(t=gen_time(rng, ep_us))
    elif q == "look":
        t = gen_time(rng, ep_us)
        n = len(t[2]) if t[0] == "arr" else None
        if n and rng.random() < 0.6:
            d.update(t=t, lon=["arr", [rng.uniform(-180, 180) for _ in range(n)]],
                     lat=["arr", [rng.uniform(-89, 89) for _ in range(n)]], alt=["arr", [rng.uniform(0, 3) for _ in range(n)]])
        else:
            d.update(t=t, lon=["f", rng.uniform(-180, 180)], lat=["f", rng.uniform(-89, 89)], alt=["f", rng.uniform(0, 3)])
    elif q == "orbit":
        d.update(t=gen_time(rng, ep_us, scalar_only=True), tbus=rng.random() < 0.3, as_float=rng.random() < 0.4)
    elif q == "node":
        d.update(t=gen_time(rng, ep_us, scalar_only=True))
    elif q == "passes":
        d.update(t=gen_time(rng, ep_us, datetime_only=True), length=rng.choice([1, 1, 2]), lon=rng.uniform(-180, 180),
                 lat=rng.uniform(-70, 70), alt=rng.uniform(0, 2), horizon=rng.choice([0, 0, 5]))
    elif q == "local":
        d.update(t=gen_time(rng, ep_us, datetime_only=True))
    elif q == "crossing":
        t = gen_time(rng, ep_us, datetime_only=True)
        t2 = (dt.datetime.fromisoformat(t[1]) + dt.timedelta(minutes=rng.choice([60, 105, 110, 200]))).isoformat()
        d.update(t=t, t2=["dt", t2], node=rng.choice(["ascending", "descending"]), local=rng.random() < 0.3)
    return d


def mk(tle):
    from pyorbital.orbital import Orbital
    return Orbital("X", line1=tle[0], line2=tle[1])


def warm_up(o):
    invoke(o, {"q": "orbit", "t": ["dt", "2015-01-01T00:00:00"], "tbus": False, "as_float": False})


class Fresh:
    """results on fresh objects, memoised per (tle, call)"""

    def __init__(self):
        self.memo = {}

    def get(self, tle, desc):
        k = (tle, repr(sorted(desc.items())))
        if k not in self.memo:
            self.memo[k] = invoke(mk(tle), desc)[0]
        return self.memo[k]


# --------------------------------------------------------------------------------------------- (1) facts
def regen_facts(ctx):
    try:
        import purity_facts
        out = os.path.join(common.COQ, "gen", "Gen_Purity.v")
        with common.time_limit(120):
            facts = purity_facts.generate(out, common.REPO)
    except Exception as e:
        ctx.proof_failures.append({"theorem": "(translator: Gen_Purity.v could not be regenerated from source)",
                                   "error": "%s: %s" % (type(e).__name__, e), "trace": traceback.format_exc()[-800:]})
        return None
    ctx.trusted.append("translator/purity_facts.py (conservative AST dataflow pass, fail-closed): Gen_Purity.v regenerated "
                       "from %s/pyorbital on this run; cross-checked below against a dynamic __setattr__ log" % common.REPO)
    ctx.extra["generated_facts"] = {k: facts[k] for k in ("shared_stores", "store_functions", "inplace_on_args",
                                                          "nondeterministic_calls", "unclassified", "hit_miss_same", "rounds")}
    # readable diagnosis in addition to the (failing) premise check inside Coq
    bad = []
    for q, c, dep, reads, lines in facts["shared_stores"]:
        if c not in ("orbit_elements.an_time", "orbit_elements.an_period"):
            bad.append("query %s may store to pre-existing %s (%s)" % (q, c, ", ".join(lines)))
        elif dep:
            bad.append("value cached in %s by %s may depend on a query argument (%s)" % (c, q, ", ".join(lines)))
    for q, w, lines in facts["inplace_on_args"]:
        bad.append("query %s: in-place operation on an argument: %s (%s)" % (q, w, ", ".join(lines)))
    for q, w, lines in facts["unclassified"]:
        bad.append("query %s: unclassifiable construct: %s (%s)" % (q, w, ", ".join(lines)))
    for q, w, lines in facts["nondeterministic_calls"]:
        bad.append("query %s: clock/random source %s (%s)" % (q, w, ", ".join(lines)))
    for q, same in facts["hit_miss_same"]:
        if not same:
            bad.append("query %s: cache-hit and cache-miss paths no longer end with the same statements" % q)
    if bad:
        ctx.proof_failures.append({"theorem": "(premise facts_ok gen_facts of C18_history / C18_interleaving / C18_args_untouched)",
                                   "error": "generated purity facts changed: " + "; ".join(bad[:6])})
    return facts


# --------------------------------------------------------------------------------------------- (2) dynamic cross-check
class AttrLog:
    """logs attribute stores/deletes on the package classes and loads of the two cache cells"""

    def __init__(self):
        from pyorbital import orbital, tlefile
        self.classes = [orbital.Orbital, orbital.OrbitElements, orbital._SGDP4, orbital._SGDP4Base,
                        orbital._Keplerians, tlefile.Tle]
        self.oe = orbital.OrbitElements
        self.log = []
        self.keep = []
        self.patches = []

    def __enter__(self):
        log, keep = self.log, self.keep

        def setter(obj, name, value):
            log.append(("W", id(obj), type(obj).__name__, name, canon(value)))
            keep.append(obj)
            object.__setattr__(obj, name, value)

        def deleter(obj, name):
            log.append(("D", id(obj), type(obj).__name__, name, None))
            object.__delattr__(obj, name)

        def getter(obj, name):
            if name in ("an_time", "an_period"):
                try:
                    v = object.__getattribute__(obj, name)
                except AttributeError:
                    log.append(("R", id(obj), "OrbitElements", name, False))
                    raise
                log.append(("R", id(obj), "OrbitElements", name, True))
                return v
            return object.__getattribute__(obj, name)

        for c in self.classes:
            self.patches.append(mock.patch.object(c, "__setattr__", setter, create=True))
            self.patches.append(mock.patch.object(c, "__delattr__", deleter, create=True))
        self.patches.append(mock.patch.object(self.oe, "__getattribute__", getter, create=True))
        for p in self.patches:
            p.start()
        return self

    def __exit__(self, *a):
        for p in self.patches:
            p.stop()
        return False


def coq_traces(ctx):
    text = ("From Coq Require Import List String Bool.\nImport ListNotations.\n"
            "From PyOrb.model Require Import M_Purity.\nFrom PyOrb.proofs Require Import P_Purity.\n"
            "Set Printing Depth 1000000.\nSet Printing Width 200.\n"
            "Definition st (a b : option nat) : state nat := {| st_time := a; st_period := b; st_touched := false |}.\n"            + "".join("Eval vm_compute in (trace nat nat (demo_prog gen_facts 1) (st %s)).\n" % x for x in
                      ("None None", "(Some 100) None", "(Some 100) (Some 7)", "None (Some 7)")) +
            "Eval vm_compute in (map (fun q => (touches gen_facts q, stores_elsewhere gen_facts q)) Gen_Purity.queries).\n")
    ok, out = common.coq_eval("c18", text, timeout=300)
    ctx.checker_cmds.append("coqc cases_c18.v (model traces from the reachable cache states, by vm_compute)")
    if not ok:
        return None, out
    parts = out.split(": list event")
    traces = []
    for part in parts[:-1]:
        cur = []
        for rc, rb, wc, tch in re.findall(r"ERead\s+(AnTime|AnPeriod)\s+(true|false)|EWrite\s+(AnTime|AnPeriod)|(ETouch)", part):
            if tch:
                cur.append(("T",))
            elif rc:
                cur.append(("R", "an_time" if rc == "AnTime" else "an_period", rb == "true"))
            else:
                cur.append(("W", "an_time" if wc == "AnTime" else "an_period"))
        traces.append(cur)
    flags = re.findall(r"\((true|false),\s*(true|false)\)", parts[-1])
    if len(traces) != 4 or len(flags) != 8:
        return None, out
    return (traces, [(a == "true", b == "true") for a, b in flags]), out


def cell_name(o, objid, cls, attr):
    owners = {id(o): "", id(o.orbit_elements): "orbit_elements.", id(o._sgdp4): "_sgdp4.",
              id(o._sgdp4._params): "_sgdp4._params.", id(o.tle): "tle."}
    if objid in owners:
        return owners[objid] + attr
    return None


def dynamic_crosscheck(ctx, facts, tles):
    static = {}
    for q, c, dep, reads, lines in facts["shared_stores"]:
        static.setdefault(q, set()).add(c)
    res, out = coq_traces(ctx)
    if res is None:
        ctx.corr_fail("M_Purity.trace evaluation in Coq", {"error": out[-500:]})
        return
    (tr_fresh, tr_time_only, tr_warm, tr_period_only), flags = res
    import purity_facts
    for q, (touch, elsewhere) in zip(purity_facts.QUERIES, flags):
        if touch != (q in static) or elsewhere:
            ctx.corr_fail("M_Purity.touches/stores_elsewhere on gen_facts vs generated data", {"query": q, "model": [touch, elsewhere]})
    cellvals = {}
    for ti, tle in enumerate(tles):
        ep = epoch_us(tle)
        for kind in ["position", "subpoint", "look", "orbit", "node", "passes", "local", "crossing"]:
            for rep in range(2):
                desc = gen_call(ctx.rng, ep, [kind])
                for state in ("fresh", "warm", "time_only"):
                    o = mk(tle)
                    if state != "fresh":
                        warm_up(o)
                    if state == "time_only" and hasattr(o.orbit_elements, "an_period"):
                        del o.orbit_elements.an_period
                    pre_kep = None
                    with AttrLog() as al:
                        r, _live = invoke(o, desc)
                    events = al.log
                    q = METHOD[kind]
                    key = ("dyn", ti, kind, rep, state)
                    stores = set()
                    for ev, objid, cls, attr, val in events:
                        if ev == "R":
                            continue
                        c = cell_name(o, objid, cls, attr)
                        if c is None:
                            continue       # an object created during the call (per-call scratch)
                        stores.add(c)
                        if ev == "W":
                            cellvals.setdefault((ti, c), {}).setdefault(val, (desc, state))
                    ctx.case(key, {"query": q, "state": state, "dynamic_stores": sorted(stores)} if rep == 0 and ti == 0 and state == "fresh" and kind in ("orbit", "position") else None)
                    extra = stores - static.get(q, set())
                    if extra:
                        ctx.corr_fail("static facts shared_stores vs dynamic __setattr__ log",
                                      {"query": q, "call": desc, "object_state": state, "stores_not_in_static_facts": sorted(extra),
                                       "tle": list(tle)})
                    # model trace vs implementation trace of the two cells
                    cells = [(e[0], e[3]) + ((e[4],) if e[0] == "R" else ()) for e in events
                             if e[2] == "OrbitElements" and e[3] in ("an_time", "an_period") and e[1] == id(o.orbit_elements)]
                    expect_first = {"fresh": tr_fresh, "warm": tr_warm, "time_only": tr_time_only}[state]
                    if kind == "orbit":
                        want = [expect_first]
                    elif q in static:          # a driver over get_orbit_number calls
                        n = 0
                        rest, want = list(cells), []
                        first = True
                        while rest and n < 500:
                            t = expect_first if first else tr_warm
                            want.append(t)
                            rest = rest[len(t):]
                            first = False
                            n += 1
                    else:
                        want = []
                    flat = [x for t in want for x in t]
                    if cells != flat and not (r[0] == "raise"):
                        ctx.corr_fail("M_Purity.trace (accessor / driver / store-free query) vs cell accesses of Orbital.%s" % q,
                                      {"call": desc, "object_state": state, "model": flat[:40], "impl": cells[:40], "tle": list(tle)})
                # per-call scratch objects must not be reused across calls
    for (ti, c), vals in cellvals.items():
        if len(vals) > 1:
            items = list(vals.items())[:2]
            ctx.corr_fail("static fact 'value cached in %s is argument-independent' vs values actually stored" % c,
                          {"tle": list(tles[ti]), "cell": c, "value_1": show(items[0][0]), "call_1": items[0][1][0],
                           "value_2": show(items[1][0]), "call_2": items[1][1][0]})
    # scratch reuse: a _Keplerians instance must serve exactly one propagate call
    o = mk(tles[0])
    ep = epoch_us(tles[0])
    with AttrLog() as al:
        for i in range(3):
            invoke(o, {"q": "position", "t": ["dt64", "us", ep + i * 1000000], "normalize": True})
    per_obj = {}
    for ev, objid, cls, attr, val in al.log:
        if cls == "_Keplerians" and attr == "_utc_time" and ev == "W" and val != canon(None):
            per_obj[objid] = per_obj.get(objid, 0) + 1
    ctx.case(("dyn", "scratch"), None)
    if len(per_obj) != 3 or any(v != 1 for v in per_obj.values()):
        ctx.corr_fail("model 'a new scratch object per propagate call' vs _Keplerians instances seen",
                      {"calls": 3, "instances_and_uses": sorted(per_obj.values())})


# --------------------------------------------------------------------------------------------- (3) histories
def history_oracle(ctx, tles, fresh, nseq):
    for si in range(nseq):
        tle = tles[si % len(tles)]
        ep = epoch_us(tle)
        n = ctx.rng.randint(2, 10)
        descs = [gen_call(ctx.rng, ep) for _ in range(n)]
        if si % 3 == 0:
            descs[ctx.rng.randrange(n)] = gen_call(ctx.rng, ep, ["orbit"])
        if si % 4 == 1:
            # the same instant asked for in two time units on one object (equal and hash-equal as datetime64
            # scalars, but different queries: the result's resolution follows the argument's)
            us = ep + int(ctx.rng.uniform(-1.0, 3.0) * 86400e6)
            pair = [{"q": "node", "t": ["dt64", "ns", us * 1000]}, {"q": "node", "t": ["dt64", "us", us]}]
            if ctx.rng.random() < 0.5:
                pair.reverse()
            descs = pair + descs[:8]
            if ctx.rng.random() < 0.5:
                descs.insert(2, {"q": "orbit", "t": ["dt64", "us", us + 3600 * 10**6], "tbus": False, "as_float": True})
        if si % 4 == 2:
            # a query repeated with exactly ONE scalar argument changed, right after the original, on the same object:
            # a result kept from the previous call under a key that leaves an argument out shows up here only
            cand = [k for k, d0 in enumerate(descs) if d0["q"] in ("passes", "look", "position", "orbit", "crossing")]
            if not cand:
                descs.append(gen_call(ctx.rng, ep, ["passes"]))
                cand = [len(descs) - 1]
            k = ctx.rng.choice(cand)
            d1 = dict(descs[k])
            if d1["q"] == "passes":
                f = ctx.rng.choice(["horizon", "horizon", "alt", "lon", "lat", "length"])
                d1[f] = {"horizon": d1["horizon"] + 10, "alt": d1["alt"] + 1.5, "lon": -d1["lon"], "lat": -d1["lat"],
                         "length": d1["length"] + 1}[f]
            elif d1["q"] == "look" and d1["lon"][0] == "f":
                f = ctx.rng.choice(["lon", "lat", "alt"])
                d1[f] = ["f", {"lon": -d1["lon"][1], "lat": -d1["lat"][1], "alt": d1["alt"][1] + 1.0}[f]]
            elif d1["q"] == "position":
                d1["normalize"] = not d1["normalize"]
            elif d1["q"] == "orbit":
                d1["tbus"] = not d1["tbus"]
            elif d1["q"] == "crossing":
                d1["node"] = "descending" if d1["node"] == "ascending" else "ascending"
            descs.insert(k + 1, d1)
        o = mk(tle)
        handed_out = []
        tle0, tab0 = tle_hash(o), tables_hash()
        for ci, desc in enumerate(descs):
            args, kwargs = build_args(desc)
            if desc["q"] == "look" and desc["lon"][0] == "arr" and ctx.rng.random() < 0.3:
                args[2] = args[1]            # aliased argument arrays (lon is lat)
                desc = dict(desc, lat=desc["lon"], aliased=True)
                descs[ci] = desc
            a0 = canon([args, kwargs])
            r, live = invoke(o, desc, args, kwargs)
            a1 = canon([args, kwargs])
            want = fresh.get(tle, {k: v for k, v in desc.items() if k != "aliased"})
            ctx.case(("hist", si, ci), {"sequence": si, "position": ci, "call": desc, "result": show(r, 100)} if si == 0 and ci < 2 else None)
            base = {"tle": list(tle), "sequence": descs[:ci + 1], "position": ci}
            if r != want:
                ctx.violation("query result on an object that served %d earlier queries differs from the fresh-object result" % ci,
                              dict(base, signature="C18:history:%s:after:%s" % (desc["q"], ",".join(d["q"] for d in descs[:ci])),
                                   on_used_object=show(r, 300), on_fresh_object=show(want, 300)))
            if a0 != a1:
                ctx.violation("query modified its argument", dict(base, signature="C18:args:%s" % desc["q"],
                                                                 before=show(a0, 300), after=show(a1, 300)))
            t1, b1 = tle_hash(o), tables_hash()
            if t1 != tle0:
                ctx.violation("query modified the Tle object", dict(base, signature="C18:tle:%s" % desc["q"],
                                                                    before=show(tle0, 300), after=show(t1, 300)))
                tle0 = t1
            if b1 != tab0:
                ctx.violation("query modified a module-level table/constant", dict(base, signature="C18:tables:%s" % desc["q"]))
                tab0 = b1
            if live is not None:
                handed_out.append((ci, desc, r, live))
            for cj, dj, rj, livej in handed_out:
                if canon(livej) != rj:
                    ctx.violation("a result handed out earlier was modified by a later query (aliases shared state)",
                                  dict(base, signature="C18:alias:%s:by:%s" % (dj["q"], desc["q"]), earlier_position=cj,
                                       earlier_result=show(rj, 300), now=show(canon(livej), 300)))
                    handed_out = [h for h in handed_out if h[0] != cj]


# --------------------------------------------------------------------------------------------- (4) scheduler
class Plan:
    """thread running `desc`; at its k-th pyorbital line event it starts `sub` and waits for it"""

    def __init__(self, desc, preempts=()):
        self.desc = desc
        self.preempts = dict(preempts)   # k -> Plan
        self.result = None
        self.lines = 0
        self.where = {}
        self.orb_lines = []
        self.args = None
        self.args_before = None

    def all(self):
        out = [self]
        for p in self.preempts.values():
            out += p.all()
        return out


def run_plan(o, plan, record_lines=False):
    def target():
        def local(frame, event, arg):
            if event == "line":
                plan.lines += 1
                k = plan.lines
                if record_lines and frame.f_code.co_qualname.startswith("Orbital."):
                    plan.orb_lines.append(k)
                sub = plan.preempts.get(k)
                if sub is not None:
                    plan.where[k] = "%s:%d" % (os.path.basename(frame.f_code.co_filename), frame.f_lineno)
                    run_plan(o, sub)
            return local

        def tracer(frame, event, arg):
            if frame.f_code.co_filename.startswith(PKG):
                return local
            return None

        plan.args = build_args(plan.desc)
        plan.args_before = canon(list(plan.args))
        sys.settrace(tracer)
        try:
            plan.result = invoke(o, plan.desc, *plan.args)[0]
        finally:
            sys.settrace(None)

    th = threading.Thread(target=target, daemon=True)
    th.start()
    th.join(30)
    if th.is_alive():
        plan.result = ("raise", "Timeout", "thread did not finish")
        if threading.current_thread() is threading.main_thread():
            note_timeout(plan.desc)


def count_lines(tle, desc):
    p = Plan(desc)
    run_plan(mk(tle), p, record_lines=True)
    return p.lines, p.orb_lines


def check_plan(ctx, tle, plan, fresh, tag, warm=False):
    o = mk(tle)
    if warm:
        warm_up(o)
    tle0, tab0 = tle_hash(o), tables_hash()
    run_plan(o, plan)
    threads = plan.all()
    sched = []

    def describe(p, depth=0):
        for k, s in sorted(p.preempts.items()):
            sched.append({"thread": s.desc, "runs_when_parent_reaches_line_event": k, "at": p.where.get(k, "not reached"), "depth": depth + 1})
            describe(s, depth + 1)
    describe(plan)
    base = {"tle": list(tle), "first_thread": plan.desc, "preemptions": sched, "object": "warm" if warm else "fresh"}
    for p in threads:
        if p.result is None:
            continue         # its preemption point was not reached
        want = fresh.get(tle, p.desc)
        if p.result != want:
            ctx.violation("result under a forced interleaving differs from the fresh-object result",
                          dict(base, signature="C18:interleave:%s:%s" % (tag, p.desc["q"]), thread=p.desc,
                               interleaved=show(p.result, 300), on_fresh_object=show(want, 300)))
        if p.args is not None and canon(list(p.args)) != p.args_before:
            ctx.violation("query modified its argument (under interleaving)", dict(base, signature="C18:args:%s" % p.desc["q"]))
    if tle_hash(o) != tle0 or tables_hash() != tab0:
        ctx.violation("Tle object or module table modified (under interleaving)", dict(base, signature="C18:tle-tables:%s" % tag))


def scheduler_oracle(ctx, tles, fresh):
    rng = ctx.rng
    tle = tles[0]
    ep = epoch_us(tle)

    def T(h):
        return ["dt", (dt.datetime(1970, 1, 1) + dt.timedelta(microseconds=ep + int(h * 3600e6))).isoformat()]
    orbit1 = {"q": "orbit", "t": T(5.3), "tbus": False, "as_float": True}
    orbit2 = {"q": "orbit", "t": T(31.7), "tbus": True, "as_float": False}
    orbit3 = {"q": "orbit", "t": ["dt64", "us", ep - 7200 * 1000000], "tbus": False, "as_float": True}
    pos1 = {"q": "position", "t": T(2.1), "normalize": True}
    pos2 = {"q": "position", "t": ["arr", "us", [ep + 60000000 * i for i in range(4)]], "normalize": False}
    sub1 = {"q": "subpoint", "t": ["arr", "us", [ep + 90000000 * i for i in range(3)]]}
    look1 = {"q": "look", "t": T(7.9), "lon": ["f", 12.5], "lat": ["f", 55.9], "alt": ["f", 0.02]}
    node1 = {"q": "node", "t": T(3.3)}
    cross1 = {"q": "crossing", "t": T(1.0), "t2": T(1.0 + 110 / 60.0), "node": "ascending", "local": True}
    pass1 = {"q": "passes", "t": T(0.5), "length": 1, "lon": 12.5, "lat": 55.9, "alt": 0.02, "horizon": 0}
    local1 = {"q": "local", "t": T(4.4)}
    pairs = [("orbit-orbit", orbit1, orbit2, 1), ("orbit-position", orbit1, pos1, 7), ("position-orbit", pos1, orbit2, 1),
             ("subpoint-look", sub1, look1, 1), ("look-position", look1, pos2, 1), ("node-orbit", node1, orbit2, 5),
             ("crossing-orbit", cross1, orbit2, 3), ("orbit-crossing", orbit2, cross1, 11), ("local-orbit", local1, orbit1, 1),
             ("passes-orbit", pass1, orbit1, 23)]
    for tag, a, b, stride in pairs:
        n, orb = count_lines(tle, a)
        if ctx.quick:
            ks = set(orb if len(orb) <= 400 else orb[::3]) | set(range(1, n + 1, max(1, stride * 4)))
        else:
            ks = set(orb) | set(range(1, n + 1, stride if n > 3000 else 1))
        for k in sorted(ks):
            plan = Plan(a, {k: Plan(b)})
            check_plan(ctx, tle, plan, fresh, tag)
            ctx.case(("sched1", tag, k), {"pair": tag, "preempt_at_line_event": k, "of": n, "at": plan.where.get(k)} if k == sorted(ks)[len(ks) // 2] and tag == "orbit-orbit" else None)
    # the cache race on other TLEs (all Orbital-level lines of the miss path)
    for tle2 in tles[1:]:
        ep2 = epoch_us(tle2)
        a = {"q": "orbit", "t": ["dt64", "us", ep2 + 3600 * 1000000], "tbus": False, "as_float": True}
        b = {"q": "orbit", "t": ["dt64", "us", ep2 + 86400 * 1000000], "tbus": False, "as_float": False}
        n, orb = count_lines(tle2, a)
        for k in orb[::2] if ctx.quick else orb:
            check_plan(ctx, tle2, Plan(a, {k: Plan(b)}), fresh, "orbit-orbit")
            ctx.case(("sched1", tle2[1][2:7], k))
    # double preemptions (sampled): three threads, nested and sequential
    n1, orb1 = count_lines(tle, orbit1)
    n2, orb2 = count_lines(tle, orbit2)
    for i in range(ctx.n(150, 1500)):
        k1 = rng.choice(orb1) if rng.random() < 0.7 else rng.randint(1, n1)
        shape = rng.choice(["nested", "sequential"])
        third = rng.choice([orbit3, pos1, cross1, node1])
        if shape == "nested":
            k2 = rng.choice(orb2) if rng.random() < 0.7 else rng.randint(1, n2)
            plan = Plan(orbit1, {k1: Plan(orbit2, {k2: Plan(third)})})
        else:
            k2 = rng.choice([k for k in orb1 if k != k1])
            plan = Plan(orbit1, {k1: Plan(orbit2), k2: Plan(third)})
        check_plan(ctx, tle, plan, fresh, "three-threads-" + shape, warm=False)
        ctx.case(("sched2", shape, k1, k2, third["q"]), {"three_threads": shape, "k1": k1, "k2": k2, "third": third["q"]} if i == 0 else None)


def run(ctx):
    ctx.rule = ("histories: random sequences of 2..10 mixed queries (position, sub-point, look angles, orbit number, node time, "
                "passes of 1-2 h, utc2local, equatorial crossing; scalar/array/datetime64 time kinds; aliased lon/lat arrays) on one "
                "object vs fresh objects, compared bit for bit, distinct = (sequence, position); schedules: for 10 query pairs "
                "a preemption forced at source-line events of the first thread (every line executed in an Orbital method + a "
                "stride of the deeper lines in quick, every line in thorough) with the second thread run to completion there, "
                "plus sampled three-thread double preemptions; distinct = (pair, line-event index); dynamic cross-check: "
                "8 query kinds x 2 argument draws x 3 cache states x TLEs")
    ctx.assumptions += [
        "GIL-level atomicity of attribute loads/stores (one model step = one LOAD_ATTR/STORE_ATTR); preemption is forced only at "
        "source-line boundaries of pyorbital code, not inside a line or inside numpy/scipy C code",
        "numpy, scipy.optimize, datetime, functools, warnings, logging functions are pure w.r.t. the orbit object, its Tle, the "
        "argument arrays and module tables (except the listed mutators and out=, which the pass reports)",
        "Python semantics of the AST pass: code performing no store to a pre-existing object and no in-place operation on one "
        "computes a function of the values it reads; implicit flows through exceptions are not tracked (entering the "
        "AttributeError handler is modelled as a nondeterministic choice, which the invariant tolerates)",
        "bit-identity of results is validated on sampled histories and schedules, not proved (the theorems are about the model)",
    ]
    facts = regen_facts(ctx)
    ctx.build_props("props/C18.v")
    tles = [tlegen.NOAA18, tlegen.ISS] + [tlegen.random_tle(ctx.rng) for _ in range(ctx.n(1, 4))]
    usable = []
    for tle in tles:
        try:
            with common.time_limit(20):
                o = mk(tle)
                o.get_orbit_number(dt.datetime(2015, 1, 1))
            usable.append(tle)
        except common.Timeout:
            usable.append(tle)
        except Exception:
            pass
    tles = usable
    fresh = Fresh()
    del TIMEOUTS[:]
    HANGING.clear()
    phases = [lambda: history_oracle(ctx, tles, fresh, ctx.n(60, 600)), lambda: scheduler_oracle(ctx, tles, fresh)]
    if facts is not None:
        phases.insert(0, lambda: dynamic_crosscheck(ctx, facts, tles[:ctx.n(2, 4)]))
    for phase in phases:
        try:
            phase()
        except TooManyTimeouts:
            break
        except Exception as e:      # a phase that cannot complete is a broken tie; the other phases still run
            ctx.proof_failures.append({"theorem": "(check machinery)", "error": "%s: %s" % (type(e).__name__, e),
                                       "trace": traceback.format_exc()[-1200:]})
    if TIMEOUTS:
        ctx.corr_fail("M_Purity: every query is a finite program (terminates) vs Orbital queries that do not return",
                      {"tle": list(tles[0]), "calls_without_result_after_20s": TIMEOUTS[:3]})
