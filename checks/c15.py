"""C15 — the TLE database keeps every distinct epoch once and always exports the newest.
Tie: T-corr (hand-written M_Db.v; random + corpus histories over {update, crash(point), export, reopen}
run on tlefile.SQLiteTLE — crashes injected through a proxy around the public attribute `db.db` — and,
inside Coq, on the model; the driver fetch_tles.run as a special history)."""
import datetime as dt
import logging
import os
import re
import shutil
import sqlite3
import sys
import tempfile
from unittest import mock

from harness import common, tlegen, numeric

LEVEL = "proof"

SATS = [25544, 28654, 33591, 43013, 5, 99999, 40069]
NAMES = {25544: "ISS (ZARYA)", 28654: "NOAA 18", 33591: "NOAA 19", 43013: "NOAA 20", 5: "VANGUARD 1",
         99999: "TEST SAT", 40069: "METEOR-M 2"}
SOURCES = ["celestrak", "file", "spacetrack", "eumetsat"]
# day-of-year values: multiples of 0.0003125 d (27 s) are whole-second epochs
DAYS = [264.5, 264.50031250, 264.50062500, 264.51782528, 264.50000001, 100.0, 100.25, 99.99999999, 264.49999999, 365.99968750]
CPS = ["BeforeCreate", "AfterCreate", "AfterName", "InRow"]


class Crash(Exception):
    """the injected process death"""


def stmt_kind(sql):
    s = sql.lstrip().upper()
    if s.startswith("SELECT"):
        return "select"
    if s.startswith("CREATE TABLE"):
        return "create"
    if s.startswith("INSERT") and "PLATFORM_NAMES" in s:
        return "name"
    if s.startswith("INSERT"):
        return "row"
    return "other"


class Proxy:
    """stands in for SQLiteTLE.db; raises Crash at the chosen statement boundary"""

    def __init__(self, real, cp):
        self.real, self.cp, self.log = real, cp, []

    def execute(self, sql, *a):
        k = stmt_kind(sql)
        self.log.append(k)
        if k != "select":
            if self.cp == "BeforeCreate" or (self.cp == "AfterCreate" and k != "create") or \
               (self.cp == "AfterName" and k not in ("create", "name")):
                raise Crash(sql)
        r = self.real.execute(sql, *a)
        if self.cp == "InRow" and k == "row":
            raise Crash(sql)            # inside `with self.db:` before the commit -> rolled back
        return r

    def __enter__(self):
        return self.real.__enter__()

    def __exit__(self, *a):
        return self.real.__exit__(*a)

    def close(self):
        return self.real.close()

    def __getattr__(self, name):
        return getattr(self.real, name)


class World:
    """TLE objects and the id tables shared by model and implementation"""

    def __init__(self):
        self.tles = []                # (Tle, text, satnum, epoch datetime)
        self.text_id = {}
        self.by_key = {}

    def tle(self, sat, yy, day, variant):
        from pyorbital import tlefile
        key = (sat, yy, day, variant)
        if key not in self.by_key:
            l1, l2 = tlegen.make(satnum=sat, yy=yy, day=day, elnum=100 + variant, rev=1000 + 7 * variant)
            t = tlefile.Tle("", line1=l1, line2=l2)
            text = l1 + "\n" + l2
            self.text_id.setdefault(text, len(self.text_id) + 1)
            self.tles.append((t, text, int(t.satnumber), t.epoch.item()))
            self.by_key[key] = len(self.tles) - 1
        return self.by_key[key]


def coq_epoch(e):
    return "(E %d %d %d %d %d %d %d)" % (e.year, e.month, e.day, e.hour, e.minute, e.second, e.microsecond)


def coq_op(world, op):
    if op[0] in ("U", "C"):
        _, text, sat, e = world.tles[op[1]]
        t = "(mkTle %d %s %d)" % (sat, coq_epoch(e), world.text_id[text])
        if op[0] == "U":
            return "Update %s %d" % (t, op[2])
        return "Crash %s %s %d" % (op[3], t, op[2])
    if op[0] == "E":
        return "Export %s %s" % ("true" if op[1] else "false", "true" if op[2] else "false")
    return "Reopen"


# ---- minimal reader for the terms Coq prints ----
TOK = re.compile(r'\s*(?:("(?:[^"]|"")*")(?:%string)?|(-?\d+)(?:%[A-Za-z]+)?|(true|false|None|Some)\b|([\[\]();,]))')


def parse_term(s):
    toks = []
    pos = 0
    s = s.strip()
    while pos < len(s):
        m = TOK.match(s, pos)
        if not m:
            raise ValueError("cannot tokenise Coq output at %r" % s[pos:pos + 40])
        pos = m.end()
        if m.group(1) is not None:
            toks.append(("s", m.group(1)[1:-1].replace('""', '"')))
        elif m.group(2) is not None:
            toks.append(("i", int(m.group(2))))
        elif m.group(3) is not None:
            toks.append(("k", m.group(3)))
        else:
            toks.append(("p", m.group(4)))
    i = [0]

    def atom():
        k, v = toks[i[0]]
        i[0] += 1
        if k in "si":
            return v
        if k == "k":
            if v == "true":
                return True
            if v == "false":
                return False
            if v == "None":
                return None
            return ("Some", atom())
        if v == "[":
            out = []
            if toks[i[0]] == ("p", "]"):
                i[0] += 1
                return out
            while True:
                out.append(atom())
                k2, v2 = toks[i[0]]
                i[0] += 1
                if v2 == "]":
                    return out
                assert v2 == ";", v2
        if v == "(":
            out = [atom()]
            while True:
                k2, v2 = toks[i[0]]
                i[0] += 1
                if v2 == ")":
                    return tuple(out) if len(out) > 1 else out[0]
                assert v2 == ",", v2
                out.append(atom())
        raise ValueError("unexpected token %r" % (v,))
    r = atom()
    return r


HEADER = ("From Coq Require Import List ZArith NArith String.\nImport ListNotations.\nFrom PyOrb.model Require Import M_Db.\n"
          "Open Scope Z_scope.\nSet Printing Depth 1000000.\nSet Printing Width 250.\n")


def coq_play(world, hists):
    items = []
    for cfg, ops in hists:
        items.append("play [%s] [%s]" % ("; ".join("(%d, %d)" % (s, n) for s, n in cfg), "; ".join(coq_op(world, o) for o in ops)))
    text = HEADER + "Eval vm_compute in [\n%s\n]." % ";\n".join(items)
    ok, out = common.coq_eval("c15", text, timeout=900)
    if not ok or "=" not in out:
        return None, out
    body = out[out.index("=") + 1:]
    body = body[:body.rindex(": list")]
    try:
        res = parse_term(body)
    except Exception as e:
        return None, "parse error %s: %s" % (e, out[-300:])
    if len(res) != len(hists):
        return None, out[-400:]
    return res, out


# ---- implementation runner + independent oracle ----
def read_db(path):
    con = sqlite3.connect(path)
    try:
        tabs = [r[0] for r in con.execute("SELECT name FROM sqlite_master WHERE type='table'").fetchall()]
        out = {}
        for t in tabs:
            if t == "platform_names":
                continue
            out[t] = sorted(con.execute("SELECT epoch, tle, source FROM '%s'" % t).fetchall())
        names = sorted(con.execute("SELECT satid, platform_name FROM platform_names").fetchall()) if "platform_names" in tabs else []
        return out, names
    finally:
        con.close()


def hist_sig(cfg, ops):
    return "cfg=%s|%s" % (",".join(str(s) for s, _ in cfg), ";".join(
        "%s%s" % (o[0], ".".join(str(x) for x in o[1:])) for o in ops))


def run_impl(ctx, world, cfg, ops, tmpdir, name_of, check_oracle=True):
    """-> (snapshots, final dump, oracle problems)"""
    from pyorbital import tlefile
    path = os.path.join(tmpdir, "tle.db")
    outdir = os.path.join(tmpdir, "out", "sub")
    for p in (path, path + "-journal"):
        if os.path.exists(p):
            os.remove(p)
    shutil.rmtree(os.path.join(tmpdir, "out"), ignore_errors=True)
    outfile = os.path.join(outdir, "tle.txt")
    platforms = {s: name_of[n] for s, n in cfg}
    wc = {"output_dir": outdir, "filename_pattern": "tle.txt"}
    db = tlefile.SQLiteTLE(path, platforms, wc)
    seen, added = {}, False            # the oracle's own book-keeping
    snaps, problems = [], []

    def complain(what, **kw):
        problems.append((what, kw))

    for idx, op in enumerate(ops):
        raised, exported = False, None
        if op[0] == "U":
            t, text, sat, e = world.tles[op[1]]
            src = SOURCES[op[2]]
            try:
                with common.time_limit(20):
                    db.update_db(t, src)
            except common.Timeout:
                raise
            except Exception as ex:
                raised = type(ex).__name__
                complain("update_db raised %s" % raised, op=idx)
            if sat in platforms and (sat, e) not in seen:
                seen[(sat, e)] = (text, src)
                added = True
        elif op[0] == "C":
            t, text, sat, e = world.tles[op[1]]
            src = SOURCES[op[2]]
            real = db.db
            db.db = Proxy(real, op[3])
            try:
                with common.time_limit(20):
                    db.update_db(t, src)
            except Crash:
                pass
            except common.Timeout:
                raise
            except Exception as ex:
                raised = type(ex).__name__
            real.close()               # the process is gone: no commit, no close() of the object
            db = tlefile.SQLiteTLE(path, platforms, wc)
            added = False
            # atomicity: the interrupted update is either fully there or not at all
            now, _ = read_db(path)
            rows = {k: (tx, s) for k, tx, s in now.get(str(sat), [])}
            k = [kk for kk in rows if dt.datetime.fromisoformat(kk) == e]
            if k and (sat, e) not in seen:
                seen[(sat, e)] = (text, src)
        elif op[0] == "E":
            wc["write_name"], wc["write_always"] = op[1], op[2]
            if os.path.exists(outfile):
                os.remove(outfile)
            try:
                with common.time_limit(20):
                    db.write_tle_txt()
                if os.path.exists(outfile):
                    with open(outfile, newline="") as f:
                        exported = f.read()
            except common.Timeout:
                raise
            except Exception as ex:
                raised = type(ex).__name__
                exported = "raised " + raised
            # ---- oracle: newest entry per configured platform with data, in configuration order
            if not added and not op[2]:
                want = None
            else:
                data = []
                for sat, nm in platforms.items():
                    ents = [(e, v[0]) for (s, e), v in seen.items() if s == sat]
                    if not ents:
                        continue
                    if op[1]:
                        data.append(nm)
                    data.append(max(ents, key=lambda x: x[0])[1])
                want = "\n".join(data)
            if exported != want:
                complain("export differs from 'newest entry of every platform that has data'", op=idx, got=exported, want=want)
        else:
            db.close()
            db = tlefile.SQLiteTLE(path, platforms, wc)
            added = False
        tables, names = read_db(path)
        # ---- oracle: rows == first-seen entries, nothing for unconfigured satellites, flag
        want_rows = {}
        for (s, e), v in seen.items():
            want_rows.setdefault(str(s), {})[e] = v
        got_rows = {}
        bad_key = None
        for tname, rows in tables.items():
            for k, tx, s in rows:
                try:
                    e = dt.datetime.fromisoformat(k)
                except Exception:
                    bad_key = k
                    continue
                if e in got_rows.setdefault(tname, {}):
                    complain("two rows for one epoch", op=idx, table=tname, epoch=k)
                got_rows[tname][e] = (tx, s)
        got_nonempty = {t: r for t, r in got_rows.items() if r}
        if bad_key is not None:
            complain("row key is not an ISO time", op=idx, key=bad_key)
        if got_nonempty != want_rows:
            complain("rows differ from one row per distinct (configured satellite, epoch) with first-seen text/source", op=idx,
                     got={t: {str(e): v for e, v in r.items()} for t, r in got_nonempty.items()},
                     want={t: {str(e): v for e, v in r.items()} for t, r in want_rows.items()})
        extra = [t for t in tables if int(t) not in platforms]
        if extra:
            complain("table for an unconfigured satellite", op=idx, tables=extra)
        if bool(db.updated) != added:
            complain("updated flag %r but a row was%s added since open" % (db.updated, "" if added else " not"), op=idx)
        snaps.append((bool(db.updated), bool(raised) and op[0] == "U", sum(len(r) for r in tables.values()), exported))
    final_tables, final_names = read_db(path)
    db.close()
    return snaps, (final_tables, final_names), problems


def model_view(world, cfg, mres, name_of):
    """decode the model's play result into the implementation's observables"""
    id_text = {v: k for k, v in world.text_id.items()}
    snaps_m, (tabs_m, names_m) = mres
    snaps = []
    for upd, raised, n, out in snaps_m:
        if out is None:
            exported = None
        else:
            exported = "\n".join(name_of[-1 - x] if x < 0 else id_text[x] for x in out[1])
        snaps.append((upd, raised, n, exported))
    tables = {str(s): sorted((k, id_text[v[0]], SOURCES[v[1]]) for k, v in rows) for s, rows in tabs_m}
    names = sorted((str(s), name_of[n]) for s, n in names_m)
    return snaps, (tables, names)


# ---- history generators ----
def gen_cfg(rng):
    k = rng.choice([1, 2, 2, 3, 3, 4])
    sats = rng.sample(SATS, k)
    return [(s, i) for i, s in enumerate(sats)]


def gen_update(world, rng, cfg):
    conf = [s for s, _ in cfg]
    sat = rng.choice(conf) if rng.random() < 0.8 else rng.choice([s for s in SATS if s not in conf] or conf)
    day = rng.choice(DAYS[:5]) if rng.random() < 0.7 else rng.choice(DAYS)
    yy = rng.choice([8, 8, 8, 99, 24])
    return world.tle(sat, yy, day, rng.choice([0, 0, 1])), rng.randrange(len(SOURCES))


def gen_history(world, rng, maxlen=12):
    cfg = gen_cfg(rng)
    ops = []
    for _ in range(rng.randint(1, maxlen)):
        r = rng.random()
        if r < 0.55:
            t, s = gen_update(world, rng, cfg)
            ops.append(("U", t, s))
        elif r < 0.7:
            t, s = gen_update(world, rng, cfg)
            ops.append(("C", t, s, rng.choice(CPS)))
        elif r < 0.9:
            ops.append(("E", rng.random() < 0.5, rng.random() < 0.4))
        else:
            ops.append(("R",))
    return cfg, ops


def corpus(world):
    w = world.tle
    iss, n18, n19 = 25544, 28654, 33591
    c2 = [(iss, 0), (n18, 1)]
    H = []
    # whole-second newest epoch (F5a), platform without data (F5b)
    H.append((c2, [("U", w(iss, 8, 264.5, 0), 0), ("E", True, False)]))
    H.append((c2, [("U", w(iss, 8, 264.49999999, 0), 0), ("U", w(iss, 8, 264.5, 0), 1), ("U", w(iss, 8, 264.50000001, 0), 1), ("E", False, False)]))
    H.append((c2, [("U", w(iss, 8, 264.50000001, 0), 0), ("U", w(iss, 8, 264.5, 0), 1), ("E", True, False), ("U", w(n18, 8, 100.0, 0), 2), ("E", True, False)]))
    # same epoch, different text, different source: first wins; flag not set by the duplicate
    H.append((c2, [("U", w(iss, 8, 264.5, 0), 0), ("R",), ("U", w(iss, 8, 264.5, 1), 1), ("E", True, False), ("E", True, True)]))
    # unconfigured satellite only
    H.append((c2, [("U", w(n19, 8, 264.5, 0), 0), ("E", True, True), ("E", False, False)]))
    # crash after CREATE TABLE, other platform exported (fixed by c174073), name row never written
    for cp in CPS:
        H.append((c2, [("C", w(iss, 8, 264.5, 0), 0, cp), ("U", w(n18, 8, 100.25, 0), 1), ("E", True, False), ("U", w(iss, 8, 264.5, 0), 2),
                       ("E", True, False), ("R",), ("E", False, True)]))
        H.append((c2, [("U", w(iss, 8, 264.5, 0), 0), ("C", w(iss, 8, 264.50031250, 0), 0, cp), ("E", True, True), ("U", w(iss, 8, 264.50031250, 1), 3), ("E", False, False)]))
    # insertion order newest-first / oldest-first over a year boundary and 1999 < 2008 < 2024
    H.append(([(iss, 0)], [("U", w(iss, 24, 100.0, 0), 0), ("U", w(iss, 99, 365.99968750, 0), 0), ("U", w(iss, 8, 264.5, 0), 0), ("E", False, False)]))
    H.append(([(iss, 0)], [("U", w(iss, 99, 365.99968750, 0), 0), ("U", w(iss, 8, 264.5, 0), 0), ("U", w(iss, 24, 100.0, 0), 0), ("E", False, False)]))
    # satellite number with leading zeros
    H.append(([(5, 0), (iss, 1)], [("U", w(5, 8, 100.0, 0), 0), ("U", w(5, 8, 100.25, 0), 0), ("E", True, False)]))
    return H


def exhaustive(world, maxlen=4):
    """every history of length <= maxlen over an 8-letter alphabet, two configured platforms"""
    import itertools
    a, b, x = 25544, 28654, 33591
    cfg = [(a, 0), (b, 1)]
    w = world.tle
    alpha = [("U", w(a, 8, 264.5, 0), 0), ("U", w(a, 8, 264.5, 1), 1), ("U", w(a, 8, 264.49999999, 0), 0), ("U", w(b, 8, 264.5, 0), 2),
             ("U", w(x, 8, 264.5, 0), 0), ("E", True, False), ("R",), ("C", w(b, 8, 264.5, 0), 2, "AfterCreate")]
    out = []
    for n in range(1, maxlen + 1):
        for ops in itertools.product(alpha, repeat=n):
            out.append((cfg, list(ops)))
    return out


def crash_variants(hist):
    """every statement boundary of every update of a history"""
    cfg, ops = hist
    out = []
    for i, o in enumerate(ops):
        if o[0] == "U":
            for cp in CPS:
                out.append((cfg, ops[:i] + [("C", o[1], o[2], cp)] + ops[i:]))      # crash, then the update is retried
                out.append((cfg, ops[:i] + [("C", o[1], o[2], cp)] + ops[i + 1:]))  # crash, update lost
    return out


def driver_runs(ctx, world, tmpdir):
    """fetch_tles.run(): read files, update_db for every TLE, write_tle_txt, close — three runs on one file"""
    import yaml
    from pyorbital import fetch_tles
    rng = ctx.rng
    cfg = [(25544, 0), (28654, 1), (5, 2)]
    name_of = [NAMES[s] for s, _ in cfg]
    path = os.path.join(tmpdir, "drv.db")
    for p in (path,):
        if os.path.exists(p):
            os.remove(p)
    outdir = os.path.join(tmpdir, "drvout")
    shutil.rmtree(outdir, ignore_errors=True)
    ops, impl_out = [], []
    for k in range(3):
        wn, wa = rng.random() < 0.5, rng.random() < 0.5
        idxs = [gen_update(world, rng, cfg)[0] for _ in range(rng.randint(0, 4))]
        fn = os.path.join(tmpdir, "in%d.tle" % k)
        with open(fn, "w") as f:
            for i in idxs:
                f.write(world.tles[i][1] + "\n")
        conf = {"platforms": {s: name_of[n] for s, n in cfg}, "database": {"path": path},
                "text_writer": {"output_dir": outdir, "filename_pattern": "t.txt", "write_name": wn, "write_always": wa},
                "downloaders": {"read_tle_files": {"paths": [fn]}}, "logging": {"version": 1, "disable_existing_loggers": False}}
        cf = os.path.join(tmpdir, "conf%d.yaml" % k)
        with open(cf, "w") as f:
            yaml.safe_dump(conf, f, sort_keys=False)
        out = os.path.join(outdir, "t.txt")
        if os.path.exists(out):
            os.remove(out)
        with mock.patch.object(sys, "argv", ["fetch_tles", cf]):
            with common.time_limit(30):
                fetch_tles.run()
        impl_out.append(open(out, newline="").read() if os.path.exists(out) else None)
        ops += [("U", i, 1) for i in idxs] + [("E", wn, wa), ("R",)]      # source "file" = SOURCES[1]
    tables, names = read_db(path)
    return cfg, ops, impl_out, (tables, names), name_of


def run(ctx):
    ctx.rule = ("histories of <= 12 operations (corpus histories are the listed ones) over {update(tle, source), crash(point, tle, source), "
                "export(write_name, write_always), close+reopen}, 1-4 configured platforms out of 7 satellites, epochs incl. whole-second, "
                "1 us apart, duplicates with other text/source, unconfigured satellites; crash points BeforeCreate/AfterCreate/AfterName/InRow "
                "for every update of the corpus and of a sample of random histories; thorough: every history of length <= 4 over an 8-letter "
                "alphabet; fetch_tles.run x3 on one file; distinct = distinct history")
    ctx.assumptions += [
        "hand-written model M_Db.v tied to tlefile.SQLiteTLE by this run (model evaluated by vm_compute inside Coq, compared after EVERY "
        "operation on updated flag / escaped exception / row count / exported file and at the end on all rows and platform_names)",
        "sqlite3 is an oracle: a table is a finite map keyed by its primary key; INSERT on an existing key raises IntegrityError and changes "
        "nothing; a transaction that does not commit leaves no trace (InRow crash); CREATE TABLE is durable once executed; ISO strings are "
        "stored as TEXT and ordered bytewise (column type `date` = NUMERIC affinity, an ISO string is not a number)",
        "a crash is an exception raised by a proxy around the public attribute SQLiteTLE.db at a statement boundary, after which the "
        "connection is closed without commit and the file reopened; crashes inside sqlite's own commit are not simulated",
        "the epoch handed to the model is tle.epoch.item() of the parsed Tle (epoch parsing itself is not part of C15); the column "
        "insertion_time (wall clock) is not modelled; temporal order of datetime values = lexicographic order of their civil fields",
        "platform_names is not constrained by the property text: after a crash between CREATE TABLE and its INSERT the row is never "
        "written (theorem C15_names_gap); no violation is raised for that",
    ]
    src, _names = numeric.regen_ast(ctx, "db", "the SQL texts class SQLiteTLE issues, the epoch key expression and the inserted row; sqlite's "
                                    "behaviour on those statements stays the oracle of the hand model",
                                    optional=True)
    ctx.build_props("props/C15.v")
    if src is not None:
        ctx.build_props("props/C15_source.v")
    logging.disable(logging.CRITICAL)
    tmpdir = tempfile.mkdtemp(prefix="verif-c15-", dir="/var/tmp")
    try:
        rng = ctx.rng
        world = World()
        hists = [(h, "corpus") for h in corpus(world)]
        for h in list(corpus(world))[:ctx.n(6, 20)]:
            hists += [(v, "corpus-crash") for v in crash_variants(h)]
        for _ in range(ctx.n(700, 2500)):
            hists.append((gen_history(world, rng), "random"))
        for _ in range(ctx.n(12, 60)):
            h = gen_history(world, rng, maxlen=8)
            vs = crash_variants(h)
            hists += [(v, "random-crash") for v in (vs if not ctx.quick else rng.sample(vs, min(len(vs), 16))) if len(v[1]) <= 12]
        if not ctx.quick:
            hists += [(h, "exhaustive") for h in exhaustive(world)]
        CH = 200
        for c0 in range(0, len(hists), CH):
            chunk = hists[c0:c0 + CH]
            mres, out = coq_play(world, [h for h, _ in chunk])
            if mres is None:
                ctx.corr_fail("M_Db.play evaluation in Coq", {"error": out[-500:]})
                continue
            for ((cfg, ops), label), mr in zip(chunk, mres):
                name_of = [NAMES[s] for s, _ in cfg]
                snaps_i, dump_i, problems = run_impl(ctx, world, cfg, ops, tmpdir, name_of)
                snaps_m, dump_m = model_view(world, cfg, mr, name_of)
                sig = hist_sig(cfg, ops)
                ctx.case(sig, {"history": sig, "label": label, "final_rows": sum(len(r) for r in dump_i[0].values())} if label == "corpus" else None)
                detail = {"platforms": {s: NAMES[s] for s, _ in cfg}, "history": describe(world, ops)}
                for what, kw in problems[:2]:
                    ctx.violation(what, {"signature": "C15:" + sig, **detail, **{k: repr(v)[:400] for k, v in kw.items()}})
                if snaps_i != snaps_m:
                    k = next(i for i, (a, b) in enumerate(zip(snaps_i, snaps_m)) if a != b)
                    ctx.corr_fail("M_Db.trace vs SQLiteTLE (updated, raised, row count, exported file) after operation %d" % k,
                                  {**detail, "model": repr(snaps_m[k])[:400], "impl": repr(snaps_i[k])[:400]})
                elif dump_i != dump_m:
                    ctx.corr_fail("M_Db.dump vs rows of the SQLite file / platform_names", {**detail, "model": repr(dump_m)[:600], "impl": repr(dump_i)[:600]})
        # the driver
        for rep in range(ctx.n(3, 12)):
            cfg, ops, impl_out, dump_i, name_of = driver_runs(ctx, world, tmpdir)
            mres, out = coq_play(world, [(cfg, ops)])
            if mres is None:
                ctx.corr_fail("M_Db.play evaluation in Coq (driver)", {"error": out[-500:]})
                continue
            snaps_m, dump_m = model_view(world, cfg, mres[0], name_of)
            exp_m = [s[3] for s, o in zip(snaps_m, ops) if o[0] == "E"]
            ctx.case("driver:" + hist_sig(cfg, ops), None)
            if exp_m != impl_out or dump_m != dump_i:
                ctx.corr_fail("M_Db.play vs fetch_tles.run x3", {"history": describe(world, ops), "model": repr((exp_m, dump_m))[:600],
                                                                "impl": repr((impl_out, dump_i))[:600]})
    finally:
        logging.disable(logging.NOTSET)
        shutil.rmtree(tmpdir, ignore_errors=True)


def describe(world, ops):
    out = []
    for o in ops:
        if o[0] in "UC":
            _, text, sat, e = world.tles[o[1]]
            d = {"op": "update" if o[0] == "U" else "crash@" + o[3], "satid": sat, "epoch": e.isoformat(), "line1": text.split("\n")[0],
                 "line2": text.split("\n")[1], "source": SOURCES[o[2]]}
        elif o[0] == "E":
            d = {"op": "export", "write_name": o[1], "write_always": o[2]}
        else:
            d = {"op": "close+reopen"}
        out.append(d)
    return out


def replay(ctx, rp):
    """re-run the recorded histories on the implementation and print what happens now"""
    from pyorbital import tlefile
    logging.disable(logging.CRITICAL)
    n = 0
    for item in rp.get("failing_inputs", []) + rp.get("broken_correspondence", []):
        if "history" not in item or "platforms" not in item:
            continue
        n += 1
        tmpdir = tempfile.mkdtemp(prefix="verif-c15-", dir="/var/tmp")
        try:
            path = os.path.join(tmpdir, "tle.db")
            wc = {"output_dir": os.path.join(tmpdir, "out"), "filename_pattern": "tle.txt"}
            plats = {int(k): v for k, v in item["platforms"].items()}
            db = tlefile.SQLiteTLE(path, plats, wc)
            print("replay: %s" % item.get("what", item.get("correspondence")))
            for o in item["history"]:
                try:
                    if o["op"] == "update":
                        db.update_db(tlefile.Tle("", line1=o["line1"], line2=o["line2"]), o["source"])
                    elif o["op"].startswith("crash@"):
                        real = db.db
                        db.db = Proxy(real, o["op"][6:])
                        try:
                            db.update_db(tlefile.Tle("", line1=o["line1"], line2=o["line2"]), o["source"])
                        except Crash:
                            pass
                        real.close()
                        db = tlefile.SQLiteTLE(path, plats, wc)
                    elif o["op"] == "export":
                        wc["write_name"], wc["write_always"] = o["write_name"], o["write_always"]
                        f = os.path.join(wc["output_dir"], "tle.txt")
                        if os.path.exists(f):
                            os.remove(f)
                        db.write_tle_txt()
                        print("  export ->", repr(open(f).read()) if os.path.exists(f) else None)
                    else:
                        db.close()
                        db = tlefile.SQLiteTLE(path, plats, wc)
                except Exception as e:
                    print("  %s raised %s: %s" % (o["op"], type(e).__name__, e))
                print("  after %-22s updated=%s rows=%s" % (o["op"], db.updated, read_db(path)[0]))
        finally:
            shutil.rmtree(tmpdir, ignore_errors=True)
    return 1 if n else 0
