"""C02 — TLE fields are decoded exactly as encoded in their fixed columns.

Tie: T-corr.  Hand-written model M_TleText.v (`tle_init` = _read_tle ; _checksum ; _parse_tle) and
printer/spec Spec_TLE.v.  For every generated element set this run

  * parses the two lines back into a field record with an INDEPENDENT 1-based column table written
    from the TLE format definition (below), and has Coq confirm `wf f = true` and
    `encode f = (line1, line2)` — so the premise of C02_decode_encode/C02_init holds for the very
    lines given to the implementation;
  * evaluates the model `tle_init` inside Coq (vm_compute) on the same input strings (with the same
    surrounding whitespace) and compares every attribute of `tlefile.Tle(...)` with it: strings and
    integers exactly, every float bit-exactly (float.hex()) with the correctly rounded binary64 of the
    model's exact decimal, eccentricity within 1 ulp, epoch as integer microseconds exactly;
  * checks the property itself on the implementation against the column table evaluated in Python
    with exact rational arithmetic (oracle; tolerances of the property text).
"""
import io
import math
import os
import re
import shutil
import tempfile
from decimal import Decimal
from fractions import Fraction

import numpy as np

from harness import common, tlegen, numeric

LEVEL = "proof"

DIG = "0123456789"
ALPHA = "ABCDEFGHIJKLMNOPQRSTUVWXYZ0123456789 .-+/()"
WS = [9, 10, 11, 12, 13, 28, 29, 30, 31, 32]            # what str.strip() removes in 7-bit ASCII

# ------------------------------------------------------------------------------------------------
# the TLE format, 1-based inclusive columns (Space-Track / Spacetrack Report #3 / Vallado), written
# here independently of pyorbital; kind: s = text, d2 = two digits, fix = [blanks]digits.digits,
# sf = s.dddddddd, ex = sdddddsd, e1 = blank or digit, pi = right-justified unsigned integer
# ------------------------------------------------------------------------------------------------
COLS = [
    ("satnumber", 1, 3, 7, "s"), ("classification", 1, 8, 8, "s"), ("id_launch_year", 1, 10, 11, "s"),
    ("id_launch_number", 1, 12, 14, "s"), ("id_launch_piece", 1, 15, 17, "s"), ("epoch_year", 1, 19, 20, "d2"),
    ("epoch_day", 1, 21, 32, "fix"), ("mean_motion_derivative", 1, 34, 43, "sf"),
    ("mean_motion_sec_derivative", 1, 45, 52, "ex"), ("bstar", 1, 54, 61, "ex"), ("ephemeris_type", 1, 63, 63, "e1"),
    ("element_number", 1, 65, 68, "pi"),
    ("inclination", 2, 9, 16, "fix"), ("right_ascension", 2, 18, 25, "fix"), ("excentricity", 2, 27, 33, "pi7"),
    ("arg_perigee", 2, 35, 42, "fix"), ("mean_anomaly", 2, 44, 51, "fix"), ("mean_motion", 2, 53, 63, "fix"),
    ("orbit", 2, 64, 68, "pi"),
]
BLANK_COLS = {1: [2, 9, 18, 33, 44, 53, 62, 64], 2: [2, 8, 17, 26, 34, 43, 52]}
FIX_SHAPE = {"epoch_day": (3, 8), "inclination": (3, 4), "right_ascension": (3, 4), "arg_perigee": (3, 4),
             "mean_anomaly": (3, 4), "mean_motion": (2, 8)}
FLOATS = ["epoch_day", "mean_motion_derivative", "mean_motion_sec_derivative", "bstar", "inclination",
          "right_ascension", "arg_perigee", "mean_anomaly", "mean_motion"]
STRS = ["satnumber", "classification", "id_launch_year", "id_launch_number", "id_launch_piece", "epoch_year"]
INTS = ["ephemeris_type", "element_number", "orbit"]


def col(lines, ln, a, b):
    return lines[ln - 1][a - 1:b]


def checksum(body):
    return str((sum(int(c) for c in body if c in DIG) + body.count("-")) % 10)


def split_fix(text, wi, wf):
    """'[blanks]digits.digits' -> (pad, int digits, frac digits) or None"""
    if len(text) != wi + 1 + wf or text[wi] != ".":
        return None
    ip, fp = text[:wi], text[wi + 1:]
    pad = len(ip) - len(ip.lstrip(" "))
    if not all(c in DIG for c in ip[pad:]) or not all(c in DIG for c in fp):
        return None
    return pad, ip[pad:], fp


def split_pi(text):
    pad = len(text) - len(text.lstrip(" "))
    if pad == len(text) or not all(c in DIG for c in text[pad:]):
        return None
    return pad, text[pad:]


def parse_columns(l1, l2):
    """independent reading of a stripped 2 x 69 element set: returns (field record for Coq, expected
    attribute values as exact rationals) or None when the set is not well-formed"""
    lines = (l1, l2)
    if len(l1) != 69 or len(l2) != 69 or l1[0] != "1" or l2[0] != "2":
        return None
    if any(not (32 <= ord(c) <= 126) for c in l1 + l2):
        return None
    for ln in (1, 2):
        if any(lines[ln - 1][c - 1] != " " for c in BLANK_COLS[ln]):
            return None
        if lines[ln - 1][68] != checksum(lines[ln - 1][:68]):
            return None
    if col(lines, 2, 3, 7) != col(lines, 1, 3, 7):
        return None
    F, V = {}, {}
    for name, ln, a, b, kind in COLS:
        t = col(lines, ln, a, b)
        if kind == "s":
            F[name] = t
            V[name] = t
        elif kind == "d2":
            if not all(c in DIG for c in t):
                return None
            F[name] = t
            V[name] = t
        elif kind == "fix":
            r = split_fix(t, *FIX_SHAPE[name])
            if r is None:
                return None
            F[name] = r
            V[name] = (False, Fraction(Decimal(t.strip())))
        elif kind == "sf":
            if t[0] not in " +-" or t[1] != "." or not all(c in DIG for c in t[2:]):
                return None
            F[name] = (t[0], t[2:])
            V[name] = (t[0] == "-", abs(Fraction(Decimal(t.strip()))))
        elif kind == "ex":
            if t[0] not in " +-" or not all(c in DIG for c in t[1:6]) or t[6] not in "+-" or t[7] not in DIG:
                return None
            F[name] = (t[0], t[1:6], t[6], t[7])
            e = int(t[7]) * (-1 if t[6] == "-" else 1)
            V[name] = (t[0] == "-", Fraction(int(t[1:6]), 10 ** 5) * Fraction(10) ** e)
        elif kind == "e1":
            if t != " " and t not in DIG:
                return None
            F[name] = t
            V[name] = 0 if t == " " else int(t)
        elif kind in ("pi", "pi7"):
            r = split_pi(t)
            if r is None:
                return None
            F[name] = r
            V[name] = int(t) if kind == "pi" else (False, Fraction(int(t), 10 ** 7))
    yy = int(V["epoch_year"])
    year = 2000 + yy if yy <= 56 else (1900 + yy if yy >= 69 else None)     # the property text; 57-68 unspecified there
    V["_year"] = year
    if year is not None:
        jan1 = (np.datetime64("%04d-01-01" % year, "us") - np.datetime64("1970-01-01", "us")).astype("int64")
        V["epoch"] = Fraction(int(jan1)) + (V["epoch_day"][1] - 1) * 86400 * 10 ** 6
    return F, V


# ------------------------------------------------------------------------------------------------
# generator at the level of the printed fields
# ------------------------------------------------------------------------------------------------
def digits(rng, n):
    return "".join(rng.choice(DIG) for _ in range(n))


def g_pi(rng, w):
    k = rng.choice([1, w, w, rng.randint(1, w)])
    d = rng.choice([digits(rng, k), "0" * k, "9" * k, "1" + "0" * (k - 1), digits(rng, k)])
    return " " * (w - k) + d


def g_fix(rng, wi, wf, tops=()):
    k = rng.choice([wi, wi, wi, rng.randint(0, wi)])
    ip = rng.choice([digits(rng, k), digits(rng, k), "0" * k, "9" * k] + [t for t in tops if len(t) == k])
    fp = rng.choice([digits(rng, wf), digits(rng, wf), "0" * wf, "9" * wf, "0" * (wf - 1) + "1"])
    return " " * (wi - k) + ip + "." + fp


def g_ex(rng):
    m = rng.choice([digits(rng, 5), digits(rng, 5), "00000", "99999", "10000", "00001"])
    return rng.choice(" +-") + m + rng.choice("+-") + rng.choice(DIG)


def g_text(rng, n, pool=ALPHA):
    return "".join(rng.choice(pool) for _ in range(n))


ANG = ("179", "180", "359", "360", "100", "099", "999", "000")


def random_texts(rng):
    """field texts by name; every one is a well-formed printing of its column range"""
    return {
        "satnumber": rng.choice([digits(rng, 5), digits(rng, 5), "00005", "99999", "    5", "A" + digits(rng, 4), g_text(rng, 5)]),
        "classification": rng.choice(["U", "U", "C", "S", g_text(rng, 1)]),
        "id_launch_year": rng.choice([digits(rng, 2), digits(rng, 2), g_text(rng, 2)]),
        "id_launch_number": rng.choice([digits(rng, 3), digits(rng, 3), g_text(rng, 3)]),
        "id_launch_piece": rng.choice(["A  ", "AB ", "ABC", "   ", g_text(rng, 3)]),
        "epoch_year": rng.choice([digits(rng, 2), digits(rng, 2), "00", "56", "57", "68", "69", "99"]),
        "epoch_day": rng.choice([g_fix(rng, 3, 8, ("001", "365", "366", "060", "000")), g_fix(rng, 3, 8, ("366", "365")),
                                 "366.00000000", "001.00000000", "365.99999999", "366.99999999", "  1.50000000",
                                 "%03d.%s" % (rng.randint(1, 366), digits(rng, 8))]),
        "mean_motion_derivative": rng.choice(" +-") + "." + rng.choice([digits(rng, 8), "00000000", "99999999", "0000" + digits(rng, 4)]),
        "mean_motion_sec_derivative": g_ex(rng),
        "bstar": g_ex(rng),
        "ephemeris_type": rng.choice([" ", "0", rng.choice(DIG)]),
        "element_number": rng.choice([g_pi(rng, 4), "%4d" % rng.randint(1000, 9999), "   0", "0000", " 999", "1000"]),
        "inclination": g_fix(rng, 3, 4, ANG),
        "right_ascension": g_fix(rng, 3, 4, ANG),
        "excentricity": rng.choice([digits(rng, 7), digits(rng, 7), "0000000", "9999999", "0000001", g_pi(rng, 7)]),
        "arg_perigee": g_fix(rng, 3, 4, ANG),
        "mean_anomaly": g_fix(rng, 3, 4, ANG),
        "mean_motion": g_fix(rng, 2, 8, ("15", "16", "01", "00", "99")),
        "orbit": rng.choice([g_pi(rng, 5), "%5d" % rng.randint(10000, 99999), "    0", "99999", "00000"]),
    }


def print_texts(T):
    """lay the field texts out in the standard columns (independent of tlegen and of pyorbital)"""
    rows = {1: [" "] * 68, 2: [" "] * 68}
    rows[1][0], rows[2][0] = "1", "2"
    for name, ln, a, b, _k in COLS:
        assert len(T[name]) == b - a + 1, (name, T[name])
        rows[ln][a - 1:b] = list(T[name])
    rows[2][2:7] = list(T["satnumber"])
    l1, l2 = "".join(rows[1]), "".join(rows[2])
    return l1 + checksum(l1), l2 + checksum(l2)


BASE = {"satnumber": "25544", "classification": "U", "id_launch_year": "98", "id_launch_number": "067",
        "id_launch_piece": "A  ", "epoch_year": "08", "epoch_day": "264.51782528", "mean_motion_derivative": "-.00002182",
        "mean_motion_sec_derivative": " 00000-0", "bstar": "-11606-4", "ephemeris_type": "0", "element_number": " 292",
        "inclination": " 51.6416", "right_ascension": "247.4627", "excentricity": "0006703", "arg_perigee": "130.5360",
        "mean_anomaly": "325.0288", "mean_motion": "15.72125391", "orbit": "56353"}

BOUNDARY = {
    "epoch_year": ["00", "01", "56", "57", "68", "69", "70", "99", "24", "96"],
    "epoch_day": ["001.00000000", "366.00000000", "365.99999999", "366.99999999", "060.00000000", "  1.00000000",
                  " 59.99999999", "100.50000000", "000.50000000", "999.99999999", "032.00000001", "   .75000000"],
    "mean_motion_derivative": [" .00000000", "+.00000000", "-.00000000", "+.99999999", "-.99999999", " .00000001", "+.00002182"],
    "mean_motion_sec_derivative": [" 00000-0", " 00000+0", "-00000-0", "+00000+0", " 12345-9", "-12345+9", "+99999+0", " 99999-0",
                                   " 10000-1", "+00001-5", "-54321+3", " 00100-2"],
    "bstar": [" 28778-3", "+28778-3", "-28778-3", " 28778+0", " 28778-0", "-00000+0", " 99999+9", " 00001-9", "+12345+1"],
    "ephemeris_type": [" ", "0", "1", "2", "4", "9"],
    "element_number": ["   0", "   9", "  10", " 999", "1000", "9999", "0000", "0999", "0001"],
    "inclination": ["  0.0000", "000.0000", " 99.9999", "100.0000", "179.9999", "180.0000", "098.7162", "   .5000", "  5.0001", "999.9999"],
    "right_ascension": ["359.9999", "360.0000", "100.0001", "  0.0001", "099.9999", "247.4627"],
    "excentricity": ["0000000", "0000001", "9999999", "1000000", "0999999", "      0", "     42", " 123456"],
    "arg_perigee": ["359.9999", "100.0000", "  0.0000", "270.0000", " 90.0000"],
    "mean_anomaly": ["359.9999", "100.0000", "  0.0000", "180.0000", "  9.9999"],
    "mean_motion": ["15.72125391", " 1.00273791", "01.00273791", "16.99999999", "00.00000001", "99.99999999", " 0.50000000", "  .50000000"],
    "orbit": ["    0", "    9", "   10", "  999", " 9999", "10000", "99999", "00000", "00001", "09999"],
    "satnumber": ["00001", "99999", "    1", "A0001", "Z9999", "1-2+3"],
    "classification": ["U", "C", "S", " ", "9", "-"],
    "id_launch_year": ["00", "99", "57", "  "], "id_launch_number": ["001", "999", "  1"], "id_launch_piece": ["A  ", "ZZZ", "   ", " A ", "123"],
}

SUITE = [
    ("1 25544U 98067A   08264.51782528 -.00002182  00000-0 -11606-4 0  2927", "2 25544  51.6416 247.4627 0006703 130.5360 325.0288 15.72125391563537"),
    ("1 38771U 12049A   21137.30264622  .00000000  00000+0 -49996-5 0 00017", "2 38771  98.7162 197.7716 0002383 106.1049 122.6344 14.21477797449453"),
    ("1 28654U 05018A   23045.48509621  .00000446  00000+0  26330-3 0  9998", "2 28654  98.9223 120.4228 0014233  11.3574 348.7916 14.12862494914152"),
    ("1 43013U 17073A   23045.54907786  .00000253  00000+0  14081-3 0  9995", "2 43013  98.7419 345.5839 0001610  80.3742 279.7616 14.19558274271576"),
    ("1 54234U 22150A   23045.56664999  .00000332  00000+0  17829-3 0  9993", "2 54234  98.7059 345.5113 0001226  81.6523 278.4792 14.19543871 13653"),
]


def make_cases(ctx):
    rng = ctx.rng
    tles = [("suite%d" % i, t) for i, t in enumerate(SUITE)] + [("corpus%d" % i, t) for i, t in enumerate(tlegen.CORPUS)]
    for name, vals in BOUNDARY.items():
        for v in vals:
            T = dict(BASE)
            T[name] = v
            tles.append(("bnd:%s=%s" % (name, v), print_texts(T)))
    # the boundary values of all fields together, cycling
    for k in range(12):
        T = {n: (BOUNDARY[n][k % len(BOUNDARY[n])] if n in BOUNDARY else BASE[n]) for n in BASE}
        tles.append(("bndall%d" % k, print_texts(T)))
    for i in range(ctx.n(40, 400)):
        tles.append(("tlegen%d" % i, tlegen.random_tle(rng, near_earth=bool(i % 2))))
    for i in range(ctx.n(160, 3000)):
        tles.append(("rnd%d" % i, print_texts(random_texts(rng))))
    cases = []
    for i, (tag, (l1, l2)) in enumerate(tles):
        r = rng.random()
        if tag.startswith("suite") or r < 0.55:
            src, ws = "lines", ([], [], [], [])
        elif r < 0.80:
            src = "lines"
            ws = tuple([rng.choice(WS) for _ in range(rng.choice([0, 1, 1, 2, 3]))] for _ in range(4))
        elif r < 0.90:
            src, ws = "file", ([32] * rng.randint(0, 2), [32] * rng.randint(0, 2), [], [32] * rng.randint(0, 1))
        else:
            src, ws = "stream", ([], [32] * rng.randint(0, 2), [32] * rng.randint(0, 2), [])
        cases.append({"tag": tag, "l1": l1, "l2": l2, "src": src, "ws": ws})
    return cases


# ------------------------------------------------------------------------------------------------
# Coq side
# ------------------------------------------------------------------------------------------------
def q(s):
    return '"%s"' % s.replace('"', '""')


def coq_ds(s):
    return "(ds %s)" % q(s)


SIGN = {" ": "Sblank", "+": "Splus", "-": "Sminus"}


def coq_fields(F):
    def fix(n):
        pad, ip, fp = F[n]
        return "(mkfix %d %s %s)" % (pad, coq_ds(ip), coq_ds(fp))

    def pi(n):
        pad, d = F[n]
        return "(mkpad %d %s)" % (pad, coq_ds(d))

    def ex(n):
        s, m, es, ed = F[n]
        return "(mkexp %s %s %s D%s)" % (SIGN[s], coq_ds(m), "true" if es == "-" else "false", ed)
    et = F["ephemeris_type"]
    return "(mkfields (L %s) %s%%char (L %s) (L %s) (L %s) %s %s (mksf %s %s) %s %s %s %s %s %s %s %s %s %s %s)" % (
        q(F["satnumber"]), q(F["classification"]), q(F["id_launch_year"]), q(F["id_launch_number"]), q(F["id_launch_piece"]),
        coq_ds(F["epoch_year"]), fix("epoch_day"), SIGN[F["mean_motion_derivative"][0]], coq_ds(F["mean_motion_derivative"][1]),
        ex("mean_motion_sec_derivative"), ex("bstar"), "None" if et == " " else "(Some D%s)" % et, pi("element_number"),
        fix("inclination"), fix("right_ascension"), pi("excentricity"), fix("arg_perigee"), fix("mean_anomaly"),
        fix("mean_motion"), pi("orbit"))


HEADER = """From Coq Require Import List ZArith Ascii String NArith.
Import ListNotations.
From PyOrb.spec Require Import Spec_TLE.
From PyOrb.model Require Import M_TleText.
Open Scope Z_scope.
Set Printing Depth 10000000.
Set Printing Width 400.
Definition L := list_ascii_of_string.
Definition C (l : list N) : list ascii := map ascii_of_N l.
Definition leq (a b : list ascii) : Z := if list_eq_dec ascii_dec a b then 1 else 0.
Definition T (f : fields) (a b : list ascii) (p1 q1 p2 q2 : list N) : list Z :=
  [if wf f then 1 else 0; leq (line1 f) a; leq (line2 f) b] ++ show (tle_init (C p1 ++ a ++ C q1) (C p2 ++ b ++ C q2)).
Definition U (a b : list ascii) (p1 q1 p2 q2 : list N) : list Z :=
  [0; 0; 0] ++ show (tle_init (C p1 ++ a ++ C q1) (C p2 ++ b ++ C q2)).
"""


def nlist(codes):
    return "[" + "; ".join("%d%%N" % c for c in codes) + "]"


def coq_batch(name, batch):
    items = []
    for c in batch:
        ws = c["ws"] if c["src"] == "lines" else ([], [], [], [])       # files/streams: model on the bare lines
        args = "(L %s) (L %s) %s %s %s %s" % (q(c["l1"]), q(c["l2"]), nlist(ws[0]), nlist(ws[1]), nlist(ws[2]), nlist(ws[3]))
        if c["fields"] is not None:
            items.append("T %s %s" % (coq_fields(c["fields"]), args))
        else:
            items.append("U %s" % args)
    text = HEADER + "Eval vm_compute in [\n" + ";\n".join(items) + "\n].\n"
    ok, out = common.coq_eval(name, text, timeout=900)
    if not ok or "=" not in out:
        return None, out
    body = out[out.index("="):]
    rows = [[int(x) for x in re.findall(r"-?\d+", m)] for m in re.findall(r"\[([^\[\]]*)\]", body)]
    if len(rows) != len(batch):
        return None, out
    return rows, out


class Cursor:
    def __init__(self, xs):
        self.xs, self.i = xs, 0

    def z(self):
        v = self.xs[self.i]
        self.i += 1
        return v

    def s(self):
        n = self.z()
        v = "".join(chr(x) for x in self.xs[self.i:self.i + n])
        self.i += n
        return v

    def dec(self):
        return (self.z() == 1, self.z(), self.z())


def model_result(row):
    """decode M_TleText.show"""
    cur = Cursor(row[3:])
    if cur.i >= len(cur.xs):
        return None
    assert cur.z() == 1
    m = {"line1": cur.s(), "line2": cur.s()}
    for k in STRS:
        m[k] = cur.s()
    m["epoch_day"] = cur.dec()
    m["epoch"] = (cur.z(), cur.z())
    for k in ("mean_motion_derivative", "mean_motion_sec_derivative", "bstar"):
        m[k] = cur.dec()
    m["ephemeris_type"], m["element_number"] = cur.z(), cur.z()
    for k in ("inclination", "right_ascension", "excentricity", "arg_perigee", "mean_anomaly", "mean_motion"):
        m[k] = cur.dec()
    m["orbit"] = cur.z()
    assert cur.i == len(cur.xs), (cur.i, len(cur.xs))
    return m


def dec_fraction(d):
    neg, mant, e = d
    return neg, Fraction(mant) * Fraction(10) ** e


def nearest_double(neg, fr):
    x = float(fr)                      # int/int true division: correctly rounded
    return -x if neg else x


# ------------------------------------------------------------------------------------------------
# implementation side
# ------------------------------------------------------------------------------------------------
def impl_result(c, tmpdir):
    from pyorbital import tlefile
    a = "".join(map(chr, c["ws"][0])) + c["l1"] + "".join(map(chr, c["ws"][1]))
    b = "".join(map(chr, c["ws"][2])) + c["l2"] + "".join(map(chr, c["ws"][3]))
    try:
        with common.time_limit(20):
            if c["src"] == "lines":
                t = tlefile.Tle("X", line1=a, line2=b)
            elif c["src"] == "stream":
                t = tlefile.Tle("", tle_file=io.StringIO(a + "\n" + b + "\n"))
            else:
                path = os.path.join(tmpdir, "t.tle")
                with open(path, "w", newline="") as f:
                    f.write("NAME\n" + a + "\n" + b + "\n")
                t = tlefile.Tle("NAME", tle_file=path)
    except Exception as e:                       # a well-formed set must be accepted
        return {"_error": "%s: %s" % (type(e).__name__, str(e)[:120])}, (a, b)
    r = {"line1": t.line1, "line2": t.line2}
    for k in STRS + INTS + FLOATS + ["excentricity"]:
        r[k] = getattr(t, k)
    ep = t.epoch
    r["epoch_dtype"] = str(getattr(ep, "dtype", type(ep).__name__))
    try:
        r["epoch"] = int(np.datetime64(ep, "us").astype("int64")) if r["epoch_dtype"] == "datetime64[us]" else None
    except Exception:
        r["epoch"] = None
    return r, (a, b)


def within_ulp(x, neg, fr):
    """|x - v| <= 1 ulp of binary64 at v (v = +-fr exact)"""
    if not isinstance(x, float) or math.isnan(x) or math.isinf(x):
        return False
    v = -fr if neg else fr
    return abs(Fraction(x) - v) <= Fraction(math.ulp(float(fr)))


def fmt(v):
    return v.hex() if isinstance(v, float) else v


def check_case(ctx, c, row, tmpdir):
    impl, (a, b) = impl_result(c, tmpdir)
    base = {"line1": a, "line2": b, "source": c["src"], "tag": c["tag"]}
    sig = "C02:%s:%s|%s" % (c["src"], a, b)
    V = c["expect"]
    model = None
    try:
        model = model_result(row)
    except Exception as e:
        ctx.corr_fail("M_TleText.show output not decodable", {**base, "error": repr(e), "row": row[:40]})
        return
    if c["fields"] is not None and row[:3] != [1, 1, 1]:
        ctx.corr_fail("Spec_TLE.wf/encode vs the column table of checks/c02.py (wf, line1 equal, line2 equal)",
                      {**base, "model": row[:3], "impl": "n/a"})
    if "_error" in impl:
        if V is not None:
            ctx.violation("well-formed element set not decoded (%s)" % impl["_error"], {"signature": sig + ":error", **base})
        if model is not None:
            ctx.corr_fail("M_TleText.tle_init vs tlefile.Tle", {**base, "model": "Some", "impl": impl["_error"]})
        return
    # ---- oracle: the property on the implementation against the independent column table
    if V is not None:
        def bad(attr, want):
            ctx.violation("attribute %s differs from its standard column value" % attr,
                          {"signature": sig + ":" + attr, **base, "attribute": attr, "impl": fmt(impl.get(attr)), "expected": str(want)})
        for k in STRS:
            if impl[k] != V[k] or not isinstance(impl[k], str):
                bad(k, V[k])
        for k in INTS:
            if impl[k] != V[k] or not isinstance(impl[k], int) or isinstance(impl[k], bool):
                bad(k, V[k])
        for k in FLOATS + ["excentricity"]:
            if not within_ulp(impl[k], *V[k]):
                bad(k, ("-" if V[k][0] else "") + str(V[k][1]))
        if V.get("epoch") is not None:
            want = V["epoch"]
            if impl["epoch"] is None or Fraction(impl["epoch"]) != want:
                bad("epoch", "%s us since 1970 (dtype datetime64[us])" % want)
        if impl["line1"] != a.strip() or impl["line2"] != b.strip():
            bad("line1/line2", [a.strip(), b.strip()])
    # ---- correspondence: implementation against the model evaluated in Coq
    if model is None:
        ctx.corr_fail("M_TleText.tle_init vs tlefile.Tle", {**base, "model": "None", "impl": "accepted"})
        return
    diffs = {}
    for k in ["line1", "line2"] + STRS + INTS:
        if impl[k] != model[k] or type(impl[k]) is not type(model[k]):
            diffs[k] = {"model": model[k], "impl": impl[k]}
    for k in FLOATS:
        want = nearest_double(*dec_fraction(model[k]))
        if not isinstance(impl[k], float) or impl[k].hex() != want.hex():
            diffs[k] = {"model": want.hex(), "model_exact": list(model[k]), "impl": fmt(impl[k])}
    if not within_ulp(impl["excentricity"], *dec_fraction(model["excentricity"])):
        diffs["excentricity"] = {"model_exact": list(model["excentricity"]), "impl": fmt(impl["excentricity"])}
    num, den = model["epoch"]
    fr = Fraction(num, den)
    want_us = fr.numerator if fr.denominator == 1 else round(fr)      # round(): half to even, as timedelta does
    if impl["epoch"] != want_us:
        diffs["epoch"] = {"model": str(fr), "impl": impl["epoch"], "impl_dtype": impl["epoch_dtype"]}
    if diffs:
        ctx.corr_fail("M_TleText.tle_init vs tlefile.Tle", {**base, "model": {k: v.get("model", v.get("model_exact")) for k, v in diffs.items()},
                                                            "impl": {k: v["impl"] for k, v in diffs.items()}})
    return impl


def run(ctx):
    ctx.rule = ("well-formed element sets: the 5 sets of the test-suite, tlegen corpus and random sets, per-field boundary "
                "values on a base set (3-digit angles, day 1/366/365.99999999, exponents +0/-0/+9/-9, '+' signs, negative "
                "zero, blank/zero padding, blank ephemeris type, element numbers >= 1000, eccentricity 0000000..9999999, "
                "years 00/56/57/68/69/99), and sets with every field drawn independently over its full printed range; "
                "given as lines (some with surrounding ASCII whitespace), via a file and via a StringIO; "
                "distinct = distinct (line1, line2, whitespace, source)")
    ctx.assumptions += [
        "model domain is 7-bit ASCII; every Python exception is one outcome (None) in the model",
        "hand-written model M_TleText.v tied to tlefile.py by this run (model evaluated by vm_compute inside Coq on the same strings)",
        "the theorems are about exact decimals; that CPython float() returns the correctly rounded binary64 of the decimal text, and "
        "that int*10**-7 stays within 1 ulp, is validated here on every case (float.hex() against Fraction->float), not proved",
        "epoch: the model's exact rational (a whole number of microseconds for 8-decimal days, C02_epoch) is compared for equality "
        "with the implementation's datetime64[us]; that timedelta(days=float) (float product, round-half-even) lands on that "
        "integer is validated by sampling only (analytically the float error is < 0.01 us for days < 1000)",
        "oracle: independent 1-based column table in checks/c02.py evaluated with Fraction/Decimal; floats must be within 1 ulp, epoch "
        "exact in integer microseconds (the exact value is an integer); epoch years 57-68 are not judged by the oracle because the "
        "property text fixes only 00-56 and 69-99 (the implementation and the model map 57-68 to 2057-2068, POSIX %y)",
        "file/stream sources: the reader (_get_first_tle) is outside this model; its result is compared with the model on the bare lines",
    ]
    src, _names = numeric.regen_ast(ctx, "tle", "Tle._checksum, _read_tle (lines given), _parse_tle, __init__ call order; float()/int()/strptime/"
                                    "timedelta stay the hand models of M_TleText (validated against CPython by the C02 correspondence run)",
                                    optional=True)
    ctx.build_props("props/C02.v")
    if src is not None:
        ctx.build_props("props/C02_source.v")
    cases = make_cases(ctx)
    for c in cases:
        pc = parse_columns(c["l1"], c["l2"])
        c["fields"], c["expect"] = pc if pc is not None else (None, None)
        if pc is None:
            ctx.corr_fail("generator produced a set the column table rejects", {"line1": c["l1"], "line2": c["l2"], "model": "n/a", "impl": "n/a"})
    tmpdir = tempfile.mkdtemp(prefix="verif-c02-", dir="/var/tmp")
    try:
        B = 400
        for bi in range(0, len(cases), B):
            batch = cases[bi:bi + B]
            rows, out = coq_batch("c02_%d" % (bi // B), batch)
            if rows is None:
                ctx.corr_fail("M_TleText.tle_init evaluation in Coq", {"batch": bi // B, "error": out[-600:], "model": "n/a", "impl": "n/a"})
                continue
            for j, (c, row) in enumerate(zip(batch, rows)):
                impl = check_case(ctx, c, row, tmpdir)
                key = (c["l1"], c["l2"], tuple(map(tuple, c["ws"])), c["src"])
                sample = None
                if impl is not None and (bi + j) % 97 == 5:
                    sample = {"line1": c["l1"], "line2": c["l2"], "source": c["src"], "inclination": impl["inclination"],
                              "bstar": impl["bstar"], "epoch_us": impl["epoch"]}
                ctx.case(key, sample)
    finally:
        shutil.rmtree(tmpdir, ignore_errors=True)


def replay(ctx, rp):
    """re-run the recorded failing inputs on the implementation against the column-table oracle"""
    bad = 0
    tmpdir = tempfile.mkdtemp(prefix="verif-c02-", dir="/var/tmp")
    try:
        for item in rp.get("failing_inputs", []) + rp.get("broken_correspondence", []):
            if "line1" not in item or "line2" not in item:
                print("replay: (no input lines) %s" % str(item)[:200])
                continue
            a, b = item["line1"], item["line2"]
            pc = parse_columns(a.strip(), b.strip())
            c = {"tag": "replay", "l1": a, "l2": b, "src": item.get("source", "lines"), "ws": ([], [], [], []),
                 "fields": None, "expect": pc[1] if pc else None}
            impl, _ = impl_result(c, tmpdir)
            V = c["expect"]
            if V is None:
                print("replay: not a well-formed set: %r %r" % (a, b))
                continue
            wrong = []
            if "_error" in impl:
                wrong.append(("constructor", impl["_error"], "accepted"))
            else:
                for k in STRS + INTS:
                    if impl[k] != V[k]:
                        wrong.append((k, impl[k], V[k]))
                for k in FLOATS + ["excentricity"]:
                    if not within_ulp(impl[k], *V[k]):
                        wrong.append((k, fmt(impl[k]), str(V[k][1])))
                if V.get("epoch") is not None and (impl["epoch"] is None or Fraction(impl["epoch"]) != V["epoch"]):
                    wrong.append(("epoch", impl["epoch"], str(V["epoch"])))
                if impl["line1"] != a.strip() or impl["line2"] != b.strip():
                    wrong.append(("line1/line2", [impl["line1"], impl["line2"]], [a.strip(), b.strip()]))
            for k, got, want in wrong:
                bad += 1
                print("replay: VIOLATION %s: got %r expected %r on %r / %r" % (k, got, want, a, b))
            if not wrong:
                print("replay: ok %r / %r" % (a, b))
    finally:
        shutil.rmtree(tmpdir, ignore_errors=True)
    return 1 if bad else 0
