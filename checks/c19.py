"""C19 — instrument scan definitions.  Tie: T-corr (hand-written templates M_Instruments.v).

Correspondence: for (instrument, number of scans, selection of positions) the real definition function
is called and `sgeom.fovs` / `sgeom.times(start)` are compared with the model evaluated inside Coq
(vm_compute; angles as exact rationals x unit, times with Coq's primitive binary64 floats):
shapes exactly, angles within 1e-12 rad, times as integer nanoseconds EXACTLY (row digests
sum x_i, sum (i+1) x_i, first, last, run lengths of equal rows; on a mismatch the row is dumped and
compared element by element).

Oracle: the property text checked on the implementation output by independent numpy code, with the
swath limits / scan periods taken from the docstrings and constants of the source, not from the
computed arrays."""
import ast
import math
import re
from fractions import Fraction

import numpy as np

from harness import common, numeric

LEVEL = "proof"

DEG = math.pi / 180.0
YMAX = math.atan((11.87 / 2) / 824.0)      # VIIRS: half of 11.87 km seen from 824 km
START = np.datetime64("2020-03-04T05:06:07.000000000")

# name -> (positions of the full scan, lines per scan, documented swath limit (deg), scan period (s) as text)
DOC = {
    "avhrr":     (2048, 1, 55.37, Fraction(1, 6)),
    "avhrr_gac": (2048, 1, 55.37, Fraction(1, 2)),
    "amsua":     (30, 1, 48.3, Fraction(8)),
    "mhs":       (90, 1, 49.444, Fraction(8, 3)),
    "hirs4":     (56, 1, 49.5, Fraction("6.4")),
    "atms":      (96, 1, 52.7, Fraction(8, 3)),
    "mwhs2":     (98, 1, 53.35, Fraction(8, 3)),
    "viirs":     (6400, 32, 56.28, Fraction("1.779166667")),
    "ascat":     (42, 1, 53.0, Fraction("3.74747474747")),
}
SWATH = {"olci": 4000, "slstr_nadir": 3000}     # default number of samples; limits 46.5 .. -22.1 deg
TIMED = list(DOC)


def call_impl(name, n, ps, default_full):
    """the real definition function on (n scans, positions ps)"""
    from pyorbital import geoloc_instrument_definitions as gid
    pts = np.array(ps, dtype=int)
    if name == "viirs":
        if default_full:
            return gid.viirs(n)
        return gid.viirs(n, [int(p) for p in ps])
    if name in ("avhrr", "avhrr_gac"):
        return getattr(gid, name)(n, pts)
    f = getattr(gid, name)
    return f(n) if default_full else f(n, pts)


def impl_arrays(name, n, ps, default_full=False):
    with common.time_limit(120):
        sg = call_impl(name, n, ps, default_full)
        fovs = np.asarray(sg.fovs)
        t = sg.times(START)
    ns = (t - START).astype("timedelta64[ns]").astype(np.int64)
    raw = np.asarray(sg._times).astype("timedelta64[ns]").astype(np.int64)
    if ns.shape != raw.shape or not np.array_equal(ns, raw):
        raise AssertionError("times(start) - start differs from the stored offsets")
    return fovs, ns


# --------------------------------------------------------------------------- model side (Coq)
def zlist(ps):
    ps = list(ps)
    if len(ps) > 64 and ps == list(range(len(ps))):
        return "(zrange %d)" % len(ps)
    return "[" + ";".join(str(int(p)) for p in ps) + "]%Z"


def case_term(name, n, ps):
    if name in SWATH:
        return "(show_angles (swath_angles %d %d), show_times (swath_times %d %d))" % (n, len(ps), n, len(ps))
    return "(show_angles (angles_exec %s %d %s), show_times (times_exec B64 %s %d %s))" % (
        name, n, zlist(ps), name, n, zlist(ps))


HEADER = r"""From Coq Require Import List ZArith QArith.
From PyOrb.model Require Import M_Instruments.
Import ListNotations.
Set Printing Depth 100000000.
Set Printing Width 1000000.
(* printing helpers: run-length compression of equal consecutive rows / values, row digests *)
Fixpoint rle {X} (eqb : X -> X -> bool) (l : list X) : list (nat * X) :=
  match l with
  | [] => []
  | x :: t => match rle eqb t with
              | (k, y) :: r => if eqb x y then (S k, y) :: r else (1%nat, x) :: (k, y) :: r
              | [] => [(1%nat, x)]
              end
  end.
Fixpoint list_eqb {X} (eqb : X -> X -> bool) (a b : list X) : bool :=
  match a, b with
  | [], [] => true
  | x :: a', y :: b' => eqb x y && list_eqb eqb a' b'
  | _, _ => false
  end.
Definition Qeqb (a b : Q) : bool := (Qnum a =? Qnum b)%Z && (Qden a =? Qden b)%positive.
Definition row_hash (r : list Z) : Z * Z :=
  let '(_, s1, s2) := fold_left (fun acc x => let '(i, s1, s2) := acc in ((i + 1)%Z, (s1 + x)%Z, (s2 + i * x)%Z))
                                r (1%Z, 0%Z, 0%Z) in (s1, s2).
Definition show_angles (a : list (list (list Q))) : list (list (nat * list (nat * (Z * Z)))) :=
  map (fun plane => map (fun kr => (fst kr, map (fun kq => let q := Qred (snd kq) in (fst kq, (Qnum q, Zpos (Qden q))))
                                                (rle Qeqb (snd kr))))
                        (rle (list_eqb Qeqb) plane)) a.
Definition show_times (tm : list (list Z)) : list (nat * (nat * (Z * Z) * Z * Z)) :=
  map (fun kr => let r := snd kr in (fst kr, (length r, row_hash r, hd 0%Z r, last r 0%Z)))
      (rle (list_eqb Z.eqb) tm).
"""


def parse_blocks(out):
    blocks = []
    for chunk in re.split(r"(?m)^\s*= ", out)[1:]:
        body = re.split(r"(?m)^\s*: ", chunk)[0]
        body = re.sub(r"%(nat|Z|positive|N)", "", body).replace(";", ",")
        blocks.append(ast.literal_eval(body.strip()))
    return blocks


def coq_cases(tag, cases):
    text = HEADER + "".join("Eval vm_compute in %s.\n" % case_term(*c) for c in cases)
    ok, out = common.coq_eval("c19_" + tag, text, timeout=1500)
    if not ok:
        return None, out
    try:
        blocks = parse_blocks(out)
    except Exception as e:  # noqa
        return None, "unparsable Coq output: %s\n%s" % (e, out[-400:])
    if len(blocks) != len(cases):
        return None, "expected %d results, got %d\n%s" % (len(cases), len(blocks), out[-400:])
    return blocks, out


def coq_row(name, n, ps, line):
    text = HEADER + "Eval vm_compute in (nth %d (times_exec B64 %s %d %s) []).\n" % (line, name, n, zlist(ps))
    ok, out = common.coq_eval("c19_row", text, timeout=600)
    try:
        return parse_blocks(out)[0] if ok else None
    except Exception:  # noqa
        return None


def expand_angles(planes, units):
    """model planes (rle of rle of (num, den)) -> float array (2, lines, positions)"""
    res = []
    for plane, unit in zip(planes, units):
        rows = []
        for count, row in plane:
            vals = []
            for k, (num, den) in row:
                vals += [float(Fraction(num, den)) * unit] * k
            rows += [vals] * count
        res.append(rows)
    lens = {len(r) for pl in res for r in pl}
    if len(res) != 2 or len(res[0]) != len(res[1]) or len(lens) > 1:
        return None
    width = lens.pop() if lens else 0
    return np.array(res, dtype=float).reshape(2, len(res[0]), width)


def digest(row):
    vals = [int(x) for x in row]
    return (len(vals), (sum(vals), sum((i + 1) * x for i, x in enumerate(vals))),
            vals[0] if vals else 0, vals[-1] if vals else 0)


def impl_time_runs(ns):
    """rle over equal consecutive rows of (len, digest, first, last) — same shape as show_times"""
    runs = []
    prev = None
    for L in range(ns.shape[0]):
        row = ns[L]
        if prev is not None and np.array_equal(row, prev):
            runs[-1][0] += 1
        else:
            runs.append([1, digest(row), L])
            prev = row
    return runs


def to_tuple(x):
    if isinstance(x, (list, tuple)):
        return tuple(to_tuple(y) for y in x)
    return x


# --------------------------------------------------------------------------- oracle
def oracle(ctx, name, n, ps, fovs, ns, desc, full_cache):
    k = len(ps)
    sig = lambda what: {"signature": "C19:%s:n%d:%s:%s" % (name, n, desc, what), "instrument": name,  # noqa
                        "scans": n, "positions": desc,
                        "position_list": "range(%d)" % len(ps) if list(ps) == list(range(len(ps))) else [int(p) for p in ps]}
    if name in SWATH:
        if fovs.shape != (2, n, k) or ns.shape != (n, k):
            ctx.violation("shape of %s geometry is %s / %s, expected (2,%d,%d) / (%d,%d)" % (
                name, fovs.shape, ns.shape, n, k, n, k), sig("shape"))
            return
        if k and (fovs[0].max() > 46.5 * DEG + 1e-12 or fovs[0].min() < -22.1 * DEG - 1e-12):
            ctx.violation("%s across-track angle outside [-22.1, 46.5] deg" % name,
                          dict(sig("bounds"), min_deg=float(fovs[0].min() / DEG), max_deg=float(fovs[0].max() / DEG)))
        if np.any(fovs[1] != 0):
            ctx.violation("%s along-track angle not zero" % name, sig("along"))
        if np.any(fovs != fovs[:, :1, :]):
            ctx.violation("%s lines do not share the same angles" % name, sig("per-scan"))
        if np.any(ns != 0):
            ctx.violation("%s times are not zero" % name, sig("times"))
        return
    N, D, limit, period = DOC[name]
    lines = n * D
    if fovs.shape != (2, lines, k) or ns.shape != (lines, k):
        ctx.violation("shape of %s geometry is %s / %s, expected (2,%d,%d) / (%d,%d)" % (
            name, fovs.shape, ns.shape, lines, k, lines, k), sig("shape"))
        return
    idx = np.arange(lines)
    if not np.array_equal(fovs, fovs[:, idx % D, :]):
        bad = int(np.argwhere(np.any(fovs != fovs[:, idx % D, :], axis=(0, 2)))[0][0])
        ctx.violation("line %d does not have the angles of line %d of the first scan" % (bad, bad % D),
                      dict(sig("per-scan"), line=bad))
    a = np.abs(fovs[0])
    if a.size and a.max() > limit * DEG + 1e-12:
        L, i = np.unravel_index(int(np.argmax(a)), a.shape)
        ctx.violation("across-track angle %.9f deg beyond the documented swath limit %.3f deg" % (a[L, i] / DEG, limit),
                      dict(sig("bounds"), line=int(L), position=int(ps[i])))
    if name == "ascat" and a.size and a.min() < 25.0 * DEG - 1e-12:
        ctx.violation("ASCAT across-track angle %.9f deg inside the 25 deg inner limit" % (a.min() / DEG), sig("inner"))
    if D == 1:
        if np.any(fovs[1] != 0):
            ctx.violation("along-track angle of a line scanner is not zero", sig("along"))
    elif fovs[1].size and np.abs(fovs[1]).max() > YMAX + 1e-12:
        ctx.violation("VIIRS along-track angle beyond atan(11.87/2/824)", sig("along-bound"))
    is_full = list(ps) == list(range(N))
    if is_full:
        if np.abs(fovs[0] + fovs[0][:, ::-1]).max() > 1e-12:
            i = int(np.argmax(np.abs(fovs[0] + fovs[0][:, ::-1])[0]))
            ctx.violation("across-track angles not antisymmetric about nadir: a[%d]=%.15g, a[%d]=%.15g" % (
                i, fovs[0][0, i], N - 1 - i, fovs[0][0, N - 1 - i]), dict(sig("antisym"), position=i))
        if D > 1:
            first = fovs[1][:D, 0]
            if np.abs(first + first[::-1]).max() > 1e-12:
                ctx.violation("VIIRS along-track angles not antisymmetric over the detectors", sig("antisym-along"))
    # --- timing
    order = np.argsort(np.array(ps), kind="stable")
    sorted_ps = np.array(ps)[order]
    ts = ns[:, order]
    if k > 1:
        d = np.diff(ts, axis=1)
        strict = np.diff(sorted_ps) > 0
        if np.any(d[:, strict] <= 0) or np.any(d[:, ~strict] != 0):
            L, i = np.argwhere((d <= 0) & strict[None, :] | (d != 0) & ~strict[None, :])[0]
            ctx.violation("sample times do not increase along line %d (positions %d -> %d: %d -> %d ns)" % (
                L, sorted_ps[i], sorted_ps[i + 1], ts[L, i], ts[L, i + 1]), dict(sig("increasing"), line=int(L)))
    if lines > D and k:
        last = ns[:-D].max(axis=1)
        first = ns[D:].min(axis=1)
        if np.any(last >= first):
            L = int(np.argwhere(last >= first)[0][0])
            ctx.violation("line %d ends at %d ns, not before line %d begins at %d ns" % (L, last[L], L + D, first[L]),
                          dict(sig("line-before-next"), line=L))
        diff = ns[D:] - ns[:-D]
        pns = period * 10**9
        lo, hi = math.ceil(pns - 2), math.floor(pns + 2)
        if np.any(diff < lo) or np.any(diff > hi):
            L, i = np.argwhere((diff < lo) | (diff > hi))[0]
            ctx.violation("successive scans offset by %d ns at line %d position %d; scan period %s s" % (
                diff[L, i], L, ps[i], str(float(period))), dict(sig("scan-period"), line=int(L), position=int(ps[i]),
                                                                 offset_ns=int(diff[L, i])))
    # --- subset = columns of the full geometry
    if not is_full:
        key = (name, n)
        if key not in full_cache:
            full_cache.clear()
            full_cache[key] = impl_arrays(name, n, list(range(N)), default_full=name not in ("avhrr", "avhrr_gac"))
        ffov, fns = full_cache[key]
        cols = np.array(ps, dtype=int)
        if ffov.shape[1] != lines or not np.array_equal(fovs, ffov[:, :, cols]):
            ctx.violation("angles of the selection are not the corresponding columns of the full geometry", sig("subset-angles"))
        if name != "ascat" and (fns.shape[0] != lines or not np.array_equal(ns, fns[:, cols])):
            bad = np.argwhere(ns != fns[:, cols])[0] if fns.shape[0] == lines else (0, 0)
            ctx.violation("times of the selection are not the corresponding columns of the full geometry "
                          "(line %d position %d)" % (bad[0], ps[bad[1]]), sig("subset-times"))


# --------------------------------------------------------------------------- case generation
def subsets(rng, name, N, quick):
    """(description, positions, default_full)"""
    out = [("full", list(range(N)), True)]
    lo = 2 if name == "ascat" else 1
    cap = 300
    k = rng.randint(lo, min(N, cap))
    out.append(("sorted%d" % k, sorted(rng.sample(range(N), k)), False))
    # siblings: selections of the same length with the same first and last position but another interior, asked right
    # after one another in the same process (an answer that depends on anything but the positions themselves - a
    # table keyed by length / end points, a result kept from the previous call - shows up here and nowhere else)
    srt = out[-1][1]
    pool = [p for p in range(srt[0] + 1, srt[-1]) if p not in set(srt)]
    if len(srt) >= 3 and pool:
        inner = list(srt[1:-1])
        m = min(max(1, len(inner) // 2), len(pool))
        for i_, p_ in zip(rng.sample(range(len(inner)), m), rng.sample(pool, m)):
            inner[i_] = p_
        out.append(("sibling%d" % len(srt), [srt[0]] + sorted(inner) + [srt[-1]], False))
    if N >= 6:
        out.append(("pairA", [0, 1, 2, N - 1], False))
        out.append(("pairB", [0, N // 2, N - 2, N - 1], False))
    a = rng.randrange(0, N - 1)
    b = rng.randrange(a + 2, N + 1)
    step = rng.choice([1, 1, 2, 3, 7, 40])
    sl = list(range(a, b, step))[:2 * cap]
    if len(sl) >= lo:
        out.append(("slice%d:%d:%d" % (a, b, step), sl, False))
    k = rng.randint(lo, min(N, 12))
    out.append(("unsorted%d" % k, [rng.randrange(N) for _ in range(k)], False))
    out.append(("edges", [0, N - 1], False))
    if name == "avhrr":
        out.append(("aapp40", list(range(24, 2048, 40)), False))
    if not quick:
        mid = N // 2
        out.append(("nadir", [mid - 1, mid], False))
        if name != "ascat":
            out.append(("single", [rng.randrange(N)], False))
    return out


def plan(ctx):
    rng = ctx.rng
    cases = []
    allnames = list(DOC) + list(SWATH)
    for name in allnames:
        N = DOC[name][0] if name in DOC else SWATH[name]
        D = DOC[name][1] if name in DOC else 1
        if ctx.quick:
            counts = sorted({1, 2, 50} | set(rng.sample(range(3, 50), 3)))
        else:
            counts = list(range(1, 51))
        # full-width geometries of the wide instruments only for some scan counts (cost), every count for selections
        if N * D <= 100:
            wide_ok = set(counts)
        elif ctx.quick:
            wide_ok = {2} | ({1, 50} if name == "avhrr" else set())
        else:
            wide_ok = {1, 2, 3, 7, 19, 50} if N * D < 100000 else {1, 2, 3, 10}
        for n in counts:
            subs = subsets(rng, name, N, ctx.quick)
            if name in ("viirs", "avhrr_gac", "olci", "slstr_nadir") and not ctx.quick:
                # cost (32 lines per VIIRS scan; same templates as avhrr / each other): full + sorted + one rotating kind per count
                rest = subs[2:]
                subs = subs[:2] + [rest[n % len(rest)]]
            for desc, ps, dflt in subs:
                if desc == "full" and n not in wide_ok:
                    continue
                if name in SWATH and desc not in ("full",) and len(ps) < 1:
                    continue
                cases.append((name, n, ps, desc, dflt))
    return cases


def run(ctx):
    ctx.rule = ("instruments {avhrr, avhrr_gac, amsua, mhs, hirs4, atms, mwhs2, viirs, ascat, olci, slstr_nadir} x scan counts "
                "(quick: 1, 2, 50 + 3 random; thorough: 1..50) x selections {full/default, random sorted subset, its sibling (same length and "
                "end points, other interior, asked next in the same process), fixed sibling pair, slice with step, "
                "unsorted with repeats, edges, aapp every-40th, nadir pair, single}; full-width geometries of the wide "
                "instruments (avhrr 2048, viirs 6400x32, olci, slstr) only for some scan counts; distinct = (instrument, scans, positions)")
    ctx.assumptions += [
        "hand-written templates M_Instruments.v tied to geoloc_instrument_definitions.py/geoloc.py by this run "
        "(model evaluated by vm_compute inside Coq on the same instrument, scan count and positions)",
        "model times use Coq primitive floats (IEEE binary64, same as numpy's float64) and are compared EXACTLY as integer ns; "
        "rows are compared through the digests (length, sum, weighted sum, first, last) and run lengths of equal rows",
        "model angles are exact rationals x unit (deg2rad(1), atan(11.87/2/824)); implementation angles compared within 1e-12 rad",
        "unbounded theorems are over exact rational arithmetic; the binary64 statements are proved for scans 0..50 (vm_compute sweep)",
        "default options only (scan_angle, frequency, apply_offset, chn_pixels, scan_lines, scan_step); avhrr_gac with an integer scan count",
        "numpy: float64 array * timedelta64(10^9,'ns') truncates the binary64 product toward zero (observed, modelled by ftrunc)",
        "oracle limits and periods transcribed from the docstrings/constants of the source: " +
        ", ".join("%s +-%s deg / %s s" % (k, v[2], float(v[3])) for k, v in DOC.items()),
    ]
    src, _names = numeric.regen_ast(ctx, "instruments", "the constants of amsua, mhs, hirs4, atms, mwhs2 and avhrr, evaluated exactly from the "
                                    "source text; the formulas that combine them stay the hand templates",
                                    optional=True)
    ctx.build_props("props/C19.v")
    if src is not None:
        ctx.build_props("props/C19_source.v")
    cases = plan(ctx)
    # batches bounded by the number of distinct model cells
    batches, cur, cells = [], [], 0
    for c in cases:
        name, n, ps = c[0], c[1], c[2]
        cost = n * len(ps) * (4 if name == "viirs" else 1)
        if cur and (cells + cost > 400000 or len(cur) >= 200):
            batches.append(cur)
            cur, cells = [], 0
        cur.append(c)
        cells += cost
    if cur:
        batches.append(cur)
    full_cache = {}
    for bi, batch in enumerate(batches):
        blocks, out = coq_cases("b%d" % bi, [(c[0], c[1], c[2]) for c in batch])
        if blocks is None:
            ctx.corr_fail("evaluation of M_Instruments in Coq", {"batch": bi, "first_case": list(batch[0][:2]), "error": out[-600:]})
            continue
        for (name, n, ps, desc, dflt), (mang, mtimes) in zip(batch, blocks):
            key = (name, n, tuple(ps))
            info = {"instrument": name, "scans": n, "positions": desc}
            try:
                fovs, ns = impl_arrays(name, n, ps, default_full=dflt)
            except Exception as e:  # noqa
                ctx.case(key)
                ctx.violation("definition function raises %s: %s" % (type(e).__name__, e),
                              {"signature": "C19:%s:n%d:%s:raises" % (name, n, desc), **info,
                               "position_list": "range(%d)" % len(ps) if list(ps) == list(range(len(ps))) else list(ps)})
                continue
            ctx.case(key, dict(info, fovs_shape=list(fovs.shape), first_line_ns=[int(x) for x in ns[0][:3]]) if desc == "edges" else None)
            oracle(ctx, name, n, ps, fovs, ns, desc, full_cache)
            # ---- correspondence
            units = (DEG, YMAX if name == "viirs" else 1.0)
            marr = expand_angles(mang, units)
            if marr is None or marr.shape != fovs.shape:
                ctx.corr_fail("M_Instruments.angles vs %s().fovs (shape)" % name,
                              dict(info, model=None if marr is None else list(marr.shape), impl=list(fovs.shape)))
            elif marr.size and np.abs(marr - fovs).max() > 1e-12:
                c, L, i = np.unravel_index(int(np.argmax(np.abs(marr - fovs))), marr.shape)
                ctx.corr_fail("M_Instruments.angles vs %s().fovs" % name,
                              dict(info, plane=int(c), line=int(L), position=int(ps[i]), model=float(marr[c, L, i]), impl=float(fovs[c, L, i])))
            mexp = [to_tuple(d) for cnt, d in mtimes for _ in range(cnt)]
            iexp = []
            for cnt, d, _ in impl_time_runs(ns):
                iexp += [to_tuple(d)] * cnt
            if iexp != mexp:
                detail = dict(info, model_lines=len(mexp), impl_lines=int(ns.shape[0]))
                if ns.ndim == 2 and name in DOC and len(mexp) == ns.shape[0]:
                    # locate the first differing line and element
                    L = next(L for L in range(len(mexp)) if iexp[L] != mexp[L])
                    row = coq_row(name, n, ps, L)
                    detail["line"] = L
                    if row is not None and len(row) == ns.shape[1]:
                        j = next((j for j in range(len(row)) if row[j] != int(ns[L, j])), 0)
                        detail.update(position=int(ps[j]), model_ns=int(row[j]), impl_ns=int(ns[L, j]))
                    else:
                        detail.update(model=str(mexp[L]), impl=str(iexp[L]))
                ctx.corr_fail("M_Instruments.times B64 vs %s().times(start) [ns]" % name, detail)


def replay(ctx, rp):
    """re-run the oracle on the failing inputs of a replay file"""
    seen = set()
    for f in rp.get("failing_inputs", []):
        pl = f.get("position_list")
        ps = list(range(int(pl[6:-1]))) if isinstance(pl, str) else [int(p) for p in pl]
        key = (f["instrument"], f["scans"], tuple(ps))
        if key in seen:
            continue
        seen.add(key)
        try:
            fovs, ns = impl_arrays(f["instrument"], f["scans"], ps, default_full=f.get("positions") == "full")
        except Exception as e:  # noqa
            ctx.violation("definition function raises %s: %s" % (type(e).__name__, e), dict(f))
            continue
        oracle(ctx, f["instrument"], f["scans"], ps, fovs, ns, f.get("positions", "replay"), {})
    for v in ctx.violations:
        print("VIOLATION property=C19 %s: %s" % (v.get("signature"), v.get("what")))
    if not ctx.violations:
        print("OK property=C19 replay: no failing input reproduces")
    return 1 if ctx.violations else 0
