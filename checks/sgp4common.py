"""Shared by C01 / C13: evaluate the generated SGP4 decision trees in binary64 and compare with the
implementation (translator self-check), and classify implementation outcomes."""
import re

import numpy as np

from harness import common


def walk(tree, cond):
    while tree[0] == "node":
        tree = tree[2] if cond(tree[1]) else tree[3]
    return tree[1]


def tle_env(tle):
    return {"e0": float(tle.excentricity), "incl_deg": float(tle.inclination), "raan_deg": float(tle.right_ascension),
            "argp_deg": float(tle.arg_perigee), "ma_deg": float(tle.mean_anomaly), "n_revday": float(tle.mean_motion),
            "bstar": float(tle.bstar)}


def impl_init(l1, l2):
    from pyorbital.orbital import Orbital, OrbitalError
    try:
        with common.time_limit(20):
            return "ok", Orbital("X", line1=l1, line2=l2)
    except OrbitalError:
        return "InitOrbitalError", None
    except NotImplementedError:
        return "InitNotImplemented", None
    except Exception as e:
        return "raise:" + type(e).__name__, None


def impl_prop(orb, t):
    try:
        with common.time_limit(20):
            pos, vel = orb.get_position(t, normalize=False)
        return "ok", (pos, vel)
    except NotImplementedError:
        return "NotImpl", None
    except ValueError:
        return "PropEccLow", None
    except common.Timeout:
        return "hang", None
    except Exception as e:
        return ("PropCrash" if type(e) is Exception else "raise:" + type(e).__name__), None


def model_outcome(tr, env):
    """(init leaf string, prop leaf string or None, kep dict or None) from the generated trees"""
    import symtrace as st
    import gen_sgp4
    g = tr.g
    _, cond = st.evalf(g, env, [])
    leaf = walk(tr.trees["init"], cond)
    m = re.match(r"\(InitMode (\w+) (\d+)\)", leaf)
    if not m:
        return leaf, None, None
    mode, li = m.group(1), int(m.group(2))
    if mode != "NearNorm":
        return leaf, "NotImpl", None
    info = tr.trees["prop"][li]
    try:
        pl = walk(info["tree"], cond)
    except (ValueError, ZeroDivisionError, OverflowError):
        return leaf, "undefined", None
    m = re.match(r"\(PropOk (\d+)\)", pl)
    if not m:
        return leaf, pl, None
    ex = info["exits"][int(m.group(1))]
    vals, _ = st.evalf(g, env, [ex[k] for k in gen_sgp4.KEP_OUT])
    return leaf, pl, dict(zip(gen_sgp4.KEP_OUT, vals))


def selfcheck(ctx, tr, cases, label="Gen_sgp4 (binary64 trees + DAG) vs Orbital"):
    """cases: iterable of (l1, l2, minutes).  Compares outcome classes and the state."""
    from pyorbital import tlefile
    from pyorbital.orbital import kep2xyz
    stats = {}
    for l1, l2, minutes in cases:
        try:
            tle = tlefile.Tle("X", line1=l1, line2=l2)
        except Exception:
            continue
        env = tle_env(tle)
        ep = tle.epoch.astype("datetime64[us]")
        t = ep + np.timedelta64(int(minutes * 60e6), "us")
        env["ts"] = float((t - ep) / np.timedelta64(1, "m"))
        iclass, orb = impl_init(l1, l2)
        try:
            leaf, pleaf, kep = model_outcome(tr, env)
        except (ValueError, ZeroDivisionError, OverflowError) as e:
            leaf, pleaf, kep = "undefined:" + type(e).__name__, None, None
        key = None
        if iclass != "ok":
            key = iclass
            if leaf != iclass:
                ctx.corr_fail(label, {"line1": l1, "line2": l2, "model": leaf, "impl": iclass})
        else:
            pclass, state = impl_prop(orb, t)
            key = leaf.split()[1] + ":" + pclass if leaf.startswith("(InitMode") else leaf + ":" + pclass
            if not leaf.startswith("(InitMode"):
                ctx.corr_fail(label, {"line1": l1, "line2": l2, "model": leaf, "impl": "constructed"})
            elif pclass != "ok":
                if pleaf != pclass:
                    ctx.corr_fail(label, {"line1": l1, "line2": l2, "minutes": env["ts"], "model": pleaf, "impl": pclass})
            else:
                if kep is None:
                    ctx.corr_fail(label, {"line1": l1, "line2": l2, "minutes": env["ts"], "model": pleaf, "impl": "state returned"})
                else:
                    p2, v2 = kep2xyz(kep)
                    err = float(np.abs(p2 - state[0]).max())
                    errv = float(np.abs(v2 - state[1]).max())
                    scale_p = float(np.abs(state[0]).max())
                    scale_v = float(np.abs(state[1]).max())
                    # physical magnitudes: 1 mm; far outside (accepted element sets whose drag polynomial has run away,
                    # |r| up to 1e19 km) rounding differences of the two evaluation orders are amplified: relative 1e-6
                    rel = 1e-9 if scale_p <= 1e5 else 1e-6
                    if not (err <= 1e-6 + rel * scale_p and errv <= 1e-9 + rel * scale_v):
                        ctx.corr_fail(label, {"line1": l1, "line2": l2, "minutes": env["ts"], "model_leaf": pleaf,
                                              "pos_err_km": err, "vel_err_kms": errv})
        stats[key] = stats.get(key, 0) + 1
        ctx.case(("self", l1, l2, round(env["ts"], 6)), {"line1": l1, "line2": l2, "minutes": env["ts"], "class": key} if len(ctx.samples) < 3 else None)
    ctx.extra.setdefault("selfcheck_outcome_distribution", {}).update(stats)
