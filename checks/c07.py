"""C07 — geolocated pixels lie on the WGS-84 ellipsoid along the line of sight.
Tie: T-gen (Gen_geoloc regenerated from geoloc.py: compute_pixels core, ScanGeometry.vectors)
+ translator self-check + oracle on the implementation (independent ray/ellipsoid intersection in
exact rational arithmetic for the hit/miss decision, independent numpy formulas otherwise)."""
import math
from fractions import Fraction

import numpy as np

from harness import common, numeric, tlegen

LEVEL = "proof"
A = 6378.137
B = 6356.752314245
AQ = Fraction(6378137, 1000)
BQ = Fraction(6356752314245, 10 ** 9)
DEG = math.pi / 180


def form(p):
    return (p[0] ** 2 + p[1] ** 2) / A ** 2 + p[2] ** 2 / B ** 2


def exact_disc(pos, view):
    """sign-exact discriminant of |pos + d view|_E = 1 (E the WGS-84 form), relative to its scale"""
    x, y, z = (Fraction(float(c)) for c in pos)
    lx, ly, lz = (Fraction(float(c)) for c in view)
    a2, b2 = AQ * AQ, BQ * BQ
    qa = (lx * lx + ly * ly) / a2 + lz * lz / b2
    qb = (x * lx + y * ly) / a2 + z * lz / b2
    qc = (x * x + y * y) / a2 + z * z / b2 - 1
    disc = qb * qb - qa * qc
    scale = qb * qb + abs(qa * qc)
    return float(disc / scale) if scale else 0.0, float(qa), float(qb), float(qc)


class StubOrb:
    """an 'orbit' given by explicit position / velocity arrays (what compute_pixels asks of orb)"""

    def __init__(self, pos, vel):
        self.pos, self.vel = pos, vel

    def get_position(self, times, normalize=True):
        assert normalize is False
        return self.pos.copy(), self.vel.copy()


def rand_shape(rng):
    if rng.random() < 0.5:
        return (rng.randint(1, 8),)
    return (rng.randint(1, 3), rng.randint(1, 5))


def rand_angles(rng, shape, lo, hi, wide=None):
    n = int(np.prod(shape))
    out = []
    for _ in range(n):
        k = rng.random()
        if k < 0.08:
            out.append(0.0)
        elif k < 0.16:
            out.append(rng.choice([lo, hi]))
        elif wide is not None and k < 0.28:
            out.append(rng.choice([-1, 1]) * rng.uniform(*wide))     # beyond the horizon on purpose
        else:
            out.append(rng.uniform(lo, hi))
    return np.array(out).reshape(shape) * DEG


def rand_state(rng, shape):
    """explicit pos/vel pairs: 200 .. 40000 km altitude, velocity roughly horizontal"""
    n = int(np.prod(shape))
    pos = np.empty((3, n))
    vel = np.empty((3, n))
    for j in range(n):
        while True:
            d = np.array([rng.gauss(0, 1) for _ in range(3)])
            if np.linalg.norm(d) > 1e-3:
                break
        d /= np.linalg.norm(d)
        r = 6378.0 + (rng.uniform(200, 2000) if rng.random() < 0.7 else 10 ** rng.uniform(math.log10(200), math.log10(40000)))
        pos[:, j] = r * d
        while True:
            w = np.array([rng.gauss(0, 1) for _ in range(3)])
            h = w - (w @ d) * d
            if np.linalg.norm(h) > 1e-2:
                break
        h /= np.linalg.norm(h)
        speed = math.sqrt(398600.8 / r) * rng.uniform(0.8, 1.3)
        fpa = rng.uniform(-0.3, 0.3)                 # flight-path angle, rad
        vel[:, j] = speed * (math.cos(fpa) * h + math.sin(fpa) * d)
    return pos.reshape((3,) + shape), vel.reshape((3,) + shape)


def run(ctx):
    from pyorbital import geoloc
    from pyorbital.orbital import Orbital
    rng = ctx.rng
    ctx.rule = ("random near-earth TLEs (harness.tlegen) x scan start within +-3 days of epoch x per-pixel offsets 0..100 s "
                "x across-track angles in [-70,70] deg (12% pushed to 72..89 deg to miss on purpose, 8% zero, 8% at the bounds) "
                "x along-track [-10,10] deg x roll/pitch/yaw within +-5 deg x shapes (n<=8,) and (m<=3, n<=5); 30% of the cases "
                "use explicit pos/vel pairs (200..40000 km altitude) through a stub orbit object; distinct = distinct inputs")
    ctx.assumptions += [
        "Orbital.get_position is taken as the source of the orbit state (its conformance is C01's subject)",
        "binary64 rounding is not proved: 1e-9 ellipsoid residual, on-ray residual, unit norm, 10 m altitude are sampled",
        "hit/miss is decided independently in exact rational arithmetic on the float pos/view; cases with a relative "
        "discriminant below 1e-9 (grazing rays, where binary64 cannot decide) are not judged",
        "'NaN exactly when the ray misses': over the reals Coq's sqrt of a negative number is 0, so the theorem C07_miss is on "
        "the discriminant's sign; that the implementation yields NaN exactly then is a correspondence/oracle check",
        "nadir within 0.2 deg of geocentric nadir, the across/along-track sense, 2-D shapes, termination and the 10 m altitude "
        "of get_lonlatalt are validated by sampling; the loop-exit model M_VecLoop.v is hand-written from lines 197-202 / 54-59",
        "ScanGeometry.vectors is traced with geodetic_lat replaced by a free latitude symbol (the theorems hold for every value of it)",
        "translator (symtrace/emit/gen_geoloc) trusted for 'emitted term = what the code computes over R'; self-checked each run",
    ]

    # ---- 1. regenerate the model + translator self-check --------------------------------------
    numeric.regen(ctx, "astronomy")   # the latitude-loop theorems (P_LatLoop) are stated on Gen_orbital
    numeric.regen(ctx, "orbital")
    tr, defs = numeric.regen(ctx, "geoloc")
    if tr is not None:
        def gen_env(r):
            while True:
                env = gen_env0(r)
                if abs(exact_disc((env["x"], env["y"], env["z"]), (env["lx"], env["ly"], env["lz"]))[0]) > 1e-6:
                    return env          # grazing rays amplify last-bit differences through the square root

        def gen_env0(r):
            (pos, vel) = rand_state(r, (1,))
            pos, vel = pos[:, 0], vel[:, 0]
            nad = -pos / np.linalg.norm(pos)
            while True:
                w = np.array([r.gauss(0, 1) for _ in range(3)])
                if np.linalg.norm(np.cross(w, nad)) > 1e-2:
                    break
            off = r.uniform(0, 75) * DEG if r.random() < 0.8 else r.uniform(75, 120) * DEG
            side = np.cross(nad, w)
            side /= np.linalg.norm(side)
            view = math.cos(off) * nad + math.sin(off) * side
            view *= r.choice([1.0, 1.0, r.uniform(0.5, 2.0)])
            env = {"x": pos[0], "y": pos[1], "z": pos[2], "lx": view[0], "ly": view[1], "lz": view[2],
                   "px": pos[0], "py": pos[1], "pz": pos[2], "ux": vel[0], "uy": vel[1], "uz": vel[2],
                   "f0": r.uniform(-70, 70) * DEG, "f1": r.uniform(-10, 10) * DEG,
                   "roll": r.uniform(-5, 5) * DEG, "pitch": r.uniform(-5, 5) * DEG, "yaw": r.uniform(-5, 5) * DEG}
            env = {k: float(v) for k, v in env.items()}
            env["lat"] = float(geoloc.geodetic_lat((-env["px"], -env["py"], -env["pz"])))   # the value vectors() uses
            return env

        class _Sg:
            def __init__(self, view):
                self.view = view

            def vectors(self, pos, vel, *rpy):
                return self.view

        def impl(name, env):
            comp = "xyz".index(name[-1])
            if name.startswith("gen_pixel_"):
                pos = np.array([[env["x"]], [env["y"]], [env["z"]]])
                view = np.array([[env["lx"]], [env["ly"]], [env["lz"]]])
                with np.errstate(invalid="ignore"):
                    return float(geoloc.compute_pixels(StubOrb(pos, pos), _Sg(view), None)[comp, 0])
            pos = np.array([[env["px"]], [env["py"]], [env["pz"]]])
            vel = np.array([[env["ux"]], [env["uy"]], [env["uz"]]])
            sg = geoloc.ScanGeometry(np.array([[env["f0"]], [env["f1"]]]), np.array([0.0]))
            return float(sg.vectors(pos, vel, env["roll"], env["pitch"], env["yaw"])[comp, 0])
        names = ["gen_pixel_x", "gen_pixel_y", "gen_pixel_z", "gen_vectors_x", "gen_vectors_y", "gen_vectors_z"]
        numeric.selfcheck(ctx, tr, defs, names, gen_env, impl, n=ctx.n(150, 1500), rtol=1e-9, atol=1e-7)

        def gen_env_hit(r):
            while True:
                env = gen_env(r)
                if exact_disc((env["x"], env["y"], env["z"]), (env["lx"], env["ly"], env["lz"]))[0] > 1e-3:
                    return env
        pt = ["gen_pixel_x", "gen_pixel_y", "gen_pixel_z"]
        numeric.coq_point_check(ctx, "Gen_geoloc", defs, pt, gen_env_hit, impl, n=2, tol="1/1000000",
                                unfold="gen_pixel_x gen_pixel_y gen_pixel_z gen_pixel_d1 gen_pixel_disc gen_pixel_ldotc gen_pixel_lsq")

    # ---- 2. proofs -------------------------------------------------------------------------------
    ctx.build_props("props/C07.v")

    # ---- 3. oracle ---------------------------------------------------------------------------------
    def judge_columns(sig, base, pos, vec, pix):
        """pos, vec, pix: (3, n).  Ellipsoid equation, on the ray at the nearer root, horizon, NaN iff miss, unit."""
        n = pos.shape[1]
        for j in range(n):
            p, v, x = pix[:, j], vec[:, j], pos[:, j]
            cb = dict(base, column=j, pos=x.tolist(), view=v.tolist(), pixel=p.tolist())
            s = "%s:%d" % (sig, j)
            if not abs(float(np.linalg.norm(v)) - 1) <= 1e-9:
                ctx.violation("view vector does not have unit length", {"signature": s + ":unit", **cb, "norm": float(np.linalg.norm(v))})
            rel, qa, qb, qc = exact_disc(x, v)
            isnan = bool(np.isnan(p).any())
            if isnan != bool(np.isnan(p).all()):
                ctx.violation("pixel is partly NaN", {"signature": s + ":partnan", **cb})
                continue
            if abs(rel) <= 1e-9:
                continue                                   # grazing: not decidable in binary64
            if rel < 0:
                if not isnan:
                    ctx.violation("ray misses the ellipsoid but the pixel is not NaN", {"signature": s + ":miss", **cb, "rel_disc": rel})
                continue
            if isnan:
                ctx.violation("ray meets the ellipsoid but the pixel is NaN", {"signature": s + ":nan", **cb, "rel_disc": rel})
                continue
            if not abs(form(p) - 1) <= 1e-9:
                ctx.violation("pixel does not satisfy the WGS-84 ellipsoid equation to 1e-9",
                              {"signature": s + ":ell", **cb, "form": float(form(p))})
            d = float((p - x) @ v) / float(v @ v)
            res = float(np.linalg.norm(p - x - d * v))
            if not res <= 1e-9 * float(np.linalg.norm(x)):
                ctx.violation("pixel is not on the ray from the satellite along the view vector",
                              {"signature": s + ":ray", **cb, "residual_km": res})
            # nearer intersection: d1 = (-qb - sqrt(qb^2 - qa qc)) / qa <= the other root; reference in float from exact pieces
            sq = math.sqrt(max(qb * qb - qa * qc, 0.0))
            d_near, d_far = (-qb - sq) / qa, (-qb + sq) / qa
            tol_d = 1e-9 * abs(d_far) + 1e-7 / max(math.sqrt(rel), 1e-6)
            if not abs(d - d_near) <= tol_d:
                ctx.violation("pixel is not at the nearer of the two intersections",
                              {"signature": s + ":near", **cb, "d": d, "d_near": d_near, "d_far": d_far})
            if qc > 0 and qb < 0 and not d > 0:
                ctx.violation("pixel is behind the satellite", {"signature": s + ":behind", **cb, "d": d})
            grad = np.array([2 * p[0] / A ** 2, 2 * p[1] / A ** 2, 2 * p[2] / B ** 2])
            hz = float(grad @ (x - p))
            if d >= 0 and not hz >= -1e-9:
                ctx.violation("satellite is below the horizon of its pixel (far intersection chosen)",
                              {"signature": s + ":horizon", **cb, "grad_dot": hz})

    hangs = 0
    for i in range(ctx.n(1500, 12000)):
        shape = rand_shape(rng)
        n = int(np.prod(shape))
        f0 = rand_angles(rng, shape, -70, 70, wide=(72, 89))
        f1 = rand_angles(rng, shape, -10, 10)
        offs = np.array([rng.uniform(0, 100) for _ in range(n)]).reshape(shape)
        rpy = tuple(rng.choice([0.0, rng.uniform(-5, 5) * DEG]) for _ in range(3))
        explicit = rng.random() < 0.3
        base = {"shape": list(shape), "fov_across_deg": (f0 / DEG).tolist(), "fov_along_deg": (f1 / DEG).tolist(),
                "offsets_s": offs.tolist(), "rpy_rad": list(rpy)}
        sig = "C07:%s:%d" % ("state" if explicit else "tle", i)
        ctx.case(("px", i, shape, explicit), dict(base, explicit=explicit) if i < 2 else None)
        try:
            with common.time_limit(60), np.errstate(invalid="ignore"):
                sg = geoloc.ScanGeometry(np.stack([f0, f1]), offs)
                if explicit:
                    pos, vel = rand_state(rng, shape)
                    base.update(pos=pos.tolist(), vel=vel.tolist())
                    orb = StubOrb(pos, vel)
                    t0 = np.datetime64("2020-01-01T00:00:00") + np.timedelta64(rng.randint(0, 86400 * 365), "s")
                    times = sg.times(t0)
                    arg = orb
                else:
                    l1, l2 = tlegen.random_tle(rng)
                    base.update(line1=l1, line2=l2)
                    orb = Orbital("sat", line1=l1, line2=l2)
                    t0 = np.datetime64(orb.tle.epoch) + np.timedelta64(int(rng.uniform(-3, 3) * 86400e6), "us")
                    base["start"] = str(t0)
                    times = sg.times(t0)
                    pos, vel = orb.get_position(times, normalize=False)
                    arg = (l1, l2) if rng.random() < 0.5 else orb
                pix = geoloc.compute_pixels(arg, sg, times, rpy)
                vec = sg.vectors(pos.copy(), vel.copy(), *rpy)
        except common.Timeout:
            ctx.violation("compute_pixels did not return", {"signature": sig + ":hang", **base})
            continue
        except Exception as e:
            if not explicit and type(e).__name__ in ("OrbitalError", "NotImplementedError", "ChecksumError"):
                continue                       # TLE not accepted by Orbital: out of the quantifier
            ctx.violation("compute_pixels raised %s" % type(e).__name__, {"signature": sig + ":raise", **base, "error": str(e)[:200]})
            continue
        if pix.shape != (3,) + shape or vec.shape != (3,) + shape:
            ctx.violation("compute_pixels / vectors do not return (3,) + the pixel shape",
                          {"signature": sig + ":shape", **base, "pixels_shape": list(pix.shape), "vectors_shape": list(vec.shape)})
            continue
        P, V, X, U = pix.reshape(3, -1), vec.reshape(3, -1), pos.reshape(3, -1), vel.reshape(3, -1)
        judge_columns(sig, base, X, V, P)

        # --- view-vector geometry
        try:
            with common.time_limit(60):
                zero = np.zeros((2,) + shape)
                v0 = geoloc.ScanGeometry(zero, offs).vectors(pos.copy(), vel.copy()).reshape(3, -1)
                v_add = geoloc.ScanGeometry(np.stack([f0 + rpy[0], f1 + rpy[1]]), offs).vectors(pos.copy(), vel.copy(), 0.0, 0.0, rpy[2]).reshape(3, -1)
                v_noyaw = sg.vectors(pos.copy(), vel.copy(), rpy[0], rpy[1], 0.0).reshape(3, -1)
                v_yaw2 = sg.vectors(pos.copy(), vel.copy(), rpy[0], rpy[1], rng.uniform(-5, 5) * DEG).reshape(3, -1)
                v_across = geoloc.ScanGeometry(np.stack([f0, 0 * f1]), offs).vectors(pos.copy(), vel.copy()).reshape(3, -1)
                v_along = geoloc.ScanGeometry(np.stack([0 * f0, f1]), offs).vectors(pos.copy(), vel.copy()).reshape(3, -1)
                v_both = geoloc.ScanGeometry(np.stack([f0, f1]), offs).vectors(pos.copy(), vel.copy()).reshape(3, -1)
                # the SAME geometry object asked again with another attitude (a geometry is built once per instrument and
                # reused for every granule): judged against a geometry built afresh for that attitude
                rpy2 = tuple(rng.uniform(-3, 3) * DEG for _ in range(3))
                v_re = sg.vectors(pos.copy(), vel.copy(), *rpy2).reshape(3, -1)
                v_re_ref = geoloc.ScanGeometry(np.stack([f0 + rpy2[0], f1 + rpy2[1]]), offs).vectors(pos.copy(), vel.copy(), 0.0, 0.0, rpy2[2]).reshape(3, -1)
                with np.errstate(invalid="ignore"):
                    pix_re = geoloc.compute_pixels(arg, sg, times, rpy2).reshape(3, -1)
        except Exception as e:
            ctx.violation("ScanGeometry.vectors raised %s" % type(e).__name__, {"signature": sig + ":vraise", **base, "error": str(e)[:200]})
            continue
        geoc = -X / np.sqrt((X ** 2).sum(0))
        ang0 = np.degrees(np.arccos(np.clip((v0 * geoc).sum(0), -1, 1)))
        j = int(np.argmax(ang0))
        if not ang0[j] <= 0.2:
            ctx.violation("zero scan angles and attitude do not give the nadir direction within 0.2 deg of geocentric nadir",
                          {"signature": sig + ":nadir", **base, "column": j, "pos": X[:, j].tolist(), "angle_deg": float(ang0[j])})
        base2 = dict(base, rpy_rad=list(rpy2), earlier_query_on_the_same_geometry_object_rpy_rad=list(rpy))
        if not np.abs(v_re - v_re_ref).max() <= 1e-12:
            ctx.violation("a geometry object asked a second time, with another attitude: roll/pitch do not add to the across-/along-track scan angles",
                          {"signature": sig + ":adds-reused", **base2, "max_difference": float(np.abs(v_re - v_re_ref).max())})
        judge_columns(sig + ":reused", base2, X, v_re_ref, pix_re)
        if not np.abs(V - v_add).max() <= 1e-12:
            ctx.violation("roll/pitch do not add to the across-/along-track scan angles",
                          {"signature": sig + ":adds", **base, "max_difference": float(np.abs(V - v_add).max())})
        for nm, va in (("V", V), ("v_yaw2", v_yaw2)):
            c1, c2 = (va * v0).sum(0), (v_noyaw * v0).sum(0)
            if not np.abs(c1 - c2).max() <= 1e-9:
                ctx.violation("yaw changes the off-nadir angle",
                              {"signature": sig + ":yaw", **base, "cos_with_yaw": c1.tolist(), "cos_without": c2.tolist()})
                break
        right = np.cross(v0, U, axis=0)
        rn = np.sqrt((right ** 2).sum(0))
        un = np.sqrt((U ** 2).sum(0))
        F0, F1 = f0.reshape(-1), f1.reshape(-1)
        hvel = U - (U * v0).sum(0) * v0                    # velocity component perpendicular to nadir
        for j in range(n):
            cb = dict(base, column=j, pos=X[:, j].tolist(), vel=U[:, j].tolist())
            ar = float(v_across[:, j] @ right[:, j]) / rn[j]
            ar2 = float(v_both[:, j] @ right[:, j]) / rn[j]
            if abs(F0[j]) > 1e-6:
                if not (ar * F0[j] > 0 and ar2 * F0[j] > 0):
                    ctx.violation("positive across-track angle does not tilt the view to the right of the velocity",
                                  {"signature": sig + ":%d:across" % j, **cb, "angle_rad": F0[j], "component_right": ar, "with_along": ar2})
            al = float(v_along[:, j] @ hvel[:, j])
            al2 = float((v_both[:, j] - v_across[:, j]) @ U[:, j])
            if abs(F1[j]) > 1e-6:
                # combined with an across-track angle: judged only inside the quantifier (|across| <= 70 deg); the
                # angles beyond it exist to produce misses, and there cos(across) -> 0 lets the radial velocity dominate
                in_scope = abs(F0[j]) <= 70 * DEG + 1e-12
                if not (al * F1[j] < 0 and (al2 * F1[j] < 0 or not in_scope)):
                    ctx.violation("positive along-track angle does not tilt the view backward",
                                  {"signature": sig + ":%d:along" % j, **cb, "angle_rad": F1[j], "component_forward": al, "with_across": al2})

        # --- lon/lat/alt of the pixels: terminates, |alt| <= 10 m on the ellipsoid, NaN exactly for the missed
        if hangs >= 2:
            continue                    # already reported twice; do not wait for every further time-out
        try:
            with common.time_limit(30), np.errstate(invalid="ignore"):
                lon, lat, alt = geoloc.get_lonlatalt(pix.copy(), times)
        except common.Timeout:
            hangs += 1
            ctx.violation("get_lonlatalt did not terminate on the computed pixels%s" % (" (NaN pixels present)" if np.isnan(P).any() else ""),
                          {"signature": sig + ":lla_hang", **base, "pixels": pix.tolist()})
            continue
        except Exception as e:
            ctx.violation("get_lonlatalt raised %s" % type(e).__name__, {"signature": sig + ":lla_raise", **base, "error": str(e)[:200]})
            continue
        lon, lat, alt = (np.asarray(q, dtype=float).reshape(-1) for q in (lon, lat, alt))
        missed = np.isnan(P).any(0)
        for j in range(n):
            cb = dict(base, column=j, pixel=P[:, j].tolist())
            nn = [bool(np.isnan(q[j])) for q in (lon, lat, alt)]
            if missed[j] != all(nn) or missed[j] != any(nn):
                ctx.violation("lon/lat/alt are not NaN exactly for the missed pixels",
                              {"signature": sig + ":%d:lla_nan" % j, **cb, "lonlatalt": [float(lon[j]), float(lat[j]), float(alt[j])]})
            elif not missed[j]:
                if not abs(alt[j]) <= 0.01:
                    ctx.violation("altitude of a pixel on the ellipsoid is more than 10 m from zero",
                                  {"signature": sig + ":%d:alt" % j, **cb, "alt_km": float(alt[j])})
                if not (-180 <= lon[j] <= 180 and -90 <= lat[j] <= 90):
                    ctx.violation("lon/lat out of range", {"signature": sig + ":%d:range" % j, **cb, "lon": float(lon[j]), "lat": float(lat[j])})
