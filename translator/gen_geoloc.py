"""Regenerate coq/gen/Gen_geoloc.v from /repo/pyorbital/geoloc.py.

Traced per column, 3-vectors as object ndarrays of symbolic numbers:
  qrotate (every axis/angle/shape variant), subpoint (geodetic_lat replaced by a fresh
  input `lat`), one step / the first iterate of geodetic_lat, the core of compute_pixels
  (stub orbit and stub scan geometry returning symbolic pos / view), ScanGeometry.vectors
  (geodetic_lat replaced by the input `lat`).
"""
import json
import os
import sys

import numpy as np

sys.path.insert(0, os.path.dirname(__file__))
import symtrace as st  # noqa: E402
import emit  # noqa: E402

V3 = ["vx", "vy", "vz"]
A3 = ["ax", "ay", "az"]
W3 = ["wx", "wy", "wz"]
B3 = ["ex", "ey", "ez"]   # ("by" is a Coq keyword)


def _arr(tr, names, shape):
    a = np.empty(len(names), dtype=object)
    for i, n in enumerate(names):
        a[i] = st.new_input(tr, n)
    return a.reshape(shape)


def _cols(tr, *triples):
    """(3, n) object array whose column j is triples[j]"""
    out = np.empty((3, len(triples)), dtype=object)
    for j, names in enumerate(triples):
        for i, n in enumerate(names):
            out[i, j] = st.new_input(tr, n)
    return out


def _vec1(tr, names):
    a = np.empty(len(names), dtype=object)
    for i, n in enumerate(names):
        a[i] = st.new_input(tr, n)
    return a


def abstract_node(g, node, name):
    """copy of graph g in which `node` is replaced by a new input `name`
    (the rest of the DAG is untouched: g.nodes[i] for i != node)."""
    g2 = st.Graph()
    g2.nodes = list(g.nodes)
    g2.index = dict(g.index)
    g2.inputs = list(g.inputs) + [name]
    g2.nodes[node] = ("in", name)
    return g2


def _unique(g, root, op):
    nodes, _ = emit.cone(g, [root])
    found = [i for i in nodes if g.nodes[i][0] == op]
    if len(found) != 1:
        raise st.Unsupported("expected exactly one %s node under %d, found %d" % (op, root, len(found)))
    return found[0]


def trace(repo="/repo"):
    tr = st.Tracer()
    ld = st.Loader(repo)
    geo = st.with_tracer(tr, lambda: ld.load("geoloc"))

    def run(fn):
        return st.with_tracer(tr, fn)

    defs = []      # (name, inputs, node)
    graphs = {}    # name -> graph to print / evaluate with, when not tr.g
    ang = st.new_input(tr, "ang")
    bng = st.new_input(tr, "bng")
    ins1 = V3 + A3 + ["ang"]

    def add3(prefix, ins, arr3):
        for nm, s in zip("xyz", arr3):
            defs.append(("%s_%s" % (prefix, nm), list(ins), s.n))

    # ---- qrotate, one column -------------------------------------------------------------
    v = _arr(tr, V3, (3,))
    a = _arr(tr, A3, (3,))
    add3("gen_qrotate", ins1, run(lambda: geo.qrotate(v, a, ang)))                       # (3,), (3,), float
    v1, a1 = v.reshape(3, 1), a.reshape(3, 1)
    ang1 = _vec1(tr, ["ang"])
    ang0 = np.empty((), dtype=object)
    ang0[()] = ang
    add3("gen_qrotate_cs", ins1, run(lambda: geo.qrotate(v1, a1, ang))[:, 0])            # (3,1), per-column axis, float
    add3("gen_qrotate_ca", ins1, run(lambda: geo.qrotate(v1, a1, ang1))[:, 0])           # (3,1), per-column axis, angle (1,)
    add3("gen_qrotate_ss", ins1, run(lambda: geo.qrotate(v1, a, ang))[:, 0])             # (3,1), shared (3,), float
    add3("gen_qrotate_sa", ins1, run(lambda: geo.qrotate(v1, a, ang1))[:, 0])            # (3,1), shared (3,), angle (1,)
    add3("gen_qrotate_s0", ins1, run(lambda: geo.qrotate(v1, a, ang0))[:, 0])            # (3,1), shared (3,), 0-d angle
    # ---- two columns: column 1 of the result depends only on column 1 of the inputs ---------
    v2 = _cols(tr, V3, W3)
    a2 = _cols(tr, A3, B3)
    ang2 = _vec1(tr, ["ang", "bng"])
    ins2 = V3 + W3 + A3 + B3 + ["ang", "bng"]
    add3("gen_qrotate2_pp_c1", ins2, run(lambda: geo.qrotate(v2, a2, ang2))[:, 1])       # per-column axis and angle
    add3("gen_qrotate2_pp_c0", ins2, run(lambda: geo.qrotate(v2, a2, ang2))[:, 0])
    add3("gen_qrotate2_ps_c1", V3 + W3 + A3 + B3 + ["ang"], run(lambda: geo.qrotate(v2, a2, ang))[:, 1])
    add3("gen_qrotate2_sp_c1", V3 + W3 + A3 + ["ang", "bng"], run(lambda: geo.qrotate(v2, a, ang2))[:, 1])
    add3("gen_qrotate2_ss_c1", V3 + W3 + A3 + ["ang"], run(lambda: geo.qrotate(v2, a, ang))[:, 1])
    add3("gen_qrotate2_s1s_c1", V3 + W3 + A3 + ["ang"], run(lambda: geo.qrotate(v2, a1, ang))[:, 1])   # shared (3,1) axis
    # ---- a (3, 1, 2) stack, per-column axis and angle ------------------------------------------
    v3 = v2.reshape(3, 1, 2)
    a3 = a2.reshape(3, 1, 2)
    ang3 = ang2.reshape(1, 2)
    r3 = run(lambda: geo.qrotate(v3, a3, ang3))
    if r3.shape != (3, 1, 2):
        raise st.Unsupported("qrotate changed the shape of a (3,1,2) stack to %r" % (r3.shape,))
    add3("gen_qrotate3_pp_c1", ins2, r3[:, 0, 1])
    add3("gen_qrotate3_ss_c1", V3 + W3 + A3 + ["ang"], run(lambda: geo.qrotate(v3, a, ang))[:, 0, 1])

    # ---- subpoint with geodetic_lat := the input `lat` ------------------------------------------
    x, y, z = (st.new_input(tr, n) for n in ("x", "y", "z"))
    lat = st.new_input(tr, "lat")
    real_geodetic_lat = geo.geodetic_lat

    def _lat_stub(point, *a_, **k_):
        p0 = point[0]
        if isinstance(p0, np.ndarray):        # the real function returns one latitude per column
            out = np.empty(p0.shape, dtype=object)
            out[...] = lat
            return out
        return lat
    geo.geodetic_lat = _lat_stub
    try:
        sp = run(lambda: geo.subpoint((x, y, z)))
        add3("gen_subpoint", ["x", "y", "z", "lat"], sp)
        # ---- ScanGeometry.vectors for one column (pos, vel symbolic; nadir via subpoint(lat)) -----
        pos = _cols(tr, ["px", "py", "pz"])
        vel = _cols(tr, ["ux", "uy", "uz"])
        f0, f1, roll, pitch, yaw = (st.new_input(tr, n) for n in ("f0", "f1", "roll", "pitch", "yaw"))
        sg = run(lambda: geo.ScanGeometry((f0, f1), np.zeros(0)))
        # spy on the three qrotate calls made by vectors (arguments and results recorded, behaviour unchanged)
        real_qrotate = geo.qrotate
        calls = []

        def _spy(vector, axis, angle):
            r = real_qrotate(vector, axis, angle)
            calls.append((vector.copy(), axis.copy(), angle, r.copy()))
            return r
        geo.qrotate = _spy
        try:
            vec = run(lambda: sg.vectors(pos, vel, roll, pitch, yaw))
        finally:
            geo.qrotate = real_qrotate
        if vec.shape != (3, 1):
            raise st.Unsupported("vectors returned shape %r for one column" % (vec.shape,))
        if len(calls) != 3 or any(c[0].shape != (3, 1) or c[1].shape != (3, 1) for c in calls):
            raise st.Unsupported("vectors is not three successive per-column qrotate calls")
        if [s_.n for s_ in calls[2][3][:, 0]] != [s_.n for s_ in vec[:, 0]]:
            raise st.Unsupported("vectors does not return its last qrotate result")
        insv = ["px", "py", "pz", "ux", "uy", "uz", "lat", "f0", "f1", "roll", "pitch", "yaw"]

        def used(nodes_):
            got = {tr.g.nodes[i][1] for i in emit.cone(tr.g, list(nodes_))[0] if tr.g.nodes[i][0] == "in"}
            return [n_ for n_ in insv if n_ in got]
        vec_defs = []
        vec_known = []          # names whose nodes later definitions print as calls

        def add_vec(prefix, arr3, share=True):
            ins_ = used([s_.n for s_ in arr3])
            for nm, s_ in zip("xyz", arr3):
                vec_defs.append(("%s_%s" % (prefix, nm), ins_, s_.n))
                if share:
                    vec_known.append("%s_%s" % (prefix, nm))
        add_vec("gen_vec_nadir", calls[0][0][:, 0])      # subpoint(-pos) / |.|
        add_vec("gen_vec_xaxis", calls[0][1][:, 0])      # vel / |vel|
        add_vec("gen_vec_yaxis", calls[1][1][:, 0])      # cross(nadir, vel) / |.|
        add_vec("gen_vec_rot1", calls[0][3][:, 0])       # qrotate(nadir, x, fovs[0] + roll)
        add_vec("gen_vec_rot2", calls[1][3][:, 0])       # qrotate(rot1, y, fovs[1] + pitch)
        add_vec("gen_vectors", vec[:, 0], share=False)   # qrotate(rot2, nadir, yaw)
    finally:
        geo.geodetic_lat = real_geodetic_lat

    # ---- geodetic_lat: first iterate, and the iteration map with the previous value abstracted ---
    tr.schedule, tr.pos, tr.path = [True], 0, []
    it1 = run(lambda: geo.geodetic_lat((x, y, z)))          # exit decided True after one pass of the loop body
    if len(tr.path) != 1:
        raise st.Unsupported("geodetic_lat: expected one exit decision per pass")
    defs.append(("gen_geodetic_lat_1", ["x", "y", "z"], it1.n))
    # the start value arctan2(z, r) is the unique atan2 node below the first iterate other than the iterate itself
    at2 = [i for i in emit.cone(tr.g, [it1.n])[0] if tr.g.nodes[i][0] == "atan2" and i != it1.n]
    if len(at2) != 1:
        raise st.Unsupported("geodetic_lat: start value not identified")
    gstep = abstract_node(tr.g, at2[0], "phi")
    defs.append(("gen_geodetic_step", ["phi", "x", "y", "z"], it1.n))
    graphs["gen_geodetic_step"] = gstep
    tr.schedule, tr.pos, tr.path = [], 0, []

    # ---- compute_pixels core for one column -------------------------------------------------------
    lx, ly, lz = (st.new_input(tr, n) for n in ("lx", "ly", "lz"))
    ppos = np.empty((3, 1), dtype=object)
    ppos[:, 0] = [x, y, z]
    pview = np.empty((3, 1), dtype=object)
    pview[:, 0] = [lx, ly, lz]

    class _Orb:
        def get_position(self, times, normalize=True):
            if normalize is not False:
                raise st.Unsupported("compute_pixels asked for normalised positions")
            return ppos, ppos      # velocity is only used by sgeom.vectors (stubbed)

    class _Sgeom:
        def vectors(self, pos_, vel_, *rpy):
            return pview

    pix = run(lambda: geo.compute_pixels(_Orb(), _Sgeom(), None))
    if pix.shape != (3, 1):
        raise st.Unsupported("compute_pixels returned shape %r for one column" % (pix.shape,))
    insp = ["x", "y", "z", "lx", "ly", "lz"]
    g = tr.g
    sq = _unique(g, pix[0, 0].n, "sqrt")
    disc = g.nodes[sq][1]
    # pixel_x = lx * d1 - (-x)
    n0 = g.nodes[pix[0, 0].n]
    if n0[0] != "sub" or g.nodes[n0[1]][0] != "mul":
        raise st.Unsupported("compute_pixels: returned value is not vectors * d1 - centre")
    quots = [j for j in g.nodes[n0[1]][1:] if g.nodes[j][0] == "div"]       # either operand order
    if len(quots) != 1:
        raise st.Unsupported("compute_pixels: d1 is not a quotient")
    d1 = quots[0]
    num, lsq = g.nodes[d1][1], g.nodes[d1][2]
    if g.nodes[num][0] not in ("sub", "add") or sq not in g.nodes[num][1:]:
        raise st.Unsupported("compute_pixels: numerator of d1 is not ldotc -/+ sqrt(..)")
    ldotc = [j for j in g.nodes[num][1:] if j != sq][0]
    defs.append(("gen_pixel_lsq", insp, lsq))
    defs.append(("gen_pixel_ldotc", insp, ldotc))
    defs.append(("gen_pixel_disc", insp, disc))
    defs.append(("gen_pixel_d1", insp, d1))
    for nm, s in zip("xyz", pix[:, 0]):
        defs.append(("gen_pixel_%s" % nm, insp, s.n))
    defs += vec_defs
    tr.vec_known = vec_known
    return tr, defs, graphs


def generate(out, repo="/repo"):
    tr, defs, graphs = trace(repo)
    text = emit.HEADER + "\n"
    known = {}
    tr_known = set(tr.vec_known)
    for name, ins, node in defs:
        if name in graphs:
            text += emit.definition(graphs[name], name, ins, node) + "\n"
            continue
        text += emit.definition(tr.g, name, ins, node, known=known) + "\n"
        if (name.startswith("gen_pixel_") or name in tr_known) and tr.g.nodes[node][0] not in ("const", "in", "pi"):
            known.setdefault(node, "(%s %s)" % (name, " ".join(ins)))
    old = open(out).read() if os.path.exists(out) else None
    if old != text:
        with open(out, "w") as f:
            f.write(text)
    tr.alt_graphs = graphs
    return tr, defs


if __name__ == "__main__":
    out = sys.argv[1] if len(sys.argv) > 1 else "/verif/coq/gen/Gen_geoloc.v"
    tr, defs = generate(out)
    print(json.dumps({"defs": [d[0] for d in defs], "nodes": len(tr.g.nodes)}))
