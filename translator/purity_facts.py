"""Regenerate coq/gen/Gen_Purity.v: the FACTS about stores/in-place operations that the C18 proof rests on.

A conservative, FAIL-CLOSED abstract interpretation over the Python `ast` of
/repo/pyorbital/orbital.py (+ astronomy.py, __init__.py for callees).  For every public query of
`Orbital` it walks the query and everything it may call inside the package (bound methods,
properties, constructors, module functions, callbacks handed to functools.partial / scipy) with

  abstract value = (alias  subset of {ARG, SHARED, FRESH}  -- which objects the value may BE (or view),
                    dep    -- may the value be data-dependent on a query argument,
                    cls    -- package class of the object when known,
                    path   -- access path from the query's `self` for shared objects,
                    cells  -- shared cells (attributes some query stores to) the value was read from)

and records
  P1 shared_stores   every attribute store / item store / in-place op / setattr / del whose target object
                     may be PRE-EXISTING (the query's self, anything reachable from it, an argument,
                     a module global).  Stores to objects constructed inside the call are local.
  P2 (same rows)     whether the stored value may depend on an argument (data flow; control flow through
                     if/while/for/ifexp and early exits under such conditions; NOT the decision to enter an
                     `except` handler -- the model treats handler entry as a nondeterministic choice).
  P3 inplace_on_args in-place targets (augmented assignment, item assignment, mutating methods, out=)
                     whose object may be (a view of) an argument.
  P4 hit_miss_same   the cache-miss handler ends with the very statements of the cache-hit `try` body.
  P5 nondeterministic_calls / unclassified
                     calls of clock / random sources; every construct the pass cannot classify.
Anything unexpected lands in one of the lists; the Coq premises are boolean checks on these lists.
"""
import ast
import os

QUERIES = ["get_position", "get_lonlatalt", "get_observer_look", "get_orbit_number", "get_last_an_time",
           "get_next_passes", "get_equatorial_crossing_time", "utc2local"]
ARG, SHARED, FRESH = "ARG", "SHARED", "FRESH"

PKG_MODULES = {"pyorbital.orbital": "pyorbital/orbital.py", "pyorbital.astronomy": "pyorbital/astronomy.py",
               "pyorbital": "pyorbital/__init__.py", "pyorbital.tlefile": "pyorbital/tlefile.py"}
# external modules whose functions are ASSUMED pure (no effect on the orbit object, its TLE, the arguments
# or module tables) unless listed in EXT_MUTATORS or called with out=
EXT_PURE_ROOTS = {"numpy", "datetime", "scipy.optimize", "scipy", "warnings", "functools", "logging",
                  "dask.array", "dask", "xarray", "math"}
EXT_MUTATORS = {"copyto", "put", "place", "putmask", "put_along_axis", "fill_diagonal", "shuffle", "seterr",
                "seterrcall", "set_printoptions", "setbufsize", "seed", "at"}
NONDET = {"now", "utcnow", "today", "time", "time_ns", "perf_counter", "monotonic", "random", "rand", "randn",
          "randint", "uniform", "normal", "choice", "urandom", "uuid4", "uuid1", "getrandbits", "default_rng"}
# numpy functions that always return a new object (everything else may return a view of an argument)
EXT_FRESH = {"sin", "cos", "tan", "arcsin", "arccos", "arctan", "arctan2", "sqrt", "deg2rad", "rad2deg", "abs",
             "sign", "fmod", "mod", "where", "array", "diff", "floor", "ceil", "argmax", "logical_and", "any",
             "all", "clip", "timedelta64", "datetime64", "float64", "float32", "int64", "isnan", "errstate",
             "timedelta", "datetime", "brentq", "bisect", "warn", "datetime_data", "zeros", "ones", "arange",
             "info", "debug", "warning", "getLogger", "exp", "log", "power", "hypot", "minimum", "maximum"}
BUILTIN_PURE = {"int", "float", "abs", "max", "min", "range", "len", "str", "isinstance", "hasattr", "bool",
                "tuple", "list", "dict", "set", "sorted", "sum", "enumerate", "zip", "round", "repr", "divmod",
                "any", "all", "iter", "next", "getattr", "issubclass", "callable", "id", "hash", "complex",
                "Exception", "ValueError", "NotImplementedError", "AttributeError", "TypeError", "KeyError",
                "IndexError", "FloatingPointError", "DeprecationWarning", "ZeroDivisionError", "RuntimeError",
                "object", "frozenset", "reversed", "map", "filter", "slice", "format", "ord", "chr", "pow"}
PURE_METHODS = {"clip", "replace", "upper", "lower", "strip", "copy", "item", "tolist", "total_seconds", "get",
                "keys", "values", "items", "format", "startswith", "endswith", "split", "join", "mean", "sum",
                "min", "max", "any", "all", "isoformat", "timetuple", "date", "conjugate", "round", "dot",
                "nonzero", "argmax", "argmin", "cumsum", "index", "count", "compute", "persist", "find"}
VIEW_METHODS = {"astype", "reshape", "ravel", "view", "squeeze", "transpose", "swapaxes", "flatten", "T"}
MUTATING_METHODS = {"sort", "fill", "put", "itemset", "resize", "partition", "setfield", "setflags", "byteswap",
                    "append", "extend", "insert", "pop", "remove", "clear", "update", "setdefault", "add",
                    "discard", "reverse", "popitem", "__setitem__", "__setattr__", "__delattr__", "__delitem__",
                    "__iadd__", "__isub__", "__imul__", "__itruediv__", "__ifloordiv__", "__imod__", "__ipow__",
                    "__iand__", "__ior__", "__ixor__", "__dict__"}


class AV:
    __slots__ = ("alias", "dep", "cls", "path", "cells", "kind", "ref", "recv")

    def __init__(self, alias=(FRESH,), dep=False, cls=None, path=None, cells=(), kind="val", ref=None, recv=None):
        self.alias = frozenset(alias)
        self.dep = bool(dep)
        self.cls = cls
        self.path = path
        self.cells = frozenset(cells)
        self.kind = kind
        self.ref = ref
        self.recv = recv

    def key(self):
        return (tuple(sorted(self.alias)), self.dep, self.cls, self.path, tuple(sorted(self.cells)), self.kind,
                self.ref if not isinstance(self.ref, ast.AST) else id(self.ref),
                self.recv.key() if self.recv is not None else None)

    def with_(self, **kw):
        d = {s: getattr(self, s) for s in self.__slots__}
        d.update(kw)
        return AV(**d)


def join(a, b):
    if a is None:
        return b
    if b is None:
        return a
    same = a.kind == b.kind and a.ref == b.ref and (a.recv.key() if a.recv else None) == (b.recv.key() if b.recv else None)
    return AV(alias=a.alias | b.alias, dep=a.dep or b.dep, cls=a.cls if a.cls == b.cls else None,
              path=a.path if a.path == b.path else None, cells=a.cells | b.cells,
              kind=a.kind if same else ("val" if "val" in (a.kind, b.kind) else "callable"),
              ref=a.ref if same else None, recv=a.recv if same else None)


def CONST():
    return AV()


def TOP():
    return AV(alias=(ARG, SHARED, FRESH), dep=True)


def TOPARG():
    return AV(alias=(ARG, FRESH), dep=True, path="arg:<callback>")


class Module:
    def __init__(self, name, path):
        self.name = name
        with open(path) as f:
            self.src = f.read()
        self.tree = ast.parse(self.src)
        self.funcs, self.classes, self.imports, self.globals, self.loggers = {}, {}, {}, set(), set()
        self._scan(self.tree.body)

    def _scan(self, body):
        for s in body:
            if isinstance(s, ast.FunctionDef):
                self.funcs[s.name] = s
            elif isinstance(s, ast.ClassDef):
                members = {}
                for m in s.body:
                    if isinstance(m, ast.FunctionDef):
                        isprop = any(isinstance(d, ast.Name) and d.id == "property" for d in m.decorator_list)
                        other = [d for d in m.decorator_list if not (isinstance(d, ast.Name) and d.id == "property")]
                        members[m.name] = ("property" if isprop else "method", m, bool(other))
                self.classes[s.name] = (s, members)
            elif isinstance(s, ast.Import):
                for a in s.names:
                    self.imports[a.asname or a.name.split(".")[0]] = ("mod", a.name if a.asname else a.name.split(".")[0])
            elif isinstance(s, ast.ImportFrom):
                for a in s.names:
                    self.imports[a.asname or a.name] = ("from", s.module, a.name)
            elif isinstance(s, (ast.Assign, ast.AnnAssign, ast.AugAssign)):
                tg = s.targets if isinstance(s, ast.Assign) else [s.target]
                v = getattr(s, "value", None)
                if (isinstance(v, ast.Call) and ast.unparse(v.func) == "logging.getLogger" and len(tg) == 1
                        and isinstance(tg[0], ast.Name)):
                    self.loggers.add(tg[0].id)      # a logging.Logger: library object, assumed effect-free for C18
                    continue
                for t in tg:
                    for n in ast.walk(t):
                        if isinstance(n, ast.Name):
                            self.globals.add(n.id)
            elif isinstance(s, ast.Try):
                self._scan(s.body)
                for h in s.handlers:
                    self._scan(h.body)
                self._scan(s.orelse)
            elif isinstance(s, ast.If):
                pass  # `if __name__ == "__main__"` demo code is not part of any query


class Frame:
    def __init__(self, mod, cls, fname, parent=None, base_pc=False):
        self.mod, self.cls, self.fname, self.parent = mod, cls, fname, parent
        self.ctx = parent.ctx if parent is not None else None
        self.vars = {}
        self.pc = []
        self.sticky = False
        self.base_pc = base_pc
        self.ret = None
        self.globals_decl = set()
        self.did_shared_store = False

    def pcdep(self):
        """LOCAL control dependence on an argument (inside the current function and its enclosing
        functions for nested defs).  The caller's control context -- WHETHER this function runs at all --
        is deliberately not included: the model lets any query recompute a cache cell at any time."""
        return self.sticky or any(self.pc) or (self.parent.pcdep() if self.parent else False)

    def lookup(self, name):
        f = self
        while f is not None:
            if name in f.vars:
                return f.vars[name]
            f = f.parent
        return None


def joinenv(e1, e2):
    out = {}
    for k in set(e1) | set(e2):
        out[k] = join(e1.get(k), e2.get(k))
    return out


class Analyzer:
    def __init__(self, repo):
        self.repo = repo
        self.mods = {n: Module(n, os.path.join(repo, p)) for n, p in PKG_MODULES.items()}
        self.typemap = {}
        for m in self.mods.values():
            for cname, (cdef, members) in m.classes.items():
                init = members.get("__init__")
                if init:
                    for n in ast.walk(init[1]):
                        if (isinstance(n, ast.Assign) and len(n.targets) == 1 and isinstance(n.targets[0], ast.Attribute)
                                and isinstance(n.targets[0].value, ast.Name) and n.targets[0].value.id == "self"
                                and isinstance(n.value, ast.Call) and isinstance(n.value.func, ast.Name)
                                and n.value.func.id in m.classes):
                            self.typemap[(cname, n.targets[0].attr)] = n.value.func.id
        self.fields = {}      # (cls, attr) -> AV : flow-insensitive summary of fields of per-call objects
        self.cellvals = {}    # cell -> AV of everything stored there by any query
        self.ctxids = {}
        self.reset_facts()

    def reset_facts(self):
        self.stores = {}       # (query, cell) -> [dep, cells-read, lines]
        self.inplace_args = {}  # (query, what) -> lines
        self.unclassified = {}  # (query, what) -> lines
        self.nondet = {}
        self.closure = {q: set() for q in QUERIES}
        self.changed = False

    # ------------------------------------------------------------------ recording
    def where(self, fr, node):
        return "%s:%d" % (os.path.basename(PKG_MODULES[fr.mod.name]), getattr(node, "lineno", 0))

    def rec_store(self, fr, node, cell, val):
        dep = val.dep or fr.pcdep()
        k = (self.q, cell)
        e = self.stores.setdefault(k, [False, set(), set(), set()])
        e[0] = e[0] or dep
        e[1] |= set(val.cells)
        e[2].add(self.where(fr, node))
        f = fr
        while f.parent is not None:
            f = f.parent
        f.did_shared_store = True
        e[3].add("%s.%s" % (f.cls, f.fname) if f.cls else "%s:%s" % (f.mod.name.split(".")[-1], f.fname))
        old = self.cellvals.get(cell)
        new = join(old, AV(alias=val.alias, dep=dep, cells=val.cells))
        if old is None or new.key() != old.key():
            self.cellvals[cell] = new
            self.changed = True

    def rec_unclassified(self, fr, node, what):
        self.unclassified.setdefault((self.q, what), set()).add(self.where(fr, node))

    def mutate(self, fr, node, av, what):
        """an in-place operation on the object(s) `av` may be"""
        if av.kind != "val":
            return
        if ARG in av.alias:
            self.inplace_args.setdefault((self.q, what), set()).add(self.where(fr, node))
        if SHARED in av.alias:
            self.rec_store(fr, node, "<in-place> " + (av.path or what), TOP())

    @staticmethod
    def cellname(path, attr):
        p = (path or "<unknown object>") + "." + attr
        return p[5:] if p.startswith("self.") else p

    # ------------------------------------------------------------------ names
    def lookup_name(self, name, fr, node):
        v = fr.lookup(name)
        if v is not None:
            return v
        m = fr.mod
        if name in m.funcs:
            return AV(kind="func", ref=(m.name, None, name))
        if name in m.classes:
            return AV(kind="class", ref=(m.name, name))
        if name in m.imports:
            return self.resolve_import(m.imports[name], fr, node)
        if name in m.loggers:
            return AV(kind="ext", ref="logging.Logger")
        if name in m.globals:
            return AV(alias=(SHARED,), path="module:%s.%s" % (m.name, name))
        if name in BUILTIN_PURE or name in ("type", "setattr", "delattr", "None", "True", "False", "print", "super"):
            return AV(kind="builtin", ref=name)
        self.rec_unclassified(fr, node, "name " + name)
        return TOP()

    def resolve_import(self, imp, fr, node):
        if imp[0] == "mod":
            full = imp[1]
        else:
            full = imp[1] + "." + imp[2]
            if imp[1] in self.mods and full not in self.mods:   # from pyorbital import dt2np
                return self.module_attr(imp[1], imp[2], fr, node)
        if full in self.mods:
            return AV(kind="module", ref=full)
        if full.split(".")[0] in EXT_PURE_ROOTS:
            return AV(kind="ext", ref=full)
        self.rec_unclassified(fr, node, "import " + full)
        return TOP()

    def module_attr(self, modname, attr, fr, node):
        m = self.mods[modname]
        if attr in m.funcs:
            return AV(kind="func", ref=(modname, None, attr))
        if attr in m.classes:
            return AV(kind="class", ref=(modname, attr))
        if attr in m.imports:
            return self.resolve_import(m.imports[attr], fr, node)
        if attr in m.loggers:
            return AV(kind="ext", ref="logging.Logger")
        if attr in m.globals:
            return AV(alias=(SHARED,), path="module:%s.%s" % (modname, attr))
        self.rec_unclassified(fr, node, "attribute %s of module %s" % (attr, modname))
        return TOP()

    # ------------------------------------------------------------------ attribute loads
    def load_attr(self, b, attr, fr, node):
        if b.kind == "module":
            return self.module_attr(b.ref, attr, fr, node)
        if b.kind == "ext":
            return AV(kind="ext", ref=b.ref + "." + attr)
        if b.kind in ("func", "class", "builtin", "boundmethod", "callable"):
            if attr in ("__name__", "__class__", "__doc__"):
                return CONST()
            self.rec_unclassified(fr, node, "attribute %s of a %s" % (attr, b.kind))
            return TOP()
        if attr == "__class__":
            return AV(kind="ext", ref="__class__")
        if attr == "__dict__":
            self.mutate(fr, node, b, "__dict__ of " + (b.path or "object"))
            return b
        if b.cls:
            members = self.class_members(b.cls)
            if members is not None and attr in members:
                kind, fdef, odd = members[attr]
                if odd:
                    self.rec_unclassified(fr, node, "decorated member %s.%s" % (b.cls, attr))
                if kind == "property":
                    return self.call_function(self.class_mod(b.cls), fdef, b.cls, b, [], {}, fr, node)
                return AV(kind="boundmethod", ref=(self.class_mod(b.cls).name, b.cls, attr), recv=b)
        out = None
        if FRESH in b.alias and b.cls:
            if b.path and b.path.startswith("new:"):
                out = self.fields.get((b.path, attr), AV(alias=()))
            else:
                out = TOP()     # a per-call object of unknown allocation site
        if b.alias - {FRESH} or not b.cls:
            path = (b.path + "." + attr) if (b.path and not b.path.startswith("new:")) else None
            r = AV(alias=(b.alias - {FRESH}) or b.alias, dep=b.dep, cls=self.typemap.get((b.cls, attr)), path=path,
                   cells=b.cells)
            if path and not path.startswith("arg:"):
                cell = self.cellname(b.path, attr)
                if cell in self.cellvals:
                    cv = self.cellvals[cell]
                    r = r.with_(dep=r.dep or cv.dep, cells=r.cells | cv.cells | {cell})
            out = join(out, r)
        return out

    def class_members(self, cls):
        for m in self.mods.values():
            if cls in m.classes:
                return m.classes[cls][1]
        return None

    def class_mod(self, cls):
        for m in self.mods.values():
            if cls in m.classes:
                return m
        return None

    # ------------------------------------------------------------------ expressions
    def ev(self, e, fr):
        t = type(e)
        if e is None or t is ast.Constant:
            return CONST()
        if t is ast.Name:
            return self.lookup_name(e.id, fr, e)
        if t is ast.Attribute:
            return self.load_attr(self.ev(e.value, fr), e.attr, fr, e)
        if t is ast.Subscript:
            b, i = self.ev(e.value, fr), self.ev(e.slice, fr)
            return AV(alias=b.alias, dep=b.dep or i.dep, cells=b.cells | i.cells, path=b.path)
        if t is ast.BinOp:
            a, b = self.ev(e.left, fr), self.ev(e.right, fr)
            return AV(dep=a.dep or b.dep, cells=a.cells | b.cells)
        if t is ast.UnaryOp:
            a = self.ev(e.operand, fr)
            return AV(dep=a.dep, cells=a.cells)
        if t is ast.Compare:
            vs = [self.ev(x, fr) for x in [e.left] + e.comparators]
            return AV(dep=any(v.dep for v in vs), cells=frozenset().union(*[v.cells for v in vs]))
        if t is ast.BoolOp:
            out = None
            for x in e.values:
                out = join(out, self.ev(x, fr))
            return out.with_(dep=out.dep)
        if t is ast.IfExp:
            c = self.ev(e.test, fr)
            r = join(self.ev(e.body, fr), self.ev(e.orelse, fr))
            return r.with_(dep=r.dep or c.dep, cells=r.cells | c.cells)
        if t in (ast.Tuple, ast.List, ast.Set):
            out = CONST()
            for x in e.elts:
                v = self.ev(x, fr)
                out = AV(alias=out.alias | (v.alias if v.kind == "val" else frozenset()), dep=out.dep or v.dep,
                         cells=out.cells | v.cells)
            return out
        if t is ast.Dict:
            out = CONST()
            for x in list(e.keys) + list(e.values):
                if x is not None:
                    v = self.ev(x, fr)
                    out = AV(alias=out.alias | v.alias, dep=out.dep or v.dep, cells=out.cells | v.cells)
            return out
        if t is ast.Call:
            return self.call(e, fr)
        if t is ast.Lambda:
            return self.nested_function(e, fr)
        if t in (ast.ListComp, ast.SetComp, ast.GeneratorExp, ast.DictComp):
            sub = Frame(fr.mod, fr.cls, fr.fname, parent=fr)
            dep = False
            for g in e.generators:
                it = self.ev(g.iter, sub)
                dep = dep or it.dep
                self.assign(g.target, AV(alias=it.alias, dep=it.dep, cells=it.cells), sub, g)
                for c in g.ifs:
                    dep = dep or self.ev(c, sub).dep
            elts = [e.key, e.value] if t is ast.DictComp else [e.elt]
            out = CONST()
            for x in elts:
                v = self.ev(x, sub)
                out = AV(alias=out.alias | v.alias, dep=out.dep or v.dep or dep, cells=out.cells | v.cells)
            return out
        if t is ast.JoinedStr:
            vs = [self.ev(x, fr) for x in e.values]
            return AV(dep=any(v.dep for v in vs))
        if t is ast.FormattedValue:
            return self.ev(e.value, fr).with_(alias=(FRESH,))
        if t is ast.Starred:
            return self.ev(e.value, fr)
        if t is ast.Slice:
            vs = [self.ev(x, fr) for x in (e.lower, e.upper, e.step)]
            return AV(dep=any(v.dep for v in vs), cells=frozenset().union(*[v.cells for v in vs]))
        if t is ast.NamedExpr:
            v = self.ev(e.value, fr)
            self.assign(e.target, v, fr, e)
            return v
        self.rec_unclassified(fr, e, "expression " + t.__name__)
        return TOP()

    def nested_function(self, fdef, fr):
        """lambda / nested def: analysed at once with arbitrary argument-derived parameters"""
        sub = Frame(fr.mod, fr.cls, fr.fname + ".<nested>", parent=fr)
        a = fdef.args
        for p in a.posonlyargs + a.args + a.kwonlyargs + ([a.vararg] if a.vararg else []) + ([a.kwarg] if a.kwarg else []):
            sub.vars[p.arg] = TOPARG()
        if isinstance(fdef, ast.Lambda):
            self.ev(fdef.body, sub)
        else:
            self.exec_block(fdef.body, sub)
        return AV(kind="callable")

    def analyze_callback(self, f, fr, node):
        """a function reference that escapes as a value (partial, scipy callback): analysed with
        arbitrary argument-derived parameters, effects charged to the current query"""
        if f.kind == "func":
            m = self.mods[f.ref[0]]
            fd = m.funcs[f.ref[2]]
            n = len(fd.args.posonlyargs + fd.args.args)
            self.call_function(m, fd, None, None, [TOPARG()] * n, {}, fr, node)
        elif f.kind == "boundmethod":
            m = self.mods[f.ref[0]]
            fd = m.classes[f.ref[1]][1][f.ref[2]][1]
            n = len(fd.args.posonlyargs + fd.args.args) - 1
            self.call_function(m, fd, f.ref[1], f.recv, [TOPARG()] * n, {}, fr, node)
        elif f.kind == "class":
            self.rec_unclassified(fr, node, "class used as callback")

    def call(self, e, fr):
        recv = None
        if isinstance(e.func, ast.Attribute):
            recv = self.ev(e.func.value, fr)
            f = self.load_attr(recv, e.func.attr, fr, e.func)
        else:
            f = self.ev(e.func, fr)
        args = [self.ev(a, fr) for a in e.args]
        kwargs = {}
        for k in e.keywords:
            v = self.ev(k.value, fr)
            if k.arg is None:
                self.rec_unclassified(fr, e, "**kwargs in a call")
            kwargs[k.arg] = v
        if "out" in kwargs:
            self.mutate(fr, e, kwargs["out"], "out= of " + ast.unparse(e.func))
        allv = args + list(kwargs.values())
        dep = any(v.dep for v in allv)
        cells = frozenset().union(*[v.cells for v in allv]) if allv else frozenset()
        if f.kind == "func":
            m = self.mods[f.ref[0]]
            return self.call_function(m, m.funcs[f.ref[2]], None, None, args, kwargs, fr, e)
        if f.kind == "boundmethod":
            m = self.mods[f.ref[0]]
            return self.call_function(m, m.classes[f.ref[1]][1][f.ref[2]][1], f.ref[1], f.recv, args, kwargs, fr, e)
        if f.kind == "class":
            m = self.mods[f.ref[0]]
            ctx = self.ctxids.setdefault(fr.ctx, len(self.ctxids))
            inst = AV(alias=(FRESH,), cls=f.ref[1], path="new:%s:%d:%d" % (f.ref[1], e.lineno, ctx))
            members = m.classes[f.ref[1]][1]
            if "__init__" in members:
                self.call_function(m, members["__init__"][1], f.ref[1], inst, args, kwargs, fr, e)
            if "__new__" in members or "__setattr__" in members:
                self.rec_unclassified(fr, e, "class %s customises construction/attribute setting" % f.ref[1])
            return inst
        if f.kind == "ext":
            name = f.ref.split(".")[-1]
            if name in EXT_MUTATORS:
                for v in args[:1]:
                    self.mutate(fr, e, v, f.ref)
                if not args:
                    self.rec_unclassified(fr, e, "state-changing library call " + f.ref)
            if name in NONDET:
                self.nondet.setdefault((self.q, f.ref), set()).add(self.where(fr, e))
            for v in allv:
                if v.kind in ("func", "boundmethod", "class"):
                    self.analyze_callback(v, fr, e)
            if name == "partial":
                return AV(kind="callable")
            al = frozenset([FRESH])
            if name not in EXT_FRESH or "copy" in kwargs:
                for v in allv:
                    if v.kind == "val":
                        al |= v.alias
            return AV(alias=al, dep=dep or (recv.dep if recv is not None and recv.kind == "val" else False), cells=cells)
        if f.kind == "builtin":
            name = f.ref
            if name == "setattr":
                if len(args) >= 3:
                    attr = e.args[1].value if isinstance(e.args[1], ast.Constant) else "<dynamic>"
                    self.store_attr(args[0], str(attr), args[2], fr, e, ast.unparse(e.args[0]))
                return CONST()
            if name == "delattr":
                if args:
                    self.store_attr(args[0], "<deleted>", CONST(), fr, e, ast.unparse(e.args[0]))
                return CONST()
            if name == "type":
                return AV(kind="ext", ref="type()")
            if name in ("print", "super"):
                self.rec_unclassified(fr, e, "builtin " + name)
                return TOP()
            for v in allv:
                if v.kind in ("func", "boundmethod"):
                    self.analyze_callback(v, fr, e)
            al = frozenset([FRESH])
            if name in ("list", "tuple", "getattr", "next", "iter", "max", "min", "sorted", "reversed", "dict", "set"):
                for v in allv:
                    if v.kind == "val":
                        al |= v.alias
            return AV(alias=al, dep=dep, cells=cells)
        if f.kind == "callable":
            return TOP()
        # a method of a plain value (numpy array, datetime, str, dict, ...) or a call of a value
        if recv is not None and recv.kind == "val":
            name = e.func.attr
            rdep = dep or recv.dep
            rcells = cells | recv.cells
            if name in MUTATING_METHODS:
                self.mutate(fr, e, recv, "%s.%s()" % (ast.unparse(e.func.value), name))
                return AV(alias=recv.alias | {FRESH}, dep=rdep, cells=rcells)
            if name in VIEW_METHODS:
                if name == "astype" and "copy" not in kwargs:
                    return AV(dep=rdep, cells=rcells)
                return AV(alias=recv.alias | {FRESH}, dep=rdep, cells=rcells)
            if name in PURE_METHODS:
                return AV(alias=(recv.alias | {FRESH}) if name in ("get", "values", "items", "copy") else (FRESH,),
                          dep=rdep, cells=rcells)
            self.rec_unclassified(fr, e, "method .%s() of a value" % name)
            self.mutate(fr, e, recv, "%s.%s()" % (ast.unparse(e.func.value), name))
            return TOP()
        self.rec_unclassified(fr, e, "call of " + ast.unparse(e.func))
        return TOP()

    # ------------------------------------------------------------------ functions
    def call_function(self, mod, fdef, cls, self_av, args, kwargs, fr, node, forced=False):
        qual = "%s.%s" % (cls, fdef.name) if cls else "%s:%s" % (mod.name.split(".")[-1], fdef.name)
        self.closure[self.q].add(qual)
        pc = False
        if forced:
            # a function that stores to a pre-existing object: its own parameters count as query arguments,
            # so that "value independent of arguments" means "determined by this code and the shared state"
            args = [a.with_(dep=True) if a.kind == "val" else a for a in args]
            kwargs = {k: (v.with_(dep=True) if v.kind == "val" else v) for k, v in kwargs.items()}
        key = (mod.name, cls, fdef.name, self_av.key() if self_av else None, tuple(a.key() for a in args),
               tuple(sorted((k or "", v.key()) for k, v in kwargs.items())), forced)
        if key in self.memo:
            r = self.memo[key]
            return r if r is not None else TOP()
        self.memo[key] = None   # in progress (recursion -> TOP)
        sub = Frame(mod, cls, fdef.name)
        sub.ctx = (self.q,) + key
        a = fdef.args
        params = [p.arg for p in a.posonlyargs + a.args]
        defaults = [None] * (len(params) - len(a.defaults)) + list(a.defaults)
        if cls is not None and params:
            sub.vars[params[0]] = self_av
            params, defaults = params[1:], defaults[1:]
        for i, p in enumerate(params):
            if i < len(args):
                sub.vars[p] = args[i]
            elif p in kwargs:
                sub.vars[p] = kwargs[p]
            elif defaults[i] is not None:
                sub.vars[p] = self.ev(defaults[i], Frame(mod, cls, fdef.name)).with_(dep=forced)
            else:
                self.rec_unclassified(fr or sub, node, "missing argument %s of %s" % (p, qual))
                sub.vars[p] = TOP()
        extra = list(args[len(params):]) + [v for k, v in kwargs.items() if k not in params]
        for p, d in zip(a.kwonlyargs, a.kw_defaults):
            sub.vars[p.arg] = kwargs.get(p.arg) or (self.ev(d, Frame(mod, cls, fdef.name)) if d is not None else TOP())
        for va in (a.vararg, a.kwarg):
            if va is not None:
                v = CONST()
                for x in extra:
                    v = AV(alias=v.alias | x.alias, dep=v.dep or x.dep, cells=v.cells | x.cells)
                sub.vars[va.arg] = v
        if extra and a.vararg is None and a.kwarg is None:
            self.rec_unclassified(fr or sub, node, "surplus arguments to " + qual)
        for n in ast.walk(fdef):
            if isinstance(n, (ast.Yield, ast.YieldFrom, ast.Await)):
                self.rec_unclassified(sub, n, "generator/coroutine " + qual)
        self.exec_block(fdef.body, sub)
        r = sub.ret if sub.ret is not None else CONST()
        self.memo[key] = r
        if sub.did_shared_store and not forced:
            r = join(r, self.call_function(mod, fdef, cls, self_av, args, kwargs, fr, node, forced=True))
            self.memo[key] = r
        return r

    # ------------------------------------------------------------------ stores
    def store_attr(self, b, attr, v, fr, node, text):
        if b.kind != "val":
            self.rec_store(fr, node, "<%s>.%s" % (text, attr), v)
            return
        if FRESH in b.alias and b.cls and b.path and b.path.startswith("new:"):
            old = self.fields.get((b.path, attr))
            new = join(old, v.with_(dep=v.dep or fr.pcdep()))
            if old is None or old.key() != new.key():
                self.fields[(b.path, attr)] = new
                self.changed = True
        if b.alias - {FRESH}:
            cell = self.cellname(b.path or ("<%s>" % text), attr)
            self.rec_store(fr, node, cell, v)

    def assign(self, tgt, v, fr, node, value_node=None):
        t = type(tgt)
        if t is ast.Name:
            if tgt.id in fr.globals_decl:
                self.rec_store(fr, node, "module:%s.%s" % (fr.mod.name, tgt.id), v)
            fr.vars[tgt.id] = v.with_(dep=True) if (fr.pcdep() and v.kind == "val") else v
        elif t in (ast.Tuple, ast.List):
            if isinstance(value_node, (ast.Tuple, ast.List)) and len(value_node.elts) == len(tgt.elts) \
                    and not any(isinstance(x, ast.Starred) for x in list(tgt.elts) + list(value_node.elts)):
                vs = [self.ev(x, fr) for x in value_node.elts]
                for x, xv, xn in zip(tgt.elts, vs, value_node.elts):
                    self.assign(x, xv, fr, node, xn)
            else:
                for x in tgt.elts:
                    self.assign(x, v if v.kind == "val" else TOP(), fr, node)
        elif t is ast.Starred:
            self.assign(tgt.value, v, fr, node)
        elif t is ast.Attribute:
            self.store_attr(self.ev(tgt.value, fr), tgt.attr, v, fr, node, ast.unparse(tgt.value))
        elif t is ast.Subscript:
            b = self.ev(tgt.value, fr)
            self.ev(tgt.slice, fr)
            self.mutate(fr, node, b, ast.unparse(tgt.value) + "[...] = ...")
            if isinstance(tgt.value, ast.Name) and tgt.value.id in fr.vars and b.kind == "val":
                fr.vars[tgt.value.id] = AV(alias=b.alias | v.alias, dep=b.dep or v.dep, cells=b.cells | v.cells,
                                           cls=b.cls, path=b.path)
        else:
            self.rec_unclassified(fr, node, "assignment target " + t.__name__)

    # ------------------------------------------------------------------ statements
    def exec_block(self, stmts, fr):
        for s in stmts:
            self.exec_stmt(s, fr)

    def exec_stmt(self, s, fr):
        t = type(s)
        if t is ast.Expr:
            self.ev(s.value, fr)
        elif t is ast.Assign:
            v = self.ev(s.value, fr)
            for tg in s.targets:
                self.assign(tg, v, fr, s, s.value)
        elif t is ast.AnnAssign:
            if s.value is not None:
                self.assign(s.target, self.ev(s.value, fr), fr, s, s.value)
        elif t is ast.AugAssign:
            old = self.ev(s.target, fr)
            v = self.ev(s.value, fr)
            self.mutate(fr, s, old, ast.unparse(s.target) + " " + type(s.op).__name__ + "= ...")
            new = AV(alias=old.alias | {FRESH}, dep=old.dep or v.dep, cells=old.cells | v.cells)
            if isinstance(s.target, ast.Subscript):
                self.ev(s.target.slice, fr)
                b = self.ev(s.target.value, fr)
                self.mutate(fr, s, b, ast.unparse(s.target.value) + "[...] op= ...")
            else:
                self.assign(s.target, new, fr, s)
        elif t is ast.Return:
            v = self.ev(s.value, fr) if s.value is not None else CONST()
            if v.kind != "val":
                v = TOP()
            fr_top = fr
            while fr_top.parent is not None and fr_top.fname.endswith("<nested>") and False:
                fr_top = fr_top.parent
            fr.ret = join(fr.ret, v.with_(dep=v.dep or fr.pcdep()))
            if any(fr.pc):
                fr.sticky = True
        elif t is ast.If:
            c = self.ev(s.test, fr)
            fr.pc.append(c.dep)
            base = dict(fr.vars)
            self.exec_block(s.body, fr)
            e1 = fr.vars
            fr.vars = dict(base)
            self.exec_block(s.orelse, fr)
            fr.vars = joinenv(e1, fr.vars)
            fr.pc.pop()
        elif t in (ast.While, ast.For):
            if t is ast.For:
                it = self.ev(s.iter, fr)
                fr.pc.append(it.dep)
            else:
                fr.pc.append(self.ev(s.test, fr).dep)
            for _ in range(6):
                before = {k: v.key() for k, v in fr.vars.items()}
                base = dict(fr.vars)
                if t is ast.For:
                    self.assign(s.target, AV(alias=it.alias, dep=it.dep, cells=it.cells), fr, s)
                self.exec_block(s.body, fr)
                if t is ast.While:
                    c = self.ev(s.test, fr)
                    fr.pc[-1] = fr.pc[-1] or c.dep
                fr.vars = joinenv(base, fr.vars)
                if {k: v.key() for k, v in fr.vars.items()} == before:
                    break
            self.exec_block(s.orelse, fr)
            fr.pc.pop()
        elif t is ast.Try:
            start = dict(fr.vars)
            self.exec_block(s.body, fr)
            after = fr.vars
            outs = []
            for h in s.handlers:
                # handler entry: NOT a tainted branch (modelled as a nondeterministic choice)
                fr.vars = joinenv(start, after)
                if h.type is not None:
                    self.ev(h.type, fr)
                if h.name:
                    fr.vars[h.name] = CONST()
                self.exec_block(h.body, fr)
                outs.append(fr.vars)
            fr.vars = dict(after)
            self.exec_block(s.orelse, fr)
            for o in outs:
                fr.vars = joinenv(fr.vars, o)
            self.exec_block(s.finalbody, fr)
        elif t is ast.With:
            for item in s.items:
                v = self.ev(item.context_expr, fr)
                if item.optional_vars is not None:
                    self.assign(item.optional_vars, v, fr, s)
            self.exec_block(s.body, fr)
        elif t is ast.Raise:
            if s.exc is not None:
                self.ev(s.exc, fr)
            if any(fr.pc):
                fr.sticky = True
        elif t in (ast.Break, ast.Continue):
            if any(fr.pc):
                fr.sticky = True
        elif t is ast.Pass:
            pass
        elif t is ast.Assert:
            self.ev(s.test, fr)
        elif t is ast.FunctionDef:
            fr.vars[s.name] = AV(kind="callable")
            self.nested_function(s, fr)
        elif t is ast.Delete:
            for tg in s.targets:
                if isinstance(tg, ast.Attribute):
                    self.store_attr(self.ev(tg.value, fr), tg.attr, CONST(), fr, s, ast.unparse(tg.value))
                elif isinstance(tg, ast.Subscript):
                    self.mutate(fr, s, self.ev(tg.value, fr), "del " + ast.unparse(tg))
                elif isinstance(tg, ast.Name):
                    fr.vars.pop(tg.id, None)
        elif t is ast.Global:
            fr.globals_decl |= set(s.names)
        elif t is ast.Nonlocal:
            pass
        else:
            self.rec_unclassified(fr, s, "statement " + t.__name__)

    # ------------------------------------------------------------------ driver
    def run_query(self, q):
        self.q = q
        self.memo = {}
        m = self.mods["pyorbital.orbital"]
        fdef = m.classes["Orbital"][1][q][1]
        self_av = AV(alias=(SHARED,), cls="Orbital", path="self")
        a = fdef.args
        names = [p.arg for p in a.posonlyargs + a.args][1:] + [p.arg for p in a.kwonlyargs]
        args = [AV(alias=(ARG,), dep=True, path="arg:" + n) for n in names[:len(a.posonlyargs + a.args) - 1]]
        kw = {p.arg: AV(alias=(ARG,), dep=True, path="arg:" + p.arg) for p in a.kwonlyargs}
        if a.vararg or a.kwarg:
            self.unclassified.setdefault((q, "query takes *args/**kwargs"), set()).add("orbital.py:%d" % fdef.lineno)
        self.call_function(m, fdef, "Orbital", self_av, args, kw, None, fdef)

    def run(self):
        for _round in range(12):
            self.reset_facts()
            for q in QUERIES:
                self.run_query(q)
            if not self.changed:
                return _round + 1
        raise RuntimeError("purity analysis did not reach a fixpoint")


def hit_miss_same(repo):
    """P4: every `try` in Orbital whose AttributeError handler stores to an attribute ends its handler with
    exactly the statements of the try body (cache-hit and cache-miss paths compute the result alike)."""
    m = Module("pyorbital.orbital", os.path.join(repo, PKG_MODULES["pyorbital.orbital"]))
    out = []
    for name, (kind, fdef, _odd) in m.classes["Orbital"][1].items():
        for n in ast.walk(fdef):
            if isinstance(n, ast.Try):
                for h in n.handlers:
                    stores = [x for x in ast.walk(h) if isinstance(x, ast.Attribute) and isinstance(x.ctx, (ast.Store, ast.Del))]
                    if stores:
                        k = len(n.body)
                        same = (len(h.body) >= k and [ast.dump(x) for x in h.body[-k:]] == [ast.dump(x) for x in n.body]
                                and not n.orelse and not n.finalbody and len(n.handlers) == 1
                                and isinstance(h.type, ast.Name) and h.type.id == "AttributeError")
                        out.append((name, bool(same)))
    return out


def coq_str(s):
    return '"%s"' % s.replace('"', '""')


def analyse(repo=None):
    repo = repo or os.environ.get("VERIF_REPO", "/repo")
    an = Analyzer(repo)
    rounds = an.run()
    facts = {
        "queries": list(QUERIES),
        "shared_stores": sorted((q, c, bool(v[0]), sorted(v[1]), sorted(v[2])) for (q, c), v in an.stores.items()),
        "store_functions": sorted((c, sorted(set().union(*[v[3] for (q2, c2), v in an.stores.items() if c2 == c])))
                                  for c in {c for (_q, c) in an.stores}),
        "inplace_on_args": sorted((q, w, sorted(l)) for (q, w), l in an.inplace_args.items()),
        "unclassified": sorted((q, w, sorted(l)) for (q, w), l in an.unclassified.items()),
        "nondeterministic_calls": sorted((q, w, sorted(l)) for (q, w), l in an.nondet.items()),
        "hit_miss_same": hit_miss_same(repo),
        "closure": {q: sorted(an.closure[q]) for q in QUERIES},
        "rounds": rounds,
    }
    return facts


def emit(facts):
    L = []
    L.append("(* Gen_Purity.v — GENERATED by translator/purity_facts.py from /repo/pyorbital/orbital.py,")
    L.append("   astronomy.py, __init__.py on every run of ./check C18.  Do not edit.")
    L.append("   P1/P2 shared_stores: (query, cell, value may depend on a query argument, cells the value reads)")
    L.append("   P3 inplace_on_args, P4 hit_miss_same, P5 nondeterministic_calls, unclassified (fail-closed). *)")
    L.append("From Coq Require Import List String Bool.")
    L.append("Import ListNotations.")
    L.append("Open Scope string_scope.")
    L.append("")
    L.append("Definition queries : list string :=\n  [%s]." % "; ".join(coq_str(q) for q in facts["queries"]))
    L.append("")
    L.append("Definition shared_stores : list (string * string * bool * list string) :=")
    rows = []
    for q, c, dep, cells, lines in facts["shared_stores"]:
        rows.append("   (%s, %s, %s, [%s]) (* %s *)" % (coq_str(q), coq_str(c), "true" if dep else "false",
                                                  "; ".join(coq_str(x) for x in cells), ", ".join(lines)))
    L.append("  [" + ";\n  ".join(r.strip() for r in rows) + "].")
    L.append("")
    L.append("(* the function(s) whose code performs the stores to each cell; inside them the parameters count as arguments *)")
    L.append("Definition store_functions : list (string * list string) :=")
    L.append("  [" + ";\n   ".join("(%s, [%s])" % (coq_str(c), "; ".join(coq_str(f) for f in fs)) for c, fs in facts["store_functions"]) + "].")
    L.append("")
    for nm in ("inplace_on_args", "nondeterministic_calls", "unclassified"):
        L.append("Definition %s : list (string * string) :=" % nm)
        rows = ["(%s, %s) (* %s *)" % (coq_str(q), coq_str(w), ", ".join(l)) for q, w, l in facts[nm]]
        L.append("  [" + ";\n   ".join(rows) + "].")
        L.append("")
    L.append("Definition hit_miss_same : list (string * bool) :=")
    L.append("  [" + "; ".join("(%s, %s)" % (coq_str(q), "true" if b else "false") for q, b in facts["hit_miss_same"]) + "].")
    L.append("")
    L.append("(* call closure inside the package (informational):")
    for q in facts["queries"]:
        L.append("   %s -> %s" % (q, ", ".join(facts["closure"][q])))
    L.append("*)")
    return "\n".join(L) + "\n"


def generate(out, repo=None):
    facts = analyse(repo)
    text = emit(facts)
    old = open(out).read() if os.path.exists(out) else None
    if old != text:
        with open(out, "w") as f:
            f.write(text)
    return facts


if __name__ == "__main__":
    import json
    import sys
    fx = analyse(sys.argv[1] if len(sys.argv) > 1 else None)
    print(json.dumps(fx, indent=1))
