"""gen_instruments — fail-closed extraction of the constants of the line-scanner definitions of
pyorbital/geoloc_instrument_definitions.py into Gallina: coq/gen/Gen_instruments.v.

For amsua, mhs, hirs4, atms, mwhs2 (which name their constants: scan_len, scan_rate, scan_angle,
sampling_interval, sync_time) the right-hand sides are evaluated EXACTLY (decimal literals as rationals, + - * /,
abs) and emitted as Q; for avhrr the defaults of the signature (scan_angle, frequency) and the two inline constants
(`scan_points / <c> - 1`, `scan_points * <dt>`) are taken.  The formulas that combine the constants stay the hand
templates of M_Instruments (tied by the correspondence run); this ties the NUMBERS to the source."""
import ast
import os
import sys
from fractions import Fraction

sys.path.insert(0, os.path.dirname(os.path.abspath(__file__)))
from gen_tle import Unsupported, dump  # noqa: E402
from harness_compat import write_if_changed  # noqa: E402

NAMED = ["amsua", "mhs", "hirs4", "atms", "mwhs2"]
WANTED = ["scan_len", "scan_rate", "scan_angle", "sampling_interval", "sync_time"]


def exact(node, env, src):
    """exact rational value of a constant expression (literals are read from the source text, not from the float)"""
    if isinstance(node, ast.Constant) and isinstance(node.value, (int, float)) and not isinstance(node.value, bool):
        text = ast.get_source_segment(src, node)
        return Fraction(text.rstrip(".") if text.endswith(".") else text)
    if isinstance(node, ast.Name):
        if node.id not in env:
            raise Unsupported("constant expression uses %s" % node.id)
        return env[node.id]
    if isinstance(node, ast.UnaryOp) and isinstance(node.op, ast.USub):
        return -exact(node.operand, env, src)
    if isinstance(node, ast.BinOp) and isinstance(node.op, (ast.Add, ast.Sub, ast.Mult, ast.Div)):
        a, b = exact(node.left, env, src), exact(node.right, env, src)
        if isinstance(node.op, ast.Add):
            return a + b
        if isinstance(node.op, ast.Sub):
            return a - b
        if isinstance(node.op, ast.Mult):
            return a * b
        if b == 0:
            raise Unsupported("division by zero in a constant")
        return a / b
    if isinstance(node, ast.Call) and isinstance(node.func, ast.Name) and node.func.id == "abs" and len(node.args) == 1 and not node.keywords:
        return abs(exact(node.args[0], env, src))
    raise Unsupported("constant expression " + dump(node)[:120])


def q(fr):
    return "(%d # %d)" % (fr.numerator, fr.denominator) if fr.numerator >= 0 else "(- (%d # %d))" % (-fr.numerator, fr.denominator)


def generate(out, repo):
    path = os.path.join(repo, "pyorbital", "geoloc_instrument_definitions.py")
    src = open(path).read()
    tree = ast.parse(src)
    funcs = {n.name: n for n in tree.body if isinstance(n, ast.FunctionDef)}
    rows = []
    info = {}
    for name in NAMED:
        if name not in funcs:
            raise Unsupported("instrument %s not found" % name)
        env = {}
        for s in funcs[name].body:                      # top-level assignments of the function, in order
            if isinstance(s, ast.Assign) and len(s.targets) == 1 and isinstance(s.targets[0], ast.Name) and s.targets[0].id in WANTED:
                if s.targets[0].id in env:
                    raise Unsupported("%s assigns %s twice" % (name, s.targets[0].id))
                env[s.targets[0].id] = exact(s.value, env, src)
        for k in ("scan_len", "scan_rate", "sampling_interval"):
            if k not in env:
                raise Unsupported("%s does not define %s" % (name, k))
        if name != "atms" and "scan_angle" not in env:
            raise Unsupported("%s does not define scan_angle" % name)
        env.setdefault("sync_time", Fraction(0))
        if env["scan_len"].denominator != 1:
            raise Unsupported("scan_len is not an integer")
        info[name] = {k: str(v) for k, v in env.items()}
        rows.append((name, env))
    # avhrr: defaults and inline constants
    f = funcs.get("avhrr")
    if f is None:
        raise Unsupported("avhrr not found")
    names = [a.arg for a in f.args.args]
    defaults = dict(zip(names[len(names) - len(f.args.defaults):], f.args.defaults))
    if "scan_angle" not in defaults or "frequency" not in defaults:
        raise Unsupported("avhrr defaults")
    av = {"scan_angle": exact(defaults["scan_angle"], {}, src), "scan_rate": exact(defaults["frequency"], {}, src)}
    half = [n for n in ast.walk(f) if isinstance(n, ast.BinOp) and isinstance(n.op, ast.Sub) and isinstance(n.left, ast.BinOp)
            and isinstance(n.left.op, ast.Div) and dump(n.left.left) == "Name(id='scan_points')" and isinstance(n.left.right, ast.Constant)
            and dump(n.right) == "Constant(value=1)"]
    step = [n for n in ast.walk(f) if isinstance(n, ast.BinOp) and isinstance(n.op, ast.Mult) and dump(n.left) == "Name(id='scan_points')"
            and isinstance(n.right, ast.Constant)]
    if len(half) != 1 or len(step) != 1:
        raise Unsupported("avhrr inline constants (%d, %d)" % (len(half), len(step)))
    av["half_width"] = exact(half[0].left.right, {}, src)
    av["sampling_interval"] = exact(step[0].right, {}, src)
    info["avhrr"] = {k: str(v) for k, v in av.items()}
    text = ("(* GENERATED by translator/gen_instruments.py from pyorbital/geoloc_instrument_definitions.py — do not edit.\n"
            "   Exact rational values of the constants of the line-scanner definitions. *)\n"
            "From Coq Require Import ZArith QArith.\nOpen Scope Q_scope.\n\n")
    for name, env in rows:
        text += "Definition gen_%s_scan_len : Z := %d%%Z.\n" % (name, env["scan_len"].numerator)
        text += "Definition gen_%s_scan_rate : Q := %s.\n" % (name, q(env["scan_rate"]))
        if "scan_angle" in env:
            text += "Definition gen_%s_scan_angle : Q := %s.\n" % (name, q(env["scan_angle"]))
        text += "Definition gen_%s_sampling_interval : Q := %s.\n" % (name, q(env["sampling_interval"]))
        text += "Definition gen_%s_sync_time : Q := %s.\n\n" % (name, q(env["sync_time"]))
    for k in ("scan_angle", "scan_rate", "half_width", "sampling_interval"):
        text += "Definition gen_avhrr_%s : Q := %s.\n" % (k, q(av[k]))
    write_if_changed(out, text)
    return info, ["gen_%s_*" % n for n in NAMED + ["avhrr"]]


if __name__ == "__main__":
    info, names = generate(sys.argv[1] if len(sys.argv) > 1 else "/verif/coq/gen/Gen_instruments.v", sys.argv[2] if len(sys.argv) > 2 else "/repo")
    print(names)
    for k, v in info.items():
        print(k, v)
