import os


def write_if_changed(path, text):
    old = None
    if os.path.exists(path):
        with open(path) as f:
            old = f.read()
    if old != text:
        with open(path, "w") as f:
            f.write(text)
        return True
    return False
