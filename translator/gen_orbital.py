"""Regenerate coq/gen/Gen_orbital.v from /repo/pyorbital/orbital.py:
kep2xyz / get_position unit conversion (C20, C01), Orbital.get_lonlatalt (C04),
Orbital.get_observer_look and module get_observer_look (C05), utc2local (C04)."""
import json
import os
import sys
import types

sys.path.insert(0, os.path.dirname(__file__))
import symtrace as st  # noqa: E402
import emit  # noqa: E402

LAT_FUEL = 6   # unrolled iterations of the geodetic-latitude loop (paths exiting after 1..LAT_FUEL tests)


class Out:
    def __init__(self):
        self.defs = []      # (name, inputs, node)
        self.props = []     # (name, inputs, conds)
        self.meta = {}

    def add(self, name, ins, sym):
        self.defs.append((name, list(ins), sym.n))


def trace(repo="/repo"):
    import gen_astronomy
    tr = st.Tracer()
    ld = st.Loader(repo)
    _tr, adefs = gen_astronomy.trace(repo, tr, ld)     # same graph: astronomy kernels are shared by name
    orb = st.with_tracer(tr, lambda: ld.load("orbital"))
    astro = ld.mods["astronomy"]
    out = Out()
    out.known0 = gen_astronomy.known_map(tr, adefs)

    def run(fn):
        return st.with_tracer(tr, fn)

    def inp(name):
        return st.new_input(tr, name)

    # ---------------- kep2xyz and get_position (units) ----------------
    kin = ["radius", "theta", "eqinc", "ascn", "rdotk", "rfdotk"]
    kep = {k: inp(k) for k in kin}
    pos, vel = run(lambda: orb.kep2xyz(dict(kep)))
    for i, c in enumerate("xyz"):
        out.add("gen_kep2xyz_%s" % c, kin, pos[i])
        out.add("gen_kep2xyz_v%s" % c, kin, vel[i])

    class FakeSGDP4:
        def propagate(self, utc_time):
            return dict(kep)
    o = orb.Orbital.__new__(orb.Orbital)
    o._sgdp4 = FakeSGDP4()
    pos_n, vel_n = run(lambda: o.get_position(None, normalize=True))
    pos_u, vel_u = run(lambda: o.get_position(None, normalize=False))
    for i, c in enumerate("xyz"):
        out.add("gen_position_norm_%s" % c, kin, pos_n[i])
        out.add("gen_position_norm_v%s" % c, kin, vel_n[i])
        out.add("gen_position_km_%s" % c, kin, pos_u[i])
        out.add("gen_position_km_v%s" % c, kin, vel_u[i])
    # ---------------- Orbital.get_lonlatalt (method) and geoloc.get_lonlatalt (module) -------
    x, y, z, d = inp("x"), inp("y"), inp("z"), inp("d")     # ECI position in km, days since J2000
    t = st.SymTime(d)
    lla_in = ["x", "y", "z", "d"]

    def lla_paths(call, prefix):
        tr.fuel = LAT_FUEL
        try:
            paths = st.run_paths(tr, call)
        finally:
            tr.fuel = 64
        exits = [p for p in paths if p.outcome == "ok"]
        if len(exits) != LAT_FUEL or [p.outcome for p in paths].count("fuel") != 1 or len(paths) != LAT_FUEL + 1:
            raise st.Unsupported("unexpected path structure in %s: %r" % (prefix, [p.outcome for p in paths]))
        exits.sort(key=lambda p: len(p.conds))
        # the latitude iterates are the operands of the exit tests |lat - lat2| < 1e-10
        longest = exits[-1]
        iterates = []
        for c, _taken in longest.conds:
            if c[0] != "lt":
                raise st.Unsupported("exit test is not a '<' comparison")
            a = tr.g.nodes[c[1]]
            if a[0] != "abs" or tr.g.nodes[a[1]][0] != "sub":
                raise st.Unsupported("exit test is not |lat - lat2| < tol")
            lat_new, lat_old = tr.g.nodes[a[1]][1], tr.g.nodes[a[1]][2]
            if not iterates:
                iterates.append(lat_old)
            if iterates[-1] != lat_old:
                raise st.Unsupported("exit tests do not chain")
            iterates.append(lat_new)
        for j, n in enumerate(iterates):
            out.add("%s_lat_it%d" % (prefix, j), lla_in, st.Sym(n))
        lon0 = exits[0].value[0]
        for k, p in enumerate(exits, 1):
            lon, lat, alt = p.value
            if lon.n != lon0.n:
                raise st.Unsupported("longitude depends on the path")
            out.add("%s_lat_p%d" % (prefix, k), lla_in, lat)
            out.add("%s_alt_p%d" % (prefix, k), lla_in, alt)
            out.props.append(("%s_exit_p%d" % (prefix, k), lla_in, p.conds))
        out.add("%s_lon" % prefix, lla_in, lon0)
        out.meta[prefix + "_paths"] = LAT_FUEL

    o2 = orb.Orbital.__new__(orb.Orbital)

    def fake_get_position(utc_time, normalize=True):
        pos = st.NpShim.array((x, y, z))
        vel = st.NpShim.array((st.lift(0), st.lift(0), st.lift(0)))
        if normalize:
            pos /= orb.XKMPER
        return pos, vel
    o2.get_position = fake_get_position
    lla_paths(lambda: o2.get_lonlatalt(t), "gen_lla")
    geoloc = run(lambda: ld.load("geoloc"))
    lla_paths(lambda: geoloc.get_lonlatalt(st.NpShim.array((x, y, z)), t), "gen_geoloc_lla")

    # utc2local: utc + lon*24/360 hours, in days since J2000
    class FakeDt:
        datetime = __import__("datetime").datetime
        timezone = __import__("datetime").timezone

        @staticmethod
        def timedelta(hours=0):
            return st.SymDelta(st.lift(hours) / 24)
    lonv = inp("lon_deg")
    o3 = orb.Orbital.__new__(orb.Orbital)
    o3.get_lonlatalt = lambda utc_time: (lonv, None, None)
    saved = orb.dt
    orb.dt = FakeDt
    try:
        loc = run(lambda: o3.utc2local(t))
    finally:
        orb.dt = saved
    out.add("gen_utc2local", ["d", "lon_deg"], loc.days)

    # ---------------- look angles: Orbital.get_observer_look and module get_observer_look ------
    lon, lat, alt = inp("lon"), inp("lat"), inp("alt")
    look_in = ["x", "y", "z", "d", "lon", "lat", "alt"]
    o4 = orb.Orbital.__new__(orb.Orbital)
    o4.get_position = lambda utc_time, normalize=True: (st.NpShim.array((x, y, z)),
                                                        st.NpShim.array((st.lift(0), st.lift(0), st.lift(0))))
    az, el = run(lambda: o4.get_observer_look(t, lon, lat, alt))
    out.add("gen_look_az", look_in, az)
    out.add("gen_look_el", look_in, el)
    # the same two functions with observer_position and gmst replaced by fresh inputs: the
    # "core" formulas (frame rotation, azimuth, elevation) the theorems are stated on
    ox, oy, oz, g = inp("ox"), inp("oy"), inp("oz"), inp("g")
    core_in = ["x", "y", "z", "ox", "oy", "oz", "g", "lon", "lat"]
    zero = st.with_tracer(tr, lambda: st.lift(0))
    saved_op, saved_g = astro.observer_position, astro.gmst
    astro.observer_position = lambda utc_time, lo, la, al: ((ox, oy, oz), (zero, zero, zero))
    astro.gmst = lambda utc_time: g
    try:
        azc, elc = run(lambda: o4.get_observer_look(t, lon, lat, alt))
    finally:
        astro.observer_position, astro.gmst = saved_op, saved_g
    out.add("gen_look_core_az", core_in, azc)
    out.add("gen_look_core_el", core_in, elc)
    slon, slat, salt = inp("sat_lon"), inp("sat_lat"), inp("sat_alt")
    mlook_in = ["sat_lon", "sat_lat", "sat_alt", "d", "lon", "lat", "alt"]
    az2, el2 = run(lambda: orb.get_observer_look(slon, slat, salt, t, lon, lat, alt))
    out.add("gen_mlook_az", mlook_in, az2)
    out.add("gen_mlook_el", mlook_in, el2)
    sx, sy, sz = inp("sx"), inp("sy"), inp("sz")
    mcore_in = ["sx", "sy", "sz", "ox", "oy", "oz", "g", "lon", "lat"]
    calls = []

    def fake_op(utc_time, lo, la, al):
        calls.append(1)
        return ((sx, sy, sz), (zero, zero, zero)) if len(calls) == 1 else ((ox, oy, oz), (zero, zero, zero))
    astro.observer_position = fake_op
    astro.gmst = lambda utc_time: g
    try:
        azm, elm = run(lambda: orb.get_observer_look(slon, slat, salt, t, lon, lat, alt))
    finally:
        astro.observer_position, astro.gmst = saved_op, saved_g
    out.add("gen_mlook_core_az", mcore_in, azm)
    out.add("gen_mlook_core_el", mcore_in, elm)
    return tr, out


def generate(outpath, repo="/repo"):
    tr, out = trace(repo)
    text = emit.HEADER + "From PyOrb.gen Require Import Gen_astronomy.\n\n"
    known = dict(out.known0)
    for name, ins, node in out.defs:
        text += emit.definition(tr.g, name, ins, node, known=known) + "\n"
        if tr.g.nodes[node][0] not in ("const", "in", "pi"):
            known.setdefault(node, "(%s %s)" % (name, " ".join(ins)))
    for name, ins, conds in out.props:
        text += emit.prop_definition(tr.g, name, ins, conds, known=known) + "\n"
    from harness_compat import write_if_changed
    write_if_changed(outpath, text)
    tr.props = out.props
    tr.meta = out.meta
    return tr, out.defs


if __name__ == "__main__":
    outp = sys.argv[1] if len(sys.argv) > 1 else "/verif/coq/gen/Gen_orbital.v"
    tr, defs = generate(outp)
    print(json.dumps({"defs": [d[0] for d in defs], "nodes": len(tr.g.nodes)}))
