"""Regenerate coq/gen/Gen_sgp4.v from /repo/pyorbital/orbital.py: OrbitElements.__init__,
_SGDP4Base.__init__ (decision tree over every path: refusals, modes, and the near-earth
coefficient set) and _SGDP4.propagate / _Keplerians.calculate (decision tree over the decay
guards and the Newton exits, with every named intermediate quantity)."""
import json
import os
import sys

sys.path.insert(0, os.path.dirname(__file__))
import symtrace as st  # noqa: E402
import emit  # noqa: E402
from harness_compat import write_if_changed  # noqa: E402

TLE_IN = ["e0", "incl_deg", "raan_deg", "argp_deg", "ma_deg", "n_revday", "bstar"]
PROP_IN = TLE_IN + ["ts"]
OE_ATTRS = ["excentricity", "inclination", "right_ascension", "arg_perigee", "mean_anomaly", "mean_motion", "bstar",
            "original_mean_motion", "semi_major_axis", "period", "perigee"]
INIT_ATTRS = ["eo", "xincl", "xno", "bstar", "omegao", "xmo", "xnodeo", "xn_0", "cosIO", "sinIO", "x3thm1", "x1mth2",
              "x7thm1", "_betao2", "_betao", "xnodp", "aodp", "perigee", "apogee", "period", "eta", "c2", "c1", "c4",
              "c5", "c3", "omgcof", "xmdot", "omgdot", "_xhdot1", "xnodot", "xmcof", "xnodcf", "t2cof", "xlcof", "aycof",
              "cosXMO", "sinXMO", "delmo", "d2", "d3", "d4", "t3cof", "t4cof", "t5cof"]
KEP_ATTRS = ["_ts", "_xmp", "_xnode", "omega", "_tempe", "_templ", "_a", "_axn", "_ayn", "_elsq", "ecc", "_xlt",
             "_sinEPW", "_cosEPW", "_ecosE", "_esinE", "_betal", "_pl", "_r", "_invR", "_u", "_sin2u", "_cos2u",
             "rk", "uk", "xnodek", "xinc", "rdotk", "rfdotk"]
FIN_ATTRS = ["_sinEPW", "_cosEPW", "_ecosE", "_esinE", "_r", "_invR", "_u", "_sin2u", "_cos2u",
             "rk", "uk", "xnodek", "xinc", "rdotk", "rfdotk"]
KEP_OUT = ["ecc", "radius", "theta", "eqinc", "ascn", "argp", "smjaxs", "rdotk", "rfdotk"]


class FakeTle:
    pass


def build_tree(paths, leaf_of):
    """paths: list of (conds, payload) in DFS order -> nested ('node', cond, t_sub, f_sub) / ('leaf', payload)"""
    def rec(items, depth):
        if len(items) == 1 and len(items[0][0]) == depth:
            return ("leaf", leaf_of(items[0][1]))
        cond = items[0][0][depth][0]
        t = [it for it in items if it[0][depth][1]]
        f = [it for it in items if not it[0][depth][1]]
        for it in items:
            if it[0][depth][0] != cond:
                raise st.Unsupported("paths do not form a decision tree")
        if not t or not f:
            raise st.Unsupported("one-sided decision in the path set")
        ts_, fs_ = rec(t, depth + 1), rec(f, depth + 1)
        if ts_ == fs_:
            return ts_          # the decision does not influence anything observable below it
        return ("node", cond, ts_, fs_)
    return rec(paths, 0)


def tree_text(g, tree, known, indent="  "):
    pr = emit.Printer(g, dict(known))
    for i, node in enumerate(g.nodes):
        if node[0] == "in":
            pr.bound[i] = node[1]

    def cond_dec(c):
        if c[0] == "lt":
            return "Rlt_dec %s %s" % (pr.ref(c[1]), pr.ref(c[2]))
        if c[0] == "le":
            return "Rle_dec %s %s" % (pr.ref(c[1]), pr.ref(c[2]))
        raise st.Unsupported("decision on %r" % (c[0],))

    def rec(t, ind):
        if t[0] == "leaf":
            return t[1]
        c = t[1]
        neg = False
        while c[0] == "not":
            c = c[1]
            neg = not neg
        a, b = (t[2], t[3]) if not neg else (t[3], t[2])
        return "if %s\n%sthen %s\n%selse %s" % (cond_dec(c), ind, rec(a, ind + "  "), ind, rec(b, ind + "  "))
    return rec(tree, indent)


def cond_nodes(c):
    if c[0] == "not":
        return cond_nodes(c[1])
    if c[0] in ("and", "or"):
        return cond_nodes(c[1]) + cond_nodes(c[2])
    return [c[1], c[2]]


def trace(repo="/repo"):
    tr = st.Tracer()
    ld = st.Loader(repo)
    orb = st.with_tracer(tr, lambda: ld.load("orbital"))
    astro = ld.mods["astronomy"]
    v = {n: st.new_input(tr, n) for n in TLE_IN}
    ts = st.new_input(tr, "ts")
    zero = st.with_tracer(tr, lambda: st.lift(0))
    tle = FakeTle()
    tle.epoch = st.SymTime(zero)
    tle.excentricity = v["e0"]
    tle.inclination = v["incl_deg"]
    tle.right_ascension = v["raan_deg"]
    tle.arg_perigee = v["argp_deg"]
    tle.mean_anomaly = v["ma_deg"]
    tle.mean_motion = v["n_revday"]
    tle.mean_motion_derivative = zero       # only used by get_orbit_number
    tle.mean_motion_sec_derivative = zero
    tle.bstar = v["bstar"]
    # right_ascension_lon (raan - gmst(epoch), wrapped) is an OrbitElements summary the propagator
    # never reads: its comparison is kept out of the path conditions
    saved = astro.gmst
    astro.gmst = lambda t: zero
    res = {}

    def construct():
        oe = orb.OrbitElements(tle)
        sg = orb._SGDP4(oe)
        return oe, sg

    try:
        tr.fuel = 40
        paths = st.run_paths(tr, construct)
    finally:
        astro.gmst = saved
    res["init_paths"] = paths
    res["modes"] = {orb.SGDP4_ZERO_ECC: "ZERO_ECC", orb.SGDP4_DEEP_NORM: "DEEP_NORM",
                    orb.SGDP4_NEAR_SIMP: "NEAR_SIMP", orb.SGDP4_NEAR_NORM: "NEAR_NORM"}
    t = st.with_tracer(tr, lambda: st.SymTime(ts / 1440))
    holder = []
    orig = orb._Keplerians

    class Rec(orig):
        def __init__(self, params):
            orig.__init__(self, params)
            holder.append(self)
    res["prop"] = {}
    orb._Keplerians = Rec
    try:
        for pi, p in enumerate(paths):
            if p.outcome != "ok":
                continue
            oe, sg = p.value
            mode = res["modes"][sg._params.mode]

            def prop():
                del holder[:]
                kep = sg.propagate(t)
                return kep, holder[-1]
            tr.fuel = 40
            res["prop"][pi] = (mode, st.run_paths(tr, prop))
        # the finishing map as a function of the eccentric-anomaly argument: the same code, run with
        # np.fmod (which produces the Newton start value) returning a fresh input Ew, on the path
        # that leaves the Newton loop at its first test
        Ew = st.new_input(tr, "Ew")
        res["fin"] = {}
        ld.np.fmod = lambda x, m: Ew
        try:
            for pi, p in enumerate(paths):
                if p.outcome != "ok" or res["modes"][p.value[1]._params.mode] != "NEAR_NORM":
                    continue
                sg = p.value[1]

                def prop2():
                    del holder[:]
                    kep = sg.propagate(t)
                    return kep, holder[-1]
                tr.fuel = 40
                cands = [q for q in st.run_paths(tr, prop2) if q.outcome == "ok"]
                cands.sort(key=lambda q: len(q.conds))
                res["fin"][pi] = cands[0]
        finally:
            del ld.np.fmod
    finally:
        orb._Keplerians = orig
    return tr, res


def generate(outpath, repo="/repo"):
    tr, res = trace(repo)
    g = tr.g
    text = emit.HEADER + "From PyOrb.lib Require Import SgpOutcome.\n\n"
    defs = []
    known = {}

    def add(name, ins, node):
        nonlocal text
        text += emit.definition(g, name, ins, node, known=known) + "\n"
        if g.nodes[node][0] not in ("const", "in", "pi"):
            uses_ew = True
            if "Ew" in ins:
                nodes, _uses = emit.cone(g, [node])
                uses_ew = any(g.nodes[i] == ("in", "Ew") for i in nodes)
            if uses_ew:
                known.setdefault(node, "(%s %s)" % (name, " ".join(ins)))
        defs.append((name, list(ins), node))

    def lift(x):
        return st.with_tracer(tr, lambda: st.lift(x)).n

    paths = res["init_paths"]
    ok = [(i, p) for i, p in enumerate(paths) if p.outcome == "ok"]
    # ---- OrbitElements summary and constructor quantities, named by attribute.  A quantity whose
    # node is the same on every accepted path is defined once; otherwise once per variant.
    variants = {}
    for attr_list, getter, prefix in ((OE_ATTRS, lambda p: p.value[0], "gen_oe_"), (INIT_ATTRS, lambda p: p.value[1]._params, "gen_sgp4_")):
        for a in attr_list:
            seen = []
            for i, p in ok:
                val = getattr(getter(p), a, None)
                if val is None:
                    continue
                n = lift(val)
                if n not in seen:
                    seen.append(n)
            for k, n in enumerate(seen):
                name = prefix + a.lstrip("_") + ("" if len(seen) == 1 else "_v%d" % k)
                variants[(prefix, a, n)] = name
                add(name, TLE_IN, n)
    # ---- constructor decision tree
    nn_leaves = []
    nn_keys = []

    def init_leaf(p):
        if p.outcome != "ok":
            return {"OrbitalError": "InitOrbitalError", "NotImplementedError": "InitNotImplemented"}.get(p.outcome) or \
                _unsupported("constructor raises %s" % p.outcome)
        mode = res["modes"][p.value[1]._params.mode]
        if mode == "NEAR_NORM":
            par = p.value[1]._params
            key = tuple(lift(getattr(par, a)) for a in INIT_ATTRS if getattr(par, a, None) is not None)
            if key not in nn_keys:
                nn_keys.append(key)
                nn_leaves.append(p)
            return "(InitMode NearNorm %d)" % nn_keys.index(key)
        return "(InitMode %s 0)" % {"ZERO_ECC": "ZeroEcc", "DEEP_NORM": "DeepNorm", "NEAR_SIMP": "NearSimp"}[mode]

    # name the operands of the constructor's guards that are not attributes
    k = 0
    for p in paths:
        for c, _t in p.conds:
            for n in cond_nodes(c):
                if g.nodes[n][0] not in ("const", "in", "pi") and n not in known:
                    add("gen_init_guard%d" % k, TLE_IN, n)
                    k += 1
    tree = build_tree([(p.conds, p) for p in paths], init_leaf)
    text += "Definition gen_init_outcome (%s : R) : init_outcome :=\n  %s.\n\n" % (" ".join(TLE_IN), tree_text(g, tree, known, "  "))
    # which coefficient variant each near-earth-normal leaf uses
    leaf_variant = []
    for li, p in enumerate(nn_leaves):
        par = p.value[1]._params
        leaf_variant.append({a: variants[("gen_sgp4_", a, lift(getattr(par, a)))] for a in INIT_ATTRS if getattr(par, a, None) is not None})
    # ---- what propagate does for the other accepted modes
    refusals = {}
    for pi, (mode, pp) in res["prop"].items():
        if mode != "NEAR_NORM":
            outs = sorted(set(q.outcome for q in pp))
            refusals.setdefault(mode, set()).update(outs)
    # ---- propagation: decision tree + named quantities per near-earth-normal leaf
    prop_summary = []
    compose = []
    prop_info = {}
    nn_index = {id(p): li for li, p in enumerate(nn_leaves)}
    for pi, (mode, pp) in res["prop"].items():
        if mode != "NEAR_NORM" or id(paths[pi]) not in nn_index:
            continue
        li = nn_index[id(paths[pi])]
        okp = [q for q in pp if q.outcome == "ok"]
        epw_names = {}
        def name_iterates():
                # the Newton iterates: arguments of the sines kept in _sinEPW
            for q in okp:
                n = lift(q.value[1]._sinEPW)
                if g.nodes[n][0] != "sin":
                    _unsupported("_sinEPW is not a sine")
                arg = g.nodes[n][1]
                if arg not in epw_names:
                    nm = "gen_nn%d_epw_x%d" % (li, len(epw_names))
                    epw_names[arg] = nm
                    if arg not in known:
                        add(nm, PROP_IN, arg)
        # named intermediate quantities
        for a in KEP_ATTRS:
            if a == "_sinEPW":
                name_iterates()
            seen = []
            for q in okp:
                val = getattr(q.value[1], a, None)
                if val is None:
                    continue
                n = lift(val)
                if n not in seen:
                    seen.append(n)
            for k2, n in enumerate(seen):
                if n in known or g.nodes[n][0] in ("const", "in", "pi"):
                    continue
                add("gen_nn%d_%s%s" % (li, a.lstrip("_"), "" if len(seen) == 1 else "_x%d" % k2), PROP_IN, n)
        # the finishing map as a function of Ew
        fq = res["fin"][pi]
        fin_names = {}
        for a in FIN_ATTRS:
            n = lift(getattr(fq.value[1], a))
            nm = "gen_nn%d_fin_%s" % (li, a.lstrip("_"))
            add(nm, PROP_IN + ["Ew"], n)
            fin_names[a] = nm
        for kname in KEP_OUT:
            add("gen_nn%d_fin_out_%s" % (li, kname), PROP_IN + ["Ew"], lift(fq.value[0][kname]))
        exits = []

        def prop_leaf(q, exits=exits, li=li):
            if q.outcome != "ok":
                return {"Exception": "PropCrash", "ValueError": "PropEccLow"}.get(q.outcome) or _unsupported("propagate raises %s" % q.outcome)
            exits.append(q)
            return "(PropOk %d)" % (len(exits) - 1)
        kk = 0
        for q in pp:
            for c, _t in q.conds:
                for n in cond_nodes(c):
                    if g.nodes[n][0] not in ("const", "in", "pi") and n not in known:
                        add("gen_nn%d_guard%d" % (li, kk), PROP_IN, n)
                        kk += 1
        ptree = build_tree([(q.conds, q) for q in pp], prop_leaf)
        prop_info[li] = {"tree": ptree, "exits": [{kname: lift(q.value[0][kname]) for kname in KEP_OUT} for q in exits]}
        text += "Definition gen_nn%d_prop_outcome (%s : R) : prop_outcome :=\n  %s.\n\n" % (li, " ".join(PROP_IN), tree_text(g, ptree, known, "  "))
        for j, q in enumerate(exits):
            for kname in KEP_OUT:
                add("gen_nn%d_x%d_%s" % (li, j, kname), PROP_IN, lift(q.value[0][kname]))
        # generated composition lemmas (checked by conversion): every exit's quantities are the
        # finishing map applied to that exit's Newton iterate
        name_of = {n: nm for nm, _ins, n in defs}
        B = " ".join(PROP_IN)
        for j, q in enumerate(exits):
            epw = epw_names[g.nodes[lift(q.value[1]._sinEPW)][1]]
            for a in FIN_ATTRS:
                n = lift(getattr(q.value[1], a))
                lhs = name_of.get(n)
                if lhs is None or lhs.startswith("gen_nn%d_fin_" % li):
                    continue
                compose.append("Lemma compose_nn%d_x%d_%s (%s : R) :\n  %s %s = %s %s (%s %s).\nProof. reflexivity. Qed.\n"
                               % (li, j, a.lstrip("_"), B, lhs, B, fin_names[a], B, epw, B))
            # the Newton exit test of this exit: |(capu - epw_j) + esinE_j| < 1e-12
            newton = [c for c, taken in q.conds if taken and c[0] == "lt" and g.nodes[c[1]][0] == "abs"
                      and name_of.get(c[1], "").startswith("gen_nn%d_guard" % li)]
            if newton:
                gname = name_of[newton[-1][1]]
                epw0 = epw_names[g.nodes[lift(exits[0].value[1]._sinEPW)][1]]
                # by conversion when the source writes f = capu - epw + esinE; otherwise up to ring (operand order)
                compose.append("Lemma compose_nn%d_x%d_exit_test (%s : R) :\n  %s %s = Rabs ((%s %s - %s %s) + %s %s (%s %s)).\n"
                               "Proof. first [reflexivity | unfold %s; rewrite <- compose_nn%d_x%d_esinE; f_equal; ring]. Qed.\n"
                               % (li, j, B, gname, B, epw0, B, epw, B, fin_names["_esinE"], B, epw, B, gname, li, j))
            for kname in KEP_OUT:
                compose.append("Lemma compose_nn%d_x%d_out_%s (%s : R) :\n  gen_nn%d_x%d_%s %s = gen_nn%d_fin_out_%s %s (%s %s).\nProof. reflexivity. Qed.\n"
                               % (li, j, kname, B, li, j, kname, B, li, kname, B, epw, B))
        prop_summary.append({"leaf": li, "paths": len(pp), "ok_exits": len(exits), "outcomes": sorted(set(q.outcome for q in pp))})
    text += "Definition gen_propagate_refuses (m : sgp_mode) : bool :=\n  match m with\n"
    for mcoq, mname in (("ZeroEcc", "ZERO_ECC"), ("DeepNorm", "DEEP_NORM"), ("NearSimp", "NEAR_SIMP"), ("NearNorm", "NEAR_NORM")):
        if mname == "NEAR_NORM":
            val = "false"
        elif mname in refusals:
            if refusals[mname] != {"NotImplementedError"}:
                _unsupported("propagate in mode %s does not always refuse: %r" % (mname, refusals[mname]))
            val = "true"
        else:
            val = "true"   # mode never produced by the constructor on any path
        text += "  | %s => %s\n" % (mcoq, val)
    text += "  end.\n\n"
    summary = {"init_paths": len(paths), "init_outcomes": sorted(set(p.outcome for p in paths)),
               "near_norm_leaves": len(nn_leaves), "leaf_variants": leaf_variant,
               "other_modes_propagate": {m: sorted(s) for m, s in refusals.items()}, "prop": prop_summary}
    text += "(* summary: %s *)\n" % json.dumps(summary)
    write_if_changed(outpath, text)
    ctext = ("(* GENERATED composition lemmas for Gen_sgp4.v (each checked by conversion). *)\n"
             "From Coq Require Import Reals.\nFrom PyOrb.lib Require Import PyReal SgpOutcome.\n"
             "From PyOrb.gen Require Import Gen_sgp4.\nOpen Scope R_scope.\n\n" + "\n".join(compose))
    write_if_changed(outpath.replace("Gen_sgp4.v", "Gen_sgp4_compose.v"), ctext)
    tr.summary = summary
    tr.trees = {"init": tree, "prop": prop_info}
    tr.res = res
    tr.nn_leaves = nn_leaves
    return tr, defs


def _unsupported(msg):
    raise st.Unsupported(msg)


if __name__ == "__main__":
    outp = sys.argv[1] if len(sys.argv) > 1 else "/verif/coq/gen/Gen_sgp4.v"
    tr, defs = generate(outp)
    s = dict(tr.summary)
    s.pop("leaf_variants")
    print(json.dumps({"defs": len(defs), "nodes": len(tr.g.nodes), "summary": s}))
