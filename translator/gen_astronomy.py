"""Regenerate coq/gen/Gen_astronomy.v from /repo/pyorbital/astronomy.py."""
import json
import os
import sys

sys.path.insert(0, os.path.dirname(__file__))
import symtrace as st  # noqa: E402
import emit  # noqa: E402


def trace(repo="/repo", tr=None, ld=None):
    tr = tr or st.Tracer()
    ld = ld or st.Loader(repo)
    astro = st.with_tracer(tr, lambda: ld.load("astronomy"))
    d = st.new_input(tr, "d")        # utc_time as days since J2000 (2000-01-01T12:00)
    lon = st.new_input(tr, "lon")    # degrees
    lat = st.new_input(tr, "lat")    # degrees
    alt = st.new_input(tr, "alt")    # km
    t = st.SymTime(d)
    defs = []   # (name, inputs, node)

    def run(fn):
        return st.with_tracer(tr, fn)

    defs.append(("gen_jdays2000", ["d"], run(lambda: astro.jdays2000(t)).n))
    defs.append(("gen_jdays", ["d"], run(lambda: astro.jdays(t)).n))
    defs.append(("gen_gmst", ["d"], run(lambda: astro.gmst(t)).n))
    defs.append(("gen_sun_ecliptic_longitude", ["d"], run(lambda: astro.sun_ecliptic_longitude(t)).n))
    ra, dec = run(lambda: astro.sun_ra_dec(t))
    defs.append(("gen_sun_ra", ["d"], ra.n))
    defs.append(("gen_sun_dec", ["d"], dec.n))
    defs.append(("gen_cos_zen", ["d", "lon", "lat"], run(lambda: astro.cos_zen(t, lon, lat)).n))
    defs.append(("gen_sun_zenith_angle", ["d", "lon", "lat"], run(lambda: astro.sun_zenith_angle(t, lon, lat)).n))
    al, az = run(lambda: astro.get_alt_az(t, lon, lat))
    defs.append(("gen_sun_alt", ["d", "lon", "lat"], al.n))
    defs.append(("gen_sun_az", ["d", "lon", "lat"], az.n))
    defs.append(("gen_sun_earth_distance_correction", ["d"],
                 run(lambda: astro.sun_earth_distance_correction(t)).n))
    (x, y, z), (vx, vy, vz) = run(lambda: astro.observer_position(t, lon, lat, alt))
    ins = ["d", "lon", "lat", "alt"]
    for nm, v in (("x", x), ("y", y), ("z", z), ("vx", vx), ("vy", vy)):
        defs.append(("gen_observer_%s" % nm, ins, v.n))
    # vz is the python float 0.0 routed through _float_to_sibling_result; recorded as a constant
    vzn = st.with_tracer(tr, lambda: st.lift(vz) if not hasattr(vz, "shape") or isinstance(vz, st.Sym) else st.lift(vz.item()))
    defs.append(("gen_observer_vz", ins, vzn.n))
    return tr, defs


def known_map(tr, defs):
    known = {}
    for name, ins, node in defs:
        if tr.g.nodes[node][0] not in ("const", "in", "pi"):
            known.setdefault(node, "(%s %s)" % (name, " ".join(ins)))
    return known


def generate(out, repo="/repo"):
    tr, defs = trace(repo)
    text = emit.HEADER + "\n"
    known = {}
    for name, ins, node in defs:
        text += emit.definition(tr.g, name, ins, node, known=known) + "\n"
        if tr.g.nodes[node][0] not in ("const", "in", "pi"):
            known.setdefault(node, "(%s %s)" % (name, " ".join(ins)))
    old = open(out).read() if os.path.exists(out) else None
    if old != text:
        with open(out, "w") as f:
            f.write(text)
    return tr, defs


if __name__ == "__main__":
    out = sys.argv[1] if len(sys.argv) > 1 else "/verif/coq/gen/Gen_astronomy.v"
    tr, defs = generate(out)
    print(json.dumps({"defs": [d[0] for d in defs], "nodes": len(tr.g.nodes)}))
