"""Symbolic tracer: runs the REAL pyorbital module source (with float literals
lifted to exact rationals) on symbolic numbers and records the real-number DAG
it computes.  Fail closed: anything the shim does not define raises
Unsupported.

The output (a Graph of hash-consed nodes + per-path conditions) is printed as
Coq text by emit.py and evaluated in binary64 by evalf() for the translator
self-check against the interpreter.
"""
import ast
import builtins
import datetime as _dt
import math
import types
from fractions import Fraction

import numpy as _np


class Unsupported(Exception):
    pass


class FuelExhausted(Exception):
    """a loop with a symbolic exit test ran past the tracer's decision budget"""


# --------------------------------------------------------------------------
# graph
# --------------------------------------------------------------------------
class Graph:
    def __init__(self):
        self.nodes = []          # (op, args)
        self.index = {}
        self.inputs = []         # names in order

    def mk(self, op, *args):
        key = (op,) + args
        i = self.index.get(key)
        if i is None:
            i = len(self.nodes)
            self.nodes.append(key)
            self.index[key] = i
        return i


class Tracer:
    """Holds the graph and the decision schedule of the current run."""

    def __init__(self):
        self.g = Graph()
        self.schedule = []
        self.pos = 0
        self.path = []           # (boolnode, taken)
        self.fuel = 64           # max symbolic decisions per path

    def _const_of(self, n):
        node = self.g.nodes[n]
        if node[0] == "const":
            return Fraction(node[1], node[2])
        return None

    def _implied(self, cond):
        """True/False if the path's earlier decisions on the same node against constants imply it"""
        if cond[0] not in ("lt", "le"):
            return None
        for c, t in self.path:
            if c[0] not in ("lt", "le"):
                continue
            # normalise both to facts of the form  n REL const
            for (q, qt) in ((c, t),):
                facts = _facts(self, q, qt)
                goal_true = _facts(self, cond, True)
                goal_false = _facts(self, cond, False)
                for f in facts:
                    for gt in goal_true:
                        if _entails(f, gt):
                            return True
                    for gf in goal_false:
                        if _entails(f, gf):
                            return False
        return None

    def decide(self, cond):
        # same condition decided before on this path -> same answer
        for c, t in self.path:
            if c == cond:
                return t
            if c == ("not", cond) or ("not", c) == cond:
                return not t
        imp = self._implied(cond)
        if imp is not None:
            return imp
        if self.pos >= self.fuel:
            raise FuelExhausted("more than %d symbolic decisions on one path" % self.fuel)
        if self.pos < len(self.schedule):
            t = self.schedule[self.pos]
        else:
            t = True
            self.schedule.append(True)
        self.pos += 1
        self.path.append((cond, t))
        return t


def _facts(tr, c, taken):
    """facts (node, rel, const) with rel in {'<','<=','>','>='} expressed by deciding c as `taken`"""
    op, a, b = c
    ca, cb = tr._const_of(a), tr._const_of(b)
    out = []
    if cb is not None and ca is None:        # a op const
        rel = {("lt", True): "<", ("lt", False): ">=", ("le", True): "<=", ("le", False): ">"}[(op, taken)]
        out.append((a, rel, cb))
    if ca is not None and cb is None:        # const op b
        rel = {("lt", True): ">", ("lt", False): "<=", ("le", True): ">=", ("le", False): "<"}[(op, taken)]
        out.append((b, rel, ca))
    return out


def _entails(f, g):
    """does fact f = (n, rel, c) entail fact g = (n, rel', c')?"""
    if f[0] != g[0]:
        return False
    _, r, c = f
    _, r2, c2 = g
    if r in ("<", "<="):
        if r2 == "<":
            return c < c2 or (c == c2 and r == "<")
        if r2 == "<=":
            return c <= c2
        return False
    if r2 == ">":
        return c > c2 or (c == c2 and r == ">")
    if r2 == ">=":
        return c >= c2
    return False


_T = None  # current tracer


def cur():
    if _T is None:
        raise RuntimeError("no tracer active")
    return _T


def _const(fr):
    fr = Fraction(fr)
    return cur().g.mk("const", fr.numerator, fr.denominator)


def lift(x):
    """python number / Sym -> Sym"""
    if isinstance(x, Sym):
        return x
    if isinstance(x, bool):
        raise Unsupported("bool as number")
    if isinstance(x, (int, Fraction)):
        return Sym(_const(x))
    if isinstance(x, (_np.integer,)):
        return Sym(_const(int(x)))
    if isinstance(x, float):
        raise Unsupported("unlifted float %r reached the symbolic layer" % x)
    if isinstance(x, _np.ndarray) and x.ndim == 0:
        return lift(x.item())
    raise Unsupported("cannot lift %r" % type(x))


def K(text):
    """exact decimal literal"""
    return Sym(_const(Fraction(text)))


class Sym:
    __slots__ = ("n",)
    __array_priority__ = 1000
    dtype = "R"
    shape = ()
    ndim = 0

    def __init__(self, n):
        self.n = n

    # --- helpers
    def _cv(self):
        node = cur().g.nodes[self.n]
        if node[0] == "const":
            return Fraction(node[1], node[2])
        return None

    def _bin(self, op, other, swap=False):
        if swap and isinstance(other, _np.ndarray) and other.dtype == object:
            # `objarray op Sym`: numpy defers to the reflected method (array priority); elementwise
            out = _np.empty(other.shape, dtype=object)
            for idx in _np.ndindex(other.shape):
                out[idx] = lift(other[idx])._bin(op, self)
            return out
        try:
            o = lift(other)
        except Unsupported:
            return NotImplemented
        a, b = (o, self) if swap else (self, o)
        ca, cb = a._cv(), b._cv()
        if ca is not None and cb is not None:
            if op == "add":
                return Sym(_const(ca + cb))
            if op == "sub":
                return Sym(_const(ca - cb))
            if op == "mul":
                return Sym(_const(ca * cb))
            if op == "div" and cb != 0:
                return Sym(_const(ca / cb))
        # identities that are exact both over R and in binary64
        if op in ("add", "sub") and cb == 0:
            return a
        if op == "add" and ca == 0:
            return b
        if op in ("mul", "div") and cb == 1:
            return a
        if op == "mul" and ca == 1:
            return b
        # floor(x) + (x - floor(x)) = x  (exact over R; the split only matters for binary64 rounding)
        if op == "add":
            na, nb = cur().g.nodes[a.n], cur().g.nodes[b.n]
            if na[0] == "floor" and nb[0] == "sub" and nb[1] == na[1] and nb[2] == a.n:
                return Sym(na[1])
        if op == "mul" and cb is not None and ca is None:
            na = cur().g.nodes[a.n]
            if na[0] == "div":
                cd = Sym(na[2])._cv()
                if cd is not None and cd != 0 and cb / cd == 1:
                    return Sym(na[1])
        return Sym(cur().g.mk(op, a.n, b.n))

    def __add__(self, o):
        if isinstance(o, _np.ndarray):
            return NotImplemented
        return self._bin("add", o)

    def __radd__(self, o):
        return self._bin("add", o, True)

    def __sub__(self, o):
        if isinstance(o, _np.ndarray):
            return NotImplemented
        return self._bin("sub", o)

    def __rsub__(self, o):
        return self._bin("sub", o, True)

    def __mul__(self, o):
        if isinstance(o, _np.ndarray):
            return NotImplemented
        if isinstance(o, _np.timedelta64):
            return SymDelta(self * _delta_days(o))
        return self._bin("mul", o)

    def __rmul__(self, o):
        return self._bin("mul", o, True)

    def __truediv__(self, o):
        if isinstance(o, _np.ndarray):
            return NotImplemented
        return self._bin("div", o)

    def __rtruediv__(self, o):
        return self._bin("div", o, True)

    def __mod__(self, o):
        return self._bin("pymod", o)

    def __neg__(self):
        c = self._cv()
        if c is not None:
            return Sym(_const(-c))
        return Sym(cur().g.mk("neg", self.n))

    def __pos__(self):
        return self

    def __abs__(self):
        c = self._cv()
        if c is not None:
            return Sym(_const(abs(c)))
        return Sym(cur().g.mk("abs", self.n))

    def __pow__(self, e):
        if isinstance(e, Sym):
            ce = e._cv()
            if ce is None:
                raise Unsupported("symbolic exponent")
            e = ce
        if isinstance(e, float):
            raise Unsupported("unlifted float exponent")
        e = Fraction(e)
        c = self._cv()
        if e.denominator == 1:
            k = int(e)
            if c is not None and (k >= 0 or c != 0):
                return Sym(_const(c ** k))
            if k >= 0:
                return Sym(cur().g.mk("powi", self.n, k))
            return Sym(cur().g.mk("div", _const(1), cur().g.mk("powi", self.n, -k)))
        return Sym(cur().g.mk("powq", self.n, e.numerator, e.denominator))

    def __rpow__(self, b):
        raise Unsupported("symbolic exponent")

    # --- comparisons
    def _cmp(self, op, o):
        o = lift(o)
        ca, cb = self._cv(), o._cv()
        if ca is not None and cb is not None:
            return {"lt": ca < cb, "le": ca <= cb, "gt": ca > cb, "ge": ca >= cb,
                    "eq": ca == cb, "ne": ca != cb}[op]
        if op == "gt":
            return SymBool(("lt", o.n, self.n))
        if op == "ge":
            return SymBool(("le", o.n, self.n))
        if op == "ne":
            return SymBool(("not", ("eq", self.n, o.n)))
        return SymBool((op, self.n, o.n))

    def __lt__(self, o):
        return self._cmp("lt", o)

    def __le__(self, o):
        return self._cmp("le", o)

    def __gt__(self, o):
        return self._cmp("gt", o)

    def __ge__(self, o):
        return self._cmp("ge", o)

    def __eq__(self, o):
        if not isinstance(o, (Sym, int, Fraction)):
            return NotImplemented
        return self._cmp("eq", o)

    def __ne__(self, o):
        if not isinstance(o, (Sym, int, Fraction)):
            return NotImplemented
        return self._cmp("ne", o)

    __hash__ = None

    def __bool__(self):
        raise Unsupported("truth value of a symbolic number")

    def __float__(self):
        # only message formatting ("%e" % x) may do this: the result poisons any arithmetic
        return _Leaked("nan")

    def __int__(self):
        raise Unsupported("int() of a symbolic number")

    # numpy-ish surface used by the code under trace
    def astype(self, _dtype, copy=True):
        return self

    def clip(self, min=None, max=None):
        r = self
        if max is not None:
            m = lift(max)
            r = where(r > m, m, r)
        if min is not None:
            m = lift(min)
            r = where(r < m, m, r)
        return r

    def ravel(self):
        return _np.array([self], dtype=object)

    def __getitem__(self, idx):
        if isinstance(idx, (SymBool, bool)):
            return self
        raise Unsupported("indexing a symbolic scalar")

    def __str__(self):
        return "Sym(%d)" % self.n

    def conj(self):
        return self

    def __array_function__(self, *a, **k):  # marker only (astronomy._float_to_sibling_result)
        raise Unsupported("__array_function__ dispatch")

    # methods numpy's object loops call
    def sqrt(self):
        return un("sqrt", self)

    def sin(self):
        return un("sin", self)

    def cos(self):
        return un("cos", self)

    def tan(self):
        return un("tan", self)

    def arctan(self):
        return un("atan", self)

    def arcsin(self):
        return un("asin", self)

    def arccos(self):
        return un("acos", self)

    def arctan2(self, o):
        return bi("atan2", self, o)

    def deg2rad(self):
        return un("deg2rad", self)

    def rad2deg(self):
        return un("rad2deg", self)

    def __repr__(self):
        return "Sym(%d)" % self.n


def _leak(*a, **k):
    raise Unsupported("arithmetic on float(symbolic number)")


class _Leaked(float):
    __add__ = __radd__ = __sub__ = __rsub__ = __mul__ = __rmul__ = __truediv__ = __rtruediv__ = _leak
    __pow__ = __rpow__ = __neg__ = __abs__ = __lt__ = __le__ = __gt__ = __ge__ = __mod__ = __rmod__ = _leak
    __floordiv__ = __rfloordiv__ = __int__ = __round__ = __bool__ = _leak


class SymBool:
    def __init__(self, c):
        self.c = c

    def __bool__(self):
        return cur().decide(self.c)

    def __invert__(self):
        if self.c[0] == "not":
            return SymBool(self.c[1])
        return SymBool(("not", self.c))

    def __and__(self, o):
        if isinstance(o, bool):
            return self if o else False
        return SymBool(("and", self.c, o.c))

    __rand__ = __and__

    def __or__(self, o):
        if isinstance(o, bool):
            return True if o else self
        return SymBool(("or", self.c, o.c))

    __ror__ = __or__

    def any(self):
        return self

    def all(self):
        return self


def un(op, x):
    x = lift(x)
    return Sym(cur().g.mk(op, x.n))


def bi(op, x, y):
    x, y = lift(x), lift(y)
    return Sym(cur().g.mk(op, x.n, y.n))


def where(c, a, b):
    if isinstance(c, (bool, _np.bool_)):
        return a if c else b
    if isinstance(c, _np.ndarray):
        out = _np.empty(c.shape, dtype=object)
        a_ = _np.broadcast_to(_np.asarray(a, dtype=object), c.shape)
        b_ = _np.broadcast_to(_np.asarray(b, dtype=object), c.shape)
        for idx in _np.ndindex(c.shape):
            out[idx] = where(c[idx], a_[idx], b_[idx])
        return out
    if not isinstance(c, SymBool):
        raise Unsupported("where on %r" % type(c))
    a, b = lift(a), lift(b)
    return Sym(cur().g.mk("ite", c.c, a.n, b.n))


# --------------------------------------------------------------------------
# symbolic time
# --------------------------------------------------------------------------
_J2000 = _np.datetime64("2000-01-01T12:00", "ns")


def _days_of(dt64):
    ns = (dt64.astype("datetime64[ns]") - _J2000).astype("int64")
    return Fraction(int(ns), 86400 * 10**9)


class SymTime:
    """an instant given by a symbolic number of days since J2000 (2000-01-01T12:00)"""

    def __init__(self, days):
        self.days = lift(days)

    def astype(self, _t):
        return self

    def __sub__(self, o):
        if isinstance(o, SymTime):
            return SymDelta(self.days - o.days)
        if isinstance(o, _np.datetime64):
            return SymDelta(self.days - _days_of(o))
        if isinstance(o, (_np.timedelta64, SymDelta)):
            return SymTime(self.days - _delta_days(o))
        return NotImplemented

    def __rsub__(self, o):
        if isinstance(o, _np.datetime64):
            return SymDelta(_days_of(o) - self.days)
        return NotImplemented

    def __add__(self, o):
        if isinstance(o, (_np.timedelta64, SymDelta)):
            return SymTime(self.days + _delta_days(o))
        return NotImplemented


def _delta_days(o):
    if isinstance(o, SymDelta):
        return o.days
    ns = int(o.astype("timedelta64[ns]").astype("int64"))
    return Fraction(ns, 86400 * 10**9)


class SymDelta:
    def __init__(self, days):
        self.days = lift(days)

    def __floordiv__(self, o):
        if isinstance(o, _np.timedelta64):
            return un("floor", self.days / _delta_days(o))
        return NotImplemented

    def __sub__(self, o):
        if isinstance(o, (SymDelta, _np.timedelta64)):
            return SymDelta(self.days - _delta_days(o))
        return NotImplemented

    def __truediv__(self, o):
        if isinstance(o, _np.timedelta64):
            return self.days / _delta_days(o)
        if isinstance(o, (int, Fraction)):
            return SymDelta(self.days / o)
        return NotImplemented


# --------------------------------------------------------------------------
# numpy shim
# --------------------------------------------------------------------------
def _is_sym(x):
    return isinstance(x, Sym)


def _elementwise1(op):
    def f(x, *a, **k):
        if a or k:
            raise Unsupported("extra arguments to np.%s" % op)
        if isinstance(x, _np.ndarray):
            out = _np.empty(x.shape, dtype=object)
            for idx in _np.ndindex(x.shape):
                out[idx] = f(x[idx])
            return out
        return un(op, x)
    f.__name__ = op
    return f


def _elementwise2(op):
    def f(x, y, *a, **k):
        if a or k:
            raise Unsupported("extra arguments to np.%s" % op)
        if isinstance(x, _np.ndarray) or isinstance(y, _np.ndarray):
            xb, yb = _np.broadcast_arrays(_np.asarray(x, dtype=object), _np.asarray(y, dtype=object))
            out = _np.empty(xb.shape, dtype=object)
            for idx in _np.ndindex(xb.shape):
                out[idx] = f(xb[idx], yb[idx])
            return out
        return bi(op, x, y)
    f.__name__ = op
    return f


def _einsum(sub, *ops):
    ins, out = sub.replace(" ", "").split("->")
    ins = ins.split(",")
    ops = [_np.asarray(o, dtype=object) for o in ops]
    dims = {}
    for s, o in zip(ins, ops):
        if len(s) != o.ndim:
            raise Unsupported("einsum rank mismatch")
        for ch, d in zip(s, o.shape):
            if dims.setdefault(ch, d) != d:
                if d == 1:
                    continue            # numpy's einsum broadcasts length-1 axes
                if dims[ch] == 1:
                    dims[ch] = d
                    continue
                raise Unsupported("einsum dim mismatch")
    summed = [ch for ch in dims if ch not in out]
    res = _np.empty([dims[ch] for ch in out], dtype=object)
    for oidx in _np.ndindex(*res.shape):
        env = dict(zip(out, oidx))
        acc = None
        for sidx in _np.ndindex(*[dims[ch] for ch in summed]):
            env.update(zip(summed, sidx))
            term = None
            for s, o in zip(ins, ops):
                v = o[tuple(env[ch] if o.shape[k] != 1 else 0 for k, ch in enumerate(s))]
                term = v if term is None else term * v
            acc = term if acc is None else acc + term
        res[oidx] = acc
    return res


def _objarr(x):
    """np.array on (nested tuples of) Sym/arrays -> object ndarray"""
    if isinstance(x, _np.ndarray):
        return x.copy()
    if isinstance(x, Sym):
        return x           # immutable: a "copy" is the same value
    if isinstance(x, (tuple, list)):
        parts = []
        for p in x:
            q = _objarr(p)
            if isinstance(q, Sym):
                a = _np.empty((), dtype=object)
                a[()] = q
                q = a
            parts.append(q)
        return _np.stack(parts, axis=0) if parts else _np.empty((0,), dtype=object)
    if isinstance(x, (int, Fraction)):
        a = _np.empty((), dtype=object)
        a[()] = lift(x)
        return a
    raise Unsupported("np.array of %r" % type(x))


def _arr0(x):
    """a bare Sym as a 0-d object array (for numpy shape functions)"""
    if isinstance(x, Sym):
        a = _np.empty((), dtype=object)
        a[()] = x
        return a
    return x


class NpShim:
    """the `np` the traced modules see"""
    pi = None  # set per tracer (a Sym)
    newaxis = None
    float64 = _np.float64
    float32 = _np.float32
    timedelta64 = staticmethod(_np.timedelta64)
    ndarray = _np.ndarray

    def __getattr__(self, name):
        raise Unsupported("np.%s is not given a meaning by the shim" % name)

    @property
    def pi(self):
        return Sym(cur().g.mk("pi"))

    @staticmethod
    def datetime64(x, *a):
        if isinstance(x, SymTime):
            return x
        return _np.datetime64(x, *a)

    sin = staticmethod(_elementwise1("sin"))
    cos = staticmethod(_elementwise1("cos"))
    tan = staticmethod(_elementwise1("tan"))
    sqrt = staticmethod(_elementwise1("sqrt"))
    arctan = staticmethod(_elementwise1("atan"))
    arcsin = staticmethod(_elementwise1("asin"))
    arccos = staticmethod(_elementwise1("acos"))
    deg2rad = staticmethod(_elementwise1("deg2rad"))
    rad2deg = staticmethod(_elementwise1("rad2deg"))
    arctan2 = staticmethod(_elementwise2("atan2"))
    fmod = staticmethod(_elementwise2("fmod"))
    mod = staticmethod(_elementwise2("pymod"))
    # synonyms and one-line compositions, so that an equivalent spelling of a formula is still translated
    radians = deg2rad
    degrees = rad2deg
    remainder = mod
    floor = staticmethod(_elementwise1("floor"))

    @staticmethod
    def _map1(fn, x):
        if isinstance(x, _np.ndarray):
            out = _np.empty(x.shape, dtype=object)
            for idx in _np.ndindex(x.shape):
                out[idx] = fn(lift(x[idx]))
            return out
        return fn(lift(x))

    @staticmethod
    def _map2(fn, x, y):
        if isinstance(x, _np.ndarray) or isinstance(y, _np.ndarray):
            bx, by = _np.broadcast_arrays(_arr0(_objarr(x)), _arr0(_objarr(y)))
            out = _np.empty(bx.shape, dtype=object)
            for idx in _np.ndindex(bx.shape):
                out[idx] = fn(lift(bx[idx]), lift(by[idx]))
            return out
        return fn(lift(x), lift(y))

    @staticmethod
    def square(x):
        return NpShim._map1(lambda v: v * v, x)

    @staticmethod
    def negative(x):
        return NpShim._map1(lambda v: -v, x)

    @staticmethod
    def reciprocal(x):
        return NpShim._map1(lambda v: 1 / v, x)

    @staticmethod
    def power(x, y):
        return NpShim._map2(lambda a, b: a ** b, x, y)
    float_power = power

    @staticmethod
    def hypot(x, y):
        return NpShim._map2(lambda a, b: un("sqrt", a * a + b * b), x, y)

    @staticmethod
    def add(x, y):
        return NpShim._map2(lambda a, b: a + b, x, y)

    @staticmethod
    def subtract(x, y):
        return NpShim._map2(lambda a, b: a - b, x, y)

    @staticmethod
    def multiply(x, y):
        return NpShim._map2(lambda a, b: a * b, x, y)

    @staticmethod
    def divide(x, y):
        return NpShim._map2(lambda a, b: a / b, x, y)
    true_divide = divide

    @staticmethod
    def minimum(x, y):
        return NpShim._map2(lambda a, b: where(a < b, a, b), x, y)

    @staticmethod
    def maximum(x, y):
        return NpShim._map2(lambda a, b: where(a < b, b, a), x, y)

    @staticmethod
    def abs(x):
        if isinstance(x, _np.ndarray):
            return _np.vectorize(abs, otypes=[object])(x)
        return abs(lift(x))

    @staticmethod
    def absolute(x):
        return NpShim.abs(x)

    @staticmethod
    def fabs(x):
        return NpShim.abs(x)

    @staticmethod
    def logical_or(a, b):
        if isinstance(a, (bool, _np.bool_)):
            return True if a else b
        if isinstance(b, (bool, _np.bool_)):
            return True if b else a
        return a | b

    @staticmethod
    def logical_not(a):
        if isinstance(a, (bool, _np.bool_)):
            return not a
        return ~a

    @staticmethod
    def sign(x):
        return un("sign", x)

    where = staticmethod(where)

    @staticmethod
    def any(x):
        if isinstance(x, (bool, _np.bool_)):
            return bool(x)
        if isinstance(x, SymBool):
            return x
        if isinstance(x, _np.ndarray):
            acc = False
            for v in x.flat:
                acc = v | acc
            return acc
        raise Unsupported("np.any of %r" % type(x))

    @staticmethod
    def all(x):
        if isinstance(x, (bool, _np.bool_)):
            return bool(x)
        if isinstance(x, SymBool):
            return x
        if isinstance(x, _np.ndarray):
            acc = True
            for v in x.flat:
                acc = v & acc
            return acc
        raise Unsupported("np.all of %r" % type(x))

    @staticmethod
    def clip(x, lo=None, hi=None):
        if isinstance(x, _np.ndarray):
            out = _np.empty(x.shape, dtype=object)
            for idx in _np.ndindex(x.shape):
                out[idx] = lift(x[idx]).clip(min=lo, max=hi)
            return out
        return lift(x).clip(min=lo, max=hi)

    @staticmethod
    def isnan(x):
        # the model is over the reals: no NaN (NaN behaviour is covered by correspondence runs)
        if isinstance(x, _np.ndarray):
            return _np.zeros(x.shape, dtype=bool)
        lift(x)
        return False

    @staticmethod
    def logical_and(a, b):
        if isinstance(a, (bool, _np.bool_)):
            return b if a else False
        if isinstance(b, (bool, _np.bool_)):
            return a if b else False
        return a & b

    array = staticmethod(_objarr)

    @staticmethod
    def asarray(x, dtype=None, like=None):
        if isinstance(like, Sym) and isinstance(x, (Sym, int, Fraction)):
            return lift(x)
        return _objarr(x)
    einsum = staticmethod(_einsum)

    @staticmethod
    def stack(xs, axis=0):
        return _np.stack([_arr0(_objarr(x)) for x in xs], axis=axis)

    @staticmethod
    def expand_dims(x, axis):
        return _np.expand_dims(_arr0(_objarr(x)), axis)

    @staticmethod
    def ndim(x):
        if isinstance(x, Sym):
            return 0
        return _np.ndim(x)

    @staticmethod
    def zeros_like(x):
        x = _objarr(x)
        out = _np.empty(x.shape, dtype=object)
        for idx in _np.ndindex(x.shape):
            out[idx] = lift(0)
        return out

    @staticmethod
    def dot(a, b):
        return _np.dot(_objarr(a), _objarr(b))

    @staticmethod
    def cross(a, b, axisa=-1, axisb=-1, axisc=-1):
        a = _np.moveaxis(_objarr(a), axisa, 0)
        b = _np.moveaxis(_objarr(b), axisb, 0)
        if a.shape[0] != 3 or b.shape[0] != 3:
            raise Unsupported("cross of non-3-vectors")
        c = _np.stack([a[1] * b[2] - a[2] * b[1],
                       a[2] * b[0] - a[0] * b[2],
                       a[0] * b[1] - a[1] * b[0]], axis=0)
        return _np.moveaxis(c, 0, axisc)

    @staticmethod
    def allclose(a, b, equal_nan=False):   # equal_nan: no NaN over the reals
        # |a - b| <= atol + rtol * |b|  with numpy's defaults
        d = abs(lift(a) - lift(b))
        return d <= K("1e-8") + K("1e-5") * abs(lift(b))


# --------------------------------------------------------------------------
# source lifting and module loading
# --------------------------------------------------------------------------
class _Lift(ast.NodeTransformer):
    def visit_Constant(self, node):
        if isinstance(node.value, float):
            seg = self.src_seg(node)
            return ast.copy_location(
                ast.Call(func=ast.Name(id="__K__", ctx=ast.Load()),
                         args=[ast.Constant(value=seg)], keywords=[]), node)
        return node

    def visit_JoinedStr(self, node):
        return node


def lift_source(src):
    tree = ast.parse(src)
    lines = src.splitlines()

    def seg(node):
        text = lines[node.lineno - 1][node.col_offset:node.end_col_offset]
        text = text.replace("_", "")
        Fraction(text)  # must parse as an exact decimal; else fail closed
        return text
    lf = _Lift()
    lf.src_seg = seg
    tree = lf.visit(tree)
    ast.fix_missing_locations(tree)
    return tree


def _dt2np(t):
    if isinstance(t, SymTime):
        return t
    raise Unsupported("dt2np of %r" % type(t))


class Loader:
    """Loads pyorbital modules from /repo with lifted literals and the numpy shim."""

    def __init__(self, repo="/repo"):
        self.repo = repo
        self.mods = {}
        self.np = NpShim()

    def _import(self, name, globals=None, locals=None, fromlist=(), level=0):
        if name == "numpy":
            return self.np
        if name == "pyorbital":
            pkg = types.SimpleNamespace()
            pkg.dt2np = _dt2np
            for sub in fromlist or ():
                if sub in ("astronomy", "orbital", "geoloc"):
                    setattr(pkg, sub, self.load(sub))
                elif sub == "tlefile":
                    setattr(pkg, sub, types.SimpleNamespace())
                elif sub == "dt2np":
                    pass
                else:
                    raise Unsupported("from pyorbital import %s" % sub)
            return pkg
        if name.startswith("pyorbital."):
            sub = name.split(".", 1)[1]
            if sub in ("astronomy", "orbital", "geoloc"):
                return self.load(sub)
            raise Unsupported("import %s" % name)
        if name in ("dask", "dask.array", "xarray"):
            raise ImportError(name)
        return builtins.__import__(name, globals, locals, fromlist, level)

    def load(self, sub):
        if sub in self.mods:
            return self.mods[sub]
        path = "%s/pyorbital/%s.py" % (self.repo, sub)
        src = open(path).read()
        tree = lift_source(src)
        code = compile(tree, path, "exec")
        mod = types.ModuleType("traced_pyorbital_" + sub)
        b = dict(vars(builtins))
        b["__import__"] = self._import
        b["abs"] = _abs
        b["float"] = _float
        b["isinstance"] = _isinstance
        mod.__dict__["__builtins__"] = b
        mod.__dict__["__K__"] = K
        mod.__dict__["__name__"] = "traced_pyorbital_" + sub
        self.mods[sub] = mod
        exec(code, mod.__dict__)
        return mod


def _abs(x):
    if isinstance(x, _np.ndarray):
        return _np.vectorize(builtins.abs, otypes=[object])(x)
    return builtins.abs(x)


class _FloatMeta(type):
    def __instancecheck__(cls, x):
        return builtins.isinstance(x, builtins.float)


def _float(x):
    if isinstance(x, Sym):
        return x
    if isinstance(x, int):
        return lift(x)
    raise Unsupported("float(%r)" % type(x))


def _isinstance(x, t):
    if t is _float:
        return False if isinstance(x, Sym) else builtins.isinstance(x, builtins.float)
    if builtins.isinstance(t, tuple):
        t = tuple(builtins.float if q is _float else q for q in t)
    return builtins.isinstance(x, t)


# --------------------------------------------------------------------------
# running with path enumeration
# --------------------------------------------------------------------------
class PathResult:
    def __init__(self, conds, outcome, value):
        self.conds = conds        # list of (cond, taken)
        self.outcome = outcome    # "ok" or exception class name
        self.value = value        # dict name -> Sym / nested


def run_paths(tracer, fn, max_paths=400):
    """Enumerate every decision schedule of fn() depth first."""
    global _T
    results = []
    tracer.schedule = []
    while True:
        tracer.pos = 0
        tracer.path = []
        _T = tracer
        try:
            try:
                val = fn()
                outcome = "ok"
            except Unsupported:
                raise
            except FuelExhausted:
                val = None
                outcome = "fuel"
            except Exception as e:  # the traced code raised: a path outcome
                val = None
                outcome = type(e).__name__
                if outcome in ("AttributeError", "NameError", "TypeError", "IndexError", "KeyError"):
                    raise
        finally:
            _T = None
        results.append(PathResult(list(tracer.path), outcome, val))
        if len(results) > max_paths:
            raise Unsupported("more than %d paths" % max_paths)
        sched = tracer.schedule[:tracer.pos]
        while sched and sched[-1] is False:
            sched.pop()
        if not sched:
            break
        sched[-1] = False
        tracer.schedule = sched
    return results


def with_tracer(tracer, fn):
    global _T
    _T = tracer
    try:
        return fn()
    finally:
        _T = None


# --------------------------------------------------------------------------
# binary64 evaluation of the DAG (translator self-check)
# --------------------------------------------------------------------------
def evalf(g, env, roots):
    """Evaluate nodes needed for `roots` in binary64. env: input name -> float."""
    memo = {}

    def cond(c):
        if c[0] == "not":
            return not cond(c[1])
        if c[0] == "and":
            return cond(c[1]) and cond(c[2])
        if c[0] == "or":
            return cond(c[1]) or cond(c[2])
        a, b = ev(c[1]), ev(c[2])
        return {"lt": a < b, "le": a <= b, "eq": a == b}[c[0]]

    def ev(i):
        if i in memo:
            return memo[i]
        node = g.nodes[i]
        op = node[0]
        if op == "const":
            v = node[1] / node[2]
        elif op == "in":
            v = env[node[1]]
        elif op == "pi":
            v = math.pi
        elif op == "ite":
            v = ev(node[2]) if cond(node[1]) else ev(node[3])
        elif op == "powi":
            v = ev(node[1]) ** node[2]
        elif op == "powq":
            v = ev(node[1]) ** (node[2] / node[3])
        else:
            a = [ev(j) for j in node[1:]]
            v = _F[op](*a)
        memo[i] = v
        return v
    return [ev(r) for r in roots], cond


def _sign(x):
    return (x > 0) - (x < 0)


_F = {
    "add": lambda a, b: a + b, "sub": lambda a, b: a - b, "mul": lambda a, b: a * b,
    "div": lambda a, b: a / b, "neg": lambda a: -a, "abs": builtins.abs,
    "sqrt": math.sqrt, "sin": math.sin, "cos": math.cos, "tan": math.tan,
    "atan": math.atan, "asin": math.asin, "acos": math.acos, "atan2": math.atan2,
    "deg2rad": math.radians, "rad2deg": math.degrees,
    "pymod": lambda a, b: a % b, "fmod": math.fmod, "sign": _sign, "floor": math.floor,
}


def new_input(tracer, name):
    global _T
    if name not in tracer.g.inputs:
        tracer.g.inputs.append(name)
    return Sym(tracer.g.mk("in", name))
