"""gen_collection — fail-closed extraction of the per-line decision of pyorbital/tlefile.py `_decode_lines`
(and of `_merge_tle_from_two_lines`) into Gallina: coq/gen/Gen_collection.v.

What is generated (located by NAME in the AST, never by line number):
    gen_decode_lines sats platform only_first dummy l0 : action
        which lines the call takes as line 1 / line 2 of an entry (the line handed in, or the k-th line it pulls
        from the shared iterator with next(fid)), how many lines it pulls, or that it returns "" -- as decided
        by the if / elif / nested-if tests of the source, translated one to one;
    gen_merge l1 l2 : the merged entry text.
The iterator is not modelled here: `next(fid)` is counted symbolically (Pull k), and a path that pulls a line
but returns "" is refused.  Logging calls are skipped after checking that their arguments cannot fail.
`_decode(x)` is the identity on str (the model's domain; bytes inputs are decoded before they reach the model).
Anything outside the small subset raises Unsupported (fail closed; see DESIGN.md 0.7 for what the check does then)."""
import ast
import os
import sys

sys.path.insert(0, os.path.dirname(os.path.abspath(__file__)))
from gen_tle import Unsupported, coq_str, dump  # noqa: E402
from harness_compat import write_if_changed  # noqa: E402


class Decide:
    def __init__(self, params, helpers):
        self.env = dict(params)         # python name -> (coq term, type)
        self.pulls = 0
        self.helpers = helpers

    # ---- expressions (all pure) -----------------------------------------------------------------
    def truth(self, term, ty):
        if ty == "bool":
            return term
        if ty == "str":
            return "(negb (isempty %s))" % term
        if ty == "action":
            return "(act_taken %s)" % term
        raise Unsupported("truthiness of %s" % ty)

    def expr(self, e):
        if isinstance(e, ast.Constant) and type(e.value) is str:
            return coq_str(e.value) if e.value else "[]", "str"
        if isinstance(e, ast.Name):
            if e.id not in self.env:
                raise Unsupported("name %s" % e.id)
            return self.env[e.id]
        if isinstance(e, ast.BoolOp):
            parts = [self.truth(*self.expr(v)) for v in e.values]
            op = " && " if isinstance(e.op, ast.And) else " || "
            return "(" + op.join(parts) + ")", "bool"
        if isinstance(e, ast.UnaryOp) and isinstance(e.op, ast.Not):
            return "(negb %s)" % self.truth(*self.expr(e.operand)), "bool"
        if isinstance(e, ast.Compare) and len(e.ops) == 1:
            a, ta = self.expr(e.left)
            op, rhs = e.ops[0], e.comparators[0]
            if isinstance(op, (ast.In, ast.NotIn)) and isinstance(rhs, ast.Name) and self.env.get(rhs.id, (None, None))[1] == "dict" and ta == "str":
                t = "(dict_mem %s %s)" % (self.env[rhs.id][0], a)
                return ("(negb %s)" % t if isinstance(op, ast.NotIn) else t), "bool"
            b, tb = self.expr(rhs)
            if ta == tb == "str" and isinstance(op, (ast.Eq, ast.NotEq)):
                t = "(leqb %s %s)" % (a, b)
                return ("(negb %s)" % t if isinstance(op, ast.NotEq) else t), "bool"
            raise Unsupported("comparison " + dump(e))
        if isinstance(e, ast.BinOp) and isinstance(e.op, ast.Add):
            a, ta = self.expr(e.left)
            b, tb = self.expr(e.right)
            if ta == tb == "str":
                return "(%s ++ %s)" % (a, b), "str"
        if isinstance(e, ast.Call):
            f = e.func
            if isinstance(f, ast.Name) and f.id == "next" and len(e.args) == 1 and isinstance(e.args[0], ast.Name) \
                    and self.env.get(e.args[0].id, (None, None))[1] == "iter" and not e.keywords:
                self.pulls += 1
                return "(Pull %d)" % self.pulls, "src"
            if isinstance(f, ast.Name) and f.id == "_decode" and len(e.args) == 1 and not e.keywords:
                return self.expr(e.args[0])                      # identity on str
            if isinstance(f, ast.Name) and f.id == "str" and len(e.args) == 1 and not e.keywords:
                a, ta = self.expr(e.args[0])
                if ta == "str":
                    return a, "str"
            if isinstance(f, ast.Name) and f.id == "_merge_tle_from_two_lines" and len(e.args) == 2 and not e.keywords:
                (a, ta), (b, tb) = self.expr(e.args[0]), self.expr(e.args[1])
                if ta == tb == "src":
                    return "(mkAct (Some (%s, %s)) %d)" % (a, b, self.pulls), "action"
            if isinstance(f, ast.Attribute) and not e.keywords:
                a, ta = self.expr(f.value)
                if ta == "str" and f.attr == "strip" and not e.args:
                    return "(strip %s)" % a, "str"
                if ta == "str" and f.attr == "startswith" and len(e.args) == 1:
                    b, tb = self.expr(e.args[0])
                    if tb == "str":
                        return "(prefixb %s %s)" % (b, a), "bool"
                if ta == "dict" and f.attr == "get" and len(e.args) in (1, 2):
                    k, tk = self.expr(e.args[0])
                    if tk == "str":
                        if len(e.args) == 2:
                            d, td = self.expr(e.args[1])
                            if td != "str":
                                raise Unsupported("dict.get default")
                            return "(match dict_get %s %s with Some v => v | None => %s end)" % (a, k, d), "str"
                        return "(match dict_get %s %s with Some v => v | None => [] end)" % (a, k), "str"
        raise Unsupported("expression " + dump(e)[:200])

    def src_of(self, term, ty):
        """a line variable used as an entry line: the line handed in is L0"""
        return term, ty

    # ---- statements -----------------------------------------------------------------------------
    def block(self, stmts, k):
        if not stmts:
            return k()
        s, rest = stmts[0], stmts[1:]

        def cont():
            return self.block(rest, k)
        if isinstance(s, ast.Expr) and isinstance(s.value, ast.Constant):
            return cont()
        if isinstance(s, ast.Expr) and isinstance(s.value, ast.Call) and isinstance(s.value.func, ast.Attribute) \
                and isinstance(s.value.func.value, ast.Name) and s.value.func.value.id in ("LOGGER", "logging", "logger"):
            for a in s.value.args[1:]:
                self.expr(a)                                    # must be translatable (hence pure)
            return cont()
        if isinstance(s, ast.Assign) and len(s.targets) == 1 and isinstance(s.targets[0], ast.Name):
            name = s.targets[0].id
            term, ty = self.expr(s.value)
            if ty == "str" and name in self.line_names and term == self.env[self.l0_name][0]:
                term, ty = "L0", "src"                           # l_1 = l_0: the entry's first line is the line handed in
            if name == self.l0_name and ty == "str" and term == self.env[self.l0_name][0]:
                return cont()                                    # l_0 = _decode(l_0)
            if ty == "str" and name == self.result_name:
                if term != "[]":
                    raise Unsupported("result assigned a non-empty literal")
                term, ty = "(mkAct None %d)" % self.pulls, "action"
            self.env[name] = (term, ty)
            return cont()
        if isinstance(s, ast.If):
            c = self.truth(*self.expr(s.test))
            saved_env, saved_pulls = dict(self.env), self.pulls
            a = self.block(s.body + rest, k)
            self.env, self.pulls = dict(saved_env), saved_pulls
            b = self.block(s.orelse + rest, k)
            self.env, self.pulls = saved_env, saved_pulls
            return "(if %s\n then %s\n else %s)" % (c, a, b)
        if isinstance(s, ast.Return):
            term, ty = self.expr(s.value)
            if ty != "action":
                raise Unsupported("return of a non-entry value")
            # the count recorded in the value must be the number of lines pulled on this path
            want = "%d)" % self.pulls
            if not term.endswith(want):
                raise Unsupported("a line is pulled from the iterator on a path whose result does not account for it")
            return term
        raise Unsupported("statement " + dump(s)[:200])


def find_func(tree, name):
    fs = [n for n in tree.body if isinstance(n, ast.FunctionDef) and n.name == name]
    if len(fs) != 1:
        raise Unsupported("function %s not found exactly once" % name)
    return fs[0]


HEADER = """(* GENERATED by translator/gen_collection.py from pyorbital/tlefile.py — do not edit.
   The per-line decision of _decode_lines and the text of _merge_tle_from_two_lines. *)
From Coq Require Import List Ascii Bool Arith.
From PyOrb.model Require Import M_Collection.
Import ListNotations.

(* which line of the source becomes a line of the entry: the one handed in, or the k-th pulled with next(fid) *)
Inductive src := L0 | Pull (k : nat).
Record action := mkAct { act_entry : option (src * src); act_pulls : nat }.
Definition act_taken (a : action) : bool := match act_entry a with Some _ => true | None => false end.

"""


def generate(out, repo):
    tree = ast.parse(open(os.path.join(repo, "pyorbital", "tlefile.py")).read())
    f = find_func(tree, "_decode_lines")
    args = [a.arg for a in f.args.args]
    if args != ["fid", "l_0", "platform", "only_first", "open_is_dummy"]:
        raise Unsupported("_decode_lines signature %r" % args)
    d = Decide({"fid": ("fid", "iter"), "l_0": ("l0", "str"), "platform": ("platform", "str"), "only_first": ("only_first", "bool"),
                "open_is_dummy": ("dummy", "bool"), "SATELLITES": ("sats", "dict")}, {})
    d.l0_name, d.result_name, d.line_names = "l_0", "tle", ("l_1", "l_2")
    body = d.block(f.body, lambda: (_ for _ in ()).throw(Unsupported("_decode_lines falls off its end")))
    defs = ["Definition gen_decode_lines (sats : dict) (platform : line) (only_first dummy : bool) (l0 : line) : action :=\n%s." % body]
    m = find_func(tree, "_merge_tle_from_two_lines")
    margs = [a.arg for a in m.args.args]
    if len(margs) != 2:
        raise Unsupported("_merge_tle_from_two_lines signature")
    dm = Decide({margs[0]: ("l1", "str"), margs[1]: ("l2", "str")}, {})
    rets = [s for s in m.body if isinstance(s, ast.Return)]
    others = [s for s in m.body if not isinstance(s, ast.Return) and not (isinstance(s, ast.Expr) and isinstance(s.value, ast.Constant))]
    if len(rets) != 1 or others:
        raise Unsupported("_merge_tle_from_two_lines shape")
    term, ty = dm.expr(rets[0].value)
    if ty != "str":
        raise Unsupported("_merge_tle_from_two_lines result type")
    defs.append("Definition gen_merge (l1 l2 : line) : line :=\n%s." % term)
    # the loop of _get_tles_from_url: `for l_0 in fid: tle = _decode_lines(fid, l_0, ...); if tle: (return [tle] | append)`
    u = find_func(tree, "_get_tles_from_url")
    want = ("With(items=[withitem(context_expr=Call(func=Name(id='_uri_open'), args=[Name(id='url'), Name(id='open_func')], keywords=[]), "
            "optional_vars=Name(id='fid'))], body=[Assign(targets=[Name(id='open_is_dummy')], value=Compare(left=Name(id='open_func'), "
            "ops=[Eq()], comparators=[Name(id='_dummy_open_stringio')])), Assign(targets=[Name(id='tles')], value=List(elts=[])), "
            "For(target=Name(id='l_0'), iter=Name(id='fid'), body=[Assign(targets=[Name(id='tle')], value=Call(func=Name(id='_decode_lines'), "
            "args=[Name(id='fid'), Name(id='l_0'), Name(id='platform'), Name(id='only_first')], keywords=[keyword(arg='open_is_dummy', "
            "value=Name(id='open_is_dummy'))])), If(test=Name(id='tle'), body=[If(test=Name(id='only_first'), body=[Return(value=List(elts=["
            "Name(id='tle')]))], orelse=[]), Expr(value=Call(func=Attribute(value=Name(id='tles'), attr='append'), args=[Name(id='tle')], "
            "keywords=[]))], orelse=[])], orelse=[]), Return(value=Name(id='tles'))])")
    stmts = [s for s in u.body if not (isinstance(s, ast.Expr) and isinstance(s.value, ast.Constant))]
    loop_ok = len(stmts) == 1 and dump(stmts[0]) == want
    defs.append("Definition gen_loop_is_scan : bool := %s." % ("true" if loop_ok else "false"))
    if not loop_ok:
        raise Unsupported("_get_tles_from_url is not the loop the model's scan follows")
    write_if_changed(out, HEADER + "\n\n".join(defs) + "\n")
    return {"pulls": d.pulls}, [x.split()[1] for x in defs]


if __name__ == "__main__":
    info, names = generate(sys.argv[1] if len(sys.argv) > 1 else "/verif/coq/gen/Gen_collection.v", sys.argv[2] if len(sys.argv) > 2 else "/repo")
    print(names, info)
