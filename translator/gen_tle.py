"""gen_tle — fail-closed translation of the TLE text handling of pyorbital/tlefile.py into Gallina.

Source (read from the repository on every run, located by NAME in the AST, never by line number):
    Tle._checksum, Tle._read_tle (the branch taken when both lines are given), Tle._parse_tle with
    its nested helper, and the order of the three calls that end Tle.__init__.
Target: coq/gen/Gen_tle.v, definitions over the primitives of model/M_PyStr.v:
    gen_read_tle_decimal, gen_checksum, gen_read_tle, gen_parse, gen_tle_init.

The translator understands a small Python subset (string slices and indices with constant bounds,
strip/isdigit/split("\\n"), float/int, +, %, ==, !=, `in` a literal list, if/else, `for c in <str>`
with ONE loop-carried variable, `for x in [a, b]` (unrolled), try/except ValueError around one
assignment, raise, return, nested def).  Anything else raises Unsupported: the generated file is
then not written and the check reports a broken proof obligation.  Evaluation order and which
exception can escape are preserved: every fallible primitive is sequenced with `bindr` in Python's
left-to-right order."""
import ast
import os
import re

import sys

sys.path.insert(0, os.path.dirname(os.path.abspath(__file__)))
from harness_compat import write_if_changed  # noqa: E402


class Unsupported(Exception):
    pass


def dump(node):
    """ast.dump without the load/store contexts"""
    return re.sub(r",? ?ctx=(Load|Store)\(\)", "", ast.dump(node))


EXN = {"ValueError": "EValue", "IndexError": "EIndex", "ChecksumError": "EChecksum"}


def coq_str(s):
    out = []
    for ch in s:
        o = ord(ch)
        if ch == '"':
            out.append('""""%char')
        elif 32 <= o < 127:
            out.append('"%s"%%char' % ch)
        elif o < 128:
            out.append('"%03d"%%char' % o)
        else:
            raise Unsupported("non-ASCII literal %r" % s)
    return "[" + "; ".join(out) + "]"


def zlit(n):
    return "(%d)" % n if n < 0 else "%d" % n


class Fn:
    """one Python function being translated"""

    def __init__(self, gen, name, params):
        self.gen, self.name = gen, name
        self.tmp = 0
        self.env = dict(params)          # python name / "self.attr" -> (coq ident, type)
        self.attrs = []                  # public attributes assigned, in order

    def fresh(self):
        self.tmp += 1
        return "t%d" % self.tmp

    # ---- expressions: returns (prelude, atom, type); prelude = [(ident, term, fallible)] --------
    def const_int(self, e):
        if isinstance(e, ast.Constant) and type(e.value) is int:
            return e.value
        if isinstance(e, ast.UnaryOp) and isinstance(e.op, ast.USub) and isinstance(e.operand, ast.Constant) and type(e.operand.value) is int:
            return -e.operand.value
        raise Unsupported("constant integer expected: " + dump(e))

    def lookup(self, key):
        if key not in self.env:
            raise Unsupported("%s: use of %s before assignment" % (self.name, key))
        return self.env[key]

    def expr(self, e):
        if isinstance(e, ast.Constant):
            if type(e.value) is str:
                return [], coq_str(e.value), "str"
            if type(e.value) is int:
                return [], zlit(e.value), "int"
            raise Unsupported("constant " + repr(e.value))
        if isinstance(e, ast.Name):
            ident, ty = self.lookup(e.id)
            return [], ident, ty
        if isinstance(e, ast.Attribute) and isinstance(e.value, ast.Name) and e.value.id == "self":
            ident, ty = self.lookup("self." + e.attr)
            return [], ident, ty
        if isinstance(e, ast.Subscript):
            pre, a, ty = self.expr(e.value)
            if ty != "str":
                raise Unsupported("subscript of non-string")
            sl = e.slice
            if isinstance(sl, ast.Slice):
                if sl.step is not None:
                    raise Unsupported("slice step")
                lo = "None" if sl.lower is None else "(Some %s)" % zlit(self.const_int(sl.lower))
                hi = "None" if sl.upper is None else "(Some %s)" % zlit(self.const_int(sl.upper))
                return pre, "(py_slice %s %s %s)" % (lo, hi, a), "str"
            t = self.fresh()
            return pre + [(t, "py_index %s %s" % (a, zlit(self.const_int(sl))), True)], t, "str"
        if isinstance(e, ast.Call):
            return self.call(e)
        if isinstance(e, ast.BinOp):
            return self.binop(e)
        if isinstance(e, ast.Compare):
            return self.compare(e)
        raise Unsupported("expression " + dump(e))

    def call(self, e):
        if e.keywords and not self.is_epoch(e):
            raise Unsupported("keyword arguments: " + dump(e))
        f = e.func
        if self.is_epoch(e):
            return self.epoch(e)
        if isinstance(f, ast.Name) and f.id in ("float", "int") and len(e.args) == 1:
            pre, a, ty = self.expr(e.args[0])
            if ty != "str":
                raise Unsupported("%s() of a non-string" % f.id)
            t = self.fresh()
            return pre + [(t, "py_%s %s" % (f.id, a), True)], t, "dec" if f.id == "float" else "int"
        if isinstance(f, ast.Name) and f.id in self.gen.helpers and len(e.args) == 1:
            pre, a, ty = self.expr(e.args[0])
            name, pty, rty = self.gen.helpers[f.id]
            if ty != pty:
                raise Unsupported("argument type of " + f.id)
            t = self.fresh()
            return pre + [(t, "%s %s" % (name, a), True)], t, rty
        if isinstance(f, ast.Attribute) and not e.args:
            pre, a, ty = self.expr(f.value)
            if ty == "str" and f.attr == "strip":
                return pre, "(py_strip %s)" % a, "str"
            if ty == "str" and f.attr == "isdigit":
                return pre, "(py_isdigit %s)" % a, "bool"
        raise Unsupported("call " + dump(e))

    EPOCH_SHAPE = ("Call(func=Attribute(value=Name(id='np'), attr='datetime64'), args=[BinOp(left=Call(func=Attribute("
                   "value=Attribute(value=Name(id='dt'), attr='datetime'), attr='strptime'), args=[Y, Constant(value='%y')], keywords=[]), "
                   "op=Add(), right=Call(func=Attribute(value=Name(id='dt'), attr='timedelta'), args=[], keywords=[keyword(arg='days', "
                   "value=BinOp(left=D, op=Sub(), right=Constant(value=1)))])), Constant(value='us')], keywords=[])")

    def epoch_parts(self, e):
        try:
            y = e.args[0].left.args[0]
            d = e.args[0].right.keywords[0].value.left
        except (AttributeError, IndexError):
            return None
        shape = dump(e).replace(dump(y), "Y", 1).replace(dump(d), "D", 1)
        return (y, d) if shape == self.EPOCH_SHAPE else None

    def is_epoch(self, e):
        return isinstance(e, ast.Call) and isinstance(e.func, ast.Attribute) and e.func.attr == "datetime64"

    def epoch(self, e):
        parts = self.epoch_parts(e)
        if parts is None:
            raise Unsupported("epoch expression is not datetime64(strptime(y, '%y') + timedelta(days=d - 1), 'us'): " + dump(e))
        p1, y, ty1 = self.expr(parts[0])
        p2, d, ty2 = self.expr(parts[1])
        if (ty1, ty2) != ("str", "dec"):
            raise Unsupported("epoch operand types")
        t = self.fresh()
        return p1 + p2 + [(t, "py_epoch %s %s" % (y, d), True)], t, "epoch"

    def binop(self, e):
        # int(...) * 10 ** -k
        if isinstance(e.op, ast.Mult) and isinstance(e.right, ast.BinOp) and isinstance(e.right.op, ast.Pow):
            if self.const_int(e.right.left) != 10:
                raise Unsupported("power base")
            k = self.const_int(e.right.right)
            pre, a, ty = self.expr(e.left)
            if ty != "int":
                raise Unsupported("scaled non-integer")
            return pre, "(dec_scale %s %s)" % (a, zlit(k)), "dec"
        p1, a, t1 = self.expr(e.left)
        p2, b, t2 = self.expr(e.right)
        if isinstance(e.op, ast.Add) and t1 == t2 == "str":
            return p1 + p2, "(%s ++ %s)" % (a, b), "str"
        if isinstance(e.op, ast.Add) and t1 == t2 == "int":
            return p1 + p2, "(%s + %s)" % (a, b), "int"
        if isinstance(e.op, ast.Mod) and t1 == t2 == "int" and self.const_int(e.right) > 0:
            return p1 + p2, "(%s mod %s)" % (a, b), "int"
        raise Unsupported("operator " + dump(e))

    def compare(self, e):
        if len(e.ops) != 1:
            raise Unsupported("chained comparison")
        op, rhs = e.ops[0], e.comparators[0]
        p1, a, t1 = self.expr(e.left)
        if isinstance(op, ast.In) and isinstance(rhs, ast.List) and t1 == "str":
            items = []
            for it in rhs.elts:
                if not (isinstance(it, ast.Constant) and type(it.value) is str):
                    raise Unsupported("`in` list element")
                items.append(coq_str(it.value))
            return p1, "(str_in %s [%s])" % (a, "; ".join(items)), "bool"
        p2, b, t2 = self.expr(rhs)
        if t1 == t2 == "str" and isinstance(op, (ast.Eq, ast.NotEq)):
            t = "(str_eqb %s %s)" % (a, b)
        elif t1 == t2 == "int" and isinstance(op, (ast.Eq, ast.NotEq)):
            t = "(%s =? %s)" % (a, b)
        else:
            raise Unsupported("comparison " + dump(e))
        return p1 + p2, "(negb %s)" % t if isinstance(op, ast.NotEq) else t, "bool"

    # ---- statements: continuation-passing; k(fn) gives the term for "what follows" ----------------
    @staticmethod
    def wrap(pre, body):
        for ident, term, fallible in reversed(pre):
            body = ("bindr (%s) (fun %s =>\n%s)" if fallible else "let %s := %s in\n%s") % (
                (term, ident, body) if fallible else (ident, term, body))
        return body

    def bind_target(self, target, ty):
        """register an assignment target, return the Coq identifier that now holds it"""
        if isinstance(target, ast.Name):
            key, base = target.id, "v_" + target.id
        elif isinstance(target, ast.Attribute) and isinstance(target.value, ast.Name) and target.value.id == "self":
            key, base = "self." + target.attr, "a_" + target.attr
            if not target.attr.startswith("_") and target.attr not in self.attrs:
                self.attrs.append(target.attr)
        else:
            raise Unsupported("assignment target " + dump(target))
        self.tmp += 1
        ident = "%s_%d" % (base, self.tmp)
        self.env[key] = (ident, ty)
        return ident

    def block(self, stmts, k):
        if not stmts:
            return k()
        s, rest = stmts[0], stmts[1:]

        def cont():
            return self.block(rest, k)
        if isinstance(s, ast.Expr) and isinstance(s.value, ast.Constant) and isinstance(s.value.value, str):
            return cont()                                                       # docstring
        if isinstance(s, ast.FunctionDef):
            self.gen.helper(s, self)
            return cont()
        if isinstance(s, ast.Assign) and len(s.targets) == 1 and isinstance(s.targets[0], ast.Tuple):
            return self.unpack(s, cont)
        if isinstance(s, ast.Assign) and len(s.targets) == 1:
            pre, a, ty = self.expr(s.value)
            ident = self.bind_target(s.targets[0], ty)
            return self.wrap(pre, "let %s := %s in\n%s" % (ident, a, cont()))
        if isinstance(s, ast.AugAssign) and isinstance(s.op, ast.Add):
            return self.block([ast.Assign(targets=[s.target], value=ast.BinOp(left=self.as_load(s.target), op=ast.Add(), right=s.value))] + rest, k)
        if isinstance(s, ast.If):
            pre, c, ty = self.expr(s.test)
            if ty != "bool":
                raise Unsupported("non-boolean test")
            saved = dict(self.env), self.tmp
            a = self.block(s.body + rest, k)          # the continuation is copied into both arms:
            self.env = dict(saved[0])                  # variables assigned in one arm only stay local to it
            b = self.block(s.orelse + rest, k)
            return self.wrap(pre, "if %s\nthen (%s)\nelse (%s)" % (c, a, b))
        if isinstance(s, ast.For):
            return self.loop(s, cont)
        if isinstance(s, ast.Try):
            return self.try_(s, cont)
        if isinstance(s, ast.Raise):
            exc = s.exc
            if not (isinstance(exc, ast.Call) and isinstance(exc.func, ast.Name) and exc.func.id in EXN):
                raise Unsupported("raise " + dump(s))
            pre = []
            for a in exc.args:                         # the message is evaluated; it must not be able to fail
                p, _, _ = self.expr(a)
                if any(f for _, _, f in p):
                    raise Unsupported("fallible raise argument")
            return "Err %s" % EXN[exc.func.id]
        if isinstance(s, ast.Return):
            pre, a, ty = self.expr(s.value)
            self.ret_type = ty
            return self.wrap(pre, "Ok %s" % a)
        raise Unsupported("statement " + dump(s)[:200])

    @staticmethod
    def as_load(t):
        if isinstance(t, ast.Name):
            return ast.Name(id=t.id, ctx=ast.Load())
        return ast.Attribute(value=t.value, attr=t.attr, ctx=ast.Load())

    def assigned(self, stmts):
        out = []
        for n in stmts:
            for m in ast.walk(n):
                if isinstance(m, (ast.Assign, ast.AugAssign)):
                    for t in (m.targets if isinstance(m, ast.Assign) else [m.target]):
                        key = t.id if isinstance(t, ast.Name) else "self." + t.attr if isinstance(t, ast.Attribute) else None
                        if key is None:
                            raise Unsupported("assignment target in loop")
                        if key not in out:
                            out.append(key)
        return out

    def loop(self, s, cont):
        if s.orelse:
            raise Unsupported("for-else")
        if not isinstance(s.target, ast.Name):
            raise Unsupported("loop target")
        if isinstance(s.iter, ast.List):               # for x in [a, b]: unrolled
            def unroll(items):
                if not items:
                    return cont()
                pre, a, ty = self.expr(items[0])
                ident = self.bind_target(s.target, ty)
                return self.wrap(pre, "let %s := %s in\n%s" % (ident, a, self.block(s.body, lambda: unroll(items[1:]))))
            return unroll(list(s.iter.elts))
        pre, it, ty = self.expr(s.iter)
        if ty != "str":
            raise Unsupported("iteration over a non-string")
        carried = [key for key in self.assigned(s.body) if key in self.env]
        local_new = [key for key in self.assigned(s.body) if key not in self.env]
        if len(carried) != 1 or local_new:
            raise Unsupported("loop must update exactly one existing variable (has %r, new %r)" % (carried, local_new))
        key = carried[0]
        acc0, accty = self.env[key]
        saved = dict(self.env)
        self.tmp += 1
        acc, ch = "acc_%d" % self.tmp, "c_%d" % self.tmp
        self.env[key] = (acc, accty)
        self.env[s.target.id] = (ch, "str")
        body = self.block(s.body, lambda: "Ok %s" % self.env[key][0])
        self.env = saved
        self.tmp += 1
        res = "%s_%d" % ("v_" + key.replace("self.", "a_"), self.tmp)
        self.env[key] = (res, accty)
        return self.wrap(pre, "bindr (fold_res (fun %s %s =>\n%s) %s %s) (fun %s =>\n%s)" % (acc, ch, body, it, acc0, res, cont()))

    def try_(self, s, cont):
        ok = (len(s.body) == 1 and isinstance(s.body[0], ast.Assign) and len(s.handlers) == 1 and not s.orelse and not s.finalbody
              and isinstance(s.handlers[0].type, ast.Name) and s.handlers[0].type.id == "ValueError"
              and len(s.handlers[0].body) == 1 and isinstance(s.handlers[0].body[0], ast.Assign)
              and dump(s.handlers[0].body[0].targets[0]) == dump(s.body[0].targets[0]))
        if not ok:
            raise Unsupported("try statement shape")
        pre, a, ty = self.expr(s.body[0].value)
        hp, d, hty = self.expr(s.handlers[0].body[0].value)
        if hp or hty != ty:
            raise Unsupported("handler value")
        inner = self.wrap(pre, "Ok %s" % a)
        ident = self.bind_target(s.body[0].targets[0], ty)
        return "bindr (catch_value (%s) %s) (fun %s =>\n%s)" % (inner, d, ident, cont())

    def unpack(self, s, cont):
        tgt, v = s.targets[0], s.value
        ok = (len(tgt.elts) == 2 and isinstance(v, ast.Call) and isinstance(v.func, ast.Attribute) and v.func.attr == "split"
              and len(v.args) == 1 and isinstance(v.args[0], ast.Constant) and v.args[0].value == "\n" and not v.keywords)
        if not ok:
            raise Unsupported("tuple assignment " + dump(s))
        pre, a, ty = self.expr(v.func.value)
        if ty != "str":
            raise Unsupported("split of non-string")
        self.tmp += 1
        pr = "p_%d" % self.tmp
        i1 = self.bind_target(tgt.elts[0], "str")
        i2 = self.bind_target(tgt.elts[1], "str")
        return self.wrap(pre, "bindr (py_split2_nl %s) (fun %s => let %s := fst %s in let %s := snd %s in\n%s)" % (a, pr, i1, pr, i2, pr, cont()))


class Gen:
    def __init__(self, repo):
        self.path = os.path.join(repo, "pyorbital", "tlefile.py")
        self.tree = ast.parse(open(self.path).read())
        self.cls = next((n for n in self.tree.body if isinstance(n, ast.ClassDef) and n.name == "Tle"), None)
        if self.cls is None:
            raise Unsupported("class Tle not found")
        self.helpers = {}
        self.defs = []

    def method(self, name):
        ms = [n for n in self.cls.body if isinstance(n, ast.FunctionDef) and n.name == name]
        if len(ms) != 1:
            raise Unsupported("method %s not found exactly once" % name)
        if [a.arg for a in ms[0].args.args] != ["self"] or ms[0].decorator_list:
            raise Unsupported("signature of " + name)
        return ms[0]

    def helper(self, node, parent):
        if len(node.args.args) != 1 or node.decorator_list:
            raise Unsupported("helper signature")
        p = node.args.args[0].arg
        fn = Fn(self, node.name, {p: ("v_" + p, "str")})
        body = fn.block(node.body, lambda: (_ for _ in ()).throw(Unsupported("helper falls off its end")))
        rty = getattr(fn, "ret_type", None)
        if rty is None:
            raise Unsupported("helper without return")
        name = "gen" + node.name if node.name.startswith("_") else "gen_" + node.name
        self.defs.append("Definition %s (v_%s : list ascii) : res %s :=\n%s." % (name, p, {"dec": "dec", "int": "Z", "str": "(list ascii)"}[rty], body))
        self.helpers[node.name] = (name, "str", rty)

    def generate(self):
        lines = {"self._line1": ("l1", "str"), "self._line2": ("l2", "str"), "self._platform": ("plat", "str")}
        # _checksum
        fn = Fn(self, "_checksum", lines)
        body = fn.block(self.method("_checksum").body, lambda: "Ok tt")
        if fn.attrs:
            raise Unsupported("_checksum assigns attributes")
        self.defs.append("Definition gen_checksum (plat l1 l2 : list ascii) : res unit :=\n%s." % body)
        # _read_tle: the branch taken when both lines are given
        m = self.method("_read_tle")
        stmts = [s for s in m.body if not (isinstance(s, ast.Expr) and isinstance(s.value, ast.Constant))]
        want = "BoolOp(op=And(), values=[Compare(left=Attribute(value=Name(id='self'), attr='_line1'), ops=[IsNot()], comparators=[Constant(value=None)]), Compare(left=Attribute(value=Name(id='self'), attr='_line2'), ops=[IsNot()], comparators=[Constant(value=None)])])"
        if not (len(stmts) == 2 and isinstance(stmts[0], ast.If) and dump(stmts[0].test) == want):
            raise Unsupported("_read_tle shape")
        fn = Fn(self, "_read_tle", lines)
        body = fn.block(stmts[0].body + [stmts[1]], lambda: "Ok (%s, %s)" % (fn.env["self._line1"][0], fn.env["self._line2"][0]))
        self.defs.append("Definition gen_read_tle (plat l1 l2 : list ascii) : res (list ascii * list ascii) :=\n%s." % body)
        # _parse_tle
        fn = Fn(self, "_parse_tle", lines)
        body = fn.block(self.method("_parse_tle").body,
                        lambda: "Ok {| %s |}" % "; ".join("%s := %s" % (a, fn.env["self." + a][0]) for a in fn.attrs))
        self.attrs = list(fn.attrs)
        self.defs.append("Definition gen_parse (plat l1 l2 : list ascii) : res elements :=\n%s." % body)
        # __init__: its last three statements are the calls, in the order to compose
        ms = [n for n in self.cls.body if isinstance(n, ast.FunctionDef) and n.name == "__init__"]
        if len(ms) != 1:
            raise Unsupported("__init__")
        calls = []
        seen_call = False
        for s in ms[0].body:
            is_call = (isinstance(s, ast.Expr) and isinstance(s.value, ast.Call) and isinstance(s.value.func, ast.Attribute)
                       and isinstance(s.value.func.value, ast.Name) and s.value.func.value.id == "self" and not s.value.args and not s.value.keywords)
            if is_call:
                seen_call = True
                calls.append(s.value.func.attr)
            elif seen_call:
                raise Unsupported("__init__ has statements after its method calls")
            elif isinstance(s, ast.Assign) and all(isinstance(t, ast.Attribute) for t in s.targets):
                # attribute initialisation; only None / the constructor arguments may be stored before the calls
                if isinstance(s.value, ast.Constant) and s.value.value is None:
                    continue
                tgt = s.targets[0].attr
                if tgt in ("_line1", "_line2") and isinstance(s.value, ast.Name) and s.value.id == tgt[1:]:
                    continue
                if tgt in ("_platform", "_tle_file"):
                    continue
                raise Unsupported("__init__ stores " + dump(s))
            elif isinstance(s, ast.Expr) and isinstance(s.value, ast.Constant):
                continue
            else:
                raise Unsupported("__init__ statement " + dump(s)[:120])
        if sorted(calls) != ["_checksum", "_parse_tle", "_read_tle"]:
            raise Unsupported("__init__ calls %r" % calls)
        self.calls = calls
        term = "Ok (l1, l2, e)"
        for c in reversed(calls):
            if c == "_read_tle":
                term = "bindr (gen_read_tle plat l1 l2) (fun ab => let l1 := fst ab in let l2 := snd ab in\n%s)" % term
            elif c == "_checksum":
                term = "bindr (gen_checksum plat l1 l2) (fun _ =>\n%s)" % term
            else:
                term = "bindr (gen_parse plat l1 l2) (fun e =>\n%s)" % term
        if calls.index("_parse_tle") != 2:
            raise Unsupported("_parse_tle is not the last call of __init__ (its result would be used before it exists)")
        self.defs.append("Definition gen_tle_init (plat l1 l2 : list ascii) : res (list ascii * list ascii * elements) :=\n%s." % term)
        self.defs.append("Definition gen_init_calls : list (list ascii) := [%s]." % "; ".join(coq_str(c) for c in calls))
        return self


HEADER = """(* GENERATED by translator/gen_tle.py from pyorbital/tlefile.py — do not edit.
   Tle._checksum, Tle._read_tle (lines given), Tle._parse_tle and the call order of Tle.__init__. *)
From Coq Require Import List ZArith Ascii Bool.
From PyOrb.spec Require Import Spec_TLE.
From PyOrb.model Require Import M_Checksum M_TleText M_PyStr.
Import ListNotations.
Open Scope Z_scope.

"""


def generate(out, repo):
    """out: path of Gen_tle.v.  Returns (Gen, names of the generated definitions)."""
    g = Gen(repo).generate()
    text = HEADER + "\n\n".join(g.defs) + "\n"
    write_if_changed(out, text)
    return g, [d.split()[1] for d in g.defs]


if __name__ == "__main__":
    g, names = generate(sys.argv[1] if len(sys.argv) > 1 else "/verif/coq/gen/Gen_tle.v", sys.argv[2] if len(sys.argv) > 2 else "/repo")
    print(names, g.attrs, g.calls)
