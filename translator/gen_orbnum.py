"""Regenerate coq/gen/Gen_orbnum.v from /repo/pyorbital/orbital.py: the continuous orbit number that
Orbital.get_orbit_number computes once the ascending-node time and nodal period are cached (C11).
Own generator (not part of gen_orbital) so that a change elsewhere in orbital.py which the tracer cannot
follow does not take C11's tie with it."""
import json
import os
import sys
import types

sys.path.insert(0, os.path.dirname(__file__))
import symtrace as st  # noqa: E402
import emit  # noqa: E402

INPUTS = ["d", "d_an", "period", "rev", "nd", "ndd"]


def trace(repo="/repo"):
    tr = st.Tracer()
    ld = st.Loader(repo)
    orb = st.with_tracer(tr, lambda: ld.load("orbital"))

    def run(fn):
        return st.with_tracer(tr, fn)
    # d = query instant, d_an = cached ascending-node time (days since J2000), period = cached nodal period [days],
    # rev / nd / ndd = the TLE's revolution number and mean-motion-derivative fields
    d, d_an, per, rev, nd, ndd = (st.new_input(tr, n) for n in INPUTS)
    o = orb.Orbital.__new__(orb.Orbital)
    o.tle = types.SimpleNamespace(orbit=rev, mean_motion_derivative=nd, mean_motion_sec_derivative=ndd)
    o.orbit_elements = types.SimpleNamespace(an_time=st.SymTime(d_an), an_period=st.SymDelta(per))
    t = st.SymTime(d)
    defs = [("gen_orbit_float", INPUTS, run(lambda: o.get_orbit_number(t, as_float=True)).n),
            ("gen_orbit_float_tbus", INPUTS, run(lambda: o.get_orbit_number(t, tbus_style=True, as_float=True)).n)]
    return tr, defs


def generate(outpath, repo="/repo"):
    tr, defs = trace(repo)
    text = emit.HEADER + "\n"
    known = {}
    for name, ins, node in defs:
        text += emit.definition(tr.g, name, ins, node, known=known) + "\n"
        known.setdefault(node, "(%s %s)" % (name, " ".join(ins)))
    from harness_compat import write_if_changed
    write_if_changed(outpath, text)
    return tr, defs


if __name__ == "__main__":
    outp = sys.argv[1] if len(sys.argv) > 1 else "/verif/coq/gen/Gen_orbnum.v"
    tr, defs = generate(outp)
    print(json.dumps({"defs": [x[0] for x in defs], "nodes": len(tr.g.nodes)}))
