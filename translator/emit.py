"""Print traced DAGs as Coq text (shallow real-number definitions)."""
from fractions import Fraction


def _z(n):
    return str(n) if n >= 0 else "(%d)" % n


def _const(n, d):
    if d == 1:
        return _z(n)
    return "(%s / %d)" % (_z(n), d)


_UN = {"neg": "- ", "abs": "Rabs ", "sqrt": "sqrt ", "sin": "sin ", "cos": "cos ", "tan": "tan ",
       "atan": "atan ", "asin": "asin ", "acos": "acos ", "deg2rad": "deg2rad ", "rad2deg": "rad2deg ",
       "sign": "Rsign "}
_BIN_INFIX = {"add": "+", "sub": "-", "mul": "*", "div": "/"}
_BIN_PREFIX = {"atan2": "atan2", "pymod": "pymod", "fmod": "fmodR"}


def cone(g, roots, conds=(), stop=()):
    """nodes reachable from roots (and from condition trees), with use counts"""
    uses = {}
    order = []
    seen = set()

    def cond_nodes(c):
        if c[0] in ("not",):
            return cond_nodes(c[1])
        if c[0] in ("and", "or"):
            return cond_nodes(c[1]) + cond_nodes(c[2])
        return [c[1], c[2]]

    def visit(i):
        uses[i] = uses.get(i, 0) + 1
        if i in seen:
            return
        seen.add(i)
        if i in stop and i not in roots:
            return
        node = g.nodes[i]
        op = node[0]
        if op in ("const", "in", "pi"):
            pass
        elif op == "ite":
            for j in cond_nodes(node[1]):
                visit(j)
            visit(node[2])
            visit(node[3])
        elif op == "powi":
            visit(node[1])
        elif op == "powq":
            visit(node[1])
        else:
            for j in node[1:]:
                visit(j)
        order.append(i)
    for c in conds:
        for j in cond_nodes(c):
            visit(j)
    for r in roots:
        visit(r)
    return sorted(seen), uses


class Printer:
    def __init__(self, g, bound):
        self.g = g
        self.bound = bound  # node id -> name for let-bound / input nodes

    def cond_prop(self, c):
        if c[0] == "not":
            return "(~ %s)" % self.cond_prop(c[1])
        if c[0] == "and":
            return "(%s /\\ %s)" % (self.cond_prop(c[1]), self.cond_prop(c[2]))
        if c[0] == "or":
            return "(%s \\/ %s)" % (self.cond_prop(c[1]), self.cond_prop(c[2]))
        sym = {"lt": "<", "le": "<=", "eq": "="}[c[0]]
        return "(%s %s %s)" % (self.ref(c[1]), sym, self.ref(c[2]))

    def ite(self, c, x, y):
        if c[0] == "not":
            return self.ite(c[1], y, x)
        if c[0] == "and":
            return self.ite(c[1], self.ite(c[2], x, y), y)
        if c[0] == "or":
            return self.ite(c[1], x, self.ite(c[2], x, y))
        if c[0] == "lt":
            return "(ite_lt %s %s %s %s)" % (self.ref(c[1]), self.ref(c[2]), x, y)
        if c[0] == "le":
            return "(ite_le %s %s %s %s)" % (self.ref(c[1]), self.ref(c[2]), x, y)
        if c[0] == "eq":
            return "(ite_le %s %s (ite_le %s %s %s %s) %s)" % (
                self.ref(c[1]), self.ref(c[2]), self.ref(c[2]), self.ref(c[1]), x, y, y)
        raise ValueError(c)

    def ref(self, i):
        if i in self.bound:
            return self.bound[i]
        return self.expr(i)

    def expr(self, i):
        node = self.g.nodes[i]
        op = node[0]
        if op == "const":
            return _const(node[1], node[2])
        if op == "in":
            return node[1]
        if op == "pi":
            return "PI"
        if op == "floor":
            return "(IZR (Zfloor %s))" % self.ref(node[1])
        if op in _UN:
            return "(%s%s)" % (_UN[op], self.ref(node[1]))
        if op in _BIN_INFIX:
            return "(%s %s %s)" % (self.ref(node[1]), _BIN_INFIX[op], self.ref(node[2]))
        if op in _BIN_PREFIX:
            return "(%s %s %s)" % (_BIN_PREFIX[op], self.ref(node[1]), self.ref(node[2]))
        if op == "powi":
            return "(%s ^ %d)" % (self.ref(node[1]), node[2])
        if op == "powq":
            return "(Rpowq %s %s)" % (self.ref(node[1]), _const(node[2], node[3]))
        if op == "ite":
            return self.ite(node[1], self.ref(node[2]), self.ref(node[3]))
        raise ValueError(op)


def definition(g, name, inputs, root, share=True, known=None):
    """Definition name (inputs : R) : R := let .. in expr
    known: node id -> text of a call to an earlier generated definition"""
    args0 = (" (%s : R)" % " ".join(inputs)) if inputs else ""
    if known and root in known:
        return "Definition %s%s : R :=\n  %s.\n" % (name, args0, known[root])
    known = {k: v for k, v in (known or {}).items() if k != root}
    nodes, uses = cone(g, [root], stop=set(known))
    bound = dict(known)
    for i in nodes:
        if g.nodes[i][0] == "in":
            bound[i] = g.nodes[i][1]
    pr = Printer(g, bound)
    lets = []
    if share:
        for i in nodes:
            op = g.nodes[i][0]
            if op in ("const", "in", "pi"):
                continue
            if uses[i] > 1 and i != root and i not in known:
                nm = "v%d" % i
                lets.append("  let %s := %s in" % (nm, pr.expr(i)))
                bound[i] = nm
    body = pr.expr(root)
    args = (" (%s : R)" % " ".join(inputs)) if inputs else ""
    return "Definition %s%s : R :=\n%s\n  %s.\n" % (name, args, "\n".join(lets), body) if lets else \
        "Definition %s%s : R :=\n  %s.\n" % (name, args, body)


def prop_definition(g, name, inputs, conds, known=None):
    """Definition name (inputs : R) : Prop := c1 /\\ c2 ...  (conds = [(cond, taken)])"""
    known = dict(known or {})
    nodes, uses = cone(g, [], [c for c, _ in conds], stop=set(known))
    bound = dict(known)
    for i in nodes:
        if g.nodes[i][0] == "in":
            bound[i] = g.nodes[i][1]
    pr = Printer(g, bound)
    lets = []
    for i in nodes:
        op = g.nodes[i][0]
        if op in ("const", "in", "pi"):
            continue
        if uses[i] > 1 and i not in known:
            nm = "v%d" % i
            lets.append("  let %s := %s in" % (nm, pr.expr(i)))
            bound[i] = nm
    parts = []
    for c, taken in conds:
        p = pr.cond_prop(c)
        parts.append(p if taken else "(~ %s)" % p)
    body = " /\\\n  ".join(parts) if parts else "True"
    args = (" (%s : R)" % " ".join(inputs)) if inputs else ""
    return "Definition %s%s : Prop :=\n%s\n  %s.\n" % (name, args, "\n".join(lets), body) if lets else \
        "Definition %s%s : Prop :=\n  %s.\n" % (name, args, body)


HEADER = """(* GENERATED by /verif/translator from /repo — do not edit.  Regenerated on every check. *)
From Coq Require Import Reals.
From Flocq Require Import Core.
From PyOrb.lib Require Import PyReal.
Open Scope R_scope.
"""
