"""gen_db — fail-closed extraction of the SQL texts and of the row written by pyorbital/tlefile.py SQLiteTLE into
Gallina: coq/gen/Gen_db.v.  The hand model M_Db treats sqlite as an oracle (a table is a finite map keyed by its
primary key, INSERT on an existing key raises IntegrityError, text keys compare bytewise, the export takes the
greatest key); those assumptions are about SPECIFIC statements.  This translator reads the statements the code
issues NOW, so that the theorem "they are the statements the model was written for" is re-checked on every run:
    gen_sql_platform_table, gen_sql_satid_table, gen_sql_satid_insert, gen_sql_platform_insert  (module constants)
    gen_sql_table_exists  (table_exists)      gen_sql_export  (the f-string of write_tle_txt, `{satid:d}` kept)
    gen_insert_row        the parameter tuple of the INSERT in update_db, by name
    gen_epoch_key         the expression bound to `epoch` in update_db."""
import ast
import os
import sys

sys.path.insert(0, os.path.dirname(os.path.abspath(__file__)))
from gen_tle import Unsupported, dump  # noqa: E402
from harness_compat import write_if_changed  # noqa: E402


def coq_string(s):
    for ch in s:
        if not (32 <= ord(ch) < 127):
            raise Unsupported("non-printable character in an SQL text")
    return '"%s"%%string' % s.replace('"', '""')


def const_str(node):
    """a string constant, possibly written as adjacent literals in parentheses"""
    if isinstance(node, ast.Constant) and isinstance(node.value, str):
        return node.value
    raise Unsupported("not a string constant: " + dump(node)[:100])


def fstring(node):
    if isinstance(node, ast.Constant) and isinstance(node.value, str):
        return node.value
    if not isinstance(node, ast.JoinedStr):
        raise Unsupported("query is not a string / f-string")
    out = ""
    for v in node.values:
        if isinstance(v, ast.Constant):
            out += v.value
        elif isinstance(v, ast.FormattedValue) and isinstance(v.value, ast.Name) and v.conversion == -1:
            spec = ""
            if v.format_spec is not None:
                spec = ":" + "".join(const_str(x) for x in v.format_spec.values)
            out += "{" + v.value.id + spec + "}"
        else:
            raise Unsupported("f-string part " + dump(v)[:100])
    return out


def generate(out, repo):
    tree = ast.parse(open(os.path.join(repo, "pyorbital", "tlefile.py")).read())
    consts = {}
    for n in tree.body:
        if isinstance(n, ast.Assign) and len(n.targets) == 1 and isinstance(n.targets[0], ast.Name) and n.targets[0].id in (
                "PLATFORM_NAMES_TABLE", "SATID_TABLE", "SATID_VALUES", "PLATFORM_VALUES"):
            consts[n.targets[0].id] = const_str(n.value)
    if len(consts) != 4:
        raise Unsupported("SQL module constants: found %r" % sorted(consts))
    te = [n for n in tree.body if isinstance(n, ast.FunctionDef) and n.name == "table_exists"]
    if len(te) != 1:
        raise Unsupported("table_exists")
    q = [s for s in te[0].body if isinstance(s, ast.Assign) and dump(s.targets[0]) == "Name(id='query')"]
    if len(q) != 1:
        raise Unsupported("table_exists query")
    sql_exists = const_str(q[0].value)
    cls = [n for n in tree.body if isinstance(n, ast.ClassDef) and n.name == "SQLiteTLE"]
    if len(cls) != 1:
        raise Unsupported("class SQLiteTLE")
    meth = {n.name: n for n in cls[0].body if isinstance(n, ast.FunctionDef)}
    # write_tle_txt: exactly one assignment to `query`, inside the loop over self.platforms.items()
    qs = [s for s in ast.walk(meth["write_tle_txt"]) if isinstance(s, ast.Assign) and dump(s.targets[0]) == "Name(id='query')"]
    if len(qs) != 1:
        raise Unsupported("write_tle_txt query")
    sql_export = fstring(qs[0].value)
    # update_db: `epoch = <expr>` and `self.db.execute(cmd, (<names>))` with cmd = SATID_VALUES.format(num)
    ud = meth["update_db"]
    ep = [s for s in ast.walk(ud) if isinstance(s, ast.Assign) and dump(s.targets[0]) == "Name(id='epoch')"]
    if len(ep) != 1:
        raise Unsupported("update_db epoch key")
    epoch_key = ast.unparse(ep[0].value)
    cmds = [s for s in ast.walk(ud) if isinstance(s, ast.Assign) and dump(s.targets[0]) == "Name(id='cmd')"
            and dump(s.value) == "Call(func=Attribute(value=Name(id='SATID_VALUES'), attr='format'), args=[Name(id='num')], keywords=[])"]
    if len(cmds) != 1:
        raise Unsupported("update_db: cmd = SATID_VALUES.format(num)")
    ex = [c for c in ast.walk(ud) if isinstance(c, ast.Call) and dump(c.func) == "Attribute(value=Attribute(value=Name(id='self'), attr='db'), attr='execute')"
          and c.args and dump(c.args[0]) == "Name(id='cmd')" and len(c.args) == 2]
    if len(ex) != 1 or not isinstance(ex[0].args[1], ast.Tuple) or not all(isinstance(e, ast.Name) for e in ex[0].args[1].elts):
        raise Unsupported("update_db: self.db.execute(cmd, (<names>))")
    row = [e.id for e in ex[0].args[1].elts]
    text = ("(* GENERATED by translator/gen_db.py from pyorbital/tlefile.py — do not edit.\n"
            "   The SQL statements class SQLiteTLE issues and the row update_db writes. *)\n"
            "From Coq Require Import String List.\nImport ListNotations.\n\n")
    for name, val in (("gen_sql_platform_table", consts["PLATFORM_NAMES_TABLE"]), ("gen_sql_satid_table", consts["SATID_TABLE"]),
                      ("gen_sql_satid_insert", consts["SATID_VALUES"]), ("gen_sql_platform_insert", consts["PLATFORM_VALUES"]),
                      ("gen_sql_table_exists", sql_exists), ("gen_sql_export", sql_export), ("gen_epoch_key", epoch_key)):
        text += "Definition %s : string := %s.\n" % (name, coq_string(val))
    text += "Definition gen_insert_row : list string := [%s].\n" % "; ".join(coq_string(r) for r in row)
    write_if_changed(out, text)
    return {"export": sql_export, "row": row, "epoch": epoch_key}, ["gen_sql_export", "gen_insert_row"]


if __name__ == "__main__":
    info, names = generate(sys.argv[1] if len(sys.argv) > 1 else "/verif/coq/gen/Gen_db.v", sys.argv[2] if len(sys.argv) > 2 else "/repo")
    print(names, info)
